#!/bin/sh
# Build the Coq development (full .vo), the OCaml extraction and its driver. Offline.
set -e
cd "$(dirname "$0")"
exec /venv/bin/python - <<'PY'
import sys, os
sys.path.insert(0, os.path.join(os.getcwd(), 'py'))
from vlib import common
try:
    common.ensure_built()
    common.audit_sources()
    print('setup ok')
except common.MachineryFault as e:
    print('setup failed:', e); sys.exit(2)
PY
