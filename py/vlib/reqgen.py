"""Stub backend, virtual clock, script generators and runners for the request layer
(C04 C05 C06 C10 C12, and the logging differential of C19)."""
import signal

from . import common as C
from . import fieldsgen as F
from . import reflect as R
from . import ubxgen as G


class VClock:
    """Replaces the `time` module inside ubxlib.server_base: integer virtual milliseconds."""
    def __init__(self):
        self.ms = 0

    def time(self):
        return self.ms / 1000.0

    def sleep(self, s):
        self.ms += int(round(s * 1000))

    # the other clocks of the time module read the same virtual time
    def monotonic(self):
        return self.ms / 1000.0

    perf_counter = monotonic

    def time_ns(self):
        return self.ms * 1_000_000

    monotonic_ns = perf_counter_ns = time_ns

    def __getattr__(self, name):
        import time as real_time
        return getattr(real_time, name)          # strftime, gmtime, struct_time ...: the real ones


Hang = C.Hang


def _alarm(signum, frame):
    raise Hang()


def make_server(script, retries, delay, clock, trace):
    """A UbxServerBase_ whose backend follows `script` (same semantics as model/ScriptBackend.v)."""
    import ubxlib.server_base as SB
    from ubxlib.frame_factory import FrameFactory
    FrameFactory.destroy()
    SB.time = clock

    class Stub(SB.UbxServerBase_):
        def __init__(self):
            super().__init__()
            self.pending = list(script['pending'])
            self.future = [(ok, list(evs)) for ok, evs in script['attempts']]
            self.idle = script['idle']

        def _receive(self):
            if self.pending:
                d, dt = self.pending.pop(0)
            else:
                d, dt = None, self.idle
            clock.ms += dt
            trace.append(('R', d, dt))
            if len(trace) > C.TRACE_LIMIT:
                raise Hang()
            return d

        def _transmit(self, data):
            if self.future:
                ok, evs = self.future.pop(0)
                self.pending += evs
            else:
                ok = True
            clock.ms += script.get('tx_dt', 0)      # a transport whose write takes time (not part of any waiting period)
            trace.append(('T', bytes(data), ok))
            if script.get('drain') and isinstance(data, bytearray):
                data.clear()          # a transport that consumes the buffer it is given
            return ok

        def _flush_input(self):
            self.pending = []
            trace.append(('F',))

        def _recover(self):
            trace.append(('V',))

    s = Stub()
    s.setup()
    s.set_retries(retries)
    s.set_retry_delay(delay)
    # refused (out-of-range) configuration calls must leave the configuration as it was
    for what, val in script.get('bad_cfg', ()):
        try:
            (s.set_retries if what == 'retries' else s.set_retry_delay)(val)
        except AssertionError:
            pass
    return s


def make_server_tty(script, retries, delay, clock, trace, bauds=(115200, None)):
    """The real serial backend (ubxlib.server_tty.GnssUBlox) over a scripted serial line (backends.LineSerial) that follows
    the same script. bauds = (constructor bit rate, bit rate set later through set_baudrate() or None)."""
    from . import backends as BK
    import ubxlib.server_base as SB
    SB.time = clock
    srv, T, ok = BK.tty_server(bauds[0], BK.LineSerial)
    T.time = clock
    port = srv.serial_port
    if not ok or not port.is_open:
        raise RuntimeError('tty backend: setup() failed on the stub port')
    if bauds[1] is not None:
        srv.set_baudrate(bauds[1])
    port.receiver_baud = port.baudrate
    port.clock = clock
    port.trace = trace
    port.pending = list(script['pending'])
    port.future = [(ok_, list(evs)) for ok_, evs in script['attempts']]
    port.idle = script['idle']
    port.tx_dt = script.get('tx_dt', 0)
    port.babble = script.get('babble')
    srv.set_retries(retries)
    srv.set_retry_delay(delay)
    for what, val in script.get('bad_cfg', ()):
        try:
            (srv.set_retries if what == 'retries' else srv.set_retry_delay)(val)
        except AssertionError:
            pass
    return srv


def make_server_gpsd(script, retries, delay, clock, trace, devices=('/dev/ttyS3', None)):
    """The real gpsd backend (ubxlib.server.GnssUBlox) over scripted sockets. devices = (device gpsd lists first, requested or None)."""
    import json
    from . import backends as BK
    import ubxlib.server_base as SB
    SB.time = clock
    listed = [devices[0], '/dev/other0']
    if devices[1] is not None and devices[1] not in listed:
        listed.append(devices[1])
    hs = [b'{"class":"VERSION","release":"3.25","rev":"3.25","proto_major":3,"proto_minor":15}\r\n',
          json.dumps({'class': 'DEVICES', 'devices': [{'class': 'DEVICE', 'path': p_, 'driver': 'u-blox'} for p_ in listed]}).encode() + b'\r\n']
    BK.ScriptSocket.st = {'clock': clock, 'trace': trace, 'pending': [], 'future': [], 'idle': script['idle'], 'handshake': hs, 'tx_dt': script.get('tx_dt', 0)}
    srv, SV = BK.gpsd_server(devices[1], BK.ScriptSocket)
    srv.setup()
    st = BK.ScriptSocket.st
    st['handshake'] = []
    st['pending'] = list(script['pending'])
    st['future'] = [(ok_, list(evs)) for ok_, evs in script['attempts']]
    srv.set_retries(retries)
    srv.set_retry_delay(delay)
    for what, val in script.get('bad_cfg', ()):
        try:
            (srv.set_retries if what == 'retries' else srv.set_retry_delay)(val)
        except AssertionError:
            pass
    return srv


def chunk128(script):
    """The same receiver behaviour as recv(128) delivers it: longer events come in pieces of 128 bytes; empty reads are timeouts."""
    def split(evs):
        out = []
        for d, dt in evs:
            if not d:
                out.append((None, dt))
            else:
                out += [(d[k:k + 128], dt if k == 0 else 0) for k in range(0, len(d), 128)]
        return out
    return dict(script, pending=split(script['pending']), attempts=[(ok, split(evs)) for ok, evs in script['attempts']], drain=False)


def bytewise(script):
    """The same receiver behaviour delivered one byte per read (what a serial line gives); empty reads are timeouts."""
    def split(evs):
        out = []
        for d, dt in evs:
            if not d:
                out.append((None, dt))
            else:
                out += [(d[k:k + 1], dt if k == 0 else 0) for k in range(len(d))]
        return out
    return dict(script, pending=split(script['pending']), attempts=[(ok, split(evs)) for ok, evs in script['attempts']], drain=False)


def script_bytes(script):
    return sum(len(d or b'') for d, _ in script['pending']) + sum(len(d or b'') for _, evs in script['attempts'] for d, _ in evs)


def trace_tokens(trace):
    out = []
    k = 0
    while k < len(trace):
        ev = trace[k]
        k += 1
        if ev[0] == 'B':
            # the serial backend's link recovery: bit rate to 9600 and back to what it was
            nxt = trace[k] if k < len(trace) else None
            if ev[2] == 9600 and nxt is not None and nxt[0] == 'B':
                k += 1
                out.append('V' if nxt[2] == ev[1] else f'V!{nxt[2]}')
            else:
                out.append(f'B{ev[2]}')
            continue
        if ev[0] == 'T':
            out.append('T' + C.hexs(ev[1]) + ('+' if ev[2] else '!'))
        elif ev[0] == 'R':
            out.append(('RN' if ev[1] is None else 'R' + C.hexs(ev[1])) + f'@{ev[2]}')
        else:
            out.append(ev[0])
    return ','.join(out)


def frame_token(fr):
    from ubxlib.cfgkeys import CfgKeyData
    from . import cfggen as K
    items = sorted(fr.f._fields.values(), key=lambda it: it.order)
    cfg = [it for it in items if isinstance(it, CfgKeyData)]
    if cfg or type(fr).__name__ == 'UbxCfgValGet':
        hdr = [it for it in items if not isinstance(it, CfgKeyData)]
        h = ','.join(f'{it.name}:{R.item_token(it)}:{F.value_token(it.value)}' for it in hdr) or '-'
        dec = '+'.join([h] + [K.impl_item_token(it) for it in cfg]) if cfg else h + '+'
    else:
        dec = F.render_fields(fr)
    return f'{type(fr).__name__}:{C.hexs(fr.data)}:{dec}'


def run_impl(script, retries, delay, reqs, loglevel=None, backend='stub', bauds=(115200, None), alarm_s=30, idle_before=()):
    """Runs a sequence of requests on ONE server object (a scripted subclass of the base class, or the real serial
    backend over a scripted line). reqs: list of (op, frame-builder).
    Returns the canonical string (same format as the driver's `reqs` command)."""
    import logging
    clock = VClock()
    trace = []
    if backend == 'tty':
        srv = make_server_tty(script, retries, delay, clock, trace, bauds)
    elif backend == 'gpsd':
        srv = make_server_gpsd(script, retries, delay, clock, trace, bauds)
    else:
        srv = make_server(script, retries, delay, clock, trace)
    out = []
    old = signal.signal(signal.SIGALRM, _alarm)
    lg = logging.getLogger('ubxlib')
    try:
        if loglevel is not None:
            logging.disable(logging.NOTSET)
            lg.setLevel(loglevel)
            if not lg.handlers:
                lg.addHandler(logging.NullHandler())
                nh = logging.StreamHandler(open('/dev/null', 'w'))
                nh.setLevel(logging.DEBUG)
                lg.addHandler(nh)
        for k_req, (op, build) in enumerate(reqs):
            del trace[:]
            if k_req < len(idle_before):
                clock.ms += idle_before[k_req]          # time that passes before the request is issued (nothing is read meanwhile)
            t0 = clock.ms
            sent0 = srv.serial_port.n_sent if backend == 'tty' else 0
            signal.alarm(alarm_s)
            try:
                fr = build()
                fn = {'poll': srv.poll, 'set': srv.set, 'mga': srv.set_mga, 'fire': srv.fire_and_forget}[op]
                r = fn(fr)
                res = 'ret=None' if r is None else 'ret=' + frame_token(r)
            except Hang:
                res = 'hang'
                del trace[:-40]           # an endless run: keep the tail only
            except Exception as e:  # noqa
                res = 'exn=' + C.exn_token(e)[1:]
            finally:
                signal.alarm(0)
            port = f' port={srv.serial_port.baudrate}/{srv.serial_port.n_sent - sent0}' if backend == 'tty' else ''
            if backend == 'gpsd':
                from . import backends as BK_
                want = b'&' + (bauds[1] or bauds[0]).encode()
                if any(h != want for h in BK_.ScriptSocket.st.get('heads', [])):
                    res += '+WRONG-DEVICE'
                BK_.ScriptSocket.st['heads'] = []
            out.append(f'{res} dt={clock.ms - t0}{port} trace={trace_tokens(trace)}')
    finally:
        signal.signal(signal.SIGALRM, old)
        if loglevel is not None:
            lg.setLevel(logging.CRITICAL + 1)
            logging.disable(logging.CRITICAL)
        try:
            srv.cleanup()
        except Exception:
            pass
    return ' ;; '.join(out)


# ------------------------------------------------------------------- request catalogue
def catalogue(mt):
    """All request kinds the library defines: (label, op, builder, cid, model body token, resp name, resp kindspec)"""
    from ubxlib.cfgkeys import CfgKeyData, UbxKeyId
    cat = []
    for name, e in sorted(mt.items()):
        cls = e['cls']
        if hasattr(cls, '_cls_response') and e['kind'] != 'ctor-args':
            try:
                resp = cls()._cls_response()
            except Exception:
                continue
            re_ = mt[resp.__name__]
            cat.append({'label': name, 'op': 'poll', 'cls': cls, 'build': cls, 'cid': e['cid'],
                        'resp': resp.__name__, 'respkind': re_.get('kindspec', '-'), 'resp_entry': re_})
    return cat


def body_token(fr):
    """Model body token of a request frame at call time."""
    from ubxlib.cfgkeys import CfgKeyData
    from . import cfggen as K
    items = sorted(fr.f._fields.values(), key=lambda it: it.order)
    cfg = [it for it in items if isinstance(it, CfgKeyData)]
    if cfg:
        return 'S=' + ';'.join(K.impl_item_token(it) for it in cfg)
    if type(fr).__name__ == 'UbxCfgValGetPoll':
        return 'G=' + ','.join(str(it.value) for it in items if it.name.startswith('key'))
    return 'F=' + F.render_fields(fr)


def req_token(op, fr, resp=None, respkind='-'):
    return f'{op}|{fr.CID.cls}.{fr.CID.id}|{body_token(fr)}|{resp or "-"}|{respkind}'


def script_token(script):
    def evs(l):
        return ','.join(('N' if d is None else ('E' if len(d) == 0 else C.hexs(d))) + f'@{dt}' for d, dt in l) or '-'
    return '/'.join([evs(script['pending'])] + [f'{1 if ok else 0}:{evs(l)}' for ok, l in script['attempts']])


# ------------------------------------------------------------------- answer streams
def chunk(rng, data, mode, dts):
    """Split bytes into receive events."""
    if mode == 'bytes':
        parts = [data[k:k + 1] for k in range(len(data))]
    elif mode == '128':
        parts = [data[k:k + 128] for k in range(0, len(data), 128)]
    elif mode == 'whole':
        parts = [data] if data else []
    else:
        cuts = sorted(rng.randrange(len(data) + 1) for _ in range(rng.randrange(0, 5)))
        parts, prev = [], 0
        for c in cuts:
            parts.append(data[prev:c])
            prev = c
        parts.append(data[prev:])
    return [(p if (p or rng.random() < 0.5) else None, rng.choice(dts)) for p in parts]


def inert_traffic(rng, filt, extra_cids=()):
    """Traffic that is not an answer-class frame: NMEA, other UBX messages, noise without sync pair."""
    k = rng.choice(['nmea', 'ubx', 'noise', 'none', 'none', 'json'])
    if k == 'json':       # gpsd's own reports travel on the same socket as the raw receiver data
        return rng.choice([b'{"class":"TPV","device":"/dev/ttyS3","mode":3}\r\n', b'{"class":"SKY","satellites":[]}\r\n{"class":"TPV"}\r\n', b'{"class":"DEVICE","path":"/dev/pps0"}\r\n'])
    if k == 'nmea':
        return G.nmea(b'GPRMC,12,A')
    if k == 'ubx':
        while True:
            c, i = rng.choice([(1, 7), (1, 3), (10, 9), (2, 0x15), (6, 0x99), (0x13, 0x60)] + list(extra_cids) * 2)
            if (c, i) not in filt:
                return G.frame(c, i, bytes(rng.getrandbits(8) for _ in range(rng.choice([0, 4, 28]))))
    if k == 'noise':
        g, _ = G.rand_junk(rng)
        return g
    return b''
