"""Common driver for the request-layer checks: generate scenarios, run implementation and model,
project both to the property's observable, apply the property's own oracle to the implementation."""
from . import common as C
from . import reflect as R
from . import reqsuite as S
from .common import Case


def proj_for(prop):
    def per_request(fn):
        def one(x):
            d = S.parse_result(x)
            return fn(d) + (f" port={d['port']}" if d.get('port') is not None else '')

        def proj(out):
            return ' ;; '.join(one(x) for x in out.split(' ;; '))
        return proj
    if prop == 'C04':
        return per_request(lambda d: d['ret'])
    if prop == 'C05':
        return per_request(lambda d: f"{'exn' if d['ret'].startswith('exn') else 'hang' if d['ret'] == 'hang' else 'fuel' if d['ret'] == 'fuel' else 'returns'} ntx={len(d['tx'])} dt={d['dt']}")
    if prop == 'C06':
        return per_request(lambda d: f"{d['ret']} ntx={len(d['tx'])}")
    if prop == 'C12':
        return per_request(lambda d: ' '.join(d['tx']))
    return per_request(lambda d: f"{d['ret']} dt={d['dt']} trace={','.join(d['trace'])}")


def late_answer_scenario(rng, reqs, kt):
    """The transmission itself takes time; the (first) answer arrives late in the waiting period that starts AFTER it."""
    rq = rng.choice([r for r in reqs if r.op in ('poll', 'set', 'mga')])
    if rng.random() < 0.5:
        rq = rng.choice([r for r in reqs if r.op == 'poll' and r.cid[0] == 6])       # configuration poll: response period, then ACK period
    delay = rng.choice([250, 1800])
    tx_dt = rng.choice([100, 200]) if delay == 250 else rng.choice([500, 900])
    frames, _ = S.good_answer(rng, rq, kt, 'ack')
    t_answer = delay - rng.choice([5, 20, tx_dt // 2])          # after the end of the transmission, still inside the period
    evs = [(None, t_answer - 2), (frames[0], 1)]
    if len(frames) == 2:
        if rng.random() < 0.7:
            # the ACK arrives late in ITS OWN waiting period (which starts when the response has been accepted)
            evs.append((None, delay - rng.choice([5, 20, delay // 3])))
        evs.append((frames[1], 1))
    script = {'pending': [], 'attempts': [(True, evs)], 'idle': 13, 'drain': False, 'tx_dt': tx_dt, 'bad_cfg': ()}
    return {'retries': rng.choice([0, 1]), 'delay': delay, 'script': script, 'reqs': [rq], 'plan': [('good', 1, False)]}


def run_suite(res, prop, tier, seed, n_quick, n_thorough, n_req=1, force=None, oracle=None, comp='request', pair_every=0, late_every=0, tty_every=4, history_every=0):
    mt = R.message_table()
    kt = R.key_tables()
    sk = ','.join(str(k) for k in kt['signed']) or '-'
    rng = C.rng_for(seed, prop)
    reqs = S.all_requests(rng, mt, kt)
    proj = proj_for(prop)
    cases = []
    ties = 0
    n = n_quick if tier == 'quick' else n_thorough
    for k in range(n):
        if k % 50 == 0:
            reqs = S.all_requests(rng, mt, kt)
        if pair_every and k % pair_every == 0:
            pair = [r for r in reqs if r.label in ('UbxCfgPrtPoll', 'AppCfgPrtUsbPoll')]
            sc = S.scenario(rng, pair, kt, n_req=rng.choice([2, 3]), force='good')
        elif history_every and k % history_every == 2:
            # a configuration poll first, then a set / poll / mga on the same object (late answers to the first may pass by)
            cfgpolls = [r for r in reqs if r.op == 'poll' and r.cid[0] == 6]
            later = [r for r in reqs if r.op in ('set', 'set', 'poll', 'mga')]
            sc = S.scenario(rng, reqs, kt, force='good', rqs=[rng.choice(cfgpolls), rng.choice(later)] + ([rng.choice(later)] if rng.random() < 0.3 else []))
        elif late_every and k % late_every == 0:
            sc = late_answer_scenario(rng, reqs, kt)
        else:
            sc = S.scenario(rng, reqs, kt, n_req=n_req if isinstance(n_req, int) else rng.choice(n_req), force=force)
        if tty_every and k % tty_every == 1:
            sc = S.on_tty(rng, sc)
            res.notes['on_serial_backend'] = res.notes.get('on_serial_backend', 0) + (sc.get('backend') == 'tty')
        elif tty_every and k % tty_every == 3:
            sc = S.on_gpsd(rng, sc)
            res.notes['on_gpsd_backend'] = res.notes.get('on_gpsd_backend', 0) + 1
        out = S.run_scenario(sc)
        desc = S.describe(sc)
        cmd = S.model_cmd(sc, sk)
        parts = out.split(' ;; ')
        results = [S.parse_result(x) for x in parts]
        if any(r['ret'] == 'hang' for r in results):
            res.notes['requests_that_did_not_return'] = res.notes.get('requests_that_did_not_return', 0) + 1
        if oracle is not None:
            for idx_, (rq, r) in enumerate(zip(sc['reqs'], results)):
                sc['_idx'], sc['_results'] = idx_, results
                why = oracle(sc, rq, r)
                sig = None
                if isinstance(why, tuple):
                    why, sig = why
                if why:
                    m_out = C.run_driver([cmd])[0]
                    if (' TIE ' in m_out or m_out.endswith(' TIE')) and sc.get('delay') != 0:
                        # a deadline comparison with now == deadline exactly somewhere in this scenario: the code compares floats
                        # there, the plan's "in time" is not decidable - the scenario is dropped from the correspondence and
                        # from the oracle alike
                        res.notes['oracle_skipped_deadline_ties'] = res.notes.get('oracle_skipped_deadline_ties', 0) + 1
                        why = None
                    elif sig is not None and proj(m_out) != proj(out):
                        # a failure that a listed finding may explain: only if the implementation does exactly what the model
                        # of this backend does (otherwise it is something else and is reported as such)
                        sig = None
                if why:
                    res.violation(f'{prop} oracle: {why}', {'property': prop, 'input': desc, 'request': f'{rq.op}:{rq.label}',
                                                            'implementation_says': out[:3000], 'reason': why, 'model_command': cmd[:6000]},
                                  sig or f'{prop}|{rq.op}|{why[:60]}')
        for pl in sc['plan']:
            res.notes.setdefault('attempt_kinds', {})
            res.notes['attempt_kinds'][str(pl[0])] = res.notes['attempt_kinds'].get(str(pl[0]), 0) + 1
        kinds = 'answered' if any(p[0] == 'good' for p in sc['plan']) else 'faults-only'
        cases.append(Case(comp, cmd, proj(out), desc, domain=False, kind=f'{sc["reqs"][0].op}/{kinds}',
                          nontrivial=any(len(r['tx']) > 0 for r in results), proj=proj))
        if res.notes.get('requests_that_did_not_return', 0) >= 6:
            res.notes['stopped_early'] = 'six requests did not return; remaining scenarios skipped'
            break
    return drop_ties(res, cases)


def drop_ties(res, cases):
    """Model ties (a deadline comparison with now == deadline exactly): the code compares floats there and
    rounding could flip the branch, so such scenarios are regenerated = dropped, and counted. The model
    outputs are cached on the cases so that compare() does not evaluate them again."""
    outs = C.run_driver([c.cmd for c in cases])
    keep = []
    ties = 0
    for c, o in zip(cases, outs):
        # with delay 0 the comparison is `t < t + 0.0`: exactly false in floating point as well, no ambiguity
        if (' TIE ' in o or o.endswith(' TIE')) and not (isinstance(c.desc, dict) and c.desc.get('delay_ms') == 0):
            ties += 1
        else:
            keep.append(c)
    res.notes['deadline_ties_dropped'] = res.notes.get('deadline_ties_dropped', 0) + ties
    return keep


def model_ties(cmds):
    outs = C.run_driver(cmds)
    return [(' TIE ' in o or o.endswith(' TIE')) and not c.split(' ')[5 if c.startswith('reqsline ') else 3] == '0' for c, o in zip(cmds, outs)]
