"""Shared machinery of the ubxlib verification checks.

Build of the Coq development and the extracted driver, static audit of the Coq sources,
per-run compilation of the regenerated (Tie B) files and of props/Cxx.v, batch evaluation
of the extracted model, verdict, evidence, replay and known-findings handling.
"""
import fcntl
import hashlib
import json
import os
import random
import re
import shutil
import subprocess
import sys
import time

VERIF = os.path.dirname(os.path.dirname(os.path.dirname(os.path.abspath(__file__))))
REPO = os.environ.get('UBXLIB_REPO', '/repo')
COQ = os.path.join(VERIF, 'coq')
EXTRACT = os.path.join(COQ, 'extract')
DRIVER = os.path.join(EXTRACT, 'driver')
WORK = os.path.join(VERIF, '.work')
EVID = os.environ.get('VERIF_EVIDENCE_DIR') or os.path.join(VERIF, 'evidence')   # override: self-validation runs only
REPLAYS = os.path.join(VERIF, 'replays')
KNOWN = os.path.join(VERIF, 'known_findings.json')

FORBIDDEN = re.compile(
    r'\b(Admitted|admit|Axiom|Axioms|Parameter|Parameters|Conjecture|Conjectures|'
    r'Admit\s+Obligations|bypass_check|native_compute)\b|Unset\s+Guard|Unset\s+Positivity|'
    r'Unset\s+Universe|type-in-type|impredicative-set')

TRUSTED_BASE = [
    'Coq 8.16.1 kernel (coqc; vm_compute used in finite-table obligations; no native_compute)',
    'axioms: none declared by the development; Print Assumptions output of every theorem in props/ is recorded in this file',
    'extraction: ExtrOcamlBasic only (Extract Inductive bool/option/unit/list/prod/sumbool/sumor; '
    'Extract Inlined Constant fst/snd/andb/orb/negb); N/Z/positive/nat/string stay Coq datatypes',
    'hand-written OCaml driver coq/extract/driver.ml (hex/decimal conversion, printing)',
    'reflective table extractor py/vlib/reflect.py (Tie B) and the correspondence harness py/vlib (Tie A)',
    'CPython 3.12 semantics of struct, bytes.decode, str.rstrip, json, binascii, logging',
]


class MachineryFault(Exception):
    pass


def sh(cmd, cwd=None, timeout=1800, env=None):
    p = subprocess.run(cmd, cwd=cwd, shell=isinstance(cmd, str), stdout=subprocess.PIPE,
                       stderr=subprocess.STDOUT, timeout=timeout, env=env)
    return p.returncode, p.stdout.decode('utf-8', 'replace')


# ------------------------------------------------------------------ build
def coq_sources():
    """The Coq sources of the development: what _CoqProject lists, the extraction file, and the props
    files compiled per run (files somebody is still writing next to them are not part of it)."""
    out = set()
    with open(os.path.join(COQ, '_CoqProject')) as fh:
        for line in fh:
            line = line.strip()
            if line.endswith('.v'):
                out.add(os.path.join(COQ, line))
    out.add(os.path.join(EXTRACT, 'Extract.v'))
    for sub in ('props', 'bridge'):
        for f in os.listdir(os.path.join(COQ, sub)):
            if f.endswith('.v'):
                out.add(os.path.join(COQ, sub, f))
    return sorted(out)


def audit_sources(extra=()):
    """Fail (machinery fault) if a forbidden vernacular occurs in any Coq source."""
    hits = []
    for p in list(coq_sources()) + list(extra):
        with open(p, encoding='utf-8') as fh:
            txt = fh.read()
        # strip comments (non-nested suffices: nested comments are not used in this development)
        code = re.sub(r'\(\*.*?\*\)', ' ', txt, flags=re.S)
        for m in FORBIDDEN.finditer(code):
            hits.append(f'{p}: {m.group(0)}')
    if hits:
        raise MachineryFault('forbidden vernacular: ' + '; '.join(hits[:5]))
    return len(coq_sources())


def ensure_built(jobs=16):
    """Build the static part of the Coq development and the OCaml driver (idempotent)."""
    os.makedirs(WORK, exist_ok=True)
    with open(os.path.join(WORK, 'build.lock'), 'w') as lock:
        fcntl.flock(lock, fcntl.LOCK_EX)
        mk = os.path.join(COQ, 'Makefile')
        cp = os.path.join(COQ, '_CoqProject')
        if not os.path.exists(mk) or os.path.getmtime(mk) < os.path.getmtime(cp):
            rc, out = sh('coq_makefile -f _CoqProject -o Makefile', cwd=COQ)
            if rc:
                raise MachineryFault('coq_makefile failed: ' + out[-2000:])
        rc, out = sh(f'timeout 1500 make -j{jobs}', cwd=COQ, timeout=1600)
        if rc:
            raise MachineryFault('coq build failed:\n' + out[-4000:])
        # extraction + driver
        ml = os.path.join(EXTRACT, 'model.ml')
        src = os.path.join(EXTRACT, 'Extract.v')
        newest_vo = max(os.path.getmtime(p[:-2] + '.vo') for p in coq_sources()
                        if '/model/' in p and os.path.exists(p[:-2] + '.vo'))
        if (not os.path.exists(ml) or os.path.getmtime(ml) < max(newest_vo, os.path.getmtime(src))):
            rc, out = sh('timeout 600 coqc -Q .. Ubx Extract.v', cwd=EXTRACT)
            if rc:
                raise MachineryFault('extraction failed: ' + out[-3000:])
        drv_src = os.path.join(EXTRACT, 'driver.ml')
        if (not os.path.exists(DRIVER)
                or os.path.getmtime(DRIVER) < max(os.path.getmtime(ml), os.path.getmtime(drv_src))):
            rc, out = sh('timeout 600 ocamlfind ocamlopt -w -a model.mli model.ml driver.ml -o driver',
                         cwd=EXTRACT)
            if rc:
                raise MachineryFault('driver build failed: ' + out[-3000:])


class WorkDir:
    def __init__(self, tag):
        self.path = os.path.join(WORK, f'{tag}-{os.getpid()}')

    def __enter__(self):
        shutil.rmtree(self.path, ignore_errors=True)
        os.makedirs(self.path)
        return self.path

    def __exit__(self, *a):
        shutil.rmtree(self.path, ignore_errors=True)


def coqc(file, cwd, extra_q=(), timeout=900):
    """Compile one .v file; returns (rc, output)."""
    # address-space cap (12 GB): a proof script whose evaluation blows up on a rewritten kernel fails instead of exhausting the machine
    args = ['prlimit', '--as=12000000000', 'timeout', str(timeout), 'coqc', '-w', '-notation-overridden', '-Q', COQ, 'Ubx']
    for d, n in extra_q:
        args += ['-Q', d, n]
    args.append(file)
    return sh(args, cwd=cwd, timeout=timeout + 30)


def parse_assumptions(output):
    """Split coqc output of a props file into one entry per Print Assumptions."""
    res = []
    cur = None
    for line in output.splitlines():
        if line.startswith('Closed under the global context'):
            res.append('Closed under the global context')
            cur = None
        elif line.startswith('Axioms:'):
            cur = ['Axioms:']
            res.append(cur)
        elif cur is not None and line.strip():
            cur.append(line.strip())
    return [x if isinstance(x, str) else ' '.join(x) for x in res]


def check_props(prop, workdir, extra_q=()):
    """Compile props/<prop>.v in the work directory; return obligations info.
    A failure here is a broken proof obligation (not a machinery fault) when the file depends
    on regenerated sources; the caller decides."""
    src = os.path.join(COQ, 'props', f'{prop}.v')
    with open(src, encoding='utf-8') as fh:
        txt = fh.read()
    code = re.sub(r'\(\*.*?\*\)', ' ', txt, flags=re.S)
    theorems = re.findall(r'^\s*(?:Theorem|Corollary)\s+(\w+)', code, flags=re.M)
    examples = re.findall(r'^\s*(?:Example)\s+(\w+)', code, flags=re.M)
    dst = os.path.join(workdir, f'{prop}.v')
    shutil.copy(src, dst)
    rc, out = coqc(dst, workdir, extra_q)
    assumptions = parse_assumptions(out)
    return {'rc': rc, 'out': out, 'theorems': theorems, 'examples': examples,
            'assumptions': assumptions}


def props_obligations(res, prop, workdir, extra_q=(), dynamic=False):
    """Compile props/<prop>.v and record one obligation per theorem.
    dynamic=False: the file depends only on hand-written sources, so a failure is a fault of this
    machinery (exit 2). dynamic=True: it depends on files regenerated from /repo, so a failure is a
    broken proof obligation and is reported as a violation (no-failing-input-found unless the
    correspondence finds an input)."""
    if os.environ.get('VERIF_DEV_SKIP_PROPS'):     # development aid only; never set by registered commands
        res.notes['props_skipped'] = True
        print('DEV: props skipped')
        return None
    pr = check_props(prop, workdir, extra_q)
    res.assumption_lines = pr['assumptions']
    ok = pr['rc'] == 0
    if not ok and not dynamic:
        raise MachineryFault(f'props/{prop}.v does not compile:\n' + pr['out'][-3000:])
    for t in pr['theorems']:
        res.oblige('theorem ' + t, ok, pr['out'])
    bad = [a for a in pr['assumptions'] if not a.startswith('Closed under')]
    if bad:
        raise MachineryFault(f'props/{prop}.v: a theorem depends on axioms: {bad[:3]}')
    if ok and len(pr['assumptions']) < len(pr['theorems']):
        raise MachineryFault(f'props/{prop}.v: Print Assumptions missing for some theorem')
    if not ok:
        m = re.search(r'File "[^"]*", line (\d+)[^\n]*\n(.*)', pr['out'], flags=re.S)
        res.violation(f'proof obligations in props/{prop}.v no longer check against the regenerated tables',
                      {'property': prop, 'broken': f'props/{prop}.v', 'coqc_output': pr['out'][-3000:]},
                      'props-compile', False)
    return pr


def tie_b(res, workdir):
    """Regenerate gen/Tables.v from /repo's current source (reflective extractor) and compile it.
    Returns (message_table, key_tables, constants, extra_q) or None when Tie B is unavailable/broken
    (recorded as a violation without failing input; the caller still runs Tie A)."""
    from . import reflect
    gen = os.path.join(workdir, 'gen')
    os.makedirs(gen, exist_ok=True)
    try:
        mt, kt, cs = reflect.emit_tables_v(os.path.join(gen, 'Tables.v'))
    except Exception as e:  # ReflectError or anything the changed source throws at import/probe time
        res.oblige('Tie B: tables regenerated from source', False, repr(e))
        res.notes['tie_B'] = f'unavailable: {e!r}'
        res.violation('Tie B: the reflective extractor rejects the current source: ' + repr(e)[:300],
                      {'property': res.prop, 'broken': 'py/vlib/reflect.py (Tie B regeneration)', 'error': repr(e)},
                      'tieb-reflect', False)
        return None
    rc, out = coqc(os.path.join(gen, 'Tables.v'), gen, extra_q=[(gen, 'UbxGen')])
    if rc:
        res.oblige('Tie B: regenerated Tables.v compiles', False, out)
        res.violation('Tie B: regenerated tables do not compile', {'property': res.prop, 'broken': 'gen/Tables.v', 'coqc_output': out[-2000:]},
                      'tieb-compile', False)
        return None
    res.oblige('Tie B: tables regenerated from source and compiled', True)
    res.notes['tie_B'] = f'regenerated: {len(mt)} message classes, {len(kt["consts"])} key constants'
    return mt, kt, cs, [(gen, 'UbxGen')]


def tie_b_kernels(res, workdir, parts=('ck', 'ubx', 'nmea')):
    """Tie B for code kernels: translate the requested kernels (ck = Checksum, ubx = UbxParser, nmea = NmeaParser,
    frame = UbxFrame.to_bytes/_calc_checksum) of
    /repo's current source to Gallina (py/vlib/translate.py), compile, and compile the bridge lemmas coq/bridge/Bridge*.v
    (generated = model). Translator rejection (source shape outside the accepted subset): recorded as unavailable, NO
    alarm — the verdict rests on Tie A. Bridge failure: broken proof obligation (violation without failing input unless
    Tie A finds one)."""
    from . import translate
    if ('ubx' in parts or 'frame' in parts) and 'ck' not in parts:
        parts = ('ck',) + tuple(parts)
    gen = os.path.join(workdir, 'genk')
    os.makedirs(gen, exist_ok=True)
    try:
        translate.emit_kernels_v(os.path.join(gen, 'Kernels.v'), parts)
    except translate.TranslateError as e:
        res.notes['tie_B_kernels'] = f'unavailable: {e}'
        return False
    except Exception as e:  # source no longer importable the way the translator expects
        res.notes['tie_B_kernels'] = f'unavailable: {e!r}'
        return False
    xq = [(gen, 'UbxGen')]
    rc, out = coqc(os.path.join(gen, 'Kernels.v'), gen, extra_q=xq)
    if rc:
        res.notes['tie_B_kernels'] = 'unavailable: generated Kernels.v does not type-check: ' + out[-400:]
        return False
    allok = True
    for part, fname in (('ck', 'BridgeCk.v'), ('ubx', 'BridgeUbx.v'), ('nmea', 'BridgeNmea.v'), ('frame', 'BridgeFrame.v'),
                        ('cfgkeys', 'BridgeCfgKeys.v')):
        if part not in parts:
            continue
        dst = os.path.join(gen, fname)
        shutil.copy(os.path.join(COQ, 'bridge', fname), dst)
        rc, out = coqc(dst, gen, extra_q=xq)
        ok = rc == 0
        allok = allok and ok
        res.oblige(f'Tie B kernels: bridge lemmas {fname} (source translated to Gallina = model)', ok, out)
        if ok:
            bad = [a for a in parse_assumptions(out) if not a.startswith('Closed under')]
            if bad:
                raise MachineryFault('bridge lemma depends on axioms: ' + str(bad[:2]))
        else:
            res.violation(f'Tie B: the {part} kernel translated from the current source is no longer provably equal to the model',
                          {'property': res.prop, 'broken': 'coq/bridge/' + fname, 'coqc_output': out[-2500:]}, 'bridge-' + part, False)
    res.notes['tie_B_kernels'] = ('regenerated from source and proved equal to the model: ' + ','.join(parts)) if allok else 'bridge lemmas FAILED'
    return allok


def tie_b_request(res, workdir):
    """Tie B for the request loop: translate ubxlib/server_base.py (poll / set / set_mga / fire_and_forget / _wait / _send /
    _check_*) of /repo's current source to Gallina over the Python semantics of coq/bridge/PySem.v
    (py/vlib/translate_req.py), compile, and compile coq/bridge/BridgeReq.v (generated = Request.v model for every backend,
    state and sufficient fuel). Translator rejection: recorded as unavailable, no alarm (Tie A decides). Bridge failure:
    broken proof obligation."""
    from . import translate, translate_req
    gen = os.path.join(workdir, 'genr')
    os.makedirs(gen, exist_ok=True)
    try:
        translate_req.emit_req_v(os.path.join(gen, 'ReqKernels.v'))
    except translate.TranslateError as e:
        res.notes['tie_B_request'] = f'unavailable: {e}'
        return False
    except Exception as e:
        res.notes['tie_B_request'] = f'unavailable: {e!r}'
        return False
    xq = [(gen, 'UbxGen')]
    rc, out = coqc(os.path.join(gen, 'ReqKernels.v'), gen, extra_q=xq)
    if rc:
        res.notes['tie_B_request'] = 'unavailable: generated ReqKernels.v does not type-check: ' + out[-400:]
        return False
    dst = os.path.join(gen, 'BridgeReq.v')
    shutil.copy(os.path.join(COQ, 'bridge', 'BridgeReq.v'), dst)
    rc, out = coqc(dst, gen, extra_q=xq)
    ok = rc == 0
    res.oblige('Tie B request loop: bridge lemmas BridgeReq.v (server_base.py translated to Gallina = Request.v model)', ok, out)
    if ok:
        bad = [a for a in parse_assumptions(out) if not a.startswith('Closed under')]
        if bad:
            raise MachineryFault('bridge lemma depends on axioms: ' + str(bad[:2]))
        res.notes['tie_B_request'] = ('server_base.py regenerated from source and proved equal to the model: _wait, _send, _check_poll, '
                                      '_check_ack_nak, _check_mga, poll, set, set_mga, fire_and_forget')
    else:
        res.notes['tie_B_request'] = 'bridge lemmas FAILED'
        res.violation('Tie B: the request loop translated from the current source is no longer provably equal to the model',
                      {'property': res.prop, 'broken': 'coq/bridge/BridgeReq.v', 'coqc_output': out[-2500:]}, 'bridge-request', False)
    return ok


def tie_b_scan(res, workdir):
    """Tie B for the bit-rate scan: translate GnssUBlox.scan() of ubxlib/server_tty.py to Gallina over PySem.v and compile
    coq/bridge/BridgeScan.v (generated = model/Scan.v for every backend, state and fuel). Same rules as tie_b_request."""
    from . import translate, translate_req
    gen = os.path.join(workdir, 'gens')
    os.makedirs(gen, exist_ok=True)
    try:
        translate_req.emit_scan_v(os.path.join(gen, 'ScanKernels.v'))
    except translate.TranslateError as e:
        res.notes['tie_B_scan'] = f'unavailable: {e}'
        return False
    except Exception as e:
        res.notes['tie_B_scan'] = f'unavailable: {e!r}'
        return False
    xq = [(gen, 'UbxGen')]
    rc, out = coqc(os.path.join(gen, 'ScanKernels.v'), gen, extra_q=xq)
    if rc:
        res.notes['tie_B_scan'] = 'unavailable: generated ScanKernels.v does not type-check: ' + out[-400:]
        return False
    dst = os.path.join(gen, 'BridgeScan.v')
    shutil.copy(os.path.join(COQ, 'bridge', 'BridgeScan.v'), dst)
    rc, out = coqc(dst, gen, extra_q=xq)
    ok = rc == 0
    res.oblige('Tie B scan: bridge lemma BridgeScan.v (server_tty.scan translated to Gallina = Scan.v model)', ok, out)
    if ok:
        bad = [a for a in parse_assumptions(out) if not a.startswith('Closed under')]
        if bad:
            raise MachineryFault('bridge lemma depends on axioms: ' + str(bad[:2]))
        res.notes['tie_B_scan'] = 'scan() regenerated from source and proved equal to the model'
    else:
        res.notes['tie_B_scan'] = 'bridge lemma FAILED'
        res.violation('Tie B: scan() translated from the current source is no longer provably equal to the model',
                      {'property': res.prop, 'broken': 'coq/bridge/BridgeScan.v', 'coqc_output': out[-2500:]}, 'bridge-scan', False)
    return ok


def failing_theorem(vfile, coqc_output):
    """Name of the theorem / lemma whose proof script coqc stopped in (the nearest statement above the reported line)."""
    import re
    m = re.search(r'File "[^"]*", line (\d+)', coqc_output or '')
    if not m:
        return 'unknown (no position reported: time or memory limit)'
    try:
        lines = open(vfile).read().splitlines()[:int(m.group(1))]
    except OSError:
        return 'unknown'
    for ln in reversed(lines):
        mm = re.match(r'\s*(Theorem|Lemma|Example|Corollary)\s+([A-Za-z0-9_\']+)', ln)
        if mm:
            return mm.group(2)
    return 'unknown'


def tie_b_generic(res, workdir, key, emit_name, kern, bridge, what):
    """Shared driver of the PySem-based Tie B obligations: translate (fail-closed: unavailable, no alarm), type-check the generated
    file, compile the bridge file against it (failure: broken proof obligation)."""
    from . import translate, translate_req
    gen = os.path.join(workdir, 'gen_' + key)
    os.makedirs(gen, exist_ok=True)
    note = 'tie_B_' + key
    try:
        getattr(translate_req, emit_name)(os.path.join(gen, kern))
    except translate.TranslateError as e:
        res.notes[note] = f'unavailable: {e}'
        return False
    except Exception as e:
        res.notes[note] = f'unavailable: {e!r}'
        return False
    xq = [(gen, 'UbxGen')]
    rc, out = coqc(os.path.join(gen, kern), gen, extra_q=xq)
    if rc:
        res.notes[note] = f'unavailable: generated {kern} does not type-check: ' + out[-400:]
        return False
    dst = os.path.join(gen, bridge)
    shutil.copy(os.path.join(COQ, 'bridge', bridge), dst)
    rc, out = coqc(dst, gen, extra_q=xq)
    ok = rc == 0
    res.oblige(f'Tie B {key}: bridge lemmas {bridge} ({what} translated to Gallina = model)', ok, out)
    if ok:
        bad = [a for a in parse_assumptions(out) if not a.startswith('Closed under')]
        if bad:
            raise MachineryFault('bridge lemma depends on axioms: ' + str(bad[:2]))
        res.notes[note] = f'{what} regenerated from source and proved equal to the model'
    else:
        res.notes[note] = 'bridge lemmas FAILED'
        res.violation(f'Tie B: {what} translated from the current source is no longer provably equal to the model',
                      {'property': res.prop, 'broken': 'coq/bridge/' + bridge, 'theorem': failing_theorem(dst, out),
                       'generated_kernels': kern + ' (regenerated from the working tree by py/vlib/translate_req.py)', 'coqc_output': out[-2500:]}, 'bridge-' + key, False)
    return ok


def tie_b_items(res, workdir):
    """Tie B for the field codecs: Item / Padding / CH pack and unpack of ubxlib/types.py, and the struct format of every
    integer field class."""
    return tie_b_generic(res, workdir, 'items', 'emit_items_v', 'ItemKernels.v', 'BridgeItems.v', 'Item/Padding/CH pack/unpack')


def tie_b_helpers(res, workdir):
    """Tie B for the straight-line convenience setters (C17) and the enable/disable bit of a CFG-GNSS flags item."""
    return tie_b_generic(res, workdir, 'helpers', 'emit_helpers_v', 'HelperKernels.v', 'BridgeHelpers.v', 'convenience setters')


def tie_b_gnss(res, workdir):
    """Tie B for the CFG-GNSS helpers (C17): _find_entry / enable_gnss / disable_gnss / the two presets, X4_Flags.enable/disable."""
    return tie_b_generic(res, workdir, 'gnss', 'emit_gnss_v', 'GnssKernels.v', 'BridgeGnss.v', 'CFG-GNSS enable/disable helpers')


def tie_b_lever(res, workdir):
    """Tie B for the lever-arm query (C17): UbxCfgEsfla.lever_arm."""
    return tie_b_generic(res, workdir, 'lever', 'emit_lever_v', 'LeverKernels.v', 'BridgeLever.v', 'CFG-ESFLA lever-arm query')


def tie_b_gpsd(res, workdir):
    """Tie B for the gpsd handshake: _parse_gpsd_msg / _parse_version / _parse_devices of ubxlib/server.py."""
    return tie_b_generic(res, workdir, 'gpsd', 'emit_gpsd_v', 'GpsdKernels.v', 'BridgeGpsd.v', 'gpsd handshake parsing')


def tie_b_cfgobj(res, workdir):
    """Tie B for the configuration item codec: CfgKeyData.pack/unpack (+ _pack_keyid, _pack_value, _unpack_value), and - on top of
    it, in the same generated directory - the CFG-VALGET response decoder UbxCfgValGet.unpack (its loop calls the translated
    CfgKeyData.unpack)."""
    ok = tie_b_generic(res, workdir, 'cfgobj', 'emit_cfgobj_v', 'CfgKernels.v', 'BridgeCfgObj.v', 'CfgKeyData.pack/unpack')
    if not ok:
        res.notes['tie_B_valget'] = 'unavailable: rests on the CfgKeyData bridge, which is not available in this run'
        return False
    from . import translate, translate_req
    gen = os.path.join(workdir, 'gen_cfgobj')
    xq = [(gen, 'UbxGen')]
    try:
        # emits ValgetKernels.v (and CfgKernels.v again, identically) into the same directory
        keep = open(os.path.join(gen, 'CfgKernels.v')).read()
        translate_req.emit_valget_v(os.path.join(gen, 'ValgetKernels.v'))
        if open(os.path.join(gen, 'CfgKernels.v')).read() != keep:
            raise MachineryFault('CfgKernels.v changed between two translations of the same source')
    except translate.TranslateError as e:
        res.notes['tie_B_valget'] = f'unavailable: {e}'
        return False
    except MachineryFault:
        raise
    except Exception as e:
        res.notes['tie_B_valget'] = f'unavailable: {e!r}'
        return False
    rc, out = coqc(os.path.join(gen, 'ValgetKernels.v'), gen, extra_q=xq)
    if rc:
        res.notes['tie_B_valget'] = 'unavailable: generated ValgetKernels.v does not type-check: ' + out[-400:]
        return False
    dst = os.path.join(gen, 'BridgeValget.v')
    shutil.copy(os.path.join(COQ, 'bridge', 'BridgeValget.v'), dst)
    rc, out = coqc(dst, gen, extra_q=xq)
    ok2 = rc == 0
    res.oblige('Tie B valget: bridge lemma BridgeValget.v (UbxCfgValGet.unpack translated to Gallina = valget_decode)', ok2, out)
    if ok2:
        bad = [a for a in parse_assumptions(out) if not a.startswith('Closed under')]
        if bad:
            raise MachineryFault('bridge lemma depends on axioms: ' + str(bad[:2]))
        res.notes['tie_B_valget'] = 'UbxCfgValGet.unpack regenerated from source and proved equal to the model'
    else:
        res.notes['tie_B_valget'] = 'bridge lemma FAILED'
        res.violation('Tie B: UbxCfgValGet.unpack translated from the current source is no longer provably equal to the model',
                      {'property': res.prop, 'broken': 'coq/bridge/BridgeValget.v', 'coqc_output': out[-2500:]}, 'bridge-valget', False)
    return ok2


# ------------------------------------------------------------------ model driver
def run_driver(lines, timeout=3600):
    """Evaluate command lines with the extracted model; returns list of output lines."""
    if not lines:
        return []
    data = ('\n'.join(lines) + '\n').encode()
    p = subprocess.run([DRIVER], input=data, stdout=subprocess.PIPE, stderr=subprocess.PIPE,
                       timeout=timeout)
    if p.returncode != 0:
        raise MachineryFault('driver crashed: ' + p.stderr.decode()[-2000:])
    out = p.stdout.decode().split('\n')
    if out and out[-1] == '':
        out.pop()
    if len(out) != len(lines):
        raise MachineryFault(f'driver returned {len(out)} lines for {len(lines)} commands')
    bad = [(l, o) for l, o in zip(lines, out) if o.startswith('#driver-error')]
    if bad:
        raise MachineryFault(f'driver error on {bad[0][0][:200]!r}: {bad[0][1]}')
    return out


def vm_crosscheck(lines_and_terms, workdir):
    """Re-evaluate a sample of cases inside Coq with vm_compute (checks the extraction).
    lines_and_terms: list of (coq_term_of_type_bool, description). Each term must compute to true."""
    if not lines_and_terms:
        return 0
    src = ['From Ubx Require Import Fields Base Checksum Frame ParserUbx ParserNmea CfgKeys.',
           'Open Scope N_scope.']
    for k, (term, _) in enumerate(lines_and_terms):
        src.append(f'Example xc_{k} : ({term}) = true. Proof. vm_compute. reflexivity. Qed.')
    path = os.path.join(workdir, 'xcheck.v')
    with open(path, 'w') as fh:
        fh.write('\n'.join(src) + '\n')
    rc, out = coqc(path, workdir)
    if rc:
        raise MachineryFault('extraction cross-check (vm_compute vs OCaml) failed: ' + out[-2000:])
    return len(lines_and_terms)


def hexs(b):
    b = bytes(b)
    return b.hex() if b else '-'


def coq_bytes(b):
    return '[' + '; '.join(str(x) for x in bytes(b)) + ']'


EXN_MAP = {'ValueError': 'ValueError', 'error': 'StructError', 'KeyError': 'KeyError',
           'IndexError': 'IndexError', 'TypeError': 'TypeError', 'AttributeError': 'AttributeError',
           'AssertionError': 'AssertionError', 'UnicodeDecodeError': 'UnicodeError',
           'UnicodeEncodeError': 'UnicodeError'}


def exn_token(e):
    n = type(e).__name__
    return '!' + EXN_MAP.get(n, n)


def guarded(fn, *a):
    try:
        return fn(*a)
    except Exception as e:  # noqa: the implementation may raise anything (RecursionError included)
        return exn_token(e)


# ------------------------------------------------------------------ cases, verdict
class Hang(BaseException):
    """raised inside stubbed transports when a request has read far more often than any terminating run can"""


TRACE_LIMIT = 250_000


class JumpyClock:
    """While active, every clock of the `time` module jumps ahead by several seconds per reading: code specified as a
    function of its input bytes alone (parsers, codecs) must not care. Restored on exit."""
    NAMES = ('time', 'monotonic', 'perf_counter')

    def __enter__(self):
        self.saved = {n: getattr(time, n) for n in self.NAMES + tuple(n + '_ns' for n in self.NAMES)}
        self.t = 1_000_000.0

        def tick():
            self.t += 2.75
            return self.t
        for n in self.NAMES:
            setattr(time, n, tick)
            setattr(time, n + '_ns', lambda: int(tick() * 1e9))
        return self

    def __exit__(self, *a):
        for n, f in self.saved.items():
            setattr(time, n, f)


class Case:
    __slots__ = ('comp', 'cmd', 'impl', 'domain', 'desc', 'nontrivial', 'kind', 'proj')

    def __init__(self, comp, cmd, impl, desc, domain=True, nontrivial=True, kind='', proj=None):
        self.comp = comp          # component / suite name
        self.cmd = cmd            # driver command line (model evaluation)
        self.impl = impl          # canonical result string of the implementation
        self.desc = desc          # JSON-able description of the input (goes into replay)
        self.domain = domain      # inside the property's domain (a theorem covers it)?
        self.nontrivial = nontrivial
        self.kind = kind          # generator class, for the input distribution
        self.proj = proj          # projection applied to the model output (the property's observable)


CURRENT = None        # the Result of the running check (for the entry script's last-resort reporting)


class Result:
    def __init__(self, prop, tier, seed):
        self.prop, self.tier, self.seed = prop, tier, seed
        global CURRENT
        CURRENT = self
        self.t0 = time.time()
        self.cases = 0
        self.distinct = set()
        self.kinds = {}
        self.samples = []
        self.disagreements = []      # (case, model_out)
        self.violations = []         # dicts: {what, replay_obj, signature, found_input}
        self.obligations = 0
        self.discharged = 0
        self.notes = {}
        self.assumption_lines = []
        self.exhaustive = False
        self.rule = ''
        self.extra_assumptions = []

    def oblige(self, name, ok, detail=''):
        self.obligations += 1
        if ok:
            self.discharged += 1
        self.notes.setdefault('obligations_list', []).append(
            {'name': name, 'ok': bool(ok), **({'detail': detail[-1500:]} if detail and not ok else {})})
        return ok

    def compare(self, cases, sample_every=None):
        """Run the model on all cases and record disagreements."""
        outs = run_driver([c.cmd for c in cases])
        for c, o in zip(cases, outs):
            self.cases += 1
            self.kinds[c.kind or c.comp] = self.kinds.get(c.kind or c.comp, 0) + 1
            if c.nontrivial:
                self.distinct.add(hashlib.md5((c.comp + '|' + c.cmd).encode()).digest())
            if c.proj is not None:
                try:
                    o = c.proj(o)
                except Exception as e:
                    o = f'#unparsable model output ({e!r}): ' + o[:200]
            if o.rstrip() != c.impl.rstrip():
                self.disagreements.append((c, o))
        step = sample_every or max(1, len(cases) // 3)
        for c, o in list(zip(cases, outs))[::step][:4]:
            self.samples.append({'component': c.comp, 'input': _short(c.desc), 'model': o[:300],
                                 'impl': c.impl[:300]})
        return outs

    def open_violations(self):
        """violations that no listed finding explains"""
        sigs = {(k['property'], k['signature']) for k in load_known().get('findings', [])}
        return [v for v in self.violations if (self.prop, v['signature']) not in sigs]

    def violation(self, what, replay_obj, signature, found_input=True):
        self.violations.append({'what': what, 'replay': replay_obj, 'signature': signature,
                                'found_input': found_input})


def _short(x, n=400):
    s = json.dumps(x)
    return x if len(s) <= n else s[:n] + '...'


def load_known():
    if not os.path.exists(KNOWN):
        return {'findings': [], 'fixed': []}
    with open(KNOWN) as fh:
        return json.load(fh)


def finish(res, checker_cmd, assumptions=()):
    """Turn collected disagreements/violations into the verdict, write evidence, exit."""
    os.makedirs(EVID, exist_ok=True)
    os.makedirs(REPLAYS, exist_ok=True)
    prop = res.prop
    # disagreements between implementation and model
    for c, o in res.disagreements[:50]:
        obj = {'property': prop, 'component': c.comp, 'input': c.desc, 'model_command': c.cmd,
               'model_says': o, 'implementation_says': c.impl, 'in_property_domain': c.domain}
        if c.domain:
            res.violation(f'{c.comp}: implementation differs from the proved model on an in-domain input',
                          obj, f'{c.comp}|{c.cmd}', True)
        else:
            obj['broken'] = f'correspondence suite {c.comp} (input outside the property domain)'
            res.violation(f'{c.comp}: correspondence broken outside the property domain',
                          obj, f'{c.comp}|{c.cmd}', False)
    known = load_known()
    known_sigs = {(k['property'], k['signature']): k for k in known.get('findings', [])}
    exit_code = 0
    printed = set()
    # in-domain failing inputs first; report "no-failing-input-found" only when there is none
    have_input = any(v['found_input'] and (prop, v['signature']) not in known_sigs for v in res.violations)
    nviol = 0
    for v in res.violations:
        if have_input and not v['found_input']:
            continue
        k = known_sigs.get((prop, v['signature']))
        if k is not None:
            line = f"KNOWN-FINDING: property={prop} {k['what']}"
            if line not in printed:
                print(line)
                printed.add(line)
            continue
        nviol += 1
        h = hashlib.md5(json.dumps(v['replay'], sort_keys=True, default=str).encode()).hexdigest()[:10]
        path = os.path.join(REPLAYS, f'{prop}-{h}.json')
        with open(path, 'w') as fh:
            json.dump(v['replay'], fh, indent=1, default=str)
        if nviol <= 5:
            tail = '' if v['found_input'] else ' no-failing-input-found'
            print(f"# {v['what']}")
            print(f'VIOLATION property={prop} replay={path}{tail}')
        exit_code = 1
    try:
        from . import reflect as _R
        if _R.REFLECT_FALLBACK:
            res.notes['message_classes_not_understood_by_reflection_pinned_shape_used'] = list(_R.REFLECT_FALLBACK)
    except Exception:
        pass
    ev = {
        'property_id': prop, 'tier': res.tier, 'seed': res.seed, 'level': 'proof',
        'coverage': {
            'obligations': res.obligations, 'discharged': res.discharged,
            'checker_cmd': checker_cmd, 'trusted_base': TRUSTED_BASE,
            'evaluations': res.cases, 'distinct_nontrivial': len(res.distinct),
            'rule': res.rule, 'samples': res.samples[:12] or [{'note': 'no correspondence cases'}],
            'input_distribution': res.kinds, 'exhaustive': res.exhaustive,
            'print_assumptions': res.assumption_lines,
            **res.notes,
        },
        'assumptions': list(assumptions) + res.extra_assumptions,
        'wall_s': round(time.time() - res.t0, 2),
        'violations': nviol,
    }
    with open(os.path.join(EVID, f'{prop}.json'), 'w') as fh:
        json.dump(ev, fh, indent=1, default=str)
    if exit_code == 0 and res.discharged != res.obligations:
        raise MachineryFault(f'{res.obligations - res.discharged} obligation(s) not discharged although no violation was recorded: '
                             + str([o['name'] for o in res.notes.get('obligations_list', []) if not o['ok']]))
    if exit_code == 0:
        print(f'OK property={prop} tier={res.tier} obligations={res.discharged}/{res.obligations} '
              f'cases={res.cases} wall={ev["wall_s"]}s')
    return exit_code


def rng_for(seed, name):
    return random.Random(f'{seed}:{name}')


def import_impl():
    """Make /repo's working tree importable (fresh modules)."""
    if REPO not in sys.path:
        sys.path.insert(0, REPO)
    for m in [m for m in sys.modules if m == 'ubxlib' or m.startswith('ubxlib.')]:
        del sys.modules[m]
    import logging
    logging.getLogger('ubxlib').setLevel(logging.CRITICAL + 1)
    logging.disable(logging.CRITICAL)
