"""Stubbed transports for the two real backends (server_tty.GnssUBlox over a stub `serial` module,
server.GnssUBlox over stub sockets) and the C12 / C18 / C20 cases built on them."""
import socket as real_socket
import sys
import types

from . import common as C
from .common import Case


# ---------------------------------------------------------------- stub pyserial
class StubSerial:
    """Just enough of serial.Serial. Behaviour is scripted through class attribute `script`."""
    script = None

    def __init__(self):
        self.is_open = False
        self._baud = 9600
        self.baud_log = []
        self.written = []
        self.port = None
        self.timeout = None
        self.rx = []          # list of (bytes, dt_ms)
        self.flushes = 0
        self.in_flushes = 0
        self.clock = None
        self.write_results = []

    @property
    def baudrate(self):
        return self._baud

    @baudrate.setter
    def baudrate(self, v):
        self._baud = v
        self.baud_log.append(v)

    def open(self):
        self.is_open = True

    def close(self):
        self.is_open = False

    def flush(self):
        self.flushes += 1

    def reset_input_buffer(self):
        self.in_flushes += 1

    def write(self, data):
        self.written.append(bytes(data))
        if self.write_results:
            return self.write_results.pop(0)
        return len(data)

    def read(self, n):
        if self.rx:
            d, dt = self.rx.pop(0)
        else:
            d, dt = b'', 100
        if self.clock is not None:
            self.clock.ms += dt
        return d


def install_stub_serial():
    mod = types.ModuleType('serial')
    mod.Serial = StubSerial
    su = types.ModuleType('serial.serialutil')

    class SerialException(Exception):
        pass
    su.SerialException = SerialException
    mod.serialutil = su
    mod.SerialException = SerialException
    sys.modules['serial'] = mod
    sys.modules['serial.serialutil'] = su


def tty_server(baud=115200):
    install_stub_serial()
    for m in [m for m in sys.modules if m == 'ubxlib.server_tty']:
        del sys.modules[m]
    from ubxlib.frame_factory import FrameFactory
    FrameFactory.destroy()
    import ubxlib.server_tty as T
    s = T.GnssUBlox('/dev/stub', baud)
    ok = s.setup()
    return s, T, ok


# ---------------------------------------------------------------- stub sockets for gpsd
class StubSocket:
    plan = None      # dict: reply (bytes) or exception class, set per test

    def __init__(self, family=None, typ=None):
        self.family = family
        self.sent = []
        self.closed = False
        self.connected = None

    def connect(self, addr):
        self.connected = addr
        if StubSocket.plan.get('connect_error') and self.family == real_socket.AF_UNIX:
            raise StubSocket.plan['connect_error']('connect failed')

    def settimeout(self, t):
        pass

    def sendall(self, data):
        StubSocket.plan.setdefault('sent', []).append(bytes(data))
        if StubSocket.plan.get('send_error'):
            raise StubSocket.plan['send_error']('send failed')

    def send(self, data):
        StubSocket.plan.setdefault('data_sent', []).append(bytes(data))

    def recv(self, n):
        if self.family == real_socket.AF_UNIX:
            r = StubSocket.plan.get('reply')
            if isinstance(r, type) and issubclass(r, BaseException):
                raise r('recv failed')
            return r
        chunks = StubSocket.plan.get('data_chunks', [])
        if chunks:
            c = chunks.pop(0)
            if isinstance(c, type):
                raise c('timeout')
            return c
        raise real_socket.timeout('no more data')

    def shutdown(self, how):
        pass

    def close(self):
        self.closed = True


def gpsd_server(device_name=None):
    for m in [m for m in sys.modules if m == 'ubxlib.server']:
        del sys.modules[m]
    from ubxlib.frame_factory import FrameFactory
    FrameFactory.destroy()
    import ubxlib.server as SV
    stub = types.SimpleNamespace(socket=StubSocket, AF_INET=real_socket.AF_INET, AF_UNIX=real_socket.AF_UNIX,
                                 SOCK_STREAM=real_socket.SOCK_STREAM, SHUT_RDWR=real_socket.SHUT_RDWR,
                                 timeout=real_socket.timeout, error=real_socket.error)
    SV.socket = stub
    StubSocket.plan = {}
    s = SV.GnssUBlox(device_name)
    return s, SV


# ---------------------------------------------------------------- C12 backend cases
def backend_cases(res, tier, seed):
    rng = C.rng_for(seed, 'C12-backends')
    cases = []
    n = 60 if tier == 'quick' else 3000
    # serial _transmit / _recover
    srv, T, ok = tty_server(rng.choice([9600, 38400, 115200, 921600]))
    if not ok or not srv.serial_port.is_open:
        res.violation('serial backend: setup() did not open the port', {'property': 'C12', 'input': {'backend': 'tty'}}, 'c12-tty-open')
    for _ in range(n):
        data = bytes(rng.getrandbits(8) for _ in range(rng.choice([0, 1, 8, 8, 40, 300])))
        written = rng.choice([len(data), len(data), len(data) - 1, 0, len(data) + 1])
        srv.serial_port.write_results = [written]
        srv.serial_port.written = []
        r = srv._transmit(data)
        handed = srv.serial_port.written[0] if srv.serial_port.written else None
        impl = f'{C.hexs(handed) if handed is not None else "nothing"} {r}'
        cases.append(Case('tty-transmit', f'ttytx {written} {C.hexs(data)}', impl, {'data': C.hexs(data), 'written': written}, kind='tty/tx'))
        if (r is True) != (written == len(data)) or handed != data:
            res.violation('serial _transmit: success flag or bytes written wrong', {'property': 'C12', 'input': {'data': C.hexs(data), 'written': written}, 'result': impl},
                          f'c12-ttytx|{written == len(data)}')
    for baud in [9600, 19200, 115200, 460800] + [rng.randrange(1200, 1000000) for _ in range(5)]:
        srv.serial_port.baudrate = baud
        srv.serial_port.baud_log = []
        srv._recover()
        p = srv.serial_port
        impl = f'open={1 if p.is_open else 0} baud={p.baudrate} log={",".join(map(str, p.baud_log))}'
        cases.append(Case('tty-recover', f'ttyrecover 1 {baud}', impl, {'baud': baud}, kind='tty/recover'))
    srv.cleanup()
    # gpsd _transmit
    for _ in range(n):
        dev = rng.choice(['/dev/ttyS3', '/dev/gnss0', 'x', '/dev/serial/by-id/usb-u-blox_AG', '/dev/ttyACM0'])
        srv, SV = gpsd_server(dev)
        srv.selected_device = dev
        srv.cmd_header = f'&{dev}='.encode()
        data = bytes(rng.getrandbits(8) for _ in range(rng.choice([0, 1, 8, 40, 200])))
        kind = rng.choice(['ok', 'ack', 'error', 'garbage', 'empty', 'recv_timeout', 'connect_error', 'send_error', 'okinside', 'lower', 'binary'])
        plan = {}
        reply_tok = None
        if kind == 'ok':
            plan['reply'] = b'OK\n'
        elif kind == 'ack':
            plan['reply'] = b'{"class":"ACK"}\r\n'
        elif kind == 'error':
            plan['reply'] = rng.choice([b'ERROR\n', b'{"class":"ERROR","message":"x"}'])
        elif kind == 'garbage':
            plan['reply'] = bytes(rng.choice(b'abcXYZ {}":,\n') for _ in range(rng.randrange(0, 32)))
        elif kind == 'empty':
            plan['reply'] = b''
        elif kind == 'okinside':
            plan['reply'] = b'xxNOKAYx' if rng.random() < 0.5 else b'TACKLE'
        elif kind == 'lower':
            plan['reply'] = b'ok ack\n'
        elif kind == 'binary':
            plan['reply'] = rng.choice([b'OK\xff', b'\xb5b\x05\x01', b'\xc3\xa9 ACK', b'\x80'])
        elif kind == 'recv_timeout':
            plan['reply'] = real_socket.timeout
            reply_tok = 'ERR'
        elif kind == 'connect_error':
            plan['connect_error'] = ConnectionRefusedError
            plan['reply'] = b'OK'
            reply_tok = 'ERR'
        else:
            plan['send_error'] = BrokenPipeError
            plan['reply'] = b'OK'
            reply_tok = 'ERR'
        StubSocket.plan = plan
        r = C.guarded(srv._transmit, data)
        sent = plan.get('sent', [])
        if reply_tok is None:
            reply_tok = C.hexs(plan['reply']) if plan['reply'] else 'E0'
        expect_cmd = b'&' + dev.encode() + b'=' + data.hex().encode()
        impl_cmd = C.hexs(sent[0]) if sent else C.hexs(expect_cmd) if kind == 'connect_error' else 'nothing'
        impl = f'{impl_cmd} {r}'
        desc = {'device': dev, 'data': C.hexs(data), 'reply_kind': kind}
        if reply_tok == 'E0':
            reply_tok = '-'
        cases.append(Case('gpsd-transmit', f'gpsdtx {C.hexs(dev.encode())} {C.hexs(data)} {reply_tok}', impl, desc, kind='gpsd/' + kind))
        if sent and sent[0] != expect_cmd:
            res.violation('gpsd _transmit: control-socket command is not "&" device "=" hex(data)', {'property': 'C12', 'input': desc, 'sent': C.hexs(sent[0])}, 'c12-gpsd-cmd')
        want = kind in ('ok', 'ack', 'okinside', 'binary') and (b'OK' in plan['reply'] or b'ACK' in plan['reply'])
        if str(r).startswith('!'):
            want = False        # an exception is not a success report (non-UTF-8 reply: UnicodeDecodeError, not claimed by C12)
        if (r is True) != want:
            res.violation('gpsd _transmit: success reported without OK/ACK reply (or failure despite it)', {'property': 'C12', 'input': desc, 'result': str(r)}, f'c12-gpsd-ok|{kind}')
    return cases
