"""Stubbed transports for the two real backends (server_tty.GnssUBlox over a stub `serial` module,
server.GnssUBlox over stub sockets) and the C12 / C18 / C20 cases built on them."""
import socket as real_socket
import sys
import types

from . import common as C
from .common import Case


# ---------------------------------------------------------------- stub pyserial
class StubSerial:
    """The part of serial.Serial a tty backend can reasonably use. Reads follow `rx`: one event (bytes, dt) per read."""
    script = None

    def __init__(self, *a, **kw):
        self.is_open = False
        self._baud = 9600
        self.baud_log = []
        self.written = []
        self.port = None
        self.timeout = None
        self.rx = []          # list of (bytes, dt_ms)
        self.flushes = 0
        self.in_flushes = 0
        self.out_flushes = 0
        self.clock = None
        self.write_results = []
        self.opens = 0
        self.fail_open = 0    # the next N open() calls raise SerialException

    @property
    def baudrate(self):
        return self._baud

    @baudrate.setter
    def baudrate(self, v):
        self._set_baud(v)

    def _set_baud(self, v):
        self._baud = v
        self.baud_log.append(v)

    def open(self):
        if self.fail_open:
            self.fail_open -= 1
            raise sys.modules['serial.serialutil'].SerialException('cannot open')
        self.is_open = True
        self.opens += 1

    def close(self):
        self.is_open = False

    def isOpen(self):
        return self.is_open

    def __enter__(self):
        if not self.is_open:
            self.open()
        return self

    def __exit__(self, *a):
        self.close()

    def flush(self):
        self.flushes += 1

    def reset_input_buffer(self):
        self.in_flushes += 1

    flushInput = reset_input_buffer

    def reset_output_buffer(self):
        self.out_flushes += 1

    flushOutput = reset_output_buffer

    def cancel_read(self):
        pass

    def cancel_write(self):
        pass

    def send_break(self, duration=0.25):
        pass

    @property
    def in_waiting(self):
        n = 0
        for d, dt in self.rx:
            if dt:
                break
            n += len(d or b'')
        return n

    @property
    def out_waiting(self):
        return 0

    def write(self, data):
        self.written.append(bytes(data))
        if self.write_results:
            return self.write_results.pop(0)
        return len(data)

    def _next(self):
        if self.rx:
            return self.rx.pop(0)
        return b'', 100

    def _unread(self, d):
        self.rx.insert(0, (d, 0))

    def read(self, n=1):
        d, dt = self._next()
        d = d or b''
        if len(d) > n:
            self._unread(d[n:])
            d = d[:n]
        # a larger read also takes what is already buffered behind it (events that cost no time), up to n bytes
        while d and len(d) < n and self.rx and not self.rx[0][1] and self.rx[0][0]:
            more, _ = self.rx.pop(0)
            if len(d) + len(more) > n:
                self._unread(more[n - len(d):])
                more = more[:n - len(d)]
            d = d + more
        if self.clock is not None:
            self.clock.ms += dt
        return d

    def read_all(self):
        return self.read(self.in_waiting) if self.in_waiting else b''

    def read_until(self, expected=b'\n', size=None):
        out = bytearray()
        while size is None or len(out) < size:
            c = self.read(1)
            if not c:
                break
            out += c
            if out.endswith(expected):
                break
        return bytes(out)

    def readline(self, size=-1):
        return self.read_until(b'\n', None if size is None or size < 0 else size)

    def readinto(self, b):
        d = self.read(len(b))
        b[:len(d)] = d
        return len(d)


class LineSerial(StubSerial):
    """A serial line that follows a request script with the semantics of model/ScriptBackend.v: every read takes the next pending
    event (or times out), every write starts the next scripted attempt. On top of that: the receiver understands (and is
    understood) only while the port runs at `receiver_baud`; a frame written is still in the output buffer until time passes."""
    def __init__(self, *a, **kw):
        super().__init__(*a, **kw)
        self.trace = []
        self.pending = []
        self.future = []
        self.idle = 100
        self.tx_dt = 0
        self.receiver_baud = None
        self.unsent = 0          # events (at the tail of pending) that answer a frame still sitting in the output buffer
        self.in_buffer = False
        self.n_sent = 0          # frames written completely and not discarded from the output buffer
        self.last_ok = False
        self.babble = None       # (byte, dt): a receiver that never pauses - when nothing is scripted, this byte arrives

    def _set_baud(self, v):
        self.trace.append(('B', self._baud, v))
        super()._set_baud(v)

    def _heard(self):
        return self.receiver_baud is None or self._baud == self.receiver_baud

    def read(self, n=1):
        self.unsent, self.in_buffer = 0, False
        if self.pending:
            d, dt = self.pending.pop(0)
            if d and len(d) > n:
                self.pending.insert(0, (d[n:], 0))
                d = d[:n]
        elif self.babble is not None:
            d, dt = bytes([self.babble[0]]), self.babble[1]
        else:
            d, dt = None, self.idle
        if not self._heard():
            d = None                    # wrong bit rate: nothing intelligible
        self.clock.ms += dt
        self.trace.append(('R', d or None, dt))
        if len(self.trace) > C.TRACE_LIMIT:
            raise C.Hang()
        return d or b''

    def write(self, data):
        buf = bytes(data)
        if self.future:
            ok, evs = self.future.pop(0)
        else:
            ok, evs = True, []
        if not self._heard():
            evs = []
        self.pending += evs
        self.unsent, self.in_buffer, self.last_ok = len(evs), True, bool(ok)
        if ok:
            self.n_sent += 1
        if self.tx_dt:
            self.clock.ms += self.tx_dt
            self.unsent, self.in_buffer = 0, False
        self.trace.append(('T', buf, ok))
        self.written.append(buf)
        return len(buf) if ok else max(0, len(buf) - 1)

    def flush(self):
        self.unsent, self.in_buffer = 0, False
        self.flushes += 1

    def reset_input_buffer(self):
        self.in_flushes += 1
        self.pending = []
        self.unsent = 0
        self.trace.append(('F',))

    def reset_output_buffer(self):
        self.out_flushes += 1
        if self.in_buffer:
            # the frame written last never left the port: the receiver will not answer it
            if self.unsent:
                del self.pending[-self.unsent:]
            if self.last_ok:
                self.n_sent -= 1
            self.unsent, self.in_buffer = 0, False
            self.trace.append(('X',))

    @property
    def in_waiting(self):
        n = 0
        for d, dt in self.pending:
            if dt:
                break
            n += len(d or b'')
        return n


def install_stub_serial(cls=None):
    mod = types.ModuleType('serial')
    mod.Serial = cls or StubSerial
    su = types.ModuleType('serial.serialutil')

    class SerialException(Exception):
        pass
    su.SerialException = SerialException
    mod.serialutil = su
    mod.SerialException = SerialException
    sys.modules['serial'] = mod
    sys.modules['serial.serialutil'] = su


def tty_server(baud=115200, cls=None):
    install_stub_serial(cls)
    for m in [m for m in sys.modules if m == 'ubxlib.server_tty']:
        del sys.modules[m]
    from ubxlib.frame_factory import FrameFactory
    FrameFactory.destroy()
    import ubxlib.server_tty as T
    s = T.GnssUBlox('/dev/stub', baud)
    ok = s.setup()
    return s, T, ok


# ---------------------------------------------------------------- stub sockets for gpsd
class _SocketExtras:
    """The rest of the socket API a backend may reasonably touch; nothing here carries data."""
    def __enter__(self):
        return self

    def __exit__(self, *a):
        self.close()

    def setblocking(self, flag):
        pass

    def gettimeout(self):
        return None

    def setsockopt(self, *a):
        pass

    def getsockopt(self, *a):
        return 0

    def fileno(self):
        return -1

    def getsockname(self):
        return ('127.0.0.1', 0)

    def getpeername(self):
        return ('127.0.0.1', 2947)

    def detach(self):
        return -1

    def recv_into(self, buf, nbytes=0, flags=0):
        d = self.recv(nbytes or len(buf))
        buf[:len(d)] = d
        return len(d)


class StubSocket(_SocketExtras):
    plan = None      # dict: reply (bytes) or exception class, set per test

    def __init__(self, family=None, typ=None):
        self.family = family
        self.sent = []
        self.closed = False
        self.connected = None

    def connect(self, addr):
        self.connected = addr
        if StubSocket.plan.get('connect_error') and self.family == real_socket.AF_UNIX:
            raise StubSocket.plan['connect_error']('connect failed')

    def settimeout(self, t):
        pass

    def sendall(self, data, flags=0):
        StubSocket.plan.setdefault('sent', []).append(bytes(data))
        if StubSocket.plan.get('send_error'):
            raise StubSocket.plan['send_error']('send failed')

    def send(self, data, flags=0):
        StubSocket.plan.setdefault('data_sent', []).append(bytes(data))

    def recv(self, n, flags=0):
        if self.family == real_socket.AF_UNIX:
            r = StubSocket.plan.get('reply')
            if isinstance(r, type) and issubclass(r, BaseException):
                raise r('recv failed')
            return r[:n] if isinstance(r, (bytes, bytearray)) else r
        chunks = StubSocket.plan.get('data_chunks', [])
        if chunks:
            c = chunks.pop(0)
            if isinstance(c, type):
                raise c('timeout')
            if len(c) > n:                   # a stream socket hands out at most bufsize bytes, the rest stays queued
                chunks.insert(0, c[n:])
                c = c[:n]
            return c
        raise real_socket.timeout('no more data')

    def shutdown(self, how):
        pass

    def close(self):
        self.closed = True


class ScriptSocket(_SocketExtras):
    """socket.socket as ubxlib.server uses it, following a request script (model/LineBackend.v: gpsd_script_backend):
    the data socket (AF_INET) delivers the handshake chunks first and then one pending event per recv(); every command
    on a control socket (AF_UNIX) starts the next scripted attempt and is answered OK / ACK or ERROR."""
    st = None

    def __init__(self, family=None, typ=None):
        self.family = family
        self.buf = None

    def connect(self, addr):
        pass

    def settimeout(self, t):
        pass

    def send(self, data, flags=0):
        ScriptSocket.st.setdefault('data_sent', []).append(bytes(data))
        return len(data)

    def sendall(self, data, flags=0):
        st = ScriptSocket.st
        cmd = bytes(data)
        st.setdefault('commands', []).append(cmd)
        head, _, hx = cmd.partition(b'=')
        try:
            payload = bytes.fromhex(hx.decode('ascii'))
        except ValueError:
            payload = b'?' + hx
        if st['future']:
            ok, evs = st['future'].pop(0)
        else:
            ok, evs = True, []
        st['pending'] += evs
        st['clock'].ms += st.get('tx_dt', 0)
        # the reply is queued on THIS connection; recv(n) takes at most n bytes of it, what is left stays on the connection
        self.buf = (self.buf or b'') + ((b'OK\n' if len(st['commands']) % 2 else b'{"class":"ACK"}\r\n') if ok else
                                        (b'ERROR\n' if len(st['commands']) % 3 == 0 else b'{"class":"ERROR","message":"Can\'t perform request: device is not known to gpsd"}\r\n'))
        st['trace'].append(('T', payload, ok))
        st['heads'] = st.get('heads', []) + [head]

    def recv(self, n, flags=0):
        st = ScriptSocket.st
        if self.family == real_socket.AF_UNIX:
            d, self.buf = (self.buf or b'')[:n], (self.buf or b'')[n:]
            return d
        if st['handshake']:
            return st['handshake'].pop(0)
        if st['pending']:
            d, dt = st['pending'].pop(0)
            if d and len(d) > n:
                st['pending'].insert(0, (d[n:], 0))
                d = d[:n]
        else:
            d, dt = None, st['idle']
        st['clock'].ms += dt
        st['trace'].append(('R', d or None, dt))
        if len(st['trace']) > C.TRACE_LIMIT:
            raise C.Hang()
        if d:
            return d
        raise real_socket.timeout('timed out')

    def shutdown(self, how):
        pass

    def close(self):
        pass


def gpsd_server(device_name=None, sock_cls=None):
    for m in [m for m in sys.modules if m == 'ubxlib.server']:
        del sys.modules[m]
    from ubxlib.frame_factory import FrameFactory
    FrameFactory.destroy()
    import ubxlib.server as SV
    cls_ = sock_cls or StubSocket

    def create_connection(address, timeout=None, source_address=None):
        sk = cls_(real_socket.AF_INET, real_socket.SOCK_STREAM)
        sk.connect(address)
        return sk
    # the real socket module's constants and exception classes, with the socket class (and helper) replaced
    stub = types.SimpleNamespace(**{k: getattr(real_socket, k) for k in dir(real_socket) if k.isupper() or k in ('timeout', 'error', 'gaierror', 'herror')})
    stub.socket = cls_
    stub.create_connection = create_connection
    SV.socket = stub
    StubSocket.plan = {}
    s = SV.GnssUBlox(device_name)
    return s, SV


# ---------------------------------------------------------------- C12 backend cases
def backend_cases(res, tier, seed):
    rng = C.rng_for(seed, 'C12-backends')
    cases = []
    n = 60 if tier == 'quick' else 3000
    # serial _transmit / _recover
    srv, T, ok = tty_server(rng.choice([9600, 38400, 115200, 921600]))
    if not ok or not srv.serial_port.is_open:
        res.violation('serial backend: setup() did not open the port', {'property': 'C12', 'input': {'backend': 'tty'}}, 'c12-tty-open')
    for _ in range(n):
        data = bytes(rng.getrandbits(8) for _ in range(rng.choice([0, 1, 8, 8, 40, 300])))
        written = rng.choice([len(data), len(data), len(data) - 1, 0, len(data) + 1])
        srv.serial_port.write_results = [written]
        srv.serial_port.written = []
        # the library hands _transmit() the bytearray that to_bytes() returned, and hands the same bytes again on a retry:
        # the backend must not consume or alter the caller's buffer
        buf = bytearray(data)
        r = C.guarded(lambda: srv._transmit(buf))
        handed = srv.serial_port.written[0] if srv.serial_port.written else None
        impl = f'{C.hexs(handed) if handed is not None else "nothing"} {r}' + ('' if bytes(buf) == data else ' CALLER-BUFFER-CHANGED:' + C.hexs(buf))
        cases.append(Case('tty-transmit', f'ttytx {written} {C.hexs(data)}', impl, {'data': C.hexs(data), 'written': written}, kind='tty/tx'))
        if (r is True) != (written == len(data)) or handed != data or bytes(buf) != data:
            res.violation('serial _transmit: success flag or bytes written wrong', {'property': 'C12', 'input': {'data': C.hexs(data), 'written': written}, 'result': impl},
                          f'c12-ttytx|{written == len(data)}')
    for baud in [9600, 19200, 115200, 460800] + [rng.randrange(1200, 1000000) for _ in range(5)]:
        srv.serial_port.baudrate = baud
        srv.serial_port.baud_log = []
        srv._recover()
        p = srv.serial_port
        impl = f'open={1 if p.is_open else 0} baud={p.baudrate} log={",".join(map(str, p.baud_log))}'
        cases.append(Case('tty-recover', f'ttyrecover 1 {baud}', impl, {'baud': baud}, kind='tty/recover'))
    srv.cleanup()
    # gpsd _transmit
    for _ in range(n):
        dev = rng.choice(['/dev/ttyS3', '/dev/gnss0', 'x', '/dev/serial/by-id/usb-u-blox_AG', '/dev/ttyACM0'])
        srv, SV = gpsd_server(dev)
        srv.selected_device = dev
        srv.cmd_header = f'&{dev}='.encode()
        data = bytes(rng.getrandbits(8) for _ in range(rng.choice([0, 1, 8, 40, 200])))
        kind = rng.choice(['ok', 'ack', 'error', 'garbage', 'empty', 'recv_timeout', 'connect_error', 'send_error', 'okinside', 'lower', 'binary'])
        plan = {}
        reply_tok = None
        if kind == 'ok':
            plan['reply'] = b'OK\n'
        elif kind == 'ack':
            plan['reply'] = b'{"class":"ACK"}\r\n'
        elif kind == 'error':
            plan['reply'] = rng.choice([b'ERROR\n', b'{"class":"ERROR","message":"x"}'])
        elif kind == 'garbage':
            plan['reply'] = bytes(rng.choice(b'abcXYZ {}":,\n') for _ in range(rng.randrange(0, 32)))
        elif kind == 'empty':
            plan['reply'] = b''
        elif kind == 'okinside':
            plan['reply'] = b'xxNOKAYx' if rng.random() < 0.5 else b'TACKLE'
        elif kind == 'lower':
            plan['reply'] = b'ok ack\n'
        elif kind == 'binary':
            plan['reply'] = rng.choice([b'OK\xff', b'\xb5b\x05\x01', b'\xc3\xa9 ACK', b'\x80'])
        elif kind == 'recv_timeout':
            plan['reply'] = real_socket.timeout
            reply_tok = 'ERR'
        elif kind == 'connect_error':
            plan['connect_error'] = ConnectionRefusedError
            plan['reply'] = b'OK'
            reply_tok = 'ERR'
        else:
            plan['send_error'] = BrokenPipeError
            plan['reply'] = b'OK'
            reply_tok = 'ERR'
        StubSocket.plan = plan
        r = C.guarded(srv._transmit, data)
        sent = plan.get('sent', [])
        if reply_tok is None:
            reply_tok = C.hexs(plan['reply']) if plan['reply'] else 'E0'
        expect_cmd = b'&' + dev.encode() + b'=' + data.hex().encode()
        impl_cmd = C.hexs(sent[0]) if sent else C.hexs(expect_cmd) if kind == 'connect_error' else 'nothing'
        impl = f'{impl_cmd} {r}'
        desc = {'device': dev, 'data': C.hexs(data), 'reply_kind': kind}
        if reply_tok == 'E0':
            reply_tok = '-'
        cases.append(Case('gpsd-transmit', f'gpsdtx {C.hexs(dev.encode())} {C.hexs(data)} {reply_tok}', impl, desc, kind='gpsd/' + kind))
        if sent and sent[0] != expect_cmd:
            res.violation('gpsd _transmit: control-socket command is not "&" device "=" hex(data)', {'property': 'C12', 'input': desc, 'sent': C.hexs(sent[0])}, 'c12-gpsd-cmd')
        want = kind in ('ok', 'ack', 'okinside', 'binary') and (b'OK' in plan['reply'] or b'ACK' in plan['reply'])
        if str(r).startswith('!'):
            want = False        # an exception is not a success report (non-UTF-8 reply: UnicodeDecodeError, not claimed by C12)
        if (r is True) != want:
            res.violation('gpsd _transmit: success reported without OK/ACK reply (or failure despite it)', {'property': 'C12', 'input': desc, 'result': str(r)}, f'c12-gpsd-ok|{kind}')
    return cases


# ---------------------------------------------------------------- gpsd setup() end to end (C12, C20)
def gpsd_setup_cases(res, prop, rng, n, PATHS, jtok=None, cases=None):
    """setup() over the stub sockets: handshake loop, device selection, command header, one command. Returns the number of runs."""
    import json
    n_total = n
    # setup() end to end: handshake loop over the stub socket, then the command header and one command
    class Stop(Exception):
        pass
    n_setup = 0
    PARTIAL = [b'$GPGGA,123519,4807.038', b'{"class":"TPV","device":"/dev/tt', b'\r\n$GPRMC,1*00\r\n$GPGSV,3,1', b'["x", 1']
    for k_run in range(n_total):
        # the first runs are a fixed corpus: a block that ends in the middle of a line, then a block with a usable device list
        forced = k_run < 2 * len(PARTIAL)
        requested = rng.choice([None, '/dev/ttyACM1', '/dev/b', ''])
        if forced:
            requested = None
        lists = []
        chunks = []
        ctoks = []
        per_chunk = []
        for _c in range(1 + k_run % 2 if forced else rng.randrange(1, 4)):
            devs = rng.sample(PATHS, rng.randrange(1, 4) if forced else rng.randrange(0, 4))
            lists.append(devs)
            line = json.dumps({'class': 'DEVICES', 'devices': [dict({'class': 'DEVICE', 'path': p_}, **rng.choice([{}, {'driver': 'NMEA0183'}, {'driver': None}, {'driver': 'u-blox'}])) for p_ in devs]}, ensure_ascii=rng.random() < 0.5).encode('utf-8')
            dv = {'class': 'DEVICES', 'devices': json.loads(line.decode('utf-8'))['devices']}
            pre, pre_tok = rng.choice([(b'', []), (b'{"class":"VERSION","release":"3.25"}\r\n', ['V']), (b'$GPRMC,1*00\r\n', ['X']), (b'\r\n', ['X'])])
            if (forced and _c == 0) or (not forced and rng.random() < 0.25):
                # a recv() block of text that ends in the middle of a line (a cut NMEA sentence, a JSON fragment), then the next block
                chunks.append(PARTIAL[k_run // 2] if forced else rng.choice(PARTIAL))
                ctoks.append(['X'])
                per_chunk.append([])
            chunks.append(pre + line + b'\r\n')
            ctoks.append(pre_tok + [dv])
            per_chunk.append([devs])
        if rng.random() < 0.5 and not any(c_ == ['X'] for c_ in ctoks):      # several lists in one recv(): all are processed before the loop can stop
            chunks = [b''.join(chunks)]
            ctoks = [[t for c_ in ctoks for t in c_]]
            per_chunk = [[l_ for g_ in per_chunk for l_ in g_]]
        srv, SV = gpsd_server(requested or None)
        StubSocket.plan = {'data_chunks': list(chunks) + [Stop], 'reply': b'OK'}
        try:
            srv.setup()
            done = True
        except Stop:
            done = False
        except AssertionError:
            done = False
        except Exception as e:
            res.violation('setup(): the handshake raised ' + type(e).__name__, {'property': prop, 'input': {'requested': requested, 'device_lists': lists, 'chunks': [c.decode('latin-1') for c in chunks]}, 'result': repr(e)}, prop.lower() + '-setup-raise|' + type(e).__name__)
            continue
        StubSocket_plan_left = list((StubSocket.plan or {}).get('data_chunks', []))
        sel, en = None, False
        # what the handshake must have selected by the time it stopped reading
        seen = []
        for ch, grp in zip(chunks, per_chunk):
            for paths in grp:
                if requested:
                    if requested in paths:
                        sel, en = requested, True
                elif paths:
                    sel, en = paths[0], True
            if en:
                break
        desc = {'requested': requested, 'device_lists': lists, 'one_chunk': len(chunks) == 1}
        n_setup += 1
        if jtok is not None and cases is not None:
            # the same handshake through the model of the loop (model/Gpsd.v: enable_loop): selection, readiness, chunks left unread, header
            def tok(t):
                return 'X' if t == 'X' else jtok({'class': 'VERSION', 'release': '3.25'}) if t == 'V' else jtok(t)
            cmd = 'gpsdenable ' + ('-' if not requested else requested.encode().hex()) + ' ' + ' '.join('L:' + ';'.join(tok(t) for t in c_) for c_ in ctoks)
            unread = len([c_ for c_ in StubSocket_plan_left if not isinstance(c_, type)])
            hdr = srv.cmd_header.decode('utf-8') if done and srv.cmd_header else ('&' + srv.selected_device + '=' if srv.selected_device else 'None')
            impl = f'sel={srv.selected_device} enabled={srv.enabled} unread={unread} header={hdr}'
            cases.append(Case('gpsd-setup-loop', cmd, impl, desc, kind='setup/' + ('ready' if done else 'not-ready')))
        if done != en or srv.selected_device != sel:
            res.violation('setup(): handshake selected the wrong device or finished in the wrong state',
                          {'property': prop, 'input': desc, 'expected': [sel, en], 'result': [srv.selected_device, srv.enabled, done]}, prop.lower() + f'-setup|{bool(requested)}')
        elif done:
            # a second server object set up in between must not change where the first one sends its commands
            other = SV.GnssUBlox(None)          # same class object (class-level state would be shared)
            StubSocket.plan = {'data_chunks': [b'{"class":"DEVICES","devices":[{"path":"/dev/other"}]}\r\n', Stop], 'reply': b'OK'}
            try:
                other.setup()
            except Exception:
                pass
            if srv.cmd_header != b'&' + sel.encode() + b'=':
                res.violation('setup(): command header does not address the selected device', {'property': prop, 'input': desc, 'result': repr(srv.cmd_header)}, prop.lower() + '-header')
            StubSocket.plan = {'reply': b'OK'}
            srv._transmit(b'\xb5\x62')
            sent = StubSocket.plan.get('sent', [b''])[0]
            if not sent.startswith(b'&' + sel.encode() + b'='):
                res.violation('command addressed to a device other than the selected one', {'property': prop, 'input': desc, 'sent': repr(sent)}, prop.lower() + '-cmd')
    return n_setup
