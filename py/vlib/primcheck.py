"""Correspondence of the primitives of coq/bridge/PySem.v with CPython (part of the tie for Tie B): the Python operations the
translated kernels rest on - int(a / b), f'name_{i}', range(), ~ | & unary minus, comparisons, struct.pack/unpack/calcsize of
the eight one-value formats - are evaluated here by CPython on a fixed grid, the expected values are written into a generated
PrimCases.v next to the same operations of PySem.v, and ONE coqc call decides all of them by vm_compute. No random choice."""
import os
import struct

from . import common as C


def z(n):
    return f'({n})%Z'


def pint(n):
    return f'(PInt {z(n)})'


def pbytes(b):
    return '(PBytes [' + '; '.join(f'{x}%N' for x in b) + '])'


def pstr(s):
    assert all(32 <= ord(ch) < 127 and ch != '"' for ch in s)
    return f'(PStr "{s}"%string)'


def cases():
    """(Coq term of type pyval computed with PySem primitives, Coq term of the value CPython gives, description)"""
    out = []
    # int(a / b): truncation towards zero (floats are exact on this grid)
    for a in sorted(set(list(range(-5000, 5001, 397)) + [1000, -1000, 0, 1, -1, 7, -7, 999, 1001, 65535, -65536])):
        for b in (1, 2, 3, 4, 5, 6, 7, 8, 9, 10, -1, -3, -7, 1000):
            out.append((f'py_trunc_div {pint(a)} {pint(b)}', pint(int(a / b)), f'int({a} / {b})'))
    # f'prefix{i}'
    for n in list(range(0, 13)) + [19, 20, 99, 100, 101, 255, 256, 999, 1000, 65535]:
        for pre in ('gnssId_', 'flags_', 'leverArmX_', 'data'):
            out.append((f'py_fstr "{pre}"%string {pint(n)}', pstr(f'{pre}{n}'), f"f'{pre}{{{n}}}'"))
    # unary minus, ~, |, &
    grid = [0, 1, 2, 3, 0x7F, 0x80, 0xFF, 0x100, 0xFFFF, 0x10000, 0x01010001, 0x7FFFFFFF, 0x80000000, 0xFFFFFFFE, 0xFFFFFFFF, -1, -2, -128, -65536]
    for a in grid:
        out.append((f'py_neg {pint(a)}', pint(-a), f'-({a})'))
        out.append((f'py_invert {pint(a)}', pint(~a), f'~({a})'))
        for b in (0, 1, ~1, 0xFF, 0xFFFFFFFE, -1, 0x10000):
            out.append((f'py_or {pint(a)} {pint(b)}', pint(a | b), f'{a} | {b}'))
            out.append((f'py_and {pint(a)} {pint(b)}', pint(a & b), f'{a} & {b}'))
            out.append((f'py_add {pint(a)} {pint(b)}', pint(a + b), f'{a} + {b}'))
            out.append((f'py_sub {pint(a)} {pint(b)}', pint(a - b), f'{a} - {b}'))
            out.append((f'PBool (py_le {pint(a)} {pint(b)})', f'(PBool {"true" if a <= b else "false"})', f'{a} <= {b}'))
            out.append((f'PBool (py_lt {pint(a)} {pint(b)})', f'(PBool {"true" if a < b else "false"})', f'{a} < {b}'))
            out.append((f'PBool (py_eq {pint(a)} {pint(b)})', f'(PBool {"true" if a == b else "false"})', f'{a} == {b}'))
    # range(n): length and elements
    for n in (-3, -1, 0, 1, 2, 5, 8):
        r = list(range(n))
        out.append((f'match py_range {pint(n)} with PList l => PInt (Z.of_nat (length l)) | _ => PNone end', pint(len(r)), f'len(range({n}))'))
        for k, v in enumerate(r):
            out.append((f'py_index (py_range {pint(n)}) {k}%nat', pint(v), f'range({n})[{k}]'))
    # struct: the eight one-value formats at their boundaries, and just outside (struct.error)
    for fmt in 'BbHhIiQq':
        size = struct.calcsize('<' + fmt)
        out.append((f'match py_calcsize (PStr "<{fmt}"%string) with Ok v => v | Raise _ => PNone end', pint(size), f"calcsize('<{fmt}')"))
        signed = fmt.islower()
        lo, hi = (-(1 << (8 * size - 1)), (1 << (8 * size - 1)) - 1) if signed else (0, (1 << (8 * size)) - 1)
        for v in sorted(set([lo - 1, lo, lo + 1, -1, 0, 1, 0x7F, 0x80, hi // 2, hi // 2 + 1, hi - 1, hi, hi + 1])):
            try:
                b = struct.pack('<' + fmt, v)
                exp = pbytes(b)
            except struct.error:
                b = None
                exp = '(PStr "struct.error"%string)'
            out.append((f'match py_struct_pack "<{fmt}"%string {pint(v)} with Ok v => v | Raise StructError => PStr "struct.error"%string | Raise _ => PNone end',
                        exp, f"pack('<{fmt}', {v})"))
            if b is not None:
                out.append((f'match py_struct_unpack "<{fmt}"%string {pbytes(b)} with Ok v => py_index v 0%nat | Raise _ => PNone end', pint(v), f"unpack('<{fmt}', {b.hex()})[0]"))
        for bad in (b'', bytes(size - 1), bytes(size + 1)):
            try:
                struct.unpack('<' + fmt, bad)
                exp = 'PNone'
            except struct.error:
                exp = '(PStr "struct.error"%string)'
            out.append((f'match py_struct_unpack "<{fmt}"%string {pbytes(bad)} with Ok v => PNone | Raise StructError => PStr "struct.error"%string | Raise _ => PNone end',
                        exp, f"unpack('<{fmt}', {len(bad)} bytes)"))
    return out


def run(res, workdir):
    """Adds one obligation to `res`; a disagreement is a fault of the machinery's trusted primitives, reported as such."""
    cs = cases()
    gen = os.path.join(workdir, 'gen_prims')
    os.makedirs(gen, exist_ok=True)
    L = ['(* GENERATED on every run by py/vlib/primcheck.py. Do not edit. *)',
         'From Coq Require Import String ZArith List. Import ListNotations.',
         'From Ubx Require Import Fields Base Checksum Frame ParserUbx ParserNmea CfgKeys Request PySem.',
         'Definition same (a b : pyval) : bool := match a, b with PNone, PNone => true | _, _ => py_eq a b end.',
         '']
    # long list literals type-check in superlinear time: shards of 200
    shards = [list(enumerate(cs))[k:k + 200] for k in range(0, len(cs), 200)]
    for n, sh_ in enumerate(shards):
        L.append(f'Definition cases_{n} : list (N * (pyval * pyval)) := [')
        L.append(';\n'.join(f'  ({k}%N, ({a}, {b}))' for k, (a, b, _) in sh_))
        L.append('].')
    L += ['Definition bad_of (cases : list (N * (pyval * pyval))) : list N := map fst (filter (fun c => negb (same (fst (snd c)) (snd (snd c)))) cases).',
          'Definition bad : list N := ' + ' ++ '.join(f'bad_of cases_{n}' for n in range(len(shards))) + '.',
          'Eval vm_compute in bad.',
          'Goal bad = []. Proof. vm_compute. reflexivity. Qed.']
    path = os.path.join(gen, 'PrimCases.v')
    with open(path, 'w') as fh:
        fh.write('\n'.join(L) + '\n')
    rc, out = C.coqc(path, gen)
    res.notes['pysem_primitive_cases'] = len(cs)
    detail = ''
    if rc:
        import re
        m = re.search(r'=\s*\[([^\]]*)\]', out)
        idx = [int(x.strip().split('%')[0]) for x in m.group(1).split(';') if x.strip()] if m else []
        detail = '; '.join(f'{cs[k][2]}: PySem gives something other than {cs[k][1]}' for k in idx[:8]) or out[-400:]
    res.oblige(f'PySem primitives = CPython on {len(cs)} fixed cases (int(a/b), f-strings, range, bit operations, comparisons, struct)', rc == 0, detail)
    if rc:
        # independent of /repo: a disagreement here is a fault of the machinery's trusted primitives, not of the library
        raise C.MachineryFault('PySem primitives disagree with CPython: ' + detail[:600])
    return True
