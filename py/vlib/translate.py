"""AST kernel translator (Tie B for code kernels): regenerates, from the Python source of /repo on every run,
Gallina definitions of the small integer/state-machine kernels

    Checksum.add / reset / matches / value            (checksum.py)
    UbxFrame.to_bytes / _calc_checksum                (frame.py)
    UbxParser._state_* / _reset / restart / _process_byte / process / packet / empty_queue / set_filter(s)
    NmeaParser._process_byte / _state_* / _reset / restart / _to_bin

into gen/Kernels.v. coq/bridge/BridgeKernels.v then proves them extensionally equal to the hand models.

Fail-closed: any construct outside the accepted subset ("KPy") raises TranslateError with a located message;
the caller records Tie B for kernels as unavailable and the verdict rests on Tie A. Nothing is guessed.
"""
import ast
import inspect
import textwrap


class TranslateError(Exception):
    pass


def err(node, msg):
    raise TranslateError(f'line {getattr(node, "lineno", "?")}: {msg}')


# --------------------------------------------------------------------------- expression translation
class Ctx:
    """Translation context of one class: attribute table and constant resolver."""

    def __init__(self, cls, attrs, enum=None, consts=None, methods=None, objs=None):
        self.cls = cls
        self.attrs = attrs            # python attribute -> (coq field, kind)  kind in N, bytes, enum, queue, filt, obj:<name>, optN
        self.enum = enum or {}        # enum member name -> coq constructor
        self.consts = consts or {}    # dotted python name -> coq literal
        self.methods = methods or {}  # method name -> coq function name (state -> args -> state)
        self.objs = objs or {}        # object kind -> {method: coq function}
        self.locals = {}
        self.num = 'N'                # 'Z': integer expressions are translated over Z (Python ints incl. negatives)


BINOPS = {ast.Add: 'N.add', ast.Sub: 'N.sub', ast.Mult: 'N.mul', ast.FloorDiv: 'N.div', ast.Mod: 'N.modulo',
          ast.BitAnd: 'N.land', ast.BitOr: 'N.lor', ast.BitXor: 'N.lxor', ast.LShift: 'N.shiftl', ast.RShift: 'N.shiftr'}
CMPOPS = {ast.Eq: 'N.eqb', ast.Lt: 'N.ltb', ast.LtE: 'N.leb'}
ZBINOPS = {ast.Add: 'Z.add', ast.Sub: 'Z.sub', ast.Mult: 'Z.mul', ast.FloorDiv: 'Z.div', ast.Mod: 'Z.modulo',
           ast.BitAnd: 'Z.land', ast.BitOr: 'Z.lor', ast.BitXor: 'Z.lxor', ast.LShift: 'Z.shiftl', ast.RShift: 'Z.shiftr'}


def dotted(node):
    if isinstance(node, ast.Name):
        return node.id
    if isinstance(node, ast.Attribute):
        b = dotted(node.value)
        return None if b is None else b + '.' + node.attr
    return None


def expr(ctx, e, want='N'):
    """Translate an expression of kind `want` (N, bool, bytes, enum) to a Coq term over state variable s."""
    if isinstance(e, ast.Constant):
        if isinstance(e.value, bool):
            return 'true' if e.value else 'false'
        if isinstance(e.value, int) and getattr(ctx, 'num', 'N') == 'Z':
            return f'({e.value})%Z'
        if isinstance(e.value, int) and e.value >= 0:
            return f'{e.value}'
        if isinstance(e.value, str) and len(e.value) == 1 and want == 'N':
            return f'{ord(e.value)}'       # single character compared with chr(d)
        err(e, f'constant {e.value!r} not supported')
    d = dotted(e)
    if d is not None:
        if d.startswith('self.') and d[5:] in ctx.attrs:
            return f'({ctx.attrs[d[5:]][0]} s)'
        if d in ctx.locals and not d.endswith('#kind'):
            return ctx.locals[d]
        if d in ctx.consts:
            return ctx.consts[d]
        for pre in ('__class__.State.', f'{ctx.cls}.State.'):
            if d.startswith(pre):
                m = d[len(pre):]
                if m in ctx.enum:
                    return ctx.enum[m]
                err(e, f'{d}: no such enum member (AttributeError at run time)')
        err(e, f'name {d} not supported')
    if isinstance(e, ast.BinOp) and type(e.op) in BINOPS:
        ops = ZBINOPS if getattr(ctx, 'num', 'N') == 'Z' else BINOPS
        return f'({ops[type(e.op)]} {expr(ctx, e.left)} {expr(ctx, e.right)})'
    if isinstance(e, ast.Compare) and len(e.ops) == 1:
        op, l, r = e.ops[0], e.left, e.comparators[0]
        kind = 'N'
        dl = dotted(l)
        if dl and dl.startswith('self.') and ctx.attrs.get(dl[5:], (None, None))[1] == 'enum':
            kind = 'enum'
        if kind == 'enum':
            if isinstance(op, ast.Eq):
                return f'(state_eqb {expr(ctx, l, "enum")} {expr(ctx, r, "enum")})'
            err(e, 'only == on states')
        if isinstance(op, ast.Eq):
            return f'(N.eqb {expr(ctx, l)} {expr(ctx, r)})'
        if isinstance(op, ast.NotEq):
            return f'(negb (N.eqb {expr(ctx, l)} {expr(ctx, r)}))'
        if isinstance(op, ast.Lt):
            return f'(N.ltb {expr(ctx, l)} {expr(ctx, r)})'
        if isinstance(op, ast.LtE):
            return f'(N.leb {expr(ctx, l)} {expr(ctx, r)})'
        if isinstance(op, ast.Gt):
            return f'(N.ltb {expr(ctx, r)} {expr(ctx, l)})'
        if isinstance(op, ast.GtE):
            return f'(N.leb {expr(ctx, r)} {expr(ctx, l)})'
        err(e, 'comparison not supported')
    if isinstance(e, ast.BoolOp):
        parts = [expr(ctx, v, 'bool') for v in e.values]
        op = 'andb' if isinstance(e.op, ast.And) else 'orb'
        out = parts[0]
        for p in parts[1:]:
            out = f'({op} {out} {p})'
        return out
    if isinstance(e, ast.UnaryOp) and isinstance(e.op, ast.Not):
        return f'(negb {expr(ctx, e.operand, "bool")})'
    if isinstance(e, ast.Call):
        f = dotted(e.func)
        # object method calls returning values
        if f and f.startswith('self.'):
            parts = f.split('.')
            if len(parts) == 3 and parts[1] in ctx.attrs and ctx.attrs[parts[1]][1].startswith('obj:'):
                ok = ctx.attrs[parts[1]][1][4:]
                m = ctx.objs.get(ok, {}).get(parts[2])
                if m and m[1] == 'value':
                    args = ' '.join(expr(ctx, a) for a in e.args)
                    return f'({m[0]} ({ctx.attrs[parts[1]][0]} s) {args})'.replace('  ', ' ')
        if f == 'len' and len(e.args) == 1:
            return f'(N.of_nat (List.length {expr(ctx, e.args[0], "bytes")}))'
        if f == 'ord' and len(e.args) == 1:
            return expr(ctx, e.args[0])
        err(e, f'call {f} not supported in an expression')
    err(e, f'expression {type(e).__name__} not supported')


# --------------------------------------------------------------------------- statement translation
def is_logging(stmt):
    """logger.xxx(...) calls and `if logger.isEnabledFor(...): <only logger calls>` are dropped."""
    if isinstance(stmt, ast.Expr) and isinstance(stmt.value, ast.Call):
        f = dotted(stmt.value.func)
        if f and f.startswith('logger.'):
            return True
    if isinstance(stmt, ast.If):
        t = stmt.test
        if isinstance(t, ast.Call) and dotted(t.func) == 'logger.isEnabledFor' and not stmt.orelse:
            return all(is_logging(b) for b in stmt.body)
    if isinstance(stmt, ast.Expr) and isinstance(stmt.value, ast.Constant) and isinstance(stmt.value.value, str):
        return True     # docstring
    if isinstance(stmt, ast.Pass):
        return True
    return False


def setter(ctx, attr, val):
    fld = ctx.attrs[attr][0]
    return f'set_{fld} s ({val})'


def stmts(ctx, body, k):
    """Translate a statement list; k = continuation term using state variable s. Returns a Coq term."""
    if not body:
        return k
    st, rest = body[0], body[1:]
    if is_logging(st):
        return stmts(ctx, rest, k)
    if isinstance(st, (ast.Assign, ast.AugAssign)):
        if isinstance(st, ast.Assign):
            if len(st.targets) != 1:
                err(st, 'multiple targets')
            tgt, val = st.targets[0], st.value
        else:
            tgt = st.target
            val = ast.BinOp(left=st.target, op=st.op, right=st.value)
            ast.copy_location(val, st)
        d = dotted(tgt)
        if d and d.startswith('self.') and d[5:] in ctx.attrs:
            attr = d[5:]
            kind = ctx.attrs[attr][1]
            if kind == 'bytes':
                if isinstance(val, ast.Call) and dotted(val.func) == 'bytearray' and not val.args:
                    v = '[]'
                else:
                    err(st, 'only bytearray() may be assigned to a buffer attribute')
            elif kind == 'enum':
                v = expr(ctx, val, 'enum')
            elif kind == 'N':
                v = expr(ctx, val)
            else:
                err(st, f'assignment to attribute of kind {kind} not supported')
            return f'(let s := {setter(ctx, attr, v)} in\n   {stmts(ctx, rest, k)})'
        if isinstance(tgt, ast.Tuple) and len(tgt.elts) == 2 and isinstance(val, ast.Call):
            # self.a, self.b = self.obj.value()
            f = dotted(val.func)
            parts = f.split('.') if f else []
            d0, d1 = dotted(tgt.elts[0]), dotted(tgt.elts[1])
            if (len(parts) == 3 and parts[0] == 'self' and parts[1] in ctx.attrs and ctx.attrs[parts[1]][1].startswith('obj:')
                    and d0 and d1 and d0.startswith('self.') and d1.startswith('self.') and d0[5:] in ctx.attrs and d1[5:] in ctx.attrs):
                m = ctx.objs.get(ctx.attrs[parts[1]][1][4:], {}).get(parts[2])
                if m and m[1] == 'pair':
                    v = f'({m[0]} ({ctx.attrs[parts[1]][0]} s))'
                    return (f'(let s := {setter(ctx, d0[5:], "fst " + v)} in\n   (let s := {setter(ctx, d1[5:], "snd " + v)} in\n   {stmts(ctx, rest, k)}))')
            err(st, 'tuple assignment not supported')
        if isinstance(tgt, ast.Name) and isinstance(val, ast.Call) and dotted(val.func) == 'bytearray':
            # local buffer: msg = bytearray([a, b, ...])
            if len(val.args) == 1 and isinstance(val.args[0], ast.List):
                v = '[' + '; '.join(expr(ctx, e_) for e_ in val.args[0].elts) + ']'
            elif not val.args:
                v = '[]'
            else:
                err(st, 'bytearray(...) form not supported')
            ctx.n_let = getattr(ctx, 'n_let', 0) + 1
            name = f'v__{tgt.id}_{ctx.n_let}'
            ctx.locals[tgt.id] = name
            ctx.locals[tgt.id + '#kind'] = 'bytes'
            return f'(let {name} := {v} in\n   {stmts(ctx, rest, k)})'
        if isinstance(tgt, ast.Name) and ctx.locals.get(tgt.id + '#kind') == 'bytes' and isinstance(st, ast.AugAssign) and isinstance(st.op, ast.Add):
            dv = dotted(st.value)
            if dv and dv.startswith('self.') and ctx.attrs.get(dv[5:], (0, 0))[1] == 'bytes':
                v = f'({ctx.locals[tgt.id]} ++ {ctx.attrs[dv[5:]][0]} s)'
                ctx.n_let = getattr(ctx, 'n_let', 0) + 1
                name = f'v__{tgt.id}_{ctx.n_let}'
                ctx.locals[tgt.id] = name
                return f'(let {name} := {v} in\n   {stmts(ctx, rest, k)})'
            err(st, 'buffer += of an unsupported value')
        if isinstance(tgt, ast.Name):
            # local: cid = UbxCID(a, b)  /  packet = (cid, self.msg_data)  /  crc_error_message = (self.crc_error_cid, None) / val = ...
            if isinstance(val, ast.Call) and dotted(val.func) == 'UbxCID' and len(val.args) == 2:
                v = f'({expr(ctx, val.args[0])}, {expr(ctx, val.args[1])})'
                ctx.n_let = getattr(ctx, 'n_let', 0) + 1
                name = f'v__{tgt.id}_{ctx.n_let}'
                ctx.locals[tgt.id] = name
                ctx.locals[tgt.id + '#kind'] = 'cid'
                return f'(let {name} := {v} in\n   {stmts(ctx, rest, k)})'
            if isinstance(val, ast.Tuple) and len(val.elts) == 2:
                a, b = val.elts
                da, db = dotted(a), dotted(b)
                if da in ctx.locals and ctx.locals.get(da + '#kind') == 'cid' and db and db.startswith('self.') and ctx.attrs.get(db[5:], (0, 0))[1] == 'bytes':
                    v = f'(Pkt (fst {ctx.locals[da]}) (snd {ctx.locals[da]}) {expr(ctx, b, "bytes")})'
                    ctx.n_let = getattr(ctx, 'n_let', 0) + 1
                    name = f'v__{tgt.id}_{ctx.n_let}'
                    ctx.locals[tgt.id] = name
                    return f'(let {name} := {v} in\n   {stmts(ctx, rest, k)})'
                if da == 'self.crc_error_cid' and isinstance(b, ast.Constant) and b.value is None:
                    ctx.locals[tgt.id] = 'CrcErr'
                    return stmts(ctx, rest, k)
                err(st, 'tuple not recognised as a queue entry')
            if isinstance(val, ast.Call) and dotted(val.func) in ('self._to_bin', f'{ctx.cls}._to_bin') and len(val.args) == 1:
                ctx.locals[tgt.id] = f'(g_to_bin {expr(ctx, val.args[0])})'
                ctx.locals[tgt.id + '#kind'] = 'optN'
                return stmts(ctx, rest, k)
            # bound with a Coq `let`: the value is that of the state at THIS point, later updates of the state must not reach it
            v = expr(ctx, val)
            ctx.n_let = getattr(ctx, 'n_let', 0) + 1
            name = f'v__{tgt.id}_{ctx.n_let}'
            ctx.locals[tgt.id] = name
            return f'(let {name} := {v} in\n   {stmts(ctx, rest, k)})'
        err(st, f'assignment target {ast.dump(tgt)[:60]} not supported')
    if isinstance(st, ast.For) and not st.orelse and isinstance(st.target, ast.Name):
        # for d in self.<bytes attr>: self.<obj>.<update>(d)
        it = dotted(st.iter)
        if it and it.startswith('self.') and ctx.attrs.get(it[5:], (0, 0))[1] == 'bytes' and len(st.body) == 1:
            saved = dict(ctx.locals)
            ctx.locals[st.target.id] = 'd__'
            inner = stmts(ctx, st.body, 's')
            ctx.locals = saved
            return (f'(let s := fold_left (fun s d__ => {inner}) ({ctx.attrs[it[5:]][0]} s) s in\n   {stmts(ctx, rest, k)})')
        err(st, 'for loop not supported')
    if isinstance(st, ast.Expr) and isinstance(st.value, ast.Call):
        c = st.value
        f = dotted(c.func)
        if f and '.' in f and f.split('.')[0] in ctx.locals and ctx.locals.get(f.split('.')[0] + '#kind') == 'bytes' and f.split('.')[1] == 'append' and len(c.args) == 1:
            nm = f.split('.')[0]
            v = f'({ctx.locals[nm]} ++ [{expr(ctx, c.args[0])}])'
            ctx.n_let = getattr(ctx, 'n_let', 0) + 1
            name = f'v__{nm}_{ctx.n_let}'
            ctx.locals[nm] = name
            return f'(let {name} := {v} in\n   {stmts(ctx, rest, k)})'
        if f and f.startswith('self.'):
            parts = f.split('.')
            if len(parts) == 2 and parts[1] in ctx.methods:
                args = ' '.join(expr(ctx, a) for a in c.args)
                return f'(let s := {ctx.methods[parts[1]]} s {args} in\n   {stmts(ctx, rest, k)})'.replace('s  in', 's in')
            if len(parts) == 3 and parts[1] in ctx.attrs:
                attr, meth = parts[1], parts[2]
                kind = ctx.attrs[attr][1]
                if kind == 'bytes' and meth == 'append' and len(c.args) == 1:
                    return f'(let s := {setter(ctx, attr, f"{ctx.attrs[attr][0]} s ++ [{expr(ctx, c.args[0])}]")} in\n   {stmts(ctx, rest, k)})'
                if kind == 'queue' and meth == 'append' and len(c.args) == 1:
                    a = c.args[0]
                    da = dotted(a)
                    if da in ctx.locals:
                        return f'(let s := {setter(ctx, attr, f"{ctx.attrs[attr][0]} s ++ [{ctx.locals[da]}]")} in\n   {stmts(ctx, rest, k)})'
                    err(st, 'queue.append of an unrecognised value')
                if kind == 'queue' and meth == 'clear' and not c.args:
                    return f'(let s := {setter(ctx, attr, "[]")} in\n   {stmts(ctx, rest, k)})'
                if kind.startswith('obj:'):
                    m = ctx.objs.get(kind[4:], {}).get(meth)
                    if m and m[1] == 'update':
                        args = ' '.join(expr(ctx, a) for a in c.args)
                        return f'(let s := {setter(ctx, attr, f"{m[0]} ({ctx.attrs[attr][0]} s) {args}".rstrip())} in\n   {stmts(ctx, rest, k)})'
                err(st, f'method {meth} on {attr} not supported')
        err(st, f'call statement {f} not supported')
    if isinstance(st, ast.If):
        test = st.test
        # `if self.wait_cids and cid in self.wait_cids`
        if isinstance(test, ast.BoolOp) and isinstance(test.op, ast.And) and len(test.values) == 2:
            a, b = test.values
            if dotted(a) == 'self.wait_cids' and isinstance(b, ast.Compare) and isinstance(b.ops[0], ast.In) \
                    and dotted(b.comparators[0]) == 'self.wait_cids' and dotted(b.left) in ctx.locals:
                t = f'(in_filter ({ctx.attrs["wait_cids"][0]} s) {ctx.locals[dotted(b.left)]})'
                return branch(ctx, st, t, rest, k)
        # `if val != -1:` on the result of _to_bin
        if isinstance(test, ast.Compare) and isinstance(test.left, ast.Name) and ctx.locals.get(test.left.id + '#kind') == 'optN':
            c = test.comparators[0]
            if isinstance(test.ops[0], ast.NotEq) and isinstance(c, ast.UnaryOp) and isinstance(c.op, ast.USub) and isinstance(c.operand, ast.Constant) and c.operand.value == 1:
                name = test.left.id
                saved = dict(ctx.locals)
                ctx.locals[name] = 'v__'
                ctx.locals[name + '#kind'] = 'N'
                kk = stmts(ctx, rest, k)
                tb = stmts(ctx, st.body, kk)
                ctx.locals = dict(saved)
                eb = stmts(ctx, st.orelse, stmts(ctx, rest, k))
                ctx.locals = saved
                return f'(match {saved[name]} with Some v__ =>\n   {tb}\n | None =>\n   {eb} end)'
        t = expr(ctx, test, 'bool')
        return branch(ctx, st, t, rest, k)
    if isinstance(st, ast.Return) and st.value is None:
        return 's'
    if isinstance(st, ast.Return) and isinstance(st.value, ast.Name) and ctx.locals.get(st.value.id + '#kind') == 'bytes':
        return f'({ctx.locals[st.value.id]}, s)'
    err(st, f'statement {type(st).__name__} not supported')


def branch(ctx, st, t, rest, k):
    saved = dict(ctx.locals)
    kk = stmts(ctx, rest, k)
    ctx.locals = dict(saved)
    tb = stmts(ctx, st.body, kk)
    ctx.locals = dict(saved)
    eb = stmts(ctx, st.orelse, kk)
    ctx.locals = saved
    return f'(if {t}\n   then {tb}\n   else {eb})'


def method_ast(cls, name):
    src = textwrap.dedent(inspect.getsource(getattr(cls, name)))
    fn = ast.parse(src).body[0]
    if not isinstance(fn, ast.FunctionDef):
        raise TranslateError(f'{cls.__name__}.{name}: not a plain function')
    if fn.decorator_list and not (len(fn.decorator_list) == 1 and dotted(fn.decorator_list[0]) == 'staticmethod'):
        raise TranslateError(f'{cls.__name__}.{name}: decorators not supported')
    return fn


def translate_method(ctx, cls, name, argnames=None):
    fn = method_ast(cls, name)
    args = [a.arg for a in fn.args.args if a.arg != 'self']
    if argnames is not None and len(args) != len(argnames):
        raise TranslateError(f'{cls.__name__}.{name}: expected {len(argnames)} argument(s), found {args}')
    ctx.locals = {a: a for a in args}
    body = stmts(ctx, fn.body, 's')
    return args, body


# --------------------------------------------------------------------------- the kernels
def emit_kernels_v(path, parts=('ck', 'ubx', 'nmea')):
    from ubxlib.checksum import Checksum
    from ubxlib.frame import UbxFrame
    from ubxlib.parser_nmea import NmeaParser
    from ubxlib.parser_ubx import UbxParser
    L = ['(* GENERATED on every run by py/vlib/translate.py from the Python source in /repo. Do not edit. *)',
         'From Ubx Require Import Fields Base Checksum ParserUbx ParserNmea.', 'Open Scope N_scope.', '']

    if 'ck' in parts:
        # ---- Checksum: state = (cka, ckb)
        L += ['Record gck := mkGck { g_cka : N; g_ckb : N }.',
              'Definition set_g_cka (s : gck) v := mkGck v (g_ckb s).',
              'Definition set_g_ckb (s : gck) v := mkGck (g_cka s) v.']
        cctx = Ctx('Checksum', {'_cka': ('g_cka', 'N'), '_ckb': ('g_ckb', 'N')})
        args, body = translate_method(cctx, Checksum, 'add', ['byte'])
        L.append(f'Definition g_ck_add (s : gck) ({args[0]} : N) : gck :=\n  {body}.')
        args, body = translate_method(cctx, Checksum, 'reset', [])
        L.append(f'Definition g_ck_reset (s : gck) : gck :=\n  {body}.')
        fn = method_ast(Checksum, 'matches')
        if len(fn.body) != 1 or not isinstance(fn.body[0], ast.Return):
            raise TranslateError('Checksum.matches: expected a single return')
        margs = [a.arg for a in fn.args.args if a.arg != 'self']
        cctx.locals = {a: a for a in margs}
        L.append(f'Definition g_ck_matches (s : gck) ({" ".join(margs)} : N) : bool :=\n  {expr(cctx, fn.body[0].value, "bool")}.')
        fn = method_ast(Checksum, 'value')
        rv = fn.body[0].value if len(fn.body) == 1 and isinstance(fn.body[0], ast.Return) else None
        if not (isinstance(rv, ast.Tuple) and len(rv.elts) == 2):
            raise TranslateError('Checksum.value: expected `return a, b`')
        cctx.locals = {}
        L.append(f'Definition g_ck_value (s : gck) : N * N := ({expr(cctx, rv.elts[0])}, {expr(cctx, rv.elts[1])}).')
        L.append('')

    if 'ubx' not in parts:
        return finish_(path, L, parts)
    return emit_rest_(path, L, parts, UbxFrame, UbxParser, NmeaParser)


def emit_rest_(path, L, parts, UbxFrame, UbxParser, NmeaParser):
    # ---- UbxParser
    members = {m.name: m.name for m in UbxParser.State}
    order = ['INIT', 'SYNC', 'CLASS', 'ID', 'LEN1', 'LEN2', 'DATA', 'CRC1', 'CRC2']
    if sorted(members) != sorted(order):
        raise TranslateError(f'UbxParser.State members changed: {sorted(members)}')
    L += ['Definition state_eqb (a b : pstate) : bool :=',
          '  match a, b with',
          '  | INIT, INIT | SYNC, SYNC | CLASS, CLASS | ID, ID | LEN1, LEN1 | LEN2, LEN2 | DATA, DATA | CRC1, CRC1 | CRC2, CRC2 => true',
          '  | _, _ => false end.',
          'Record gparser := mkGP { gp_state : pstate; gp_cls : N; gp_id : N; gp_len : N; gp_data : bytes; gp_cka : N; gp_ckb : N;',
          '  gp_ofs : N; gp_ck : gck; gp_queue : list pkt; gp_rx : N; gp_filt : option (list cid) }.']
    flds = ['gp_state', 'gp_cls', 'gp_id', 'gp_len', 'gp_data', 'gp_cka', 'gp_ckb', 'gp_ofs', 'gp_ck', 'gp_queue', 'gp_rx', 'gp_filt']
    for f in flds:
        L.append(f'Definition set_{f} (s : gparser) v := mkGP ' + ' '.join('v' if g == f else f'({g} s)' for g in flds) + '.')
    pctx = Ctx('UbxParser',
               {'state': ('gp_state', 'enum'), 'msg_class': ('gp_cls', 'N'), 'msg_id': ('gp_id', 'N'), 'msg_len': ('gp_len', 'N'),
                'msg_data': ('gp_data', 'bytes'), 'cka': ('gp_cka', 'N'), 'ckb': ('gp_ckb', 'N'), 'ofs': ('gp_ofs', 'N'),
                'checksum': ('gp_ck', 'obj:ck'), 'rx_queue': ('gp_queue', 'queue'), 'frames_rx': ('gp_rx', 'N'),
                'wait_cids': ('gp_filt', 'filt')},
               enum={m: m for m in order},
               consts={'UbxFrame.SYNC_1': str(UbxFrame.SYNC_1), 'UbxFrame.SYNC_2': str(UbxFrame.SYNC_2),
                       '__class__.MAX_MESSAGE_LENGTH': str(UbxParser.MAX_MESSAGE_LENGTH),
                       'UbxParser.MAX_MESSAGE_LENGTH': str(UbxParser.MAX_MESSAGE_LENGTH)},
               methods={'_reset': 'g_reset'},
               objs={'ck': {'add': ('g_ck_add', 'update'), 'reset': ('g_ck_reset', 'update'), 'matches': ('g_ck_matches', 'value')}})
    args, body = translate_method(pctx, UbxParser, '_reset', [])
    L.append(f'Definition g_reset (s : gparser) : gparser :=\n  {body}.')
    args, body = translate_method(pctx, UbxParser, 'restart', [])
    L.append(f'Definition g_restart (s : gparser) : gparser :=\n  {body}.')
    handlers = {}
    for st_name, meth in [('INIT', '_state_init'), ('SYNC', '_state_sync'), ('CLASS', '_state_class'), ('ID', '_state_id'),
                          ('LEN1', '_state_len1'), ('LEN2', '_state_len2'), ('DATA', '_state_data'), ('CRC1', '_state_crc1'),
                          ('CRC2', '_state_crc2')]:
        args, body = translate_method(pctx, UbxParser, meth, ['d'])
        L.append(f'Definition g{meth} (s : gparser) ({args[0]} : N) : gparser :=\n  {body}.')
        handlers[st_name] = 'g' + meth
        pctx.methods[meth] = 'g' + meth
    # _process_byte: must be the if/elif chain over the nine states calling the matching handler
    args, body = translate_method(pctx, UbxParser, '_process_byte', ['data'])
    L.append(f'Definition g_process_byte (s : gparser) ({args[0]} : N) : gparser :=\n  {body}.')
    fn = method_ast(UbxParser, 'process')
    ok = (len(fn.body) == 1 and isinstance(fn.body[0], ast.For) and dotted(fn.body[0].iter) == fn.args.args[1].arg
          and len(fn.body[0].body) == 1 and isinstance(fn.body[0].body[0], ast.Expr)
          and dotted(fn.body[0].body[0].value.func) == 'self._process_byte' and not fn.body[0].orelse)
    if not ok:
        raise TranslateError('UbxParser.process: body must be exactly `for d in data: self._process_byte(d)`')
    L.append('Definition g_process (s : gparser) (data : bytes) : gparser := fold_left g_process_byte data s.')
    args, body = translate_method(pctx, UbxParser, 'empty_queue', [])
    L.append(f'Definition g_empty_queue (s : gparser) : gparser :=\n  {body}.')
    L.append('')

    return finish_(path, L, parts)


def emit_nmea_(L, NmeaParser):
    # ---- NmeaParser
    nmembers = sorted(m.name for m in NmeaParser.State)
    if nmembers != sorted(['WAIT_SYNC', 'DATA', 'CHKSUM1', 'CHKSUM2', 'LINEEND']):
        raise TranslateError(f'NmeaParser.State members changed: {nmembers}')
    L += ['Definition nstate_eqb (a b : nstate) : bool :=',
          '  match a, b with WAIT_SYNC, WAIT_SYNC | NDATA, NDATA | CHKSUM1, CHKSUM1 | CHKSUM2, CHKSUM2 | LINEEND, LINEEND => true | _, _ => false end.',
          'Record gnmea := mkGN { gn_state : nstate; gn_chk : N; gn_xor : N; gn_rx : N }.']
    nfl = ['gn_state', 'gn_chk', 'gn_xor', 'gn_rx']
    for f in nfl:
        L.append(f'Definition set_{f} (s : gnmea) v := mkGN ' + ' '.join('v' if g == f else f'({g} s)' for g in nfl) + '.')
    # _to_bin: `if data in '<hexdigits>': return int(data, 16) else: ... return -1`
    fn = method_ast(NmeaParser, '_to_bin')
    body_ = [b for b in fn.body if not is_logging(b)]
    okb = (len(body_) == 1 and isinstance(body_[0], ast.If) and isinstance(body_[0].test, ast.Compare)
           and isinstance(body_[0].test.ops[0], ast.In) and isinstance(body_[0].test.comparators[0], ast.Constant)
           and isinstance(body_[0].test.comparators[0].value, str))
    if not okb:
        raise TranslateError('NmeaParser._to_bin: expected `if data in "<digits>": return int(data, 16) else: return -1`')
    digits = body_[0].test.comparators[0].value
    tb = [b for b in body_[0].body if not is_logging(b)]
    eb = [b for b in body_[0].orelse if not is_logging(b)]
    if not (len(tb) == 1 and isinstance(tb[0], ast.Return) and isinstance(tb[0].value, ast.Call) and dotted(tb[0].value.func) == 'int'
            and len(tb[0].value.args) == 2 and isinstance(tb[0].value.args[1], ast.Constant) and tb[0].value.args[1].value == 16
            and len(eb) == 1 and isinstance(eb[0], ast.Return) and isinstance(eb[0].value, ast.UnaryOp)):
        raise TranslateError('NmeaParser._to_bin: return statements not recognised')
    if any(ch not in '0123456789abcdefABCDEF' for ch in digits):
        raise TranslateError('NmeaParser._to_bin: digit string contains a non-hex character (int(x, 16) would raise)')
    table = '; '.join(f'({ord(ch)}, {int(ch, 16)})' for ch in digits)
    L.append(f'Definition g_digit_table : list (N * N) := [{table}].')
    L.append('Fixpoint g_lookup (t : list (N * N)) (d : N) : option N := match t with [] => None | (k, v) :: r => if N.eqb k d then Some v else g_lookup r d end.')
    L.append('Definition g_to_bin (d : N) : option N := g_lookup g_digit_table d.')
    nctx = Ctx('NmeaParser',
               {'state': ('gn_state', 'enum'), 'checksum': ('gn_chk', 'N'), 'checksum_data': ('gn_xor', 'N'), 'frames_rx': ('gn_rx', 'N')},
               enum={'WAIT_SYNC': 'WAIT_SYNC', 'DATA': 'NDATA', 'CHKSUM1': 'CHKSUM1', 'CHKSUM2': 'CHKSUM2', 'LINEEND': 'LINEEND'},
               methods={'_reset': 'gn_reset'})
    nctx.state_eqb = 'nstate_eqb'
    # msg_data (the text) is only logged: assignments to it are dropped
    def strip_text(fn_):
        class T(ast.NodeTransformer):
            def visit_Assign(self, node):
                if dotted(node.targets[0]) == 'self.msg_data':
                    return ast.Pass()
                return node

            def visit_AugAssign(self, node):
                if dotted(node.target) == 'self.msg_data':
                    return ast.Pass()
                return node
        return T().visit(fn_)

    def tr(meth, argn):
        fn_ = strip_text(method_ast(NmeaParser, meth))
        a = [x.arg for x in fn_.args.args if x.arg != 'self']
        if len(a) != len(argn):
            raise TranslateError(f'NmeaParser.{meth}: arguments {a}')
        nctx.locals = {x: x for x in a}
        return a, stmts(nctx, fn_.body, 's')
    a, body = tr('_reset', [])
    L.append(f'Definition gn_reset (s : gnmea) : gnmea :=\n  {body}.')
    a, body = tr('restart', [])
    L.append(f'Definition gn_restart (s : gnmea) : gnmea :=\n  {body}.')
    for meth in ['_state_wait_sync', '_state_data', '_state_checksum1', '_state_checksum2', '_state_lineend']:
        a, body = tr(meth, ['d'])
        L.append(f'Definition gn{meth} (s : gnmea) ({a[0]} : N) : gnmea :=\n  {body}.')
        nctx.methods[meth] = 'gn' + meth
    a, body = tr('_process_byte', ['data'])
    L.append(f'Definition gn_process_byte (s : gnmea) ({a[0]} : N) : gnmea :=\n  {body}.')
    fn = method_ast(NmeaParser, 'process')
    okp = (len(fn.body) == 1 and isinstance(fn.body[0], ast.For) and len(fn.body[0].body) == 2)
    if okp:
        b0, b1 = fn.body[0].body
        okp = (isinstance(b0, ast.Assign) and isinstance(b0.value, ast.Call) and dotted(b0.value.func) == 'chr'
               and isinstance(b1, ast.Expr) and dotted(b1.value.func) == 'self._process_byte')
    if not okp:
        raise TranslateError('NmeaParser.process: body must be `for d in data: char = chr(d); self._process_byte(char)`')
    L.append('Definition gn_process (s : gnmea) (data : bytes) : gnmea := fold_left gn_process_byte data s.')


def emit_frame_(L):
    from ubxlib.frame import UbxFrame
    L += ['Record gframe := mkGF { gf_cls : N; gf_id : N; gf_data : bytes; gf_ck : gck; gf_cka : N; gf_ckb : N }.']
    ff = ['gf_cls', 'gf_id', 'gf_data', 'gf_ck', 'gf_cka', 'gf_ckb']
    for f in ff:
        L.append(f'Definition set_{f} (s : gframe) v := mkGF ' + ' '.join('v' if g == f else f'({g} s)' for g in ff) + '.')
    fctx = Ctx('UbxFrame', {'CID.cls': ('gf_cls', 'N'), 'CID.id': ('gf_id', 'N'), 'data': ('gf_data', 'bytes'),
                            'checksum': ('gf_ck', 'obj:ck'), 'cka': ('gf_cka', 'N'), 'ckb': ('gf_ckb', 'N')},
               consts={'UbxFrame.SYNC_1': str(UbxFrame.SYNC_1), 'UbxFrame.SYNC_2': str(UbxFrame.SYNC_2)},
               methods={'_calc_checksum': 'g_calc_checksum'},
               objs={'ck': {'add': ('g_ck_add', 'update'), 'reset': ('g_ck_reset', 'update'), 'value': ('g_ck_value', 'pair')}})
    args, body = translate_method(fctx, UbxFrame, '_calc_checksum', [])
    L.append(f'Definition g_calc_checksum (s : gframe) : gframe :=\n  {body}.')
    args, body = translate_method(fctx, UbxFrame, 'to_bytes', [])
    if not body.rstrip(')').rstrip().endswith('s') or ', s)' not in body:
        raise TranslateError('UbxFrame.to_bytes: must end with `return <local buffer>`')
    L.append(f'Definition g_to_bytes (s : gframe) : bytes * gframe :=\n  {body}.')
    L.append('')


def emit_cfgkeys_(L):
    """CfgKeyData static helpers: _bits_from_key, _group_from_key, _item_from_key, _bytes_for_size, _build_header."""
    from ubxlib.cfgkeys import CfgKeyData
    sfb, bfs, bfb = CfgKeyData.SIZE_FROM_BITS, CfgKeyData.BITS_FROM_SIZE, CfgKeyData.BYTES_FROM_BITS
    if not (isinstance(sfb, dict) and isinstance(bfs, list) and isinstance(bfb, dict)):
        raise TranslateError('CfgKeyData size tables changed shape')
    L.append('Definition gk_size_from_bits : list (Z * Z) := [' + '; '.join(f'(({k})%Z, ({v})%Z)' for k, v in sfb.items()) + '].')
    L.append('Definition gk_bits_from_size : list Z := [' + '; '.join(f'({v})%Z' for v in bfs) + '].')
    L.append('Definition gk_bytes_from_bits : list (Z * Z) := [' + '; '.join(f'(({k})%Z, ({v})%Z)' for k, v in bfb.items()) + '].')
    L.append('Fixpoint gk_assoc (t : list (Z * Z)) (k : Z) : option Z := match t with [] => None | (a, b) :: r => if Z.eqb a k then Some b else gk_assoc r k end.')
    ctx = Ctx('CfgKeyData', {})
    ctx.num = 'Z'

    def simple(meth, tbl=None):
        fn = method_ast(CfgKeyData, meth)
        args = [a.arg for a in fn.args.args]
        ctx.locals = {a: a for a in args}
        body = [b for b in fn.body if not is_logging(b)]
        return fn, args, body
    # _group_from_key / _item_from_key: `return <expr>`
    for meth in ('_group_from_key', '_item_from_key'):
        fn, args, body = simple(meth)
        if not (len(args) == 1 and len(body) == 1 and isinstance(body[0], ast.Return)):
            raise TranslateError(f'CfgKeyData.{meth}: expected a single return')
        L.append(f'Definition gk{meth} ({args[0]} : Z) : Z := {expr(ctx, body[0].value)}.')
    # _bits_from_key: size = <expr>; return CfgKeyData.BITS_FROM_SIZE[size]
    fn, args, body = simple('_bits_from_key')
    okb = (len(args) == 1 and len(body) == 2 and isinstance(body[0], ast.Assign) and isinstance(body[0].targets[0], ast.Name)
           and isinstance(body[1], ast.Return) and isinstance(body[1].value, ast.Subscript)
           and dotted(body[1].value.value) == 'CfgKeyData.BITS_FROM_SIZE' and dotted(body[1].value.slice) == body[0].targets[0].id)
    if not okb:
        raise TranslateError('CfgKeyData._bits_from_key: expected `size = <expr>; return CfgKeyData.BITS_FROM_SIZE[size]`')
    L.append(f'Definition gk_bits_from_key ({args[0]} : Z) : option Z := nth_error gk_bits_from_size (Z.to_nat {expr(ctx, body[0].value)}).   (* None = IndexError *)')
    # _bytes_for_size: if bits in TABLE: return TABLE[bits] else: raise ValueError
    fn, args, body = simple('_bytes_for_size')
    okc = (len(args) == 1 and len(body) == 1 and isinstance(body[0], ast.If) and isinstance(body[0].test, ast.Compare)
           and isinstance(body[0].test.ops[0], ast.In) and dotted(body[0].test.comparators[0]) == 'CfgKeyData.BYTES_FROM_BITS'
           and len(body[0].body) == 1 and isinstance(body[0].body[0], ast.Return) and isinstance(body[0].body[0].value, ast.Subscript)
           and dotted(body[0].body[0].value.value) == 'CfgKeyData.BYTES_FROM_BITS'
           and len(body[0].orelse) == 1 and isinstance(body[0].orelse[0], ast.Raise) and dotted(body[0].orelse[0].exc) == 'ValueError')
    if not okc:
        raise TranslateError('CfgKeyData._bytes_for_size: shape not recognised')
    L.append(f'Definition gk_bytes_for_size ({args[0]} : Z) : option Z := gk_assoc gk_bytes_from_bits {args[0]}.   (* None = ValueError *)')
    # _build_header: try: size = SIZE_FROM_BITS[bits] except KeyError: raise ValueError; header = ...; header |= ...; return header
    fn, args, body = simple('_build_header')
    okd = (len(args) == 3 and len(body) >= 3 and isinstance(body[0], ast.Try) and len(body[0].body) == 1 and isinstance(body[0].body[0], ast.Assign)
           and isinstance(body[0].body[0].value, ast.Subscript) and dotted(body[0].body[0].value.value) == 'CfgKeyData.SIZE_FROM_BITS'
           and dotted(body[0].body[0].value.slice) == args[2] and len(body[0].handlers) == 1 and dotted(body[0].handlers[0].type) == 'KeyError'
           and len(body[0].handlers[0].body) == 1 and isinstance(body[0].handlers[0].body[0], ast.Raise)
           and dotted(body[0].handlers[0].body[0].exc) == 'ValueError' and isinstance(body[-1], ast.Return))
    if not okd:
        raise TranslateError('CfgKeyData._build_header: shape not recognised')
    szname = body[0].body[0].targets[0].id
    ctx.locals[szname] = 'size__'
    for st in body[1:-1]:
        if isinstance(st, ast.Assign) and isinstance(st.targets[0], ast.Name):
            ctx.locals[st.targets[0].id] = expr(ctx, st.value)
        elif isinstance(st, ast.AugAssign) and isinstance(st.target, ast.Name) and type(st.op) in ZBINOPS:
            ctx.locals[st.target.id] = f'({ZBINOPS[type(st.op)]} {ctx.locals[st.target.id]} {expr(ctx, st.value)})'
        else:
            raise TranslateError('CfgKeyData._build_header: statement not supported')
    L.append(f'Definition gk_build_header ({args[0]} {args[1]} {args[2]} : Z) : option Z :=   (* None = ValueError *)\n  match gk_assoc gk_size_from_bits {args[2]} with Some size__ => Some {expr(ctx, body[-1].value)} | None => None end.')
    L.append('')


def finish_(path, L, parts):
    if 'cfgkeys' in parts:
        emit_cfgkeys_(L)
    if 'frame' in parts:
        emit_frame_(L)
    if 'nmea' in parts:
        from ubxlib.parser_nmea import NmeaParser
        emit_nmea_(L, NmeaParser)
    text = '\n'.join(L) + '\n'
    text = text.replace('(state_eqb (gn_state s)', '(nstate_eqb (gn_state s)')
    with open(path, 'w') as fh:
        fh.write(text)
    return text
