"""Reflective table extractor (Tie B): reads from the *imported* ubxlib of /repo's working tree the
tables the library itself packs and unpacks with, and emits them (a) for the harness and (b) as a
regenerated Coq file gen/Tables.v over which the per-run obligations are re-checked.

Fail-closed: anything irregular raises ReflectError (reported as a broken Tie B, never guessed).
"""
import importlib
import inspect
import pkgutil


class ReflectError(Exception):
    pass


TYPE_TOKENS = {'U1': 'U1', 'U2': 'U2', 'U4': 'U4', 'I1': 'I1', 'I2': 'I2', 'I4': 'I4',
               'X1': 'X1', 'X2': 'X2', 'X4': 'X4'}


def item_token(item):
    """Type token of a types.Item instance, derived from its struct format (not its class name),
    so subclasses (U1_GnssId, X4_Flags ...) and renamed classes are seen as what they pack."""
    from ubxlib import types as T
    from ubxlib.cfgkeys import CfgKeyData
    if isinstance(item, CfgKeyData):
        return 'CFG'
    if isinstance(item, T.Padding):
        return f'P{item.length}'
    if isinstance(item, T.CH):
        return f'C{item.length}'
    fmt = item.fmt
    hexed = hasattr(item, 'fmt_string')
    table = {'B': ('U1', 'X1'), 'H': ('U2', 'X2'), 'I': ('U4', 'X4'), 'b': ('I1', 'I1'), 'h': ('I2', 'I2'), 'i': ('I4', 'I4')}
    if fmt not in table:
        raise ReflectError(f'unknown struct format {fmt!r} in field {item.name}')
    return table[fmt][1 if hexed else 0]


def fields_layout(frame):
    fs = frame.f._fields
    items = sorted(fs.values(), key=lambda it: it.order)
    for name, it in fs.items():
        if it.name != name:
            raise ReflectError(f'field registered as {name!r} is named {it.name!r}')
        if not all(ch.isalnum() or ch == '_' for ch in name):
            raise ReflectError(f'field name {name!r} not representable')
    return [(it.name, item_token(it)) for it in items]


def width(tok):
    return int(tok[1:]) if tok != 'CFG' else 0


def all_frame_classes():
    import ubxlib
    from ubxlib.frame import UbxFrame
    out = {}
    for m in pkgutil.iter_modules(ubxlib.__path__):
        if not m.name.startswith('ubx_'):
            continue
        mod = importlib.import_module('ubxlib.' + m.name)
        for n, c in inspect.getmembers(mod, inspect.isclass):
            # private helper bases (leading underscore) are not message types of the library
            if issubclass(c, UbxFrame) and c is not UbxFrame and c.__module__ == mod.__name__ and not n.startswith('_'):
                out[n] = c
    return out


def layout_str(l):
    return ','.join(f'{n}:{t}' for n, t in l) if l else '-'


def probe_counted(cls):
    """Infer (hdr, count field, max, block template) of a class whose unpack() builds its field
    list from a count byte: decode all-zero payloads, flip one header byte at a time."""
    big = 4096
    f0 = cls.construct(bytearray(big))
    hdr = fields_layout(f0)
    off = 0
    found = None
    for name, tok in hdr:
        if tok in ('U1',):
            p = bytearray(big)
            p[off] = 2
            try:
                f2 = cls.construct(p)
                l2 = fields_layout(f2)
            except Exception:
                l2 = None
            if l2 is not None and len(l2) > len(hdr):
                if found:
                    raise ReflectError(f'{cls.__name__}: two count fields')
                found = (name, off, l2)
        off += width(tok)
    if not found:
        raise ReflectError(f'{cls.__name__}: no count field found')
    cname, coff, l2 = found
    if l2[:len(hdr)] != hdr or (len(l2) - len(hdr)) % 2:
        raise ReflectError(f'{cls.__name__}: irregular block structure')
    per = (len(l2) - len(hdr)) // 2
    blk0, blk1 = l2[len(hdr):len(hdr) + per], l2[len(hdr) + per:]
    tmpl = []
    for (n0, t0), (n1, t1) in zip(blk0, blk1):
        if not (n0.endswith('_0') and n1.endswith('_1') and n0[:-2] == n1[:-2] and t0 == t1):
            raise ReflectError(f'{cls.__name__}: block fields {n0}/{n1} irregular')
        tmpl.append((n0[:-2], t0))
    # maximum count (assert in the code) and regularity for further counts
    maxc = None
    for c in list(range(0, 12)) + [16, 17, 63, 64, 127, 128, 254, 255]:
        p = bytearray(big)
        p[coff] = c
        try:
            lc = fields_layout(cls.construct(p))
        except AssertionError:
            if maxc is None:
                maxc = c - 1
            continue
        if maxc is not None:
            raise ReflectError(f'{cls.__name__}: count {c} accepted above the maximum {maxc}')
        exp = hdr + [(f'{n}_{k}', t) for k in range(c) for n, t in tmpl]
        if lc != exp:
            raise ReflectError(f'{cls.__name__}: layout for count {c} is irregular')
    if maxc is not None:
        # the maximum is the largest accepted count below the first rejected one; verify densely
        for c in range(0, 256):
            p = bytearray(big)
            p[coff] = c
            try:
                cls.construct(p)
                ok = True
            except AssertionError:
                ok = False
            if ok != (c <= maxc):
                raise ReflectError(f'{cls.__name__}: acceptance of count {c} irregular')
    return hdr, cname, maxc, tmpl


def probe_monver(cls):
    for n in (40, 69, 70, 99, 100, 130, 400):
        l = fields_layout(cls.construct(bytearray(n)))
        exp = [('swVersion', 'C30'), ('hwVersion', 'C10')] + [(f'extension_{i}', 'C30') for i in range((n - 40) // 30)]
        if l != exp:
            return False
    return True


REFLECT_FALLBACK = []


def pinned_dynamic():
    import json
    import os
    with open(os.path.join(os.path.dirname(os.path.abspath(__file__)), 'pinned_dynamic_kinds.json')) as fh:
        return json.load(fh)


def message_table():
    """name -> dict(cls, cid, NAME, kind, kindspec (driver token), layouts...)"""
    from ubxlib.frame import UbxFrame
    table = {}
    del REFLECT_FALLBACK[:]
    for n, cls in sorted(all_frame_classes().items()):
        entry = {'cls': cls, 'cid': (cls.CID.cls, cls.CID.id), 'NAME': cls.NAME, 'pyname': n}
        try:
            sig = inspect.signature(cls.__init__)
            needs_args = len([p for p in sig.parameters.values() if p.default is p.empty and p.name != 'self']) > 0
        except (TypeError, ValueError):
            needs_args = False
        if needs_args:
            entry['kind'] = 'ctor-args'      # VALGET poll / VALSET: covered by the cfg-key suites
            table[n] = entry
            continue
        dynamic = cls.unpack is not UbxFrame.unpack
        if not dynamic:
            fr = cls()
            l = fields_layout(fr)
            entry.update(kind='fixed', layout=l, kindspec='F/' + layout_str(l))
        elif n == 'UbxCfgValGet':
            entry.update(kind='valget', kindspec='G')
        else:
            try:
                if probe_monver(cls):
                    entry.update(kind='monver', kindspec='V')
                    table[n] = entry
                    continue
            except Exception:
                pass
            try:
                hdr, cname, maxc, tmpl = probe_counted(cls)
                entry.update(kind='counted', hdr=hdr, count=cname, maxc=maxc, blk=tmpl,
                             kindspec=f'K/{layout_str(hdr)}/{cname}/{maxc if maxc is not None else "-"}/{layout_str(tmpl)}')
            except Exception as e:      # noqa
                # the probing does not recognise how this class builds its field list any more: Tie B is unavailable for
                # it; fall back to the shape it has on the pinned tree, so that Tie A still compares every decode with it
                pin = pinned_dynamic().get(n)
                if pin is None:
                    raise
                entry.update({k: ([tuple(x) for x in v] if isinstance(v, list) else v) for k, v in pin.items()})
                REFLECT_FALLBACK.append(f'{n}: {type(e).__name__}: {e}')
        table[n] = entry
    return table


def key_tables():
    from ubxlib.cfgkeys import CfgKeyData, UbxKeyId
    consts = {k: v for k, v in vars(UbxKeyId).items() if k.startswith('CFG_') and isinstance(v, int)}
    info = UbxKeyId.KEY_INFO
    signed = sorted(k for k, v in info.items() if v.signed)
    return {'consts': consts, 'info_keys': sorted(info), 'signed': signed,
            'names': {k: v.name for k, v in info.items()},
            'SIZE_FROM_BITS': dict(CfgKeyData.SIZE_FROM_BITS), 'BITS_FROM_SIZE': list(CfgKeyData.BITS_FROM_SIZE),
            'BYTES_FROM_BITS': dict(CfgKeyData.BYTES_FROM_BITS)}


def constants():
    from ubxlib.frame import UbxFrame
    from ubxlib.parser_ubx import UbxParser
    out = {'SYNC_1': UbxFrame.SYNC_1, 'SYNC_2': UbxFrame.SYNC_2,
           'MAX_MESSAGE_LENGTH': UbxParser.MAX_MESSAGE_LENGTH}
    return out


RCLS = {'U1_LeverArmType': 'lever', 'U1_GnssId': 'gnssid', 'X4_Flags': 'flagsen', 'X2_Proto': 'proto', 'X4_Mode': 'mode',
        'U1_Flags': 'algflags', 'X1_InitStatus1': 'init1', 'X1_InitStatus2': 'init2', 'U1_FusionMode': 'fusion',
        'X1_SensStatus1': 'sens1', 'X1_SensStatus2': 'sens2', 'U1_GpsFix': 'gpsfix', 'X1_Flags': 'navflags'}


def rcls_of(item):
    """Renderer class token of a field object (fail-closed on unknown custom __str__)."""
    from ubxlib import types as T
    cls = type(item)
    if cls.__str__ is T.Item.__str__:
        return 'hex' if hasattr(item, 'fmt_string') else 'plain'
    if cls.__name__ in RCLS:
        return RCLS[cls.__name__]
    raise ReflectError(f'unknown renderer class {cls.__name__}')


# table names the render model (coq/model/Render.v) looks up, with their lengths on the pinned tree: used only when the
# reflective extraction below does not find a table (renderer restructured beyond what it understands) - Tie B is then
# unavailable for that table and Tie A compares the renderer with the pinned lengths
PINNED_RENDER_TABLES = {'calib_strings': 4, 'fusion_mode_strings': 4, 'gnss_system_names': 8, 'gps_fix_strings': 6, 'imu_init_strings': 4,
                        'ins_init_strings': 4, 'mnt_alg_strings': 8, 'sensor_types': 19, 'status_strings': 8, 'time_strings': 4, 'type_names': 5,
                        'wt_init_strings': 4, 'charlen_str': 4, 'parity_str': 8, 'stopbits_str': 4}
RENDER_FALLBACK = []


def render_tables():
    """Lengths of the lookup tables used by the table-driven renderers: class-level list/tuple attributes of
    Item subclasses and list/tuple literals assigned inside their methods (AST). Names are compared without leading
    underscores and case."""
    import ast
    import inspect as ins
    import textwrap
    import ubxlib
    from ubxlib import types as T
    out = {}

    def put(an, n):
        an = an.lstrip('_').lower()
        if an in out and out[an] != n:
            raise ReflectError(f'table name {an} defined twice with different lengths')
        out[an] = n
    for m in pkgutil.iter_modules(ubxlib.__path__):
        if not m.name.startswith('ubx_'):
            continue
        mod = importlib.import_module('ubxlib.' + m.name)
        for n, c in ins.getmembers(mod, ins.isclass):
            if not (issubclass(c, T.Item) and c.__module__ == mod.__name__):
                continue
            for an, av in vars(c).items():
                if isinstance(av, (list, tuple)) and av and all(isinstance(x, str) for x in av):
                    put(an, len(av))
            for fn_name, fn in vars(c).items():
                if not ins.isfunction(fn):
                    continue
                try:
                    tree = ast.parse(textwrap.dedent(ins.getsource(fn)))
                except (OSError, SyntaxError):
                    continue
                for node in ast.walk(tree):
                    if isinstance(node, ast.Assign) and isinstance(node.value, (ast.List, ast.Tuple)) and len(node.targets) == 1 \
                            and isinstance(node.targets[0], ast.Name) and node.value.elts \
                            and all(isinstance(e, ast.Constant) and isinstance(e.value, str) for e in node.value.elts):
                        put(node.targets[0].id, len(node.value.elts))
    del RENDER_FALLBACK[:]
    for an, n in PINNED_RENDER_TABLES.items():
        if an not in out:
            out[an] = n
            RENDER_FALLBACK.append(an)
    return out


# ---------------------------------------------------------------------------- Coq emission
def coq_str(s):
    return '"' + s.replace('"', '""') + '"%string'


def coq_fty(tok):
    k = int(tok[1:])
    return {'U': f'TU {k}', 'I': f'TI {k}', 'X': f'TX {k}', 'P': f'TPad {k}', 'C': f'TCh {k}'}[tok[0]]


def coq_layout(l):
    return '[' + '; '.join(f'({coq_str(n)}, {coq_fty(t)})' for n, t in l) + ']'


def emit_tables_v(path):
    """Write gen/Tables.v from the current source. Returns the python-side tables."""
    mt = message_table()
    kt = key_tables()
    cs = constants()
    L = ['(* GENERATED on every run by py/vlib/reflect.py from the ubxlib in /repo. Do not edit. *)',
         'From Ubx Require Import Fields Base.', 'Open Scope N_scope.', '',
         '(* message name (Python class), class, id, NAME string, decoding kind *)',
         'Definition g_messages : list (string * (N * N) * string * mkind) := [']
    rows = []
    for n, e in mt.items():
        if e['kind'] == 'fixed':
            k = f'KFixed {coq_layout(e["layout"])}'
        elif e['kind'] == 'counted':
            mx = f'(Some {e["maxc"]})' if e['maxc'] is not None else 'None'
            k = f'KCounted {coq_layout(e["hdr"])} {coq_str(e["count"])} {mx} {coq_layout(e["blk"])}'
        elif e['kind'] == 'monver':
            k = 'KMonVer'
        else:
            continue
        rows.append(f'  ({coq_str(n)}, ({e["cid"][0]}, {e["cid"][1]}), {coq_str(e["NAME"])}, {k})')
    L.append(';\n'.join(rows))
    L.append('].')
    L.append('')
    L.append('(* other message classes: name, class, id, kind tag *)')
    L.append('Definition g_other_messages : list (string * (N * N) * string) := [')
    L.append(';\n'.join(f'  ({coq_str(n)}, ({e["cid"][0]}, {e["cid"][1]}), {coq_str(e["kind"])})'
                        for n, e in mt.items() if e['kind'] in ('valget', 'ctor-args')))
    L.append('].')
    L.append('')
    L.append('Definition g_published_keys : list (string * N) := [')
    L.append(';\n'.join(f'  ({coq_str(k)}, {v})' for k, v in sorted(kt['consts'].items())))
    L.append('].')
    L.append('Definition g_signed_keys : list N := [' + '; '.join(str(k) for k in kt['signed']) + '].')
    L.append('Definition g_key_info_keys : list N := [' + '; '.join(str(k) for k in kt['info_keys']) + '].')
    L.append('Definition g_size_from_bits : list (Z * N) := [' + '; '.join(f'({b}%Z, {s})' for b, s in sorted(kt['SIZE_FROM_BITS'].items())) + '].')
    L.append('Definition g_bits_from_size : list Z := [' + '; '.join(f'{b}%Z' for b in kt['BITS_FROM_SIZE']) + '].')
    L.append('Definition g_bytes_from_bits : list (Z * nat) := [' + '; '.join(f'({b}%Z, {s}%nat)' for b, s in sorted(kt['BYTES_FROM_BITS'].items())) + '].')
    rt = render_tables()
    L.append('Definition g_render_tables : list (string * nat) := [' + '; '.join(f'({coq_str(k)}, {v}%nat)' for k, v in sorted(rt.items())) + '].')
    L.append(f'Definition g_sync_1 : N := {cs["SYNC_1"]}.')
    L.append(f'Definition g_sync_2 : N := {cs["SYNC_2"]}.')
    L.append(f'Definition g_max_message_length : N := {cs["MAX_MESSAGE_LENGTH"]}.')
    with open(path, 'w') as fh:
        fh.write('\n'.join(L) + '\n')
    return mt, kt, cs
