"""Scenario generation and oracles for the request layer (shared by C04 C05 C06 C10 C12 C19)."""
import datetime

from . import common as C
from . import fieldsgen as F
from . import reflect as R
from . import reqgen as Q
from . import ubxgen as G
from .props.c08 import wf_payload

ACK, NAK, MGA = (5, 1), (5, 0), (0x13, 0x60)
DTS = [1, 3, 7, 21, 51, 103]     # chosen so that sums rarely hit a deadline exactly (float ties)


class Req:
    """One request: how to build the frame, and what a correct answer looks like."""
    def __init__(self, op, label, build, cid, resp=None, respkind='-', resp_entry=None):
        self.op, self.label, self.build, self.cid = op, label, build, cid
        self.resp, self.respkind, self.resp_entry = resp, respkind, resp_entry

    def filt(self):
        if self.op == 'poll':
            return [self.cid, ACK, NAK] if self.cid[0] == 6 else [self.cid]
        if self.op == 'set':
            return [ACK, NAK]
        if self.op == 'mga':
            return [MGA]
        return []

    def token(self):
        return Q.req_token(self.op, self.build(), self.resp, self.respkind)


def valget_response_payload(rng, kt):
    from . import cfggen as K
    n = rng.choice([0, 1, 2, 5])
    body = b''
    for _ in range(n):
        key = rng.choice(sorted(kt['consts'].values()))
        bits = [0, 1, 8, 16, 32, 64, 0, 0][(key >> 28) & 7]
        w = {1: 1, 8: 1, 16: 2, 32: 4, 64: 8}[bits]
        val = bytes([rng.choice([0, 1])]) if bits == 1 else bytes(rng.getrandbits(8) for _ in range(w))
        body += key.to_bytes(4, 'little') + val
    return bytes([0, 0, 0, 0]) + body


def response_payload(rng, rq, kt):
    e = rq.resp_entry
    if e['kind'] == 'valget':
        return valget_response_payload(rng, kt)
    if e['kind'] == 'fixed' and not e['layout']:
        return b''
    if rng.random() < 0.12 and e['kind'] in ('counted', 'monver'):
        # the largest receivable answer: payload of exactly (or just below) the parser's 1000-byte limit
        if e['kind'] == 'monver':
            n = 32
            return F.rand_payload_for(rng, [('swVersion', 'C30'), ('hwVersion', 'C10')] + [(f'extension_{i}', 'C30') for i in range(n)])
        hdr = sum(F.tok_width(t) for _, t in e['hdr'])
        blk = sum(F.tok_width(t) for _, t in e['blk'])
        cmax = e['maxc'] if e['maxc'] is not None else 255
        c = min(cmax, (1000 - hdr) // blk)
        hp = bytearray(F.rand_payload_for(rng, e['hdr']))
        off = sum(F.tok_width(t) for n_, t in e['hdr'][:[n_ for n_, _ in e['hdr']].index(e['count'])])
        hp[off] = c
        return bytes(hp) + F.rand_payload_for(rng, [(f'{n_}_{i}', t) for i in range(c) for n_, t in e['blk']])
    while True:
        _, pay = wf_payload(rng, e)
        if len(pay) <= 1000:        # the parser's MAX_MESSAGE_LENGTH: longer answers cannot be received at all
            return pay


def all_requests(rng, mt, kt):
    """Catalogue of request kinds (every poll class, a set of every settable frame family, MGA, fire)."""
    from ubxlib.cfgkeys import CfgKeyData
    reqs = []
    for c in Q.catalogue(mt):
        reqs.append(Req('poll', c['label'], c['build'], c['cid'], c['resp'], c['respkind'], c['resp_entry']))
    # polls with constructor arguments / payload
    VP = mt['UbxCfgValGetPoll']['cls']
    keys = sorted(kt['consts'].values())
    ks = [rng.choice(keys) for _ in range(rng.choice([1, 2, 5]))]
    reqs.append(Req('poll', 'UbxCfgValGetPoll', lambda ks=ks: VP(list(ks)), mt['UbxCfgValGetPoll']['cid'], 'UbxCfgValGet', 'G', mt['UbxCfgValGet']))

    def setter(name, edit=None):
        e = mt[name]
        cls = e['cls']

        def build():
            fr = cls()
            if edit:
                edit(fr)
            return fr
        return Req('set', name, build, e['cid'])
    reqs.append(setter('UbxCfgRate', lambda fr: fr.set_rate_in_hz(5)))
    reqs.append(setter('UbxCfgCfgAction', lambda fr: fr.save(0x1F1F)))
    reqs.append(setter('UbxCfgNav5', lambda fr: setattr(fr.f, 'dynModel', 4)))
    reqs.append(setter('UbxCfgTp5', lambda fr: setattr(fr.f, 'freqPeriod', 4000000000)))
    reqs.append(setter('UbxCfgNavx5', lambda fr: setattr(fr.f, 'ackAiding', 1)))
    reqs.append(setter('UbxCfgEsflaSet', lambda fr: fr.set(1, -1000, 5, 1000)))
    reqs.append(setter('UbxCfgNmea'))
    reqs.append(setter('UbxCfgEsfAlg', lambda fr: setattr(fr.f, 'pitch', -9000)))
    reqs.append(setter('UbxUpdSosAction', lambda fr: fr.clear()))
    # decoded-then-edited variable-length frame (read-modify-write)
    gn = mt['UbxCfgGnss']
    gpay = bytes([0, 32, 32, 3]) + b''.join(bytes([g, 4, 8, 0, 1, 0, 1, 1]) for g in (6, 0, 2))
    reqs.append(Req('set', 'UbxCfgGnss(decoded)', lambda: gn['cls'].construct(bytearray(gpay)), gn['cid']))
    VS = mt['UbxCfgValSetAction']['cls']
    reqs.append(Req('set', 'UbxCfgValSetAction',
                    lambda: VS([CfgKeyData.from_key(0x20110021, 4), CfgKeyData.from_key(0x3006002e, -100), CfgKeyData.from_key(0x10310001, True)]),
                    mt['UbxCfgValSetAction']['cid']))
    # a large VALSET (payload >= 255 bytes: two-byte length field really used)
    big = [(rng.choice([0x40520001, 0x4005000d, 0x4006002d]), rng.getrandbits(32)) for _ in range(rng.choice([32, 48, 64]))]
    reqs.append(Req('set', 'UbxCfgValSetAction(big)', lambda big=big: VS([CfgKeyData.from_key(k, v) for k, v in big]), mt['UbxCfgValSetAction']['cid']))
    # an application-defined poll whose response class shares the class/id of a library class (CFG-PRT, other port type)
    reqs.append(app_defined_poll(mt))
    reqs += app_big_frames()
    # frames that were decoded from a payload (e.g. a poll answer) and then edited, sent back by set / fire_and_forget
    RSc = mt['UbxCfgRstAction']['cls']

    def rst_edited():
        fr = RSc.construct(bytearray(b'\x00\x00\x08\x00'))
        fr.cold_start()
        return fr
    reqs.append(Req('fire', 'UbxCfgRstAction(decoded+edited)', rst_edited, mt['UbxCfgRstAction']['cid']))
    RTc = mt['UbxCfgRate']['cls']

    def rate_edited():
        fr = RTc.construct(bytearray(b'\xe8\x03\x01\x00\x01\x00'))
        fr.set_rate_in_hz(4)
        return fr
    reqs.append(Req('set', 'UbxCfgRate(decoded+edited)', rate_edited, mt['UbxCfgRate']['cid']))
    reqs.append(Req('fire', 'UbxCfgRate(decoded+edited)', rate_edited, mt['UbxCfgRate']['cid']))
    # a poll answer whose reserved bytes are not zero, decoded, one field edited, sent back: the transmission is the canonical
    # encoding of the FIELD VALUES (reserved bytes zero), not an echo of what was received
    for nm in ('UbxCfgNav5', 'UbxCfgPrtUart', 'UbxCfgEsfAlg'):
        if nm in mt and mt[nm]['kind'] == 'fixed' and any(t[0] == 'P' for _, t in mt[nm]['layout']):
            cls_ = mt[nm]['cls']
            lay_ = mt[nm]['layout']
            pay_ = bytes(rng.choice([0xFF, 0xA5, 0x01]) for _ in range(F.size_of(lay_)))

            def edited(cls_=cls_, pay_=pay_, lay_=lay_):
                fr = cls_.construct(bytearray(pay_))
                first = next(n for n, t in lay_ if t[0] in 'UX')
                setattr(fr.f, first, 1)
                return fr
            reqs.append(Req('set', nm + '(decoded with reserved bytes set+edited)', edited, mt[nm]['cid']))
            reqs.append(Req('fire', nm + '(decoded with reserved bytes set+edited)', edited, mt[nm]['cid']))
    UT = mt['UbxMgaIniTimeUtc']['cls']

    def utc():
        fr = UT()
        fr.set_datetime(datetime.datetime(2024, 2, 29, 23, 59, 58))
        return fr
    reqs.append(Req('mga', 'UbxMgaIniTimeUtc', utc, mt['UbxMgaIniTimeUtc']['cid']))
    RS = mt['UbxCfgRstAction']['cls']

    def rst():
        fr = RS()
        fr.cold_start()
        return fr
    reqs.append(Req('fire', 'UbxCfgRstAction', rst, mt['UbxCfgRstAction']['cid']))
    return reqs


_APP = {}


def app_defined_poll(mt):
    """CFG-PRT for a USB port: an application-defined response layout under the library's CFG-PRT class/id."""
    from ubxlib.cid import UbxCID
    from ubxlib.frame import UbxFrame
    from ubxlib.types import U1, X2, Padding
    if 'resp' not in _APP:
        class AppCfgPrtUsb(UbxFrame):
            CID = UbxCID(6, 0)
            NAME = 'APP-CFG-PRT-USB'

            def __init__(self):
                super().__init__()
                self.f.add(U1('PortId'))
                self.f.add(Padding(1, 'res0'))
                self.f.add(X2('txReady'))
                self.f.add(Padding(8, 'res1'))
                self.f.add(X2('inProtoMask'))
                self.f.add(X2('outProtoMask'))
                self.f.add(Padding(4, 'res2'))

        class AppCfgPrtUsbPoll(UbxFrame):
            CID = UbxCID(6, 0)
            NAME = 'APP-CFG-PRT-USB-POLL'

            def __init__(self):
                super().__init__()
                self.f.add(U1('PortId'))
                self.f.PortId = 3

            def _cls_response(self):
                return AppCfgPrtUsb
        _APP['resp'], _APP['poll'] = AppCfgPrtUsb, AppCfgPrtUsbPoll
    lay = [('PortId', 'U1'), ('res0', 'P1'), ('txReady', 'X2'), ('res1', 'P8'), ('inProtoMask', 'X2'), ('outProtoMask', 'X2'), ('res2', 'P4')]
    entry = {'kind': 'fixed', 'layout': lay, 'cls': _APP['resp']}
    return Req('poll', 'AppCfgPrtUsbPoll', _APP['poll'], (6, 0), 'AppCfgPrtUsb', 'F/' + R.layout_str(lay), entry)


def app_big_frames():
    """Application-defined frame with a payload above 1016 bytes (larger than anything the library builds itself)."""
    from ubxlib.cid import UbxCID
    from ubxlib.frame import UbxFrame
    from ubxlib.types import U1, Padding
    if 'big' not in _APP:
        class AppBigFrame(UbxFrame):
            CID = UbxCID(6, 0x99)
            NAME = 'APP-BIG'

            def __init__(self):
                super().__init__()
                self.f.add(U1('kind'))
                self.f.add(Padding(1200, 'blob'))
                self.f.kind = 7
        _APP['big'] = AppBigFrame
    return [Req('fire', 'AppBigFrame', _APP['big'], (6, 0x99)), Req('set', 'AppBigFrame', _APP['big'], (6, 0x99))]


def good_answer(rng, rq, kt, variant=None):
    """(list of frames that together form a correct answer, description)"""
    c, i = rq.cid
    if rq.op == 'poll':
        pay = response_payload(rng, rq, kt)
        frames = [G.frame(c, i, pay)]
        if c == 6:
            frames.append(G.frame(5, 1, bytes([c, i])))
        return frames, pay
    if rq.op == 'set':
        kind = variant or rng.choice(['ack', 'ack', 'nak'])
        return [G.frame(5, 1 if kind == 'ack' else 0, bytes([c, i]))], kind
    if rq.op == 'mga':
        pay = bytes([1, 0, 0, i]) + bytes(rng.getrandbits(8) for _ in range(4))
        return [G.frame(0x13, 0x60, pay)], pay
    return [], None


FAULTS = ['silence', 'garbage', 'truncated', 'truncated', 'corrupted', 'foreign_ack', 'nak_first', 'rejected_mga', 'unrelated',
          'nmea', 'txfail', 'undecodable', 'response_only', 'ack_before_response', 'unregistered_class', 'empty_reads',
          'stale_ck', 'marker_then_answer_late', 'answer_too_late', 'reject_marker_answer', 'response_then_nak', 'ack_only']


def fault_events(rng, rq, kt, fault, mode, delay=100, others=()):
    """Receive events of an attempt that does NOT contain a correct, timely answer."""
    c, i = rq.cid
    ans, _ = good_answer(rng, rq, kt, 'ack')
    full = b''.join(ans)
    if fault == 'silence':
        return []
    if fault == 'empty_reads':
        return [(rng.choice([None, b'']), rng.choice(DTS)) for _ in range(rng.randrange(1, 6))]
    if fault == 'garbage':
        data = bytes(rng.getrandbits(8) for _ in range(rng.randrange(1, 120)))
    elif fault == 'truncated':
        data = full[:rng.randrange(1, max(2, len(full)))] if full else b'\xb5\x62'
    elif fault == 'corrupted':
        b = bytearray(full or G.frame(5, 1, bytes([c, i])))
        pos = rng.choice([k for k in range(2, len(b)) if k not in (4, 5)])
        b[pos] ^= 1 << rng.randrange(8)
        data = bytes(b)
    elif fault == 'foreign_ack':
        data = G.frame(5, 1, bytes([c, (i + 1) % 256])) + G.frame(5, 1, bytes([(c + 1) % 256, i]))
    elif fault == 'nak_first':
        data = G.frame(5, 0, bytes([c, i])) if rq.op == 'poll' else G.frame(5, 1, bytes([i, c]) if c != i else bytes([c + 1, i]))
    elif fault == 'rejected_mga':
        data = G.frame(0x13, 0x60, bytes([rng.choice([0, 0, 2, 255]), 0, rng.choice([0, 0, 1, 6]), i, 1, 2, 3, 4]))
    elif fault == 'unrelated':
        data = b''.join(Q.inert_traffic(rng, rq.filt(), [o for o in others if o not in rq.filt()]) for _ in range(3))
    elif fault == 'stale_ck':
        # aborted frame start, then an answer whose checksum continues from the aborted bytes (never valid)
        fr = ans[0] if ans else G.frame(5, 1, bytes([c, i]))
        data = G.stale_checksum_stream(rng, fr[2], fr[3], fr[6:-2])
        if data.endswith(fr):
            data = data[:-len(fr)]
    elif fault == 'marker_then_answer_late':
        # a corrupted answer-class frame and the complete good answer in ONE read that ends after the deadline:
        # only the error marker is dequeued before the timeout; the answer must not survive into the next attempt
        bad = bytearray(ans[0] if ans else G.frame(5, 1, bytes([c, i])))
        bad[-1] ^= 0x55
        return [(bytes(bad) + full, delay + rng.choice([0, 1, 5]))]
    elif fault == 'reject_marker_answer':
        # ONE read holding: a frame that ends this attempt without success (foreign ACK for set, rejecting MGA-ACK), a corrupted
        # frame, and the complete good answer. The answer is decoded BEFORE the next transmission and must not be returned after it.
        bad = bytearray(G.frame(5, 1, bytes([c, i])))
        bad[-1] ^= 0x33
        if rq.op == 'set':
            first = G.frame(5, 1, bytes([c, (i + 1) % 256]))
        elif rq.op == 'mga':
            first = G.frame(0x13, 0x60, bytes([0, 0, 1, i, 1, 2, 3, 4]))
        else:
            return [(bytes(bad) + full, delay + rng.choice([0, 1, 5]))]
        return [(first + bytes(bad) + full, rng.choice([0, 1]))]
    elif fault == 'response_then_nak':
        # configuration poll: the response, then an ACK-NAK naming the request (and no ACK-ACK): not acknowledged, nothing to return
        if rq.op == 'poll' and c == 6 and ans:
            data = ans[0] + G.frame(5, 0, bytes([c, i])) + rng.choice([b'', G.frame(5, 0, bytes([c, i])), G.frame(5, 1, bytes([c, (i + 1) % 256]))])
        else:
            data = G.frame(5, 0, bytes([c, i])) if rq.op == 'poll' else G.frame(5, 1, bytes([i, c]) if c != i else bytes([c + 1, i]))
    elif fault == 'answer_too_late':
        return [(None, delay + 1), (full, 1)] if full else []
    elif fault == 'nmea':
        data = G.nmea(b'GPGGA,1,2,3') + G.nmea(b'GPTXT,\xb5b', good=False)
    elif fault == 'undecodable':
        # checksum-valid answer-class frame whose payload is too short for its type
        if rq.op == 'mga':
            data = G.frame(0x13, 0x60, b'\x01')
        elif rq.op == 'set' or c == 6:
            data = G.frame(5, 1, bytes([c]))
        else:
            data = G.frame(c, i, b'')
    elif fault == 'ack_only':
        # the acknowledgement naming the request, and nothing else (its response got lost); for a configuration poll the NEXT
        # attempt is then answered by the response alone (scenario()): neither attempt is an acknowledged answer
        data = G.frame(5, 1, bytes([c, i])) if rq.op == 'poll' else G.frame(5, 1, bytes([c, (i + 1) % 256]))
    elif fault == 'response_only':
        data = ans[0] if ans else b''
    elif fault == 'ack_before_response':
        data = b''.join(reversed(ans)) if len(ans) == 2 else G.frame(5, 1, bytes([c, i]))[:-1]
    elif fault == 'unregistered_class':
        data = G.frame(5, 1, bytes([c, i]))[:6]
    else:
        data = b''
    return Q.chunk(rng, data, mode, DTS)


def scenario(rng, reqs, kt, n_req=1, force=None, tx_dt=0, rqs=None):
    """A server configuration, a script and n_req requests. Returns dict."""
    retries = rng.choice([0, 0, 1, 2, 2, 3, 5, 10])
    delay = rng.choice([0, 1, 100, 100, 250, 1800, 5000])
    idle = rng.choice([3, 13, 101, 251])
    if delay // idle > 300:          # keep the number of idle loop iterations per attempt moderate (the model's ghost trace is quadratic)
        idle = delay // 300 + 1
    mgas = [r for r in reqs if r.op == 'mga']
    if rqs is None:
        rqs = [rng.choice(mgas) if (mgas and rng.random() < 0.12) else rng.choice(reqs) for _ in range(n_req)]
    attempts = []
    plan = []
    others = sorted(set(r.cid for r in rqs))
    plans = []
    for rq in rqs:
        plans.append(len(plan))
        if rq.op == 'fire':
            attempts.append((rng.random() < 0.9, fault_events(rng, rq, kt, rng.choice(['silence', 'garbage', 'unrelated']), 'random')))
            plan.append(('fire',))
            continue
        k_good = rng.choice([None, 1, 1, 2, retries + 1, rng.randrange(1, retries + 2)])
        if force == 'good' and k_good is None:
            k_good = rng.randrange(1, retries + 2)
        n_att = retries + 1
        this = []
        tail = None
        for a in range(1, n_att + 1):
            mode = rng.choice(['bytes', '128', 'whole', 'random'])
            if k_good is not None and a == k_good:
                frames, info = good_answer(rng, rq, kt)
                data = b''
                foreign = [o for o in others if o not in rq.filt()]
                for fr in frames:
                    data += Q.inert_traffic(rng, rq.filt(), foreign)
                    if foreign and rng.random() < 0.6:
                        # a late / duplicate answer to ANOTHER request of this history (not an answer-class frame for this one)
                        oc, oi = rng.choice(foreign)
                        data += G.frame(oc, oi, bytes(rng.getrandbits(8) for _ in range(rng.choice([0, 4, 6, 28]))))
                    data += fr
                evs = Q.chunk(rng, data, mode, [0, 0, 1] if delay >= 100 else [0])
                total = sum(dt for _, dt in evs)
                # conservatively "in time": everything, plus two idle reads for packets queued behind others, fits the period
                late = not (total + 2 * idle < delay)
                this.append((True, evs))
                plan.append(('good', a, late))
                break
            fault = rng.choice(FAULTS)
            if rq.op == 'mga' and rng.random() < 0.4:
                fault = 'rejected_mga'
            if plan and plan[-1][0] == 'ack_only' and plan[-1][1] == a - 1 and rq.op == 'poll' and rq.cid[0] == 6:
                fault = 'response_only'
            if tail is not None:
                # the rest of the answer whose first part arrived in the previous attempt: completes nothing now
                this.append((True, [(tail, rng.choice([0, 1]))]))
                plan.append(('straddle_tail', a))
                tail = None
                continue
            if rng.random() < 0.08 and rq.op != 'fire':
                ans_, _ = good_answer(rng, rq, kt, 'ack')
                full_ = ans_[-1] if ans_ else b''
                if len(full_) > 3:
                    cut = rng.randrange(2, len(full_) - 1)
                    # an answer frame that straddles two attempts: its first bytes now (then silence), the rest after the NEXT transmission
                    this.append((True, Q.chunk(rng, full_[:cut], mode, DTS)))
                    plan.append(('straddle_head', a))
                    tail = full_[cut:]
                    continue
            if fault == 'txfail':
                this.append((False, []))
            else:
                this.append((True, fault_events(rng, rq, kt, fault, mode, delay, others)))
            plan.append((fault, a))
        attempts += this
    pending = fault_events(rng, rqs[0], kt, rng.choice(['silence', 'silence', 'garbage', 'truncated']), 'random') if rng.random() < 0.3 else []
    script = {'pending': pending, 'attempts': attempts, 'idle': idle, 'drain': rng.random() < 0.5, 'tx_dt': tx_dt,
              'bad_cfg': rng.choice([(), (), (('retries', 11),), (('retries', -1), ('delay', 5001)), (('delay', -1),), (('retries', 100), ('delay', 100000))])}
    plans = [plan[a:b] for a, b in zip(plans, plans[1:] + [len(plan)])]
    idle_before = [rng.choice([0, 0, 0, 1000, 31000, 3600000]) for _ in rqs]
    return {'retries': retries, 'delay': delay, 'script': script, 'reqs': rqs, 'plan': plan, 'plans': plans, 'idle_before': idle_before}


def fixed_monver_scenarios():
    """Fixed corpus (no random choice): MON-VER polls answered correctly and at once by MON-VER frames of particular shapes -
    no / one / many extension strings, texts that look like key=value pairs with and without a value, and the largest frame
    the parser accepts (32 extensions = exactly 1000 payload bytes). On the scripted subclass and on the serial backend."""
    from . import reflect as R
    import random
    rq = next(r for r in all_requests(random.Random(0), R.message_table(), R.key_tables()) if r.label == 'UbxMonVerPoll')
    head = b'ROM CORE 3.01 (107888)'.ljust(30, b'\0') + b'00080000'.ljust(10, b'\0')
    def ext(t):
        return t.ljust(30, b'\0')
    pays = [('no-extension', head),
            ('usual', head + ext(b'FWVER=HPS 1.21') + ext(b'PROTVER=19.20') + ext(b'MOD=NEO-M8U-0')),
            ('key-without-value', head + ext(b'PROTVER') + ext(b'FWVER') + ext(b'MOD')),
            ('key-with-empty-value', head + ext(b'PROTVER=') + ext(b'FWVER=') + ext(b'GPS;GLO;GAL;BDS')),
            ('value-not-a-number', head + ext(b'PROTVER=abc') + ext(b'PROTVER 18.00') + ext(b'PROTVER=18.00=1')),
            ('31-extensions', head + b''.join(ext(b'EXT%02d=%d' % (k, k)) for k in range(31))),
            ('32-extensions-1000-bytes', head + b''.join(ext(b'EXT%02d=%d' % (k, k)) for k in range(32)))]
    out = []
    for name, pay in pays:
        answer = G.frame(0x0A, 0x04, pay)
        for backend in ('stub', 'tty'):
            sc = {'retries': 1, 'delay': 2500, 'reqs': [rq], 'plan': [('good', 1, False)], 'plans': [[('good', 1, False)]],
                  'script': {'pending': [], 'attempts': [(True, [(answer, 1)]), (True, [])], 'idle': 13}}
            if backend == 'tty':
                sc = dict(sc, script=Q.bytewise(sc['script']), backend='tty', bauds=(115200, None))
            out.append((name + '/' + backend, sc))
    return out


def fixed_split_answer_scenarios():
    """Fixed corpus (no random choice): the two halves of the answer to a configuration poll arrive in DIFFERENT attempts -
    the ACK-ACK alone in one, the response alone in the next (and the other way round, and with a silent attempt in between):
    no attempt contains a complete answer, nothing may be returned."""
    from . import reflect as R
    import random
    kt = R.key_tables()
    rng = random.Random(0)
    reqs = [r for r in all_requests(rng, R.message_table(), kt) if r.op == 'poll' and r.cid[0] == 6]
    picked = []
    for r in reqs:
        if r.label not in [x.label for x in picked]:
            picked.append(r)
    out = []
    for rq in picked[:6]:
        frames, _ = good_answer(rng, rq, kt, 'ack')
        resp, ack = frames[0], frames[1]
        for name, atts in (('ack-then-response', [ack, resp]), ('response-then-ack', [resp, ack]), ('ack-silence-response', [ack, b'', resp]),
                           ('ack-response-ack', [ack, resp, ack]), ('ack-ack-response', [ack, ack, resp])):
            sc = {'retries': len(atts) - 1, 'delay': 100, 'reqs': [rq], 'plan': [(name, k + 1) for k in range(len(atts))],
                  'script': {'pending': [], 'attempts': [(True, [(a_, 1)] if a_ else []) for a_ in atts], 'idle': 13}}
            sc['plans'] = [sc['plan']]
            out.append((name + '/' + rq.label, sc))
    return out


def fixed_late_duplicate_scenarios():
    """Fixed corpus (no random choice): two requests on one server object; the first is answered at once; while the second waits,
    a late DUPLICATE of the first one's answer arrives in front of the second one's own answer (same read). The second request
    must behave as on a fresh server: the duplicate is not in its filter, its own answer is returned after one send."""
    from . import reflect as R
    import random
    kt = R.key_tables()
    rng = random.Random(0)
    allr = all_requests(rng, R.message_table(), kt)
    polls, others = [], []
    for r in allr:
        if r.op == 'poll' and r.label not in [x.label for x in polls]:
            polls.append(r)
        if r.op in ('set', 'mga') and r.label not in [x.label for x in others]:
            others.append(r)
    out = []
    firsts = [r for r in polls if r.label in ('UbxMonVerPoll', 'UbxCfgRatePoll', 'UbxNavStatusPoll', 'UbxCfgNav5Poll')][:4] or polls[:3]
    for a in firsts:
        fa, _ = good_answer(rng, a, kt, 'ack')
        for b in others[:3] + [p_ for p_ in polls if p_.cid != a.cid][:2]:
            fb, _ = good_answer(rng, b, kt, 'ack')
            for name, second in (('duplicate-then-answer', fa[0] + b''.join(fb)), ('two-duplicates-then-answer', fa[0] + fa[0] + b''.join(fb)),
                                 ('answer-then-duplicate', b''.join(fb) + fa[0])):
                sc = {'retries': 2, 'delay': 400, 'reqs': [a, b],
                      'plan': [('good', 1, False), ('good', 1, False)], 'plans': [[('good', 1, False)], [('good', 1, False)]],
                      'script': {'pending': [], 'attempts': [(True, [(b''.join(fa), 1)]), (True, [(second, 1)]), (True, []), (True, [])], 'idle': 13}}
                out.append((f'{name}/{a.label}+{b.label}', sc))
            # the first request ends inside a frame (its answer is cut off and nothing else arrives); the second one is answered at
            # once: it must not inherit the half-received frame
            for cut in (3, 7, len(fa[0]) - 1):
                sc = {'retries': 0, 'delay': 200, 'reqs': [a, b],
                      'plan': [('truncated', 1), ('good', 1, False)], 'plans': [[('truncated', 1)], [('good', 1, False)]],
                      'script': {'pending': [], 'attempts': [(True, [(fa[0][:cut], 1)]), (True, [(b''.join(fb), 1)])], 'idle': 13}}
                out.append((f'cut-at-{cut}-then-answered/{a.label}+{b.label}', sc))
    return out


def model_cmd(sc, sk):
    head = 'reqs'
    if sc.get('backend') == 'gpsd':
        head = 'reqsgpsd'          # model/LineBackend.v: gpsd_script_backend (flush and recover are no-ops)
    if sc.get('backend') == 'tty':
        # the model of the serial backend over a line (model/LineBackend.v): port and receiver at the bit rate in force
        cur = sc['bauds'][1] if sc['bauds'][1] is not None else sc['bauds'][0]
        head = f'reqsline {cur} {cur}'
    return (f'{head} {sk} {sc["retries"]} {sc["delay"]} {sc["script"]["idle"]} {Q.script_token(sc["script"])} '
            + ' '.join(rq.token() for rq in sc['reqs']))


def describe(sc):
    return {'retries': sc['retries'], 'delay_ms': sc['delay'], 'idle_dt': sc['script']['idle'],
            'script': Q.script_token(sc['script'])[:3000], 'requests': [f'{rq.op}:{rq.label}' for rq in sc['reqs']],
            'plan': [list(map(str, p)) for p in sc['plan']], 'backend': sc.get('backend', 'scripted subclass of the base class'),
            'bauds': list(sc.get('bauds', ())), 'idle_ms_before_each_request': list(sc.get('idle_before', ()))}


def on_gpsd(rng, sc):
    """Turn a scenario into one for the real gpsd backend over scripted sockets (recv(128) on the data socket)."""
    dev = rng.choice(['/dev/ttyS3', '/dev/gnss0', '/dev/serial/by-id/usb-u-blox_AG', '/dev/gps-\u00e9', '/dev/\u00b5blox0'])
    return dict(sc, script=Q.chunk128(sc['script']), backend='gpsd', bauds=(dev, rng.choice([None, None, dev, '/dev/ttyACM7'])))


def on_tty(rng, sc, limit=400):
    """Turn a scenario into one for the real serial backend (bytes arrive one per read), if it is small enough."""
    if Q.script_bytes(sc['script']) > limit:
        return sc
    b0 = rng.choice([9600, 38400, 115200, 921600])
    b1 = rng.choice([None, None, 9600, 19200, 115200, 460800])
    return dict(sc, script=Q.bytewise(sc['script']), backend='tty', bauds=(b0, b1))


def run_scenario(sc, loglevel=None):
    # a request kind that occurs more than once in the sequence sends the SAME frame object again
    cache = {}

    def builder(rq):
        def b():
            if sc['reqs'].count(rq) > 1:
                if id(rq) not in cache:
                    cache[id(rq)] = rq.build()
                return cache[id(rq)]
            return rq.build()
        return b
    return Q.run_impl(sc['script'], sc['retries'], sc['delay'], [(rq.op, builder(rq)) for rq in sc['reqs']], loglevel,
                      backend=sc.get('backend', 'stub'), bauds=sc.get('bauds', (115200, None)), alarm_s=sc.get('alarm_s', 30), idle_before=sc.get('idle_before', ()))


# ------------------------------------------------------------------ parsing results
def parse_result(s):
    """'ret=... dt=N trace=...' -> dict"""
    head, tr = s.split(' trace=')
    parts = head.split(' ')
    d = {'ret': parts[0], 'dt': int(parts[1][3:]) if parts[1].startswith('dt=') else None, 'tie': 'TIE' in parts,
         'trace': [t for t in tr.split(',') if t]}
    d['tx'] = [t for t in d['trace'] if t.startswith('T')]
    d['port'] = next((x[5:] for x in parts if x.startswith('port=')), None)
    return d


def rx_after_last_tx(trace):
    """bytes received after the most recent successful transmission"""
    last = max([k for k, t in enumerate(trace) if t.startswith('T') and t.endswith('+')], default=None)
    if last is None:
        return None
    out = b''
    for t in trace[last + 1:]:
        if t.startswith('R') and not t.startswith('RN'):
            h = t[1:].split('@')[0]
            out += bytes.fromhex(h) if h != '-' else b''
    return out


def safety_oracle(rq, res):
    """C04, evaluated on an implementation result. Returns None or a reason."""
    r = res['ret']
    if r == 'ret=None':
        return None
    if not r.startswith('ret='):
        return None          # exceptions / hangs are C05's business
    name, payhex, _ = r[4:].split(':', 2)
    pay = bytes.fromhex(payhex) if payhex != '-' else b''
    stream = rx_after_last_tx(res['trace'])
    if stream is None:
        return 'a frame was returned although no transmission succeeded'
    c, i = rq.cid
    if rq.op == 'poll':
        if name != rq.resp:
            return f'poll returned a {name}, declared response type is {rq.resp}'
        k = stream.find(G.frame(c, i, pay))
        if k < 0:
            return 'returned response is not a checksum-valid frame of the bytes read after the last transmission'
        if c == 6 and stream.find(G.frame(5, 1, bytes([c, i])), k + len(pay) + 8) < 0:
            # the ACK may carry a longer payload; accept any valid ACK-ACK frame starting with cls,id
            tail = stream[k + len(pay) + 8:]
            ok = False
            p = tail.find(b'\xb5\x62\x05\x01')
            while p >= 0 and not ok:
                ln = tail[p + 4] + 256 * tail[p + 5] if p + 6 <= len(tail) else 99999
                fr = tail[p:p + 8 + ln]
                if ln >= 2 and len(fr) == 8 + ln and G.fletcher(fr[2:-2]) == (fr[-2], fr[-1]) and fr[6] == c and fr[7] == i:
                    ok = True
                p = tail.find(b'\xb5\x62\x05\x01', p + 1)
            if not ok:
                return 'configuration poll returned without an ACK-ACK naming the request after the response'
        return None
    if rq.op == 'set':
        if name == 'UbxAckAck':
            if len(pay) < 2 or (pay[0], pay[1]) != (c, i):
                return 'set() returned an ACK-ACK naming a different request'
            cidr = (5, 1)
        elif name == 'UbxAckNak':
            cidr = (5, 0)
        else:
            return f'set() returned a {name}'
        if stream.find(G.frame(cidr[0], cidr[1], pay)) < 0:
            return 'returned acknowledgement is not a checksum-valid frame of the bytes read after the last transmission'
        return None
    if rq.op == 'mga':
        if name != 'UbxMgaAckData0' or len(pay) < 1 or pay[0] != 1:
            return 'set_mga() returned something other than an accepting MGA-ACK'
        if stream.find(G.frame(0x13, 0x60, pay)) < 0:
            return 'returned MGA-ACK is not a checksum-valid frame of the bytes read after the last transmission'
        return None
    return 'fire_and_forget returned a frame'


def bounds_oracle(sc, rq, res):
    """C05 on an implementation result."""
    if res['ret'] == 'hang':
        return 'request did not return (virtual time stopped advancing or unbounded loop)'
    if res['ret'].startswith('exn='):
        return 'request raised ' + res['ret'][4:]
    n_tx = len(res['tx'])
    if rq.op == 'fire':
        if n_tx != 1 or any(t.startswith('R') for t in res['trace']):
            return 'fire_and_forget must transmit exactly once and never read'
        return None
    if n_tx > sc['retries'] + 1:
        return f'{n_tx} transmissions with retries={sc["retries"]}'
    tmax = max([sc['script']['idle']] + [dt for _, evs in sc['script']['attempts'] for _, dt in evs] + [dt for _, dt in sc['script']['pending']])
    k = 2 if (rq.op == 'poll' and rq.cid[0] == 6) else 1
    bound = (sc['retries'] + 1) * k * (sc['delay'] + tmax)
    if res['dt'] > bound:
        return f'request took {res["dt"]} ms, bound is {bound} ms'
    return None


def canonical_tx_oracle(rq, res):
    """C12: every transmission carries the canonical encoding of the request at call time."""
    fr = rq.build()
    fr.pack()
    want = 'T' + C.hexs(G.frame(rq.cid[0], rq.cid[1], bytes(fr.data)))
    for t in res['tx']:
        if t[:-1] != want:
            return f'transmitted {t[:80]} instead of {want[:80]}'
    return None
