"""AST translator for the request loop (Tie B for ubxlib/server_base.py).

Regenerates, from the Python source of /repo on every run, Gallina definitions of

    UbxServerBase_._register_response / _send / _wait / _check_poll / _check_ack_nak / _check_mga /
                   poll / set / set_mga / fire_and_forget

into gen/ReqKernels.v, as terms over the statement combinators of coq/bridge/PySem.v (dynamically typed values,
structured control: if / while on fuel / for-range / break / return / assert / try-except). coq/bridge/BridgeReq.v then
proves them equal to the hand model coq/model/Request.v (for every backend, state and fuel for which the model does not
run out of fuel).

What is translated: every statement of those methods except logging. What is fixed by the translator (trusted):
the meaning of the calls that leave server_base.py - backend hooks, parser API, frame factory, frame.pack()/to_bytes(),
time.time() - as primitives of PySem.v; module-level constants (UbxAckAck.CID, UbxCID.CLASS_CFG ...) are read from the
imported module. Fail-closed: any construct outside the accepted subset raises TranslateError (Tie B unavailable for
the request loop, the verdict rests on Tie A)."""
import ast
import copy
import os

from .translate import TranslateError, dotted, err, is_logging, method_ast

METHODS = ['_register_response', '_send', '_wait', '_check_poll', '_check_ack_nak', '_check_mga',
           'poll', 'set', 'set_mga', 'fire_and_forget']

EXN = {'KeyError': 'KeyError', 'ValueError': 'ValueError', 'struct.error': 'StructError', 'AssertionError': 'AssertionError',
       'IndexError': 'IndexError', 'TypeError': 'TypeError', 'AttributeError': 'AttributeError',
       'UnicodeError': 'UnicodeError', 'UnicodeDecodeError': 'UnicodeError',
       # json.loads: JSONDecodeError is a ValueError; RecursionError (absurd nesting) is lumped with it in PySem.py_json_loads
       'json.decoder.JSONDecodeError': 'ValueError', 'json.JSONDecodeError': 'ValueError', 'RecursionError': 'ValueError'}

# effectful calls that leave server_base.py: python callee -> (coq primitive, number of arguments, needs backend)
SELF_PRIMS = {
    'self._flush_input': ('prim_flush B', 0),
    'self._recover': ('prim_recover B', 0),
    'self._transmit': ('prim_transmit B', 1),
    'self._receive': ('prim_receive B', 0),
    'self.parser.process': ('prim_process', 1),
    'self.parser.packet': ('prim_packet', 0),
    'self.parser.empty_queue': ('prim_empty_queue', 0),
    'self.parser.restart': ('prim_restart', 0),
    'self.parser.set_filters': ('prim_set_filters', 1),
    'self.parser.set_filter': ('prim_set_filter', 1),
    'self.frame_factory.register': ('prim_register', 1),
}


def is_noop(st):
    """logging, or an `if` over a call-free test whose branches only log"""
    if is_logging(st):
        return True
    if isinstance(st, ast.If) and not any(isinstance(n, (ast.Call, ast.Subscript, ast.BinOp, ast.Attribute)) for n in ast.walk(st.test)):
        return all(is_noop(b) for b in st.body) and all(is_noop(b) for b in st.orelse)
    return False


def coq_str(s):
    if any(ord(c) < 32 or ord(c) > 126 for c in s):
        raise TranslateError(f'string constant {s!r} not representable')
    return '"' + s.replace('"', '""') + '"'


def gname(m, prefix='g_'):
    return prefix + m.lstrip('_')


class Fn:
    objmode = False
    prefix = 'g_'

    def __init__(self, mod, cls, name, known, crc_cid):
        self.mod, self.cls, self.name, self.known, self.crc_cid = mod, cls, name, known, crc_cid
        self.fn = method_ast(cls, name)
        a = self.fn.args
        if a.vararg or a.kwarg or a.kwonlyargs or a.posonlyargs:
            raise TranslateError(f'{name}: only plain positional parameters are supported')
        self.params = [x.arg for x in a.args][1:]
        if [x.arg for x in a.args][:1] != ['self']:
            raise TranslateError(f'{name}: first parameter must be self')
        self.defaults = {}
        for p, d in zip(reversed(self.params), reversed(a.defaults)):
            if isinstance(d, ast.Constant) and d.value is None:
                self.defaults[p] = 'PNone'
            elif not (isinstance(d, ast.Constant) and isinstance(d.value, (int, float)) and not isinstance(d.value, bool)):
                err(d, f'{name}: parameter default not supported')
            # a numeric default only matters to callers that omit the argument; none of the translated code does
        self.short = name.lstrip('_')
        self.locals = list(self.params)
        self.loopvars = set()
        self._collect(self.fn.body)
        self.defined = set(self.params)

    # ---- locals
    def _collect(self, body):
        forbidden = (ast.AugAssign, ast.AnnAssign, ast.NamedExpr, ast.With, ast.Global, ast.Nonlocal, ast.Lambda,
                     ast.FunctionDef, ast.ClassDef, ast.ListComp, ast.GeneratorExp, ast.DictComp, ast.SetComp, ast.Delete,
                     ast.Import, ast.ImportFrom, ast.Yield, ast.YieldFrom, ast.Await, ast.Starred, ast.AsyncFor,
                     ast.AsyncWith, ast.AsyncFunctionDef)

        def walk(node):
            if isinstance(node, ast.stmt) and is_noop(node):
                return
            if isinstance(node, forbidden):
                err(node, f'{self.name}: {type(node).__name__} not supported')
            if isinstance(node, ast.Assign):
                for t in node.targets:
                    for n in ([t] if isinstance(t, ast.Name) else t.elts if isinstance(t, ast.Tuple) else []):
                        if isinstance(n, ast.Name) and n.id not in self.locals:
                            self.locals.append(n.id)
            elif isinstance(node, ast.For) and isinstance(node.target, ast.Name):
                self.loopvars.add(node.target.id)
            for ch in ast.iter_child_nodes(node):
                walk(ch)
        for st in body:
            walk(st)

    def fld(self, v):
        return f'{self.short}__{v}'

    def setter(self, v):
        return f'set_{self.short}__{v}'

    def record(self):
        L = self.locals
        if not L:
            return [f'Record L_{self.short} := mkL_{self.short} {{ {self.short}__unit : unit }}.']
        out = [f'Record L_{self.short} := mkL_{self.short} {{ ' + '; '.join(f'{self.fld(v)} : pyval' for v in L) + ' }.']
        for v in L:
            out.append(f'Definition {self.setter(v)} (l : L_{self.short}) (v : pyval) : L_{self.short} := mkL_{self.short} '
                       + ' '.join('v' if u == v else f'({self.fld(u)} l)' for u in L) + '.')
        return out

    # ---- expressions (pure; variables l, w in scope)
    def const_of(self, e, d):
        """module-level constant reached through a dotted name whose root is a global of server_base"""
        parts = d.split('.')
        if parts[0] in self.locals or parts[0] in ('self', 'time', 'logger', 'logging'):
            return None
        if not hasattr(self.mod, parts[0]):
            return None
        obj = getattr(self.mod, parts[0])
        for p in parts[1:]:
            if not hasattr(obj, p):
                err(e, f'{d}: no attribute {p} (AttributeError at run time)')
            obj = getattr(obj, p)
        from ubxlib.cid import UbxCID
        if isinstance(obj, bool):
            return 'PBool true' if obj else 'PBool false'
        if isinstance(obj, int):
            return f'PInt ({obj})%Z'
        if isinstance(obj, str):
            return f'PStr {coq_str(obj)}'
        if isinstance(obj, UbxCID):
            return f'PCid (({obj.cls})%Z, ({obj.id})%Z)'
        err(e, f'{d}: constant of type {type(obj).__name__} not supported')

    def ex(self, e):
        if self.objmode and isinstance(e, ast.Attribute) and isinstance(e.value, ast.Attribute) and e.value.attr == 'f' \
                and isinstance(e.value.value, ast.Name) and e.value.value.id == 'self':
            return f'(py_getattr (py_getattr ({self.fld("self")} l) "f") {coq_str(e.attr)})'
        if self.objmode and isinstance(e, ast.Attribute) and isinstance(e.value, ast.Name) and e.value.id in self.params \
                and e.value.id != 'self' and e.attr in ('year', 'month', 'day', 'hour', 'minute', 'second'):
            return f'(py_getattr ({self.fld(e.value.id)} l) {coq_str(e.attr)})'
        if self.objmode and isinstance(e, ast.JoinedStr) and len(e.values) == 2 and isinstance(e.values[0], ast.Constant) \
                and isinstance(e.values[0].value, str) and isinstance(e.values[1], ast.FormattedValue) \
                and e.values[1].conversion == -1 and e.values[1].format_spec is None:
            # f'prefix{i}' for an integer i
            return f'(py_fstr {coq_str(e.values[0].value)} {self.ex(e.values[1].value)})'
        if self.objmode and isinstance(e, ast.Attribute) and e.attr == 'value' and isinstance(e.value, ast.Name) \
                and e.value.id in self.locals and e.value.id != 'self':
            # <item>.value for an item fetched with self.f.get(..)
            if e.value.id not in self.defined:
                err(e, f'local {e.value.id} may be read before it is assigned')
            return f'(py_getattr ({self.fld(e.value.id)} l) "value")'
        if isinstance(e, ast.Constant):
            v = e.value
            if v is None:
                return 'PNone'
            if isinstance(v, bool):
                return '(PBool true)' if v else '(PBool false)'
            if isinstance(v, int):
                return f'(PInt ({v})%Z)'
            if isinstance(v, str):
                return f'(PStr {coq_str(v)})'
            err(e, f'constant {v!r} not supported')
        if isinstance(e, ast.Name):
            if e.id in self.locals:
                if e.id not in self.defined:
                    err(e, f'local {e.id} may be read before it is assigned')
                return f'({self.fld(e.id)} l)'
            if e.id in self.loopvars:
                err(e, f'loop variable {e.id} is read outside logging')
            c = self.const_of(e, e.id)
            if c:
                return f'({c})'
            err(e, f'name {e.id} not supported')
        if isinstance(e, ast.Attribute):
            d = dotted(e)
            if self.objmode and isinstance(e.value, ast.Name) and e.value.id == 'self':
                return f'(py_getattr ({self.fld("self")} l) {coq_str(e.attr)})'
            if d == 'self.max_retries':
                return '(p_max_retries w)'
            if d == 'self.retry_delay_in_ms':
                return '(p_retry_delay w)'
            if d == 'self.cid_crc_error':
                return f'(PCid (({self.crc_cid[0]})%Z, ({self.crc_cid[1]})%Z))'
            if d:
                c = self.const_of(e, d)
                if c:
                    return f'({c})'
            if d and d.startswith('self.'):
                err(e, f'attribute {d} not supported')
            # <expr>.f.<name>  /  <expr>.<name>
            if isinstance(e.value, ast.Attribute) and e.value.attr == 'f':
                return f'(py_field {self.ex(e.value.value)} {coq_str(e.attr)})'
            if e.attr in ('CID', 'cls', 'id', 'frames_rx'):
                return f'(py_attr {self.ex(e.value)} {coq_str(e.attr)})'
            err(e, f'attribute .{e.attr} not supported')
        if isinstance(e, ast.UnaryOp) and isinstance(e.op, ast.USub):
            return f'(py_neg {self.ex(e.operand)})'
        if isinstance(e, ast.UnaryOp) and isinstance(e.op, ast.Invert):
            return f'(py_invert {self.ex(e.operand)})'
        if isinstance(e, ast.Call) and dotted(e.func) == 'int' and len(e.args) == 1 and isinstance(e.args[0], ast.BinOp) \
                and isinstance(e.args[0].op, ast.Div):
            return f'(py_trunc_div {self.ex(e.args[0].left)} {self.ex(e.args[0].right)})'
        if isinstance(e, ast.IfExp):
            return f'(if {self.tst(e.test)} then {self.ex(e.body)} else {self.ex(e.orelse)})'
        if isinstance(e, ast.Subscript):
            sl = e.slice
            if isinstance(sl, ast.Slice) and sl.step is None:
                if sl.upper is not None and (sl.lower is None or (isinstance(sl.lower, ast.Constant) and sl.lower.value == 0)):
                    return f'(py_slice_to {self.ex(e.value)} {self.ex(sl.upper)})'
                if sl.upper is None and sl.lower is not None:
                    return f'(py_slice_from {self.ex(e.value)} {self.ex(sl.lower)})'
            if isinstance(sl, ast.Constant) and isinstance(sl.value, int) and not isinstance(sl.value, bool) and sl.value >= 0:
                return f'(py_index {self.ex(e.value)} {sl.value}%nat)'
            err(e, 'subscript form not supported')
        if isinstance(e, ast.BinOp):
            if isinstance(e.op, ast.BitAnd):
                return f'(py_and {self.ex(e.left)} {self.ex(e.right)})'
            if isinstance(e.op, ast.BitOr):
                return f'(py_or {self.ex(e.left)} {self.ex(e.right)})'
            if isinstance(e.op, ast.Mult) and isinstance(e.left, ast.Call) and dotted(e.left.func) == 'bytearray' and len(e.left.args) == 1 \
                    and isinstance(e.left.args[0], ast.Constant) and e.left.args[0].value == b'\x00':
                return f'(py_zero_bytes {self.ex(e.right)})'
            if isinstance(e.op, ast.Add):
                return f'(py_add {self.ex(e.left)} {self.ex(e.right)})'
            if isinstance(e.op, ast.Sub):
                return f'(py_sub {self.ex(e.left)} {self.ex(e.right)})'
            if isinstance(e.op, ast.Div) and isinstance(e.right, ast.Constant) and isinstance(e.right.value, (int, float)) \
                    and not isinstance(e.right.value, bool) and e.right.value == 1000:
                return f'(py_ms_to_s {self.ex(e.left)})'
            err(e, f'operator {type(e.op).__name__} not supported')
        if isinstance(e, (ast.Compare, ast.BoolOp)) or (isinstance(e, ast.UnaryOp) and isinstance(e.op, ast.Not)):
            if isinstance(e, ast.BoolOp):
                err(e, 'and/or is only supported as a condition')
            return f'(PBool {self.tst(e)})'
        if isinstance(e, ast.List):
            return '(PList [' + '; '.join(self.ex(x) for x in e.elts) + '])'
        if self.objmode and isinstance(e, ast.Dict) and all(isinstance(k_, ast.Constant) and isinstance(k_.value, str) for k_ in e.keys) \
                and len({k_.value for k_ in e.keys}) == len(e.keys):
            return '(PDict [' + '; '.join(f'({coq_str(k_.value)}%string, {self.ex(v_)})' for k_, v_ in zip(e.keys, e.values)) + '])'
        if isinstance(e, ast.Call):
            f = dotted(e.func)
            if e.keywords:
                err(e, 'keyword arguments not supported')
            if f == 'time.time' and not e.args:
                return '(p_time w)'
            if f == 'len' and len(e.args) == 1:
                return f'(py_len {self.ex(e.args[0])})'
            if f == 'bytes' and len(e.args) == 1:
                return f'(py_zero_bytes {self.ex(e.args[0])})'
            if isinstance(e.func, ast.Attribute) and e.func.attr == 'rstrip' and len(e.args) == 1 \
                    and isinstance(e.args[0], ast.Constant) and e.args[0].value == '\x00':
                return f'(py_rstrip0 {self.ex(e.func.value)})'
            if f == 'UbxParser' and len(e.args) == 1 and getattr(self.mod, 'UbxParser', None) is not None \
                    and self.mod.UbxParser.__module__ == 'ubxlib.parser_ubx':
                return f'(py_new_ubx_parser {self.ex(e.args[0])})'
            if f == 'NmeaParser' and not e.args and getattr(self.mod, 'NmeaParser', None) is not None \
                    and self.mod.NmeaParser.__module__ == 'ubxlib.parser_nmea':
                return 'py_new_nmea_parser'
            ctor = self.constructor(e, f)
            if ctor is not None:
                return ctor
            if f == 'UbxCID' and len(e.args) == 2 and getattr(self.mod, 'UbxCID', None) is not None:
                return f'(py_mk_cid {self.ex(e.args[0])} {self.ex(e.args[1])})'
            err(e, f'call {f} is not a pure expression of the subset')
        err(e, f'expression {type(e).__name__} not supported')

    def tst(self, e):
        """condition -> Coq bool"""
        if isinstance(e, ast.BoolOp):
            op = 'andb' if isinstance(e.op, ast.And) else 'orb'
            parts = [self.tst(v) for v in e.values]
            out = parts[-1]
            for p in reversed(parts[:-1]):
                out = f'({op} {p} {out})'
            return out
        if isinstance(e, ast.UnaryOp) and isinstance(e.op, ast.Not):
            return f'(negb {self.tst(e.operand)})'
        if isinstance(e, ast.Compare) and len(e.ops) == 2 and all(isinstance(o_, (ast.Lt, ast.LtE)) for o_ in e.ops):
            # a <= b <= c: both comparisons (the operands here are pure, so evaluating b twice is harmless)
            first = ast.Compare(left=e.left, ops=[e.ops[0]], comparators=[e.comparators[0]])
            second = ast.Compare(left=e.comparators[0], ops=[e.ops[1]], comparators=[e.comparators[1]])
            return f'(andb {self.tst(ast.copy_location(first, e))} {self.tst(ast.copy_location(second, e))})'
        if isinstance(e, ast.Compare):
            if len(e.ops) != 1:
                err(e, 'chained comparison not supported')
            op, a, b = e.ops[0], e.left, e.comparators[0]
            if isinstance(op, (ast.Is, ast.IsNot)):
                if not (isinstance(b, ast.Constant) and b.value is None):
                    err(e, '`is` only against None')
                t = f'(py_is_none {self.ex(a)})'
                return t if isinstance(op, ast.Is) else f'(negb {t})'
            if isinstance(op, ast.In):
                return f'(py_in {self.ex(a)} {self.ex(b)})'
            A, Bv = self.ex(a), self.ex(b)
            if isinstance(op, ast.Eq):
                return f'(py_eq {A} {Bv})'
            if isinstance(op, ast.NotEq):
                return f'(negb (py_eq {A} {Bv}))'
            if isinstance(op, ast.Lt):
                return f'(py_lt {A} {Bv})'
            if isinstance(op, ast.LtE):
                return f'(py_le {A} {Bv})'
            if isinstance(op, ast.Gt):
                return f'(py_lt {Bv} {A})'
            if isinstance(op, ast.GtE):
                return f'(py_le {Bv} {A})'
            err(e, f'comparison {type(op).__name__} not supported')
        if isinstance(e, ast.Call) and dotted(e.func) == 'isinstance' and len(e.args) == 2:
            k = dotted(e.args[1])
            table = {'UbxFrame': 'py_is_frame', 'UbxCID': 'py_is_cid', 'list': 'py_is_list', 'dict': 'py_is_dict'}
            if k in table:
                return f'({table[k]} {self.ex(e.args[0])})'
            err(e, f'isinstance(_, {k}) not supported')
        return f'(truthy {self.ex(e)})'

    def constructor(self, e, f):
        """Fields() / U1('name') ... / CfgKeyData('name'): fresh objects (field names are not modelled)"""
        if f is None or '.' in f or not hasattr(self.mod, f):
            return None
        k = getattr(self.mod, f)
        import ubxlib.types as T_
        if k is getattr(T_, 'Fields', None) and not e.args:
            return 'py_new_fields'
        int_classes = [getattr(T_, n_, None) for n_ in ('U1', 'U2', 'U4', 'I1', 'I2', 'I4', 'X1', 'X2', 'X4')]
        if k in int_classes and len(e.args) == 1:
            if k.__bases__ != (T_.Item,) or any(m_ in k.__dict__ for m_ in ('pack', 'unpack', '__init__')) is False and False:
                err(e, f'{f}: no longer a plain Item subclass')
            if k.__bases__ != (T_.Item,) or 'pack' in k.__dict__ or 'unpack' in k.__dict__:
                err(e, f'{f}: no longer a plain Item subclass')
            return f'(py_new_int_item {coq_str(k.fmt)})'
        try:
            import ubxlib.cfgkeys as K_
        except Exception:
            K_ = None
        if K_ is not None and k is getattr(K_, 'CfgKeyData', None) and len(e.args) == 1:
            return 'py_new_cfgkey'
        return None

    # ---- effectful calls: returns a Coq term of type fres (variables l, w in scope)
    def call(self, c):
        if not isinstance(c, ast.Call):
            return None
        f = dotted(c.func)
        if f is None or c.keywords:
            return None
        args = c.args
        if f in SELF_PRIMS:
            prim, n = SELF_PRIMS[f]
            if len(args) != n:
                err(c, f'{f}: expected {n} argument(s)')
            return f'({prim} w ' + ' '.join(self.ex(a) for a in args) + ')' if n else f'({prim} w)'
        if f == 'FrameFactory.getInstance' and not args:
            return '(FRet PFactory w)'
        parts = f.split('.')
        if len(parts) == 2 and parts[0] == 'self' and parts[1] in self.known:
            callee = self.known[parts[1]]
            n_max = len(callee.params)
            n_min = n_max - len(callee.defaults)
            if not n_min <= len(args) <= n_max:
                err(c, f'{f}: wrong number of arguments')
            vals = [self.ex(a) for a in args] + [callee.defaults[p] for p in callee.params[len(args):]]
            return f'({gname(parts[1])} fuel ' + ' '.join(vals) + ' w)' if vals else f'({gname(parts[1])} fuel w)'
        if len(parts) == 2 and parts[0] in self.locals:
            recv = self.ex(ast.Name(id=parts[0], lineno=c.lineno))
            if parts[1] == '_cls_response' and not args:
                return f'(prim_cls_response w {recv})'
            if parts[1] == 'to_bytes' and not args:
                return f'(prim_to_bytes w {recv})'
            if parts[1] == 'build_with_data' and len(args) == 2:
                return (f'(match {recv} with PFactory => prim_build sk w {self.ex(args[0])} {self.ex(args[1])} '
                        f'| _ => FRaise AttributeError w end)')
        if f == 'self.frame_factory.build_with_data' and len(args) == 2:
            return f'(prim_build sk w {self.ex(args[0])} {self.ex(args[1])})'
        return None

    # ---- statements -> Coq term of type stmt E L
    def block(self, body):
        out = None
        terms = []
        for st in body:
            if is_noop(st):
                continue
            terms.append(self.stmt(st))
        if not terms:
            return 's_skip'
        out = terms[-1]
        for t in reversed(terms[:-1]):
            out = f'(s_seq {t}\n {out})'
        return out

    def lam(self, body):
        return f'(fun l w => {body})'

    def stmt(self, st):
        if isinstance(st, ast.Assign):
            if len(st.targets) != 1:
                err(st, 'chained assignment not supported')
            tgt = st.targets[0]
            call = self.call(st.value)
            if isinstance(tgt, ast.Name):
                if call is not None:
                    t = f'(s_call_assign {self.setter(tgt.id)} {self.lam(call)})'
                else:
                    t = f'(s_assign {self.setter(tgt.id)} {self.lam(self.ex(st.value))})'
                self.defined.add(tgt.id)
                return t
            if isinstance(tgt, ast.Tuple) and len(tgt.elts) == 2 and all(isinstance(x, ast.Name) for x in tgt.elts) and call is not None:
                t = f'(s_call_assign2 {self.setter(tgt.elts[0].id)} {self.setter(tgt.elts[1].id)} {self.lam(call)})'
                self.defined.update(x.id for x in tgt.elts)
                return t
            err(st, 'assignment target not supported')
        if isinstance(st, ast.Expr):
            c = st.value
            if isinstance(c, ast.Call):
                f = dotted(c.func)
                if f and f.endswith('.pack') and not c.args and f.split('.')[0] in self.locals and len(f.split('.')) == 2:
                    v = f.split('.')[0]
                    if v not in self.defined:
                        err(st, f'local {v} may be read before it is assigned')
                    return f'(s_update {self.fld(v)} {self.setter(v)} py_pack)'
                if f and f.endswith('.process') and len(c.args) == 1 and f.split('.')[0] in self.locals and len(f.split('.')) == 2:
                    v = f.split('.')[0]
                    if v not in self.defined:
                        err(st, f'local {v} may be read before it is assigned')
                    return f'(s_update_arg {self.fld(v)} {self.setter(v)} {self.lam(self.ex(c.args[0]))} py_obj_process)'
                call = self.call(c)
                if call is not None:
                    return f'(s_call {self.lam(call)})'
            err(st, f'expression statement not supported: {ast.unparse(st)[:60]}')
        if isinstance(st, ast.If):
            t = self.tst(st.test)
            before = set(self.defined)
            a = self.block(st.body)
            da = self.defined
            self.defined = set(before)
            b = self.block(st.orelse)
            db = self.defined
            # a branch that cannot fall through (return / break / continue / raise) does not constrain what is defined after
            self.defined = (da if self._diverges(st.orelse) else db if self._diverges(st.body) else da & db)
            return f'(s_if {self.lam(t)}\n {a}\n {b})'
        if isinstance(st, ast.While):
            if st.orelse:
                err(st, 'while/else not supported')
            c = st.test
            if (isinstance(c, ast.Compare) and len(c.ops) == 1 and isinstance(c.ops[0], ast.Lt)
                    and isinstance(c.left, ast.Call) and dotted(c.left.func) == 'time.time' and not c.left.args):
                cond = self.lam(f'p_before w {self.ex(c.comparators[0])}')
            else:
                cond = self.lam(f'({self.tst(c)}, w)')
            before = set(self.defined)
            body = self.block(st.body)
            self.defined = before            # the body may not run at all
            return f'(s_while fuel {cond}\n {body})'
        if isinstance(st, ast.For):
            if st.orelse or not isinstance(st.target, ast.Name):
                err(st, 'for loop form not supported')
            it = st.iter
            if not (isinstance(it, ast.Call) and dotted(it.func) == 'range' and len(it.args) == 1 and not it.keywords):
                err(st, 'only `for _ in range(n)` is supported')
            n = self.ex(it.args[0])
            before = set(self.defined)
            body = self.block(st.body)
            self.defined = before
            return f'(fun l w => s_for_range (range_count {n}) {body} l w)'
        if isinstance(st, ast.Return):
            if st.value is None:
                return '(s_return (fun l w => PNone))'
            call = self.call(st.value)
            if call is not None:
                return f'(s_call_return {self.lam(call)})'
            return f'(s_return {self.lam(self.ex(st.value))})'
        if isinstance(st, ast.Break):
            return 's_break'
        if isinstance(st, ast.Continue):
            return 's_continue'
        if isinstance(st, ast.Assert):
            return f'(s_assert {self.lam(self.tst(st.test))})'
        if isinstance(st, ast.Raise):
            d = dotted(st.exc) if st.exc is not None and not isinstance(st.exc, ast.Call) else (dotted(st.exc.func) if st.exc is not None else None)
            if d in EXN and st.cause is None:
                return f'(s_raise {EXN[d]})'
            err(st, 'raise form not supported')
        if isinstance(st, ast.Try):
            if st.finalbody or st.orelse:
                err(st, 'try/finally and try/else not supported')
            before = set(self.defined)
            body = self.block(st.body)
            after_body = self.defined
            hs = []
            outs = []
            for h in st.handlers:
                if h.name is not None:
                    err(h, '`except ... as name` not supported')
                if h.type is None:
                    err(h, 'bare except not supported')
                types = h.type.elts if isinstance(h.type, ast.Tuple) else [h.type]
                names = []
                for t in types:
                    d = dotted(t)
                    if d not in EXN:
                        err(t, f'exception class {d} not supported')
                    names.append(EXN[d])
                self.defined = set(before)
                hb = self.block(h.body)
                if not self._diverges(h.body):
                    outs.append(self.defined)
                hs.append(f'([{"; ".join(names)}], {hb})')
            self.defined = after_body if not self._diverges(st.body) else None
            for o in outs:
                self.defined = o if self.defined is None else self.defined & o
            if self.defined is None:
                self.defined = set(before)
            return f'(s_try {body}\n [{"; ".join(hs)}])'
        err(st, f'statement {type(st).__name__} not supported')

    def _diverges(self, body):
        body = [b for b in body if not is_noop(b)]
        return bool(body) and isinstance(body[-1], (ast.Return, ast.Break, ast.Continue, ast.Raise))

    def emit(self):
        body = self.block(self.fn.body)
        params = ' '.join(f'(a_{p} : pyval)' for p in self.params)
        init = ' '.join([f'a_{p}' for p in self.params] + ['PNone'] * (len(self.locals) - len(self.params))) if self.locals else 'tt'
        return (f'Definition {gname(self.name)} (fuel : nat) {params} (w : world E) : fres :=\n'
                f'  run_body ({body}\n  (mkL_{self.short} {init}) w).')


def emit_req_v(path):
    import ubxlib.server_base as mod
    from ubxlib.cid import UbxCID
    from ubxlib.frame import UbxFrame
    cls = mod.UbxServerBase_
    for k, what in ((UbxFrame, 'UbxFrame'), (UbxCID, 'UbxCID')):
        if any(hasattr(k, m) for m in ('__bool__', '__len__')):
            raise TranslateError(f'{what} defines __bool__/__len__: object truthiness is no longer constant')
    if '__eq__' not in UbxCID.__dict__ or '__ne__' in UbxCID.__dict__:
        raise TranslateError('UbxCID comparison methods changed')
    # self.cid_crc_error = UbxCID(a, b) and self.parser = UbxParser(self.cid_crc_error) in __init__
    init = method_ast(cls, '__init__')
    crc = None
    parser_ok = False
    for st in init.body:
        if isinstance(st, ast.Assign) and len(st.targets) == 1:
            d = dotted(st.targets[0])
            v = st.value
            if d == 'self.cid_crc_error':
                if not (isinstance(v, ast.Call) and dotted(v.func) == 'UbxCID' and len(v.args) == 2
                        and all(isinstance(a, ast.Constant) and isinstance(a.value, int) for a in v.args)):
                    err(st, '__init__: cid_crc_error must be UbxCID(<int>, <int>)')
                crc = (v.args[0].value, v.args[1].value)
            if d == 'self.parser':
                parser_ok = (isinstance(v, ast.Call) and dotted(v.func) == 'UbxParser' and len(v.args) == 1
                             and dotted(v.args[0]) == 'self.cid_crc_error' and not v.keywords)
            if d == 'self.frame_factory':
                if not (isinstance(v, ast.Call) and dotted(v.func) == 'FrameFactory.getInstance'):
                    err(st, '__init__: frame_factory must be FrameFactory.getInstance()')
    if crc is None or not parser_ok:
        raise TranslateError('__init__: cid_crc_error / parser construction not recognised')
    L = ['(* GENERATED on every run by py/vlib/translate_req.py from ubxlib/server_base.py in /repo. Do not edit. *)',
         'From Coq Require Import String.',
         'From Ubx Require Import Fields Base Checksum Frame ParserUbx CfgKeys Request PySem.',
         'Open Scope N_scope.', '']
    known = {}
    fns = []
    for m in METHODS:
        f = Fn(mod, cls, m, dict(known), crc)
        fns.append(f)
        known[m] = f
    for f in fns:
        L += f.record()
    # the string constants that poll() assigns to its state local, in source order (the bridge proof refers to them by position:
    # waiting for the response, waiting for the ACK, done, timed out)
    tags = {}
    assigns = [node for node in ast.walk(known['poll'].fn)
               if isinstance(node, ast.Assign) and len(node.targets) == 1 and isinstance(node.targets[0], ast.Name)
               and isinstance(node.value, ast.Constant) and isinstance(node.value.value, str)]
    for node in sorted(assigns, key=lambda n_: (n_.lineno, n_.col_offset)):
        tags.setdefault(node.targets[0].id, [])
        if node.value.value not in tags[node.targets[0].id]:
            tags[node.targets[0].id].append(node.value.value)
    best = max(tags.values(), key=len) if tags else []
    # the locals that the retry loop of poll() assigns: everything else the loop only reads (loop-invariant)
    pf = known['poll']
    loops = [n_ for n_ in ast.walk(pf.fn) if isinstance(n_, ast.For)]
    assigned = []
    if len(loops) == 1:
        for node in ast.walk(loops[0]):
            tg = []
            if isinstance(node, ast.Assign):
                for t in node.targets:
                    tg += [t] if isinstance(t, ast.Name) else list(t.elts) if isinstance(t, ast.Tuple) else []
            for t in tg:
                if isinstance(t, ast.Name) and t.id in pf.locals and t.id not in assigned:
                    assigned.append(t.id)
    L.append('Definition g_poll_loop_stable (f : L_poll -> pyval) : Prop :=\n  '
             + ' /\\ '.join(f'(forall l v, f ({pf.setter(v)} l v) = f l)' for v in assigned) + (' /\\ True.' if assigned else 'True.'))
    L.append('Definition g_poll_state_strings : list string := [' + '; '.join(coq_str(x) + '%string' for x in best) + '].')
    L += ['', 'Section G.', 'Context {E : Type} (B : backend E) (sk : list N).',
          'Notation fres := (@fres E).', '']
    for f in fns:
        L.append(f.emit())
        L.append('')
    L.append('End G.')
    text = '\n'.join(L) + '\n'
    with open(path, 'w') as fh:
        fh.write(text)
    return text


def emit_scan_v(path):
    """GnssUBlox.scan() of ubxlib/server_tty.py (bit-rate scan with two private parsers) -> gen/ScanKernels.v"""
    import sys
    mod = sys.modules.get('ubxlib.server_tty')
    if mod is None:
        import ubxlib.server_tty as mod
    cls = mod.GnssUBlox
    f = Fn(mod, cls, 'scan', {}, (0, 0))
    if f.params != ['interval_in_s']:
        raise TranslateError(f'scan: parameters {f.params}')
    L = ['(* GENERATED on every run by py/vlib/translate_req.py from ubxlib/server_tty.py in /repo. Do not edit. *)',
         'From Coq Require Import String.',
         'From Ubx Require Import Fields Base Checksum Frame ParserUbx ParserNmea CfgKeys Request PySem.',
         'Open Scope N_scope.', '']
    L += f.record()
    L += ['', 'Section G.', 'Context {E : Type} (B : backend E) (sk : list N).', 'Notation fres := (@fres E).', '']
    L.append(f.emit())
    L += ['', 'End G.']
    text = '\n'.join(L) + '\n'
    with open(path, 'w') as fh:
        fh.write(text)
    return text


# --------------------------------------------------------------------------- methods of plain objects (cfgkeys.py)
OBJ_PRIMS = {
    'CfgKeyData._build_header': ('py_build_header', 3),
    'CfgKeyData._bits_from_key': ('py_bits_from_key', 1),
    'CfgKeyData._group_from_key': ('py_group_from_key', 1),
    'CfgKeyData._item_from_key': ('py_item_from_key', 1),
    'CfgKeyData._bytes_for_size': ('py_bytes_for_size', 1),
    'UbxKeyId.sign': ('py_key_sign sk', 1),
}


class ObjFn(Fn):
    """A method of a plain object: `self` is a value (PObj) held in a local; every translated method returns the pair
    (return value, self) so that attribute assignments made by a callee reach the caller."""
    objmode = True
    prefix = 'gc_'

    def __init__(self, mod, cls, name, known, prefix=None):
        if prefix:
            self.prefix = prefix
        super().__init__(mod, cls, name, known, (0, 0))
        self.params = ['self'] + self.params
        self.locals = ['self'] + [x for x in self.locals if x != 'self'] + ['aug__tmp']
        # temporaries for self.f.get(..) calls nested inside an expression (they may raise, so they are sequenced first)
        direct = {id(st.value) for st in ast.walk(self.fn) if isinstance(st, ast.Assign)}
        nested = [c for c in ast.walk(self.fn) if isinstance(c, ast.Call) and dotted(c.func) == 'self.f.get' and id(c) not in direct]
        self.locals += [f'hoist__{k}' for k in range(len(nested))]
        self.n_hoisted = 0
        self.defined.add('self')

    def _collect(self, body):
        # as Fn._collect, but augmented assignment to a local is allowed
        forbidden = (ast.AnnAssign, ast.NamedExpr, ast.With, ast.Global, ast.Nonlocal, ast.Lambda, ast.FunctionDef, ast.ClassDef,
                     ast.ListComp, ast.GeneratorExp, ast.DictComp, ast.SetComp, ast.Delete, ast.Import, ast.ImportFrom, ast.Yield,
                     ast.YieldFrom, ast.Await, ast.Starred, ast.AsyncFor, ast.AsyncWith, ast.AsyncFunctionDef)

        def walk(node):
            if isinstance(node, ast.stmt) and is_noop(node):
                return
            if isinstance(node, forbidden):
                err(node, f'{self.name}: {type(node).__name__} not supported')
            if isinstance(node, ast.For) and isinstance(node.target, ast.Name) and node.target.id not in self.locals:
                self.locals.append(node.target.id)
            if isinstance(node, ast.Assign):
                for t in node.targets:
                    if isinstance(t, ast.Name) and t.id not in self.locals:
                        self.locals.append(t.id)
            for ch in ast.iter_child_nodes(node):
                walk(ch)
        for st in body:
            walk(st)

    def call(self, c):
        if isinstance(c, ast.Subscript) and not isinstance(c.slice, ast.Slice) \
                and not (isinstance(c.slice, ast.Constant) and isinstance(c.slice.value, int)):
            return f'(res_call (py_getitem {self.ex(c.value)} {self.ex(c.slice)}) w)'
        if not isinstance(c, ast.Call):
            return None
        # data.decode().splitlines()
        if isinstance(c.func, ast.Attribute) and c.func.attr == 'splitlines' and not c.args and isinstance(c.func.value, ast.Call) \
                and isinstance(c.func.value.func, ast.Attribute) and c.func.value.func.attr == 'decode' and not c.func.value.args:
            return f'(res_call (py_decode_lines {self.ex(c.func.value.func.value)}) w)'
        if isinstance(c.func, ast.Attribute) and c.func.attr == 'unpack' and not c.args and isinstance(c.func.value, ast.Call) \
                and dotted(c.func.value.func) == 'super' and not c.func.value.args:
            # UbxFrame.unpack(): `return self.f.unpack(self.data)`
            from ubxlib.frame import UbxFrame
            fr = method_ast(UbxFrame, 'unpack')
            body_ = [b_ for b_ in fr.body if not is_noop(b_)]
            if not (UbxFrame in self.cls.__mro__ and len(body_) == 1 and isinstance(body_[0], ast.Return)
                    and ast.unparse(body_[0].value) == 'self.f.unpack(self.data)'):
                err(c, 'super().unpack() is not UbxFrame.unpack() = self.f.unpack(self.data)')
            sf = f'({self.fld("self")} l)'
            return f'(res_call (py_frame_unpack (py_getattr {sf} "f") (py_getattr {sf} "data")) w)'
        if isinstance(c.func, ast.Attribute) and c.func.attr == 'unpack' and len(c.args) == 1 and isinstance(c.func.value, ast.Name) \
                and getattr(self, 'local_cls', {}).get(c.func.value.id) == 'CfgKeyData':
            return f'(gc_unpack sk fuel ({self.fld(c.func.value.id)} l) {self.ex(c.args[0])} w)'
        f = dotted(c.func)
        if f is None or c.keywords:
            return None
        if f == 'self.f.get' and len(c.args) == 1:
            # Fields.get(name) = self._fields[name]: the item, KeyError if there is no such field
            self.uses_fields_get = True
            return f'(res_call (py_fld_item (py_getattr ({self.fld("self")} l) "f") {self.ex(c.args[0])}) w)'
        if f == 'json.loads' and len(c.args) == 1:
            import json as _json
            if getattr(self.mod, 'json', None) is not _json:
                err(c, 'json is not the standard module')
            return f'(res_call (py_json_loads {self.ex(c.args[0])}) w)'
        if f in OBJ_PRIMS:
            prim, n = OBJ_PRIMS[f]
            root = f.split('.')[0]
            real = getattr(self.mod, root, None)
            if real is None or real.__module__ != 'ubxlib.cfgkeys':
                err(c, f'{f}: not the library\'s {root}')
            if len(c.args) != n:
                err(c, f'{f}: expected {n} argument(s)')
            return f'(res_call ({prim} ' + ' '.join(self.ex(a) for a in c.args) + ') w)'
        if f in ('struct.pack', 'struct.unpack', 'struct.calcsize') and c.args and not (isinstance(c.args[0], ast.Constant)):
            import struct as _struct
            if getattr(self.mod, 'struct', None) is not _struct:
                err(c, 'struct is not the standard module')
            if f == 'struct.calcsize' and len(c.args) == 1:
                return f'(res_call (py_calcsize {self.ex(c.args[0])}) w)'
            if len(c.args) == 2:
                fn = 'py_struct_pack_v' if f == 'struct.pack' else 'py_struct_unpack_v'
                return f'(res_call ({fn} {self.ex(c.args[0])} {self.ex(c.args[1])}) w)'
        if isinstance(c.func, ast.Attribute) and c.func.attr in ('encode', 'decode') and not c.args:
            fn = 'py_encode' if c.func.attr == 'encode' else 'py_decode'
            return f'(res_call ({fn} {self.ex(c.func.value)}) w)'
        if f in ('struct.pack', 'struct.unpack') and len(c.args) == 2 and isinstance(c.args[0], ast.Constant) and isinstance(c.args[0].value, str):
            import struct as _struct
            if getattr(self.mod, 'struct', None) is not _struct:
                err(c, 'struct is not the standard module')
            fn = 'py_struct_pack' if f == 'struct.pack' else 'py_struct_unpack'
            return f'(res_call ({fn} {coq_str(c.args[0].value)} {self.ex(c.args[1])}) w)'
        parts = f.split('.')
        if len(parts) == 2 and parts[0] == 'self' and parts[1] in self.known:
            callee = self.known[parts[1]]
            if len(c.args) != len(callee.params) - 1:
                err(c, f'{f}: wrong number of arguments')
            vals = [f'({self.fld("self")} l)'] + [self.ex(a) for a in c.args]
            return f'({gname(parts[1], self.prefix)} fuel ' + ' '.join(vals) + ' w)'
        return None

    def is_method_call(self, c):
        f = dotted(c.func) if isinstance(c, ast.Call) else None
        return bool(f) and f.split('.')[0] == 'self' and len(f.split('.')) == 2 and f.split('.')[1] in self.known

    def pair_target(self, c):
        """calls that return (result, updated object): which local / attribute receives the updated object"""
        if isinstance(c, ast.Call) and isinstance(c.func, ast.Attribute) and c.func.attr == 'unpack':
            if not c.args and isinstance(c.func.value, ast.Call) and dotted(c.func.value.func) == 'super':
                return self.self_setter('f')
            if len(c.args) == 1 and isinstance(c.func.value, ast.Name) and getattr(self, 'local_cls', {}).get(c.func.value.id) == 'CfgKeyData':
                return self.setter(c.func.value.id)
        return None

    def self_setter(self, attr):
        return f'(fun l v => {self.setter("self")} l (py_setattr ({self.fld("self")} l) {coq_str(attr)} v))'

    def hoist_gets(self, node):
        """self.f.get(<pure>) calls nested in an expression -> (temporaries in evaluation order, expression over them)"""
        pre = []
        outer = self

        class T(ast.NodeTransformer):
            def visit_Call(s, c):
                c = s.generic_visit(c)
                if dotted(c.func) == 'self.f.get' and len(c.args) == 1 and not c.keywords:
                    name = f'hoist__{outer.n_hoisted}'
                    outer.n_hoisted += 1
                    if name not in outer.locals:
                        err(c, 'nested self.f.get(): no temporary left')
                    pre.append((name, c))
                    return ast.copy_location(ast.Name(id=name, ctx=ast.Load()), c)
                return c
        new = T().visit(copy.deepcopy(node))
        return pre, ast.fix_missing_locations(new)

    def stmt(self, st):
        if isinstance(st, ast.Assign) and len(st.targets) == 1 and not (isinstance(st.value, ast.Call) and dotted(st.value.func) == 'self.f.get') \
                and any(isinstance(c, ast.Call) and dotted(c.func) == 'self.f.get' for c in ast.walk(st.value)):
            # Python evaluates the operands left to right; every other part of the expression is pure
            pre, newv = self.hoist_gets(st.value)
            parts = []
            for name, c in pre:
                parts.append(f'(s_call_assign {self.setter(name)} {self.lam(self.call(c))})')
                self.defined.add(name)
            st2 = ast.copy_location(ast.Assign(targets=st.targets, value=newv), st)
            parts.append(self.stmt(st2))
            out = parts[-1]
            for t in reversed(parts[:-1]):
                out = f'(s_seq {t}\n {out})'
            return out
        if isinstance(st, ast.Return) and st.value is not None and not (isinstance(st.value, ast.Call) and dotted(st.value.func) == 'self.f.get') \
                and any(isinstance(c, ast.Call) and dotted(c.func) == 'self.f.get' for c in ast.walk(st.value)):
            pre, newv = self.hoist_gets(st.value)
            parts = []
            for name, c in pre:
                parts.append(f'(s_call_assign {self.setter(name)} {self.lam(self.call(c))})')
                self.defined.add(name)
            parts.append(self.stmt(ast.copy_location(ast.Return(value=newv), st)))
            out = parts[-1]
            for t in reversed(parts[:-1]):
                out = f'(s_seq {t}\n {out})'
            return out
        if isinstance(st, ast.Return):
            if st.value is None:
                return f'(s_return (fun l w => PTuple [PNone; {self.fld("self")} l]))'
            if self.call(st.value) is not None:
                err(st, 'return of a call is not supported in a method of a plain object')
            return f'(s_return (fun l w => PTuple [{self.ex(st.value)}; {self.fld("self")} l]))'
        if isinstance(st, ast.Assign) and len(st.targets) == 1 and isinstance(st.targets[0], ast.Attribute) \
                and isinstance(st.targets[0].value, ast.Attribute) and st.targets[0].value.attr == 'f' \
                and isinstance(st.targets[0].value.value, ast.Name) and st.targets[0].value.value.id == 'self' \
                and self.call(st.value) is None:
            # self.f.<name> = <pure expression>: Fields.__setattr__ on an existing field
            sf = f'({self.fld("self")} l)'
            return (f'(s_assign {self.self_setter("f")} (fun l w => py_fld_set (py_getattr {sf} "f") '
                    f'{coq_str(st.targets[0].attr)} {self.ex(st.value)}))')
        if isinstance(st, ast.AugAssign) and isinstance(st.target, ast.Attribute) and isinstance(st.target.value, ast.Name) \
                and st.target.value.id == 'self' and isinstance(st.op, (ast.BitOr, ast.BitAnd)):
            fn = 'py_or' if isinstance(st.op, ast.BitOr) else 'py_and'
            sf = f'({self.fld("self")} l)'
            return (f'(s_assign {self.self_setter(st.target.attr)} (fun l w => {fn} (py_getattr {sf} {coq_str(st.target.attr)}) '
                    f'{self.ex(st.value)}))')
        if isinstance(st, ast.Assign) and len(st.targets) == 1:
            tgt = st.targets[0]
            call = self.call(st.value)
            is_attr = isinstance(tgt, ast.Attribute) and isinstance(tgt.value, ast.Name) and tgt.value.id == 'self'
            if isinstance(tgt, ast.Name) and isinstance(st.value, ast.Call) and dotted(st.value.func) == 'CfgKeyData':
                self.local_cls = dict(getattr(self, 'local_cls', {}), **{tgt.id: 'CfgKeyData'})
            if (is_attr or isinstance(tgt, ast.Name)) and call is not None and self.pair_target(st.value) is not None:
                setter = self.self_setter(tgt.attr) if is_attr else self.setter(tgt.id)
                if not is_attr:
                    self.defined.add(tgt.id)
                return f'(s_call_assign2 {setter} {self.pair_target(st.value)} {self.lam(call)})'
            if is_attr or isinstance(tgt, ast.Name):
                setter = self.self_setter(tgt.attr) if is_attr else self.setter(tgt.id)
                if call is None:
                    t = f'(s_assign {setter} {self.lam(self.ex(st.value))})'
                elif self.is_method_call(st.value):
                    t = f'(s_call_assign2 {setter} {self.setter("self")} {self.lam(call)})'
                else:
                    t = f'(s_call_assign {setter} {self.lam(call)})'
                if not is_attr:
                    self.defined.add(tgt.id)
                return t
            err(st, 'assignment target not supported')
        if isinstance(st, ast.AugAssign) and isinstance(st.target, ast.Name) and isinstance(st.op, ast.Add):
            v = st.target.id
            if v not in self.defined:
                err(st, f'local {v} may be read before it is assigned')
            call = self.call(st.value)
            if call is None:
                return f'(s_assign {self.setter(v)} {self.lam(f"py_add ({self.fld(v)} l) {self.ex(st.value)}")})'
            first = (f'(s_call_assign2 {self.setter("aug__tmp")} {self.setter("self")} {self.lam(call)})' if self.is_method_call(st.value)
                     else f'(s_call_assign {self.setter("aug__tmp")} {self.lam(call)})')
            return f'(s_seq {first}\n (s_assign {self.setter(v)} (fun l w => py_add ({self.fld(v)} l) ({self.fld("aug__tmp")} l))))'
        if isinstance(st, ast.Expr) and isinstance(st.value, ast.Call) and self.is_method_call(st.value):
            return f'(s_call_assign2 (fun l _ => l) {self.setter("self")} {self.lam(self.call(st.value))})'
        if isinstance(st, ast.Expr) and isinstance(st.value, ast.Call) and dotted(st.value.func) == 'self.f.add' and len(st.value.args) == 1:
            sf = f'({self.fld("self")} l)'
            return (f'(s_assign {self.self_setter("f")} (fun l w => py_fields_add (py_getattr {sf} "f") {self.ex(st.value.args[0])}))')
        if isinstance(st, ast.Expr) and isinstance(st.value, ast.Call) and isinstance(st.value.func, ast.Attribute) \
                and not st.value.args and not st.value.keywords and isinstance(st.value.func.value, ast.Subscript) \
                and dotted(st.value.func.value.value) == 'self.f._fields' and st.value.func.attr in getattr(self, 'item_methods', {}):
            # self.f._fields[name].<method>(): the item's (translated) method, its new value written back to the field
            kern = self.item_methods[st.value.func.attr]
            sf = f'({self.fld("self")} l)'
            nm = self.ex(st.value.func.value.slice)
            setback = (f'(fun l v => {self.setter("self")} l (py_setattr {sf} "f" (py_fld_set_v (py_getattr {sf} "f") {nm} '
                       f'(py_getattr v "value"))))')
            callee = (f'(fun l w => match py_fld_item (py_getattr {sf} "f") {nm} with Ok it => {kern} fuel it w '
                      f'| Raise e => FRaise e w end)')
            return f'(s_call_assign2 (fun l _ => l) {setback} {callee})'
        if isinstance(st, ast.For) and isinstance(st.iter, ast.Call) and dotted(st.iter.func) == 'range' and len(st.iter.args) == 1 \
                and not st.iter.keywords and isinstance(st.target, ast.Name) and not st.orelse and self.call(st.iter.args[0]) is None:
            v = st.target.id
            before = set(self.defined)
            self.defined.add(v)
            body = self.block(st.body)
            self.defined = before
            return f'(s_for_list {self.lam("py_range " + self.ex(st.iter.args[0]))} {self.setter(v)} {body})'
        if isinstance(st, ast.For):
            if st.orelse or not isinstance(st.target, ast.Name):
                err(st, 'for loop form not supported')
            v = st.target.id
            call = self.call(st.iter)
            before = set(self.defined)
            self.defined.add(v)
            body = self.block(st.body)
            self.defined = before
            if call is None:
                return f'(s_for_list {self.lam(self.ex(st.iter))} {self.setter(v)} {body})'
            return (f'(s_seq (s_call_assign {self.setter("aug__tmp")} {self.lam(call)})\n'
                    f' (s_for_list (fun l w => {self.fld("aug__tmp")} l) {self.setter(v)} {body}))')
        return super().stmt(st)

    def loop_stable(self):
        """for a method with exactly one `for` loop: the predicate `f cannot be changed by the locals the loop assigns`"""
        loops = [n_ for n_ in ast.walk(self.fn) if isinstance(n_, ast.For)]
        if len(loops) != 1:
            return []
        assigned = []

        def add(v):
            if v in self.locals and v not in assigned:
                assigned.append(v)
        if isinstance(loops[0].target, ast.Name):
            add(loops[0].target.id)
        for node in ast.walk(loops[0]):
            if isinstance(node, (ast.Assign, ast.AugAssign)):
                tgs = node.targets if isinstance(node, ast.Assign) else [node.target]
                for t in tgs:
                    if isinstance(t, ast.Name):
                        add(t.id)
                    elif isinstance(t, ast.Attribute) and isinstance(t.value, ast.Name) and t.value.id == 'self':
                        add('self')
                if isinstance(node, ast.AugAssign):
                    add('aug__tmp')
            if isinstance(node, ast.Call) and self.is_method_call(node):
                add('self')
            if isinstance(node, ast.For) and node is not loops[0]:
                return []
        return [f'Definition {gname(self.name, self.prefix)}_loop_stable (f : L_{self.short} -> pyval) : Prop :=\n  '
                + ' /\\ '.join(f'(forall l v, f ({self.setter(v)} l v) = f l)' for v in assigned) + ' /\\ True.']

    def emit(self):
        body = self.block(self.fn.body)
        params = ' '.join(f'(a_{p} : pyval)' for p in self.params)
        init = ' '.join([f'a_{p}' for p in self.params] + ['PNone'] * (len(self.locals) - len(self.params)))
        return (f'Definition {gname(self.name, self.prefix)} (fuel : nat) {params} (w : world E) : fres :=\n'
                f'  run_body ((s_seq {body}\n  (s_return (fun l w => PTuple [PNone; {self.fld("self")} l])))\n'
                f'  (mkL_{self.short} {init}) w).')


CFG_METHODS = ['_pack_keyid', '_pack_value', 'pack', '_unpack_value', 'unpack']


def emit_cfgobj_v(path):
    """CfgKeyData.pack / unpack and their helpers (ubxlib/cfgkeys.py) -> gen/CfgKernels.v"""
    import ubxlib.cfgkeys as mod
    cls = mod.CfgKeyData
    known = {}
    fns = []
    for m in CFG_METHODS:
        f = ObjFn(mod, cls, m, dict(known))
        f.short = 'c' + f.short
        fns.append(f)
        known[m] = f
    L = ['(* GENERATED on every run by py/vlib/translate_req.py from ubxlib/cfgkeys.py in /repo. Do not edit. *)',
         'From Coq Require Import String.',
         'From Ubx Require Import Fields Base Checksum Frame ParserUbx ParserNmea CfgKeys Request PySem.',
         'Open Scope N_scope.', '']
    for f in fns:
        L += f.record()
    L += ['', 'Section G.', 'Context {E : Type} (B : backend E) (sk : list N).', 'Notation fres := (@fres E).', '']
    for f in fns:
        L.append(f.emit())
        L.append('')
    L.append('End G.')
    text = '\n'.join(L) + '\n'
    with open(path, 'w') as fh:
        fh.write(text)
    return text


def emit_items_v(path):
    """Item / Padding / CH pack and unpack (ubxlib/types.py) -> gen/ItemKernels.v"""
    import ubxlib.types as mod
    fns = []
    for cls, pre, tag in ((mod.Item, 'gi_', 'i'), (mod.Padding, 'gp_', 'p'), (mod.CH, 'gh_', 'h')):
        for m in ('pack', 'unpack'):
            if m not in cls.__dict__:
                raise TranslateError(f'{cls.__name__}.{m} is no longer defined in the class itself')
            f = ObjFn(mod, cls, m, {}, prefix=pre)
            f.short = tag + f.short
            fns.append(f)
    # the integer types only set fmt (and fmt_string for rendering): anything else would bypass Item.pack/unpack
    for name in ('U1', 'U2', 'U4', 'I1', 'I2', 'I4', 'X1', 'X2', 'X4'):
        k = getattr(mod, name)
        if k.__bases__ != (mod.Item,) or any(m in k.__dict__ for m in ('pack', 'unpack')):
            raise TranslateError(f'{name}: no longer a plain Item subclass')
    L = ['(* GENERATED on every run by py/vlib/translate_req.py from ubxlib/types.py in /repo. Do not edit. *)',
         'From Coq Require Import String.',
         'From Ubx Require Import Fields Base Checksum Frame ParserUbx ParserNmea CfgKeys Request PySem.',
         'Open Scope N_scope.', '']
    for f in fns:
        L += f.record()
    L.append('Definition g_item_fmts : list (string * string) := [' + '; '.join(
        f'({coq_str(n)}%string, {coq_str(getattr(mod, n).fmt)}%string)' for n in ('U1', 'U2', 'U4', 'I1', 'I2', 'I4', 'X1', 'X2', 'X4')) + '].')
    L += ['', 'Section G.', 'Context {E : Type} (B : backend E) (sk : list N).', 'Notation fres := (@fres E).', '']
    for f in fns:
        L.append(f.emit())
        L.append('')
    L.append('End G.')
    text = '\n'.join(L) + '\n'
    with open(path, 'w') as fh:
        fh.write(text)
    return text


GPSD_METHODS = ['_parse_version', '_parse_devices', '_parse_gpsd_msg']


def emit_gpsd_v(path):
    """GnssUBlox._parse_gpsd_msg / _parse_version / _parse_devices (ubxlib/server.py) -> gen/GpsdKernels.v"""
    import ubxlib.server as mod
    cls = mod.GnssUBlox
    known = {}
    fns = []
    for m in GPSD_METHODS:
        f = ObjFn(mod, cls, m, dict(known), prefix='gg_')
        f.short = 'g' + f.short
        fns.append(f)
        known[m] = f
    L = ['(* GENERATED on every run by py/vlib/translate_req.py from ubxlib/server.py in /repo. Do not edit. *)',
         'From Coq Require Import String.',
         'From Ubx Require Import Fields Base Checksum Frame ParserUbx ParserNmea CfgKeys Request Gpsd PySem.',
         'Open Scope N_scope.', '']
    for f in fns:
        L += f.record()
    for f in fns:
        L += f.loop_stable()
    L += ['', 'Section G.', 'Context {E : Type} (B : backend E) (sk : list N).', 'Notation fres := (@fres E).', '']
    for f in fns:
        L.append(f.emit())
        L.append('')
    L.append('End G.')
    text = '\n'.join(L) + '\n'
    with open(path, 'w') as fh:
        fh.write(text)
    return text


def emit_valget_v(path):
    """UbxCfgValGet.unpack (ubxlib/ubx_cfg_valget.py): header fields, then the loop over key/value pairs -> gen/ValgetKernels.v
    (uses gc_unpack of CfgKernels.v, generated next to it)"""
    import ubxlib.ubx_cfg_valget as mod
    emit_cfgobj_v(os.path.join(os.path.dirname(path), 'CfgKernels.v'))
    f = ObjFn(mod, mod.UbxCfgValGet, 'unpack', {}, prefix='gv_')
    f.short = 'v' + f.short
    L = ['(* GENERATED on every run by py/vlib/translate_req.py from ubxlib/ubx_cfg_valget.py in /repo. Do not edit. *)',
         'From Coq Require Import String.',
         'From Ubx Require Import Fields Base Checksum Frame ParserUbx ParserNmea CfgKeys Request PySem.',
         'From UbxGen Require Import CfgKernels.',
         'Open Scope N_scope.', '']
    L += f.record()
    # the role of a local, whatever it is called: the one that receives the rest of the payload from super().unpack()
    work = [st.targets[0].id for st in ast.walk(f.fn) if isinstance(st, ast.Assign) and len(st.targets) == 1
            and isinstance(st.targets[0], ast.Name) and isinstance(st.value, ast.Call) and isinstance(st.value.func, ast.Attribute)
            and st.value.func.attr == 'unpack' and isinstance(st.value.func.value, ast.Call) and dotted(st.value.func.value.func) == 'super']
    if len(work) != 1:
        raise TranslateError('UbxCfgValGet.unpack: expected exactly one local assigned from super().unpack()')
    L.append(f'Notation vunpack__ROLE_work := {f.fld(work[0])}.')
    L += ['', 'Section G.', 'Context {E : Type} (B : backend E) (sk : list N).', 'Notation fres := (@fres E).', '']
    L.append(f.emit())
    L += ['', 'End G.']
    text = '\n'.join(L) + '\n'
    with open(path, 'w') as fh:
        fh.write(text)
    return text


HELPERS = [('ubxlib.ubx_cfg_rate', 'UbxCfgRate', ['set_rate_in_hz'], 'ghr_'),
           ('ubxlib.ubx_cfg_cfg', 'UbxCfgCfgAction', ['save', 'reset'], 'ghc_'),
           ('ubxlib.ubx_cfg_rst', 'UbxCfgRstAction', ['warm_start', 'cold_start', 'start', 'stop'], 'ghs_'),
           ('ubxlib.ubx_upd_sos', 'UbxUpdSosAction', ['backup', 'clear'], 'ghu_'),
           ('ubxlib.ubx_cfg_esfla', 'UbxCfgEsflaSet', ['set'], 'ghe_'),
           ('ubxlib.ubx_mga_ini_time_utc', 'UbxMgaIniTimeUtc', ['set_datetime'], 'ght_'),
           ('ubxlib.ubx_cfg_gnss', 'X4_Flags', ['enable', 'disable'], 'ghf_')]


GNSS_METHODS = ['_find_entry', 'enable_gnss', 'disable_gnss', 'gps_glonass', 'gps_galileo_beidou']


def emit_gnss_v(path):
    """UbxCfgGnss._find_entry / enable_gnss / disable_gnss and the two presets (ubxlib/ubx_cfg_gnss.py), with X4_Flags.enable /
    disable -> gen/GnssKernels.v"""
    import ubxlib.ubx_cfg_gnss as mod
    import ubxlib.types as T_
    cls = mod.UbxCfgGnss
    flags = mod.X4_Flags
    # which classes define enable()/disable(): the flags item only (dynamic dispatch on self.f._fields[..] resolves to it)
    for meth in ('enable', 'disable'):
        owners = [k.__name__ for k in vars(mod).values() if isinstance(k, type) and meth in k.__dict__] \
            + [k.__name__ for k in vars(T_).values() if isinstance(k, type) and meth in k.__dict__]
        if owners != ['X4_Flags']:
            raise TranslateError(f'{meth}() is defined by {owners}, expected X4_Flags only')
    # Fields.get(name) must be the plain dictionary lookup
    g_ = method_ast(T_.Fields, 'get')
    gb = [b_ for b_ in g_.body if not is_noop(b_)]
    arg = g_.args.args[1].arg if len(g_.args.args) == 2 else None
    if not (len(gb) == 1 and isinstance(gb[0], ast.Return) and ast.unparse(gb[0].value) == f'self._fields[{arg}]'):
        raise TranslateError('Fields.get is no longer `return self._fields[<its argument>]`')
    # the block fields of the decoded frame: gnssId_{i} ... flags_{i} with flags an X4_Flags (read off unpack())
    src_unpack = ast.unparse(method_ast(cls, 'unpack'))
    if "X4_Flags(f'flags_{i}')" not in src_unpack or "U1_GnssId(f'gnssId_{i}')" not in src_unpack:
        raise TranslateError('UbxCfgGnss.unpack no longer builds gnssId_{i} / flags_{i} (X4_Flags) per block')
    fns = []
    item_methods = {}
    for m in ('enable', 'disable'):
        if m not in flags.__dict__:
            raise TranslateError(f'X4_Flags.{m} is no longer defined in the class itself')
        f = ObjFn(mod, flags, m, {}, prefix='ghf_')
        f.short = 'hf_' + f.short
        fns.append(f)
        item_methods[m] = gname(m, 'ghf_')
    known = {}
    for m in GNSS_METHODS:
        if m not in cls.__dict__:
            raise TranslateError(f'UbxCfgGnss.{m} is no longer defined in the class itself')
        f = ObjFn(mod, cls, m, dict(known), prefix='ghg_')
        f.short = 'hg_' + f.short
        f.item_methods = item_methods
        fns.append(f)
        known[m] = f
    L = ['(* GENERATED on every run by py/vlib/translate_req.py from ubxlib/ubx_cfg_gnss.py in /repo. Do not edit. *)',
         'From Coq Require Import String.',
         'From Ubx Require Import Fields Base Checksum Frame ParserUbx ParserNmea CfgKeys Request PySem.',
         'Open Scope N_scope.', '']
    for f in fns:
        L += f.record()
    L += ['', 'Section G.', 'Context {E : Type} (B : backend E) (sk : list N).', 'Notation fres := (@fres E).', '']
    for f in fns:
        L.append(f.emit())
        L.append('')
    L.append('End G.')
    text = '\n'.join(L) + '\n'
    with open(path, 'w') as fh:
        fh.write(text)
    return text


def emit_lever_v(path):
    """UbxCfgEsfla.lever_arm (ubxlib/ubx_cfg_esfla.py) -> gen/LeverKernels.v"""
    import ubxlib.ubx_cfg_esfla as mod
    import ubxlib.types as T_
    cls = mod.UbxCfgEsfla
    if 'lever_arm' not in cls.__dict__:
        raise TranslateError('UbxCfgEsfla.lever_arm is no longer defined in the class itself')
    g_ = method_ast(T_.Fields, 'get')
    gb = [b_ for b_ in g_.body if not is_noop(b_)]
    arg = g_.args.args[1].arg if len(g_.args.args) == 2 else None
    if not (len(gb) == 1 and isinstance(gb[0], ast.Return) and ast.unparse(gb[0].value) == f'self._fields[{arg}]'):
        raise TranslateError('Fields.get is no longer `return self._fields[<its argument>]`')
    f = ObjFn(mod, cls, 'lever_arm', {}, prefix='ghl_')
    f.short = 'hl_' + f.short
    L = ['(* GENERATED on every run by py/vlib/translate_req.py from ubxlib/ubx_cfg_esfla.py in /repo. Do not edit. *)',
         'From Coq Require Import String.',
         'From Ubx Require Import Fields Base Checksum Frame ParserUbx ParserNmea CfgKeys Request PySem.',
         'Open Scope N_scope.', '']
    L += f.record()
    L += ['', 'Section G.', 'Context {E : Type} (B : backend E) (sk : list N).', 'Notation fres := (@fres E).', '']
    L.append(f.emit())
    L += ['', 'End G.']
    text = '\n'.join(L) + '\n'
    with open(path, 'w') as fh:
        fh.write(text)
    return text


def emit_helpers_v(path):
    """The straight-line convenience setters (CFG-RATE, CFG-CFG, CFG-RST, UPD-SOS, CFG-ESFLA set, MGA-INI-TIME_UTC) and the
    enable/disable bit of a CFG-GNSS flags field -> gen/HelperKernels.v"""
    import importlib
    fns = []
    for modname, clsname, methods, pre in HELPERS:
        mod = importlib.import_module(modname)
        cls = getattr(mod, clsname)
        for m in methods:
            if m not in cls.__dict__:
                raise TranslateError(f'{clsname}.{m} is no longer defined in the class itself')
            f = ObjFn(mod, cls, m, {}, prefix=pre)
            f.short = pre[1:] + f.short
            fns.append(f)
    L = ['(* GENERATED on every run by py/vlib/translate_req.py from the ubx_*.py message modules in /repo. Do not edit. *)',
         'From Coq Require Import String.',
         'From Ubx Require Import Fields Base Checksum Frame ParserUbx ParserNmea CfgKeys Request PySem.',
         'Open Scope N_scope.', '']
    for f in fns:
        L += f.record()
    L += ['', 'Section G.', 'Context {E : Type} (B : backend E) (sk : list N).', 'Notation fres := (@fres E).', '']
    for f in fns:
        L.append(f.emit())
        L.append('')
    L.append('End G.')
    text = '\n'.join(L) + '\n'
    with open(path, 'w') as fh:
        fh.write(text)
    return text
