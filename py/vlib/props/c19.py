"""C19 — frames can always be rendered; the log level never changes behaviour."""
import logging

from .. import common as C
from .. import fieldsgen as F
from .. import reflect as R
from .. import reqcheck as RC
from .. import reqsuite as S
from .. import ubxgen as G
from ..common import Case
from .c08 import wf_payload

CHECKER = ('coqc proofs/RenderP.v + per-run coqc props/C19.v against the renderer tables regenerated from /repo + correspondence str(frame) vs '
           'extracted render model + DEBUG-vs-disabled differential on requests and parsing')


def rfields_token(frame, cached):
    items = sorted(frame.f._fields.values(), key=lambda it: it.order)
    out = []
    for it in items:
        out.append(f'{it.name}:{R.item_token(it)}:{R.rcls_of(it)}:{F.value_token(it.value)}:{cached.get(it.name, 0)}')
    return ','.join(out) or '-'


def impl_str(frame):
    s = str(frame)
    names = [it.name for it in sorted(frame.f._fields.values(), key=lambda it: it.order) if R.item_token(it)[0] != 'P']
    missing = [n for n in names if (n + ':') not in s]
    if frame.NAME not in s:
        return 'name-missing'
    if missing:
        return 'field-missing:' + ','.join(missing)
    return 'ok N=' + frame.NAME + (',' + ','.join(names) if names else '')


def check(tier, seed):
    res = C.Result('C19', tier, seed)
    res.rule = ('every message class x {fresh, decoded from generated well-formed payloads, edited with in-range values}: str(frame) must not '
                'raise and must contain the message name and every non-reserved field name; every table-rendered field through all 256 byte '
                'values (decoded); CfgKeyData rendering over sizes/signs/boundary values; compared with the render model; request scenarios and '
                'parser schedules run twice, "ubxlib" logger disabled vs DEBUG (null handler): identical results, traces and exceptions '
                '(implementation-only differential); non-trivial = frame with >= 1 field')
    with C.WorkDir('C19') as wd:
        C.audit_sources()
        tb = C.tie_b(res, wd)
        if tb:
            mt, kt, cs, xq = tb
            C.props_obligations(res, 'C19', wd, extra_q=xq, dynamic=True)
            try:
                tabs = R.render_tables()
            except Exception:
                tabs = {}
        else:
            try:
                mt, kt, tabs = R.message_table(), R.key_tables(), R.render_tables()
            except Exception:
                mt, kt, tabs = {}, {'consts': {}, 'signed': []}, {}
        ttok = ','.join(f'{k}:{v}' for k, v in sorted(tabs.items())) or '-'
        if R.RENDER_FALLBACK:
            res.notes['render_tables_not_found_by_reflection_pinned_lengths_used'] = list(R.RENDER_FALLBACK)
        rng = C.rng_for(seed, 'C19')
        cases = []

        def add(frame, cached, desc, kind):
            try:
                cmd = f'render {ttok} {frame.NAME} {rfields_token(frame, cached)}'
            except R.ReflectError as e:
                res.violation('unknown renderer class: ' + str(e), {'property': 'C19', 'input': desc, 'broken': 'renderer catalogue'}, 'c19-rcls', False)
                return
            impl = C.guarded(impl_str, frame)
            if not impl.startswith('ok'):
                res.violation(f'str() of a {desc["state"]} {desc["message"]} frame: {impl}', {'property': 'C19', 'input': desc, 'result': impl},
                              f'c19-str|{desc["message"]}|{desc["state"]}|{impl[:30]}')
            cases.append(Case('str-frame', cmd, impl, desc, kind=kind))
        per = 4 if tier == 'quick' else 80
        for name, e in sorted(mt.items()):
            cls = e['cls']
            if e['kind'] not in ('fixed', 'counted', 'monver'):
                continue
            if e['kind'] == 'fixed':
                add(cls(), {}, {'message': name, 'state': 'fresh'}, name + '/fresh')
            if e['kind'] == 'fixed' and not e['layout']:
                continue
            for _ in range(per):
                lay, pay = wf_payload(rng, e)
                if len(pay) > 1100:
                    continue
                fr = cls.construct(bytearray(pay))
                cached = {it.name: it.value for it in fr.f._fields.values() if isinstance(it.value, int)}
                add(fr, cached, {'message': name, 'state': 'decoded', 'payload_hex': C.hexs(pay)}, name + '/decoded')
                editable = [(n, t) for n, t in lay if t[0] != 'P']
                if editable:
                    for fn, ft in rng.sample(editable, min(3, len(editable))):
                        v = F.in_range_value(rng, ft)
                        setattr(fr.f, fn, F.py_value(v))
                    add(fr, cached, {'message': name, 'state': 'edited', 'payload_hex': C.hexs(pay)}, name + '/edited')
                if e['kind'] == 'counted':
                    # the count field of a decoded frame assigned other in-range values (fewer / more than the blocks present)
                    hdr_names = [n_ for n_, _ in e['hdr']]
                    ofs = sum(F.tok_width(t) for _, t in e['hdr'][:hdr_names.index(e['count'])])
                    n_blocks = pay[ofs]
                    for v in sorted({0, max(0, n_blocks - 1), n_blocks + 1, 255} - {n_blocks}):
                        if v > 255:
                            continue
                        fr2 = cls.construct(bytearray(pay))
                        cached2 = {it.name: it.value for it in fr2.f._fields.values() if isinstance(it.value, int)}
                        setattr(fr2.f, e['count'], v)
                        add(fr2, cached2, {'message': name, 'state': 'edited', 'field': e['count'], 'decoded_blocks': n_blocks, 'assigned': v,
                                           'payload_hex': C.hexs(pay)}, name + '/count-edited')
        # every table-rendered field through all byte values
        n_table = 0
        for name, e in sorted(mt.items()):
            if e['kind'] not in ('fixed', 'counted'):
                continue
            cls = e['cls']
            lay0 = e['layout'] if e['kind'] == 'fixed' else e['hdr'] + [(f'{n}_0', t) for n, t in e['blk']]
            if not lay0:
                continue
            base = bytearray(F.rand_payload_for(rng, lay0, 'zero'))
            if e['kind'] == 'counted':
                off = sum(F.tok_width(t) for n, t in e['hdr'][:[n for n, _ in e['hdr']].index(e['count'])])
                base[off] = 1
            probe = cls.construct(bytearray(base))
            off = 0
            for it in sorted(probe.f._fields.values(), key=lambda it: it.order):
                w = F.tok_width(R.item_token(it))
                try:
                    rc = R.rcls_of(it)
                except R.ReflectError:
                    rc = 'unknown'
                if rc not in ('plain', 'hex') and R.item_token(it)[0] != 'P':
                    for v in range(256):
                        for pos in range(w):
                            pay = bytearray(base)
                            pay[off + pos] = v
                            if e['kind'] == 'counted' and pay[sum(F.tok_width(t) for n, t in e['hdr'][:[n for n, _ in e['hdr']].index(e['count'])])] != 1:
                                continue
                            fr = cls.construct(bytearray(pay))
                            cached = {x.name: x.value for x in fr.f._fields.values() if isinstance(x.value, int)}
                            add(fr, cached, {'message': name, 'state': 'decoded', 'field': it.name, 'byte': v, 'payload_hex': C.hexs(pay)}, f'table/{rc}')
                            n_table += 1
                    # decoded with one byte value, then ASSIGNED every byte value (cached sub-fields vs current value)
                    if w == 1:
                        for v0 in (0, 5, 0x12, 0x13, 0x3f, 0xff):
                            pay = bytearray(base)
                            pay[off] = v0
                            if e['kind'] == 'counted' and pay[sum(F.tok_width(t) for n, t in e['hdr'][:[n for n, _ in e['hdr']].index(e['count'])])] != 1:
                                continue
                            for v in range(256):
                                fr = cls.construct(bytearray(pay))
                                cached = {x.name: x.value for x in fr.f._fields.values() if isinstance(x.value, int)}
                                setattr(fr.f, it.name, v)
                                add(fr, cached, {'message': name, 'state': 'edited', 'field': it.name, 'decoded_byte': v0, 'assigned': v, 'payload_hex': C.hexs(pay)}, f'table-edit/{rc}')
                                n_table += 1
                off += w
        res.notes['table_renderer_values'] = n_table
        res.exhaustive = True
        # configuration items
        from ubxlib.cfgkeys import CfgKeyData
        from .. import cfggen as K
        for bits in K.BITS:
            for signed in (False, True):
                for v in K.boundary_values(bits, signed):
                    pubs = sorted(set(((k >> 16) & 255, k & 4095) for k in kt['consts'].values() if [0, 1, 8, 16, 32, 64, 0, 0][(k >> 28) & 7] == bits))
                    for g, i in [(6, 0x2E), (0x31, 1), (255, 4095)] + pubs:
                        if v is None and bits != 1:
                            continue
                        it = CfgKeyData('data0', g, i, bits, v, signed)
                        impl = C.guarded(lambda: 'ok' if 'data0' in str(it) else 'name-missing')
                        desc = {'cfg_item': K.item_token(g, i, bits, signed, v)}
                        if impl != 'ok':
                            res.violation('str() of a configuration item raised or lost its name', {'property': 'C19', 'input': desc, 'result': impl}, f'c19-cfg|{bits}|{signed}')
                        cases.append(Case('str-cfgitem', 'rendercfg ' + K.item_token(g, i, bits, signed, v), impl, desc, kind='cfgitem'))
        for k in sorted(kt['consts'].values()):
            bits = [0, 1, 8, 16, 32, 64, 0, 0][(k >> 28) & 7]
            if bits == 8:
                for v in range(256):
                    it = CfgKeyData.from_key(k, v)
                    it.name = 'data0'
                    impl = C.guarded(lambda: 'ok' if 'data0' in str(it) else 'name-missing')
                    desc = {'cfg_item': hex(k), 'value': v}
                    if impl != 'ok':
                        res.violation('str() of a configuration item raised or lost its name', {'property': 'C19', 'input': desc, 'result': impl}, f'c19-cfgv|{k}')
                    cases.append(Case('str-cfgitem', 'rendercfg ' + K.impl_item_token(it), impl, desc, kind='cfgitem-values'))
        # frames with many fields (every counted message with its largest receivable block count; VALGET with 64 pairs)
        for name, e in sorted(mt.items()):
            if e['kind'] != 'counted':
                continue
            hdr = sum(F.tok_width(t) for _, t in e['hdr'])
            blk = sum(F.tok_width(t) for _, t in e['blk'])
            c = min(e['maxc'] if e['maxc'] is not None else 255, (1000 - hdr) // blk)
            hp = bytearray(F.rand_payload_for(rng, e['hdr']))
            hp[sum(F.tok_width(t) for n_, t in e['hdr'][:[n_ for n_, _ in e['hdr']].index(e['count'])])] = c
            pay = bytes(hp) + F.rand_payload_for(rng, [(f'{n_}_{i}', t) for i in range(c) for n_, t in e['blk']])
            fr = e['cls'].construct(bytearray(pay))
            cached = {it.name: it.value for it in fr.f._fields.values() if isinstance(it.value, int)}
            add(fr, cached, {'message': name, 'state': 'decoded', 'blocks': c, 'payload_hex': C.hexs(pay)[:200]}, name + '/max-blocks')
        from ubxlib.ubx_cfg_valget import UbxCfgValGet
        body = b''.join((0x20110021 + j).to_bytes(4, 'little') + bytes([j]) for j in range(64))
        vg = UbxCfgValGet.construct(bytearray(bytes(4) + body))
        s_ = C.guarded(str, vg)
        missing = [f'data{j}' for j in range(64) if f'data{j}:' not in s_]
        if s_.startswith('!') or missing or vg.NAME not in s_:
            res.violation('str() of a VALGET response with 64 pairs raised or lost item names', {'property': 'C19', 'input': {'message': 'UbxCfgValGet', 'pairs': 64}, 'result': s_[:100], 'missing': missing[:5]}, 'c19-valget64')
        res.compare(cases)
        res.oblige('correspondence str() vs render model (Tie A)', not res.disagreements)
        # ---- logging differential (implementation only)
        n_diff = 0
        rng2 = C.rng_for(seed, 'C19-log')
        reqs = S.all_requests(rng2, mt, kt)
        for k in range(60 if tier == 'quick' else 2500):
            sc = S.scenario(rng2, reqs, kt, n_req=rng2.choice([1, 1, 2]))
            if k % 4 == 1:
                sc = S.on_tty(rng2, sc)            # the real serial backend over a scripted line
            elif k % 4 == 3:
                sc = S.on_gpsd(rng2, sc)           # the real gpsd backend over scripted sockets (device paths incl. non-ASCII ones)
            a = S.run_scenario(sc)
            b = S.run_scenario(sc, loglevel=logging.DEBUG)
            n_diff += 1
            if a != b:
                res.violation('request behaves differently with DEBUG logging than with logging disabled',
                              {'property': 'C19', 'input': S.describe(sc), 'logging_disabled': a[:1500], 'logging_debug': b[:1500]},
                              'c19-log|' + (b.split(' ')[0] if b.split(' ')[0] != a.split(' ')[0] else 'trace'))
        lg = logging.getLogger('ubxlib')
        for k in range(60 if tier == 'quick' else 2500):
            segs, s, _ = G.rand_segments(rng2, 4)
            filt = G.rand_filter(rng2, segs)
            ops = [('P', s[:len(s) // 2]), ('K',), ('P', s[len(s) // 2:]), ('K',), ('K',)]
            a = G.impl_ubx(filt, ops)
            logging.disable(logging.NOTSET)
            lg.setLevel(logging.DEBUG)
            if not lg.handlers:
                lg.addHandler(logging.NullHandler())
            try:
                b = C.guarded(G.impl_ubx, filt, ops)
            finally:
                lg.setLevel(logging.CRITICAL + 1)
                logging.disable(logging.CRITICAL)
            n_diff += 1
            if a != b:
                res.violation('parser behaves differently with DEBUG logging', {'property': 'C19', 'input': {'stream_hex': C.hexs(s), 'filter': filt},
                                                                                'logging_disabled': a[:800], 'logging_debug': b[:800]}, 'c19-logparser')
        # the same with frame classes registered in the process-wide factory and frames of THOSE class/ids - with payloads
        # that do not fit their layouts - passing by unfiltered (what a server sees between its requests)
        from ubxlib.frame_factory import FrameFactory
        regs = [e for _, e in sorted(mt.items()) if e['kind'] in ('fixed', 'counted', 'monver')]
        for k in range(40 if tier == 'quick' else 1500):
            FrameFactory.destroy()
            ff = FrameFactory.getInstance()
            some = rng2.sample(regs, 6)
            for e in some:
                ff.register(e['cls'])
            s = b''
            for e in some[:4]:
                s += G.frame(e['cid'][0], e['cid'][1], bytes(rng2.getrandbits(8) for _ in range(rng2.choice([0, 1, 2, 3, 5, 9, 40]))))
            filt = rng2.choice([[], [some[5]['cid']], [(5, 1)], None])
            ops = [('P', s[:len(s) // 2]), ('P', s[len(s) // 2:]), ('K',), ('K',)]
            a = C.guarded(G.impl_ubx, filt, ops)
            logging.disable(logging.NOTSET)
            lg.setLevel(logging.DEBUG)
            if not lg.handlers:
                lg.addHandler(logging.NullHandler())
            try:
                b = C.guarded(G.impl_ubx, filt, ops)
            finally:
                lg.setLevel(logging.CRITICAL + 1)
                logging.disable(logging.CRITICAL)
                FrameFactory.destroy()
            n_diff += 1
            if a != b:
                res.violation('parser behaves differently with DEBUG logging (registered classes, unfiltered malformed frames)',
                              {'property': 'C19', 'input': {'stream_hex': C.hexs(s), 'filter': filt, 'registered': [e['cls'].__name__ for e in some]},
                               'logging_disabled': a[:800], 'logging_debug': b[:800]}, 'c19-logparser-reg')
        res.notes['log_level_differential_runs'] = n_diff
        res.cases += n_diff
        res.oblige('DEBUG-vs-disabled differential and direct str() checks on the implementation', not res.violations)
    return C.finish(res, CHECKER, ['exact text and the side effects of arbitrary logging handlers are not modelled',
                                   'in-range field values only (values of the field\'s Python type)'])


def replay(obj):
    print(obj.get('input'))
    print('result:', obj.get('result') or obj.get('implementation_says'))
    print('disabled:', (obj.get('logging_disabled') or '')[:500], '\nDEBUG   :', (obj.get('logging_debug') or '')[:500])
    return 0
