"""C13 — configuration key/value items round-trip and keep their 32-bit key id."""
from .. import cfggen as K
from .. import common as C
from ..common import Case

CHECKER = ('coqc props/C13gen.v (proofs/CfgKeysP.v) + per-run coqc props/C13.v against the key tables regenerated from /repo + '
           'correspondence CfgKeyData.pack/unpack/from_key vs extracted model')


def sk_token(kt):
    return ','.join(str(k) for k in kt['signed']) or '-'


def check(tier, seed):
    res = C.Result('C13', tier, seed)
    res.rule = ('items over boundary+random groups (0,1,255) / items (0,1,0x3FF,0x400,0xFFF) x all 5 sizes x both signednesses x '
                'boundary values: pack, unpack of the packed bytes (consumed, fields) and implementation-only round trip; every published key '
                'and random keys with zero reserved bits through from_key; thorough: all 256x4096x5 key headers; non-trivial = distinct '
                '(group,item,bits,signed,value)')
    with C.WorkDir('C13') as wd:
        C.audit_sources()
        C.props_obligations(res, 'C13gen', wd)
        C.tie_b_kernels(res, wd, ('cfgkeys',))
        C.tie_b_cfgobj(res, wd)
        gen_lines = list(res.assumption_lines)
        tb = C.tie_b(res, wd)
        if tb:
            mt, kt, cs, xq = tb
            C.props_obligations(res, 'C13', wd, extra_q=xq, dynamic=True)
            res.assumption_lines = gen_lines + res.assumption_lines
        else:
            from .. import reflect
            kt = reflect.key_tables()
        sk = sk_token(kt)
        rng = C.rng_for(seed, 'C13')
        from ubxlib.cfgkeys import CfgKeyData
        cases = []
        groups = [0, 1, 6, 0x31, 255] + [rng.randrange(256) for _ in range(3 if tier == 'quick' else 40)]
        items = [0, 1, 0x2D, 0x3FF, 0x400, 0x7FF, 0x800, 0xFFF] + [rng.randrange(4096) for _ in range(3 if tier == 'quick' else 40)]
        K.impl_unpack((0x3006002e).to_bytes(4, 'little') + b'\xff\xff', True)      # the shared decoder has seen a signed key
        pairs = [(g, i) for g in groups for i in items] + [((k >> 16) & 255, k & 4095) for k in kt['signed']] + [(6, 0x2D), (6, 0x30)]
        for g, i in pairs:
            if True:
                for bits in K.BITS:
                    for signed in (False, True):
                        for v in K.boundary_values(bits, signed) + ([rng.randrange(1 << (bits - 1))] if bits > 1 else []):
                            desc = {'group': g, 'item': i, 'bits': bits, 'signed': signed, 'value': repr(v)}
                            packed = C.guarded(K.impl_pack, g, i, bits, signed, v)
                            cases.append(Case('cfg-pack', 'cpack ' + K.item_token(g, i, bits, signed, v), packed, desc, kind=f'pack/{bits}/{"s" if signed else "u"}'))
                            if not packed.startswith('!'):
                                raw = bytes.fromhex(packed)
                                un = C.guarded(K.impl_unpack, raw, rng.random() < 0.5)
                                cases.append(Case('cfg-unpack-of-pack', f'cunpack {sk} {packed}', un, desc, kind=f'unpack/{bits}', nontrivial=False))
                                # implementation-only round trip (C13 first sentence)
                                key = (CfgKeyData.SIZE_FROM_BITS[bits] << 28) | (g << 16) | i
                                doc_signed = key in kt['signed']
                                if bits == 1:
                                    exp_v = bool(v)
                                    exact = True
                                else:
                                    exact = (signed == doc_signed) or (0 <= v < (1 << (bits - 1)))
                                    exp_v = v
                                if exact:
                                    exp = f'{K.item_token(g, i, bits, doc_signed, exp_v)} {4 + CfgKeyData.BYTES_FROM_BITS[bits]}'
                                    if un != exp or raw[:4] != key.to_bytes(4, 'little'):
                                        res.violation('configuration item does not round-trip (group/item/size/value/consumed or key id)',
                                                      {'property': 'C13', 'input': desc, 'packed': packed, 'unpacked': un, 'expected': exp},
                                                      f'c13-rt|{g}|{i}|{bits}|{signed}|{v!r}')
        # values carried by int subclasses (IntEnum / IntFlag members, bool for wider items) are integers; and the byte order of
        # the wire format does not follow the host's (sys.byteorder reads 'big' while these run)
        import enum
        import sys as sys_

        class Baud(enum.IntEnum):
            B9600 = 9600
            B115200 = 115200
            NEG = -3

        class Flag(enum.IntFlag):
            A = 1
            B = 64
        real_order = sys_.byteorder
        try:
            for k_ in range(60 if tier == 'quick' else 2000):
                bits = rng.choice([8, 16, 32, 64])
                signed = rng.random() < 0.4
                v = rng.choice([Baud.B9600, Baud.B115200, Flag.A | Flag.B, Flag.B, True, Baud.NEG if signed else Flag.A])
                if bits == 8 and int(v) > 127:
                    v = Flag.B
                g, i = rng.randrange(256), rng.randrange(4096)
                sys_.byteorder = 'big' if k_ % 2 else real_order
                packed = C.guarded(K.impl_pack, g, i, bits, signed, v)
                sys_.byteorder = real_order
                cases.append(Case('cfg-pack-int-subclass', 'cpack ' + K.item_token(g, i, bits, signed, int(v)), packed,
                                  {'group': g, 'item': i, 'bits': bits, 'signed': signed, 'value': repr(v), 'sys.byteorder_reads': 'big' if k_ % 2 else real_order}, kind='pack/int-subclass'))
        finally:
            sys_.byteorder = real_order
        # one item OBJECT through several pack() calls with its key changed in between (no stale cached key bytes)
        from ubxlib.cfgkeys import CfgKeyData as CK_
        for _ in range(40 if tier == 'quick' else 2000):
            it = CK_('x', rng.randrange(256), rng.randrange(4096), rng.choice([8, 16, 32]), 1, False)
            for _k in range(3):
                desc = {'group': it.group_id, 'item': it.item_id, 'bits': it.bits, 'signed': it.signed, 'value': repr(it.value), 'reused_object': True}
                cases.append(Case('cfg-pack-reused-object', 'cpack ' + K.item_token(it.group_id, it.item_id, it.bits, it.signed, it.value),
                                  C.guarded(lambda: C.hexs(it.pack())), desc, kind='pack/reused'))
                ch = rng.choice(['group', 'item', 'bits', 'value', 'unpack'])
                if ch == 'group':
                    it.group_id = rng.randrange(256)
                elif ch == 'item':
                    it.item_id = rng.randrange(4096)
                elif ch == 'bits':
                    it.bits = rng.choice([8, 16, 32, 64])
                elif ch == 'value':
                    it.value = rng.randrange(200)
                else:
                    raw = ((rng.choice([2, 3, 4]) << 28) | (rng.randrange(256) << 16) | rng.randrange(4096)).to_bytes(4, 'little') + bytes([rng.randrange(100), 0, 0, 0])
                    it.unpack(bytearray(raw))
        # from_key: every call yields an independent item (a modified earlier result must not come back)
        for key in sorted(kt['consts'].values())[:12]:
            bits = [0, 1, 8, 16, 32, 64, 0, 0][(key >> 28) & 7]
            v = True if bits == 1 else 5
            first = CK_.from_key(key, v)
            first.value = False if bits == 1 else 77
            first.item_id = (first.item_id + 1) & 0xFFF
            impl = C.guarded(K.impl_fromkey, key, v)
            cases.append(Case('cfg-from-key-twice', f'cfromkey {sk} {key} {K.cval_token(v)}', impl, {'key': hex(key), 'value': repr(v), 'after_mutating_first_result': True}, kind='fromkey-twice'))
        # lists of (key, value) pairs -> items -> VALSET payload: one item per pair, in order, also when a key repeats
        for _ in range(60 if tier == 'quick' else 2500):
            cmd, impl, desc = K.keyvalues_case(rng, sorted(kt['consts'].values()))
            cases.append(Case('cfg-from-keyvalues', cmd, impl, desc, kind='from-keyvalues'))
        # every published constant denotes the documented key id
        for name_, id_ in sorted(K.DOCUMENTED_KEYS.items()):
            got = kt['consts'].get(name_)
            if got != id_:
                res.violation(f'published constant UbxKeyId.{name_} is not the documented key id',
                              {'property': 'C13', 'input': {'constant': name_, 'documented': hex(id_)}, 'implementation_says': hex(got) if got is not None else 'missing'}, f'c13-const|{name_}')
        # published keys + random keys with zero reserved bits
        keys = sorted(kt['consts'].values())
        # neighbourhood of every published key: other size codes, adjacent item/group, reserved bits set
        for k0 in sorted(kt['consts'].values()):
            for size in range(1, 6):
                keys.append((k0 & ~(7 << 28)) | (size << 28))
            keys += [k0 ^ 1, k0 ^ (1 << 16), k0 | (1 << 31), k0 | (1 << 12), k0 | (1 << 24)]
        for _ in range(100 if tier == 'quick' else 5000):
            size = rng.randrange(1, 6)
            keys.append((size << 28) | (rng.randrange(256) << 16) | rng.randrange(4096))
        for key in keys:
            bits = [0, 1, 8, 16, 32, 64, 0, 0][(key >> 28) & 7]
            for v in ([True, False] if bits == 1 else [0, 1, (1 << (bits - 1)) - 1, -1, (1 << bits) - 1]):
                impl = C.guarded(K.impl_fromkey, key, v)
                cases.append(Case('cfg-from-key', f'cfromkey {sk} {key} {K.cval_token(v)}', impl, {'key': hex(key), 'value': repr(v)}, kind='fromkey'))
                toks = impl.split(' ')
                reserved = key & ((1 << 31) | (0xF << 24) | (0xF << 12))
                if len(toks) == 2 and not toks[1].startswith('!') and not reserved and bytes.fromhex(toks[1])[:4] != key.to_bytes(4, 'little'):
                    res.violation('item built from a key does not encode to that key id', {'property': 'C13', 'input': {'key': hex(key), 'value': repr(v)}, 'packed': toks[1]}, f'c13-key|{key}')
        if tier == 'thorough':
            # all (group, item, size) headers: key id of the packed bytes
            bad = None
            for bits in K.BITS:
                size = CfgKeyData.SIZE_FROM_BITS[bits]
                for g in range(256):
                    for i in range(4096):
                        h = CfgKeyData._build_header(g, i, bits)
                        if h != (size << 28) | (g << 16) | i or CfgKeyData._bits_from_key(h) != bits or CfgKeyData._group_from_key(h) != g or CfgKeyData._item_from_key(h) != i:
                            bad = (g, i, bits)
                            break
                    if bad:
                        break
                if bad:
                    break
            res.notes['header_sweep'] = '256x4096x5 key headers'
            res.exhaustive = True
            if bad:
                res.violation('key header bit fields wrong', {'property': 'C13', 'input': {'group': bad[0], 'item': bad[1], 'bits': bad[2]}}, f'c13-hdr|{bad}')
        res.compare(cases)
        res.oblige('correspondence CfgKeyData (Tie A)', not res.disagreements)
        res.oblige('implementation-only round-trip / key-id checks', not res.violations)
    return C.finish(res, CHECKER, ['"in-range value" = in range for the packing signedness; the value is recovered exactly when that is the key\'s '
                                   'documented signedness or the value is below the sign bit (the wire format carries no sign)'])


def replay(obj):
    C.import_impl()
    print(obj.get('input'), '\nmodel:', obj.get('model_says') or obj.get('expected'), '\nimpl :', obj.get('implementation_says') or obj.get('unpacked'))
    return 0
