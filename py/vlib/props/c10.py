"""C10 — a request's outcome does not depend on earlier requests or traffic."""
import copy

from .. import common as C
from .. import reflect as R
from .. import reqcheck as RC
from .. import reqgen as Q
from .. import reqsuite as S

CHECKER = 'coqc props/C10.v (proofs/RequestIndep.v) + sequence-vs-fresh-server differential on the implementation + model correspondence'


def split_script(sc):
    """Backend state met by each request of a sequence = pending leftovers + remaining attempts; recomputed by
    replaying the stub semantics on the implementation's own trace."""
    return None


def check(tier, seed):
    res = C.Result('C10', tier, seed)
    res.rule = ('sequences of 2..6 requests (poll/set/set_mga/fire_and_forget of all kinds) on ONE server with per-request receiver behaviour incl. '
                'surplus answers, truncated frames at the end of a request, timeouts, NAKs, failed sends - a third of them on the real serial backend over a scripted line (one byte per read, bit rate as constructed or changed by set_baudrate) -; each request is then re-run alone on a '
                'freshly set-up server facing the same receiver state (implementation-only differential: result, transmissions, reads) and the '
                'whole sequence is compared with the model; non-trivial = sequence with >= 2 transmitting requests')
    with C.WorkDir('C10') as wd:
        C.audit_sources()
        C.props_obligations(res, 'C10', wd)
        C.tie_b_request(res, wd)
        mt, kt = R.message_table(), R.key_tables()
        sk = ','.join(str(k) for k in kt['signed']) or '-'
        rng = C.rng_for(seed, 'C10')
        cases = []
        proj = RC.proj_for('C10')
        n = 120 if tier == 'quick' else 5000
        reqs = S.all_requests(rng, mt, kt)
        scs = []
        for k in range(n):
            if k % 40 == 0:
                reqs = S.all_requests(rng, mt, kt)
            sc = S.scenario(rng, reqs, kt, n_req=rng.choice([2, 2, 3, 4, 6]))
            if k % 4 == 1:
                sc = S.on_tty(rng, sc, 500)         # the same history on the real serial backend over a scripted line
            elif k % 4 == 3:
                sc = S.on_gpsd(rng, sc)             # ... and on the real gpsd backend over scripted sockets
            scs.append(sc)
        # two response classes sharing one class/id in one history (library CFG-PRT/UART and an application-defined layout)
        pair = [r for r in reqs if r.label in ('UbxCfgPrtPoll', 'AppCfgPrtUsbPoll')]
        for _ in range(12 if tier == 'quick' else 300):
            scs.append(S.scenario(rng, pair, kt, n_req=rng.choice([2, 3]), force='good'))
        # ... in the orders A B A, B A B, A B B A, A A B A: the class registered for a class/id is the one of the LAST poll
        if len(pair) == 2:
            a_, b_ = pair
            for order in ([a_, b_, a_], [b_, a_, b_], [a_, b_, b_, a_], [a_, a_, b_, a_]) * (1 if tier == 'quick' else 20):
                scs.append(S.scenario(rng, pair, kt, force='good', rqs=list(order)))
        # long noisy histories: 8..14 requests, a checksum-failed frame or two in front of what the receiver sends in every attempt
        from .. import ubxgen as G
        for _ in range(10 if tier == 'quick' else 250):
            sc = S.scenario(rng, reqs, kt, n_req=rng.choice([8, 10, 14]), force='good')
            att = []
            for ok, evs in sc['script']['attempts']:
                bad = [(G.frame(rng.choice([1, 5, 6]), rng.randrange(8), bytes(rng.getrandbits(8) for _ in range(rng.randrange(0, 5))))[:-1] + b'\x00', 0) for _ in range(rng.randrange(1, 3))]
                att.append((ok, bad + list(evs)))
            sc['script']['attempts'] = att
            scs.append(sc)
        # fixed corpus: a late duplicate of the FIRST request's answer in front of the second one's own answer
        fixed = S.fixed_late_duplicate_scenarios()
        scs += [sc for _, sc in fixed]
        res.notes['fixed_late_duplicate_histories'] = len(fixed)
        tie = RC.model_ties([S.model_cmd(sc, sk) for sc in scs])
        res.notes['deadline_ties_dropped'] = sum(tie)
        for sc in [sc for sc, t in zip(scs, tie) if not t]:
            # leftovers: surplus answers / truncated frames appended to the last attempt of each request happen naturally via faults
            out = S.run_scenario(sc)
            parts = out.split(' ;; ')
            desc = S.describe(sc)
            cases.append(C.Case('request-sequence', S.model_cmd(sc, sk), proj(out), desc, domain=False,
                                kind='seq%d' % len(sc['reqs']), proj=proj))
            # differential: replay each request alone on a fresh server facing the backend state it met
            pending = list(sc['script']['pending'])
            future = [(ok, list(evs)) for ok, evs in sc['script']['attempts']]
            for idx, (rq, part) in enumerate(zip(sc['reqs'], parts)):
                alone_script = {'pending': list(pending), 'attempts': [(ok, list(evs)) for ok, evs in future], 'idle': sc['script']['idle'], 'drain': sc['script'].get('drain')}
                alone = Q.run_impl(alone_script, sc['retries'], sc['delay'], [(rq.op, rq.build)], backend=sc.get('backend', 'stub'), bauds=sc.get('bauds', (115200, None)))
                if alone != part:
                    res.violation(f'request {idx + 1} of a sequence behaves differently from the same request on a fresh server',
                                  {'property': 'C10', 'input': desc, 'request_index': idx, 'request': f'{rq.op}:{rq.label}',
                                   'in_sequence': part[:1500], 'alone_on_fresh_server': alone[:1500]},
                                  f'C10|{rq.op}|{idx}')
                # advance the stub state by what the request did (replay of the stub semantics on its trace)
                r = S.parse_result(part)
                for t in r['trace']:
                    if t == 'F':
                        pending = []
                    elif t.startswith('T'):
                        if future:
                            ok, evs = future.pop(0)
                            pending += evs
                    elif t.startswith('R'):
                        if pending:
                            pending.pop(0)
        res.notes['on_serial_backend'] = sum(1 for sc in scs if sc.get('backend') == 'tty')
        res.compare(cases)
        res.oblige('correspondence request sequences (Tie A)', not res.disagreements)
        res.oblige('sequence-vs-fresh differential on the implementation', not res.violations)
    return C.finish(res, CHECKER, ['"freshly set-up server" = new object after FrameFactory.destroy(), setup(), same retries/delay',
                                   'polls do not re-register the ACK/NAK/MGA-ACK classes (no library poll has those class/ids)'])


def replay(obj):
    print(obj.get('input'))
    print('in sequence:', (obj.get('in_sequence') or obj.get('implementation_says') or '')[:1500])
    print('alone      :', (obj.get('alone_on_fresh_server') or obj.get('model_says') or '')[:1500])
    return 0
