"""C08 — encoding inverts decoding; read-modify-write changes only the edited field."""
from .. import common as C
from .. import fieldsgen as F
from .. import reflect as R
from ..common import Case
from .c07 import xnorm

CHECKER = ('coqc props/C08.v (proofs/FieldsP.v) + correspondence construct()/pack()/attribute assignment vs extracted '
           'decode/encode/setf and vs the oracle zero_reserved')


def wf_payload(rng, e):
    if e['kind'] == 'counted':
        cmax = e['maxc'] if e['maxc'] is not None else 255
        c = min(rng.choice([0, 1, 2, 3, 5, 17, 255]), cmax)
        hdrpay = bytearray(F.rand_payload_for(rng, e['hdr']))
        off = sum(F.tok_width(t) for n, t in e['hdr'][:[n for n, _ in e['hdr']].index(e['count'])])
        hdrpay[off] = c
        lay = F.layout_for(e, hdrpay)
        return lay, bytes(hdrpay) + F.rand_payload_for(rng, lay[len(e['hdr']):])
    if e['kind'] == 'monver':
        n_ext = rng.choice([0, 1, 2, 5])
        lay = [('swVersion', 'C30'), ('hwVersion', 'C10')] + [(f'extension_{i}', 'C30') for i in range(n_ext)]
        return lay, F.rand_payload_for(rng, lay)
    return e['layout'], F.rand_payload_for(rng, e['layout'])


def check(tier, seed):
    res = C.Result('C08', tier, seed)
    res.rule = ('every message class x well-formed payloads: (a) construct() then pack() vs model encode(decode) and vs the oracle '
                'zero_reserved; (b) every field in turn assigned an in-range boundary/random value through attribute access, then pack(): '
                'bytes vs model encode(setf(decode)) and locality checked directly (only that field and reserved bytes differ); (c) fresh '
                'frame, every field assigned in range, pack(), construct(): values returned; out-of-range assignments compared with the '
                'model only; non-trivial = payload of a message with >= 1 field')
    with C.WorkDir('C08') as wd:
        C.audit_sources()
        C.props_obligations(res, 'C08', wd)
        C.tie_b_items(res, wd)
        a_ = list(res.assumption_lines)
        C.props_obligations(res, 'C08b', wd)
        res.assumption_lines = a_ + res.assumption_lines
        rng = C.rng_for(seed, 'C08')
        mt = R.message_table()
        cases = []
        per = 6 if tier == 'quick' else 60
        for name, e in sorted(mt.items()):
            if e['kind'] not in ('fixed', 'counted', 'monver') or (e['kind'] == 'fixed' and not e['layout']):
                continue
            cls = e['cls']
            for _ in range(per):
                lay, pay = wf_payload(rng, e)
                desc = {'message': name, 'payload_hex': C.hexs(pay)}
                impl = C.guarded(F.impl_decenc, cls, pay)
                cases.append(Case('decode-encode', f'decenc {e["kindspec"]} {C.hexs(pay)}', impl, desc, kind=name + '/roundtrip'))
                cases.append(Case('decode-encode-vs-oracle', f'speczr {name} {C.hexs(pay)}', impl, desc, kind=name + '/oracle', nontrivial=False))
                # edit each field (quick: a sample of fields)
                editable = [(n, t) for n, t in lay if t[0] != 'P']
                pick = editable if tier == 'thorough' or len(editable) <= 6 else rng.sample(editable, 6)
                if e['kind'] == 'counted' and (e['count'], 'U1') not in pick:
                    pick = pick + [(e['count'], 'U1')]          # the count field itself is a field like any other
                for fn, ft in pick:
                    v = F.in_range_value(rng, ft)
                    impl2 = C.guarded(F.impl_decsetenc, cls, pay, fn, v, len(cases) % 3)
                    d2 = dict(desc, field=fn, value=v)
                    cases.append(Case('edit-one-field', f'decsetenc {e["kindspec"]} {C.hexs(pay)} {fn} {v}', impl2, d2, kind=name + '/edit'))
                    # direct locality check on the implementation
                    if impl2.endswith('EARLIER-PAYLOAD-OBJECT-CHANGED'):
                        res.violation(f'editing {name}.{fn} and re-encoding changed the payload object obtained from the earlier pack()',
                                      {'property': 'C08', 'input': d2, 'after': impl2}, f'c08-alias|{name}')
                    elif not impl2.startswith('!') and not impl.startswith('!'):
                        a = bytes.fromhex(impl) if impl != '-' else b''
                        b = bytes.fromhex(impl2) if impl2 != '-' else b''
                        off = F.size_of(lay[:[n for n, _ in lay].index(fn)])
                        w = F.tok_width(ft)
                        if len(a) != len(b) or a[:off] != b[:off] or a[off + w:] != b[off + w:]:
                            res.violation(f'editing {name}.{fn} changed bytes outside the field',
                                          {'property': 'C08', 'input': d2, 'before': impl, 'after': impl2, 'field_offset': off, 'field_width': w},
                                          f'c08-local|{name}|{fn}')
                if rng.random() < 0.3 and editable:
                    fn, ft = rng.choice(editable)
                    v = F.out_of_range_value(rng, ft)
                    cases.append(Case('edit-out-of-range', f'decsetenc {e["kindspec"]} {C.hexs(pay)} {fn} {v}',
                                      C.guarded(F.impl_decsetenc, cls, pay, fn, v), dict(desc, field=fn, value=v), domain=False,
                                      kind=name + '/edit-oor', nontrivial=False))
            # (c) fresh frame: assign all, pack, decode again
            if e['kind'] == 'fixed':
                for _ in range(per):
                    vals = {n: F.in_range_value(rng, t) for n, t in e['layout'] if t[0] != 'P'}

                    def run(vals=vals, cls=cls):
                        fr = cls()
                        for n, v in vals.items():
                            setattr(fr.f, n, F.py_value(v))
                        fr.pack()
                        back = cls.construct(bytearray(fr.data))
                        return C.hexs(fr.data) + ' ' + F.render_fields(back)
                    impl = C.guarded(run)
                    fs = ','.join(f'{n}:{t}:{vals.get(n, "i0")}' for n, t in e['layout'])
                    expect_back = fs
                    cases.append(Case('assign-encode', f'enc {fs}', impl.split(' ')[0], {'message': name, 'values': vals}, kind=name + '/assign'))
                    if not impl.startswith('!') and impl.split(' ')[1] != expect_back:
                        res.violation(f'{name}: encode then decode does not return the assigned values',
                                      {'property': 'C08', 'input': {'message': name, 'values': vals}, 'decoded_back': impl.split(' ')[1]},
                                      f'c08-back|{name}')
        # CFG-VALGET responses: decode -> pack() reproduces the pairs (reserved key bits cleared); editing one value
        # changes only that pair's value bytes
        from .. import cfggen as K
        from ubxlib.ubx_cfg_valget import UbxCfgValGet
        kt = R.key_tables()
        sk = ','.join(str(k) for k in kt['signed']) or '-'
        for n in [1, 2, 5, 64] + [rng.randrange(1, 65) for _ in range(6 if tier == 'quick' else 200)]:
            body, offs = b'', []
            for j in range(n):
                size = rng.randrange(1, 6)
                key = (size << 28) | (rng.randrange(256) << 16) | rng.choice([0, 1, 0x3FF, 0x400, 0x7FF, 0x800, 0xFFF, rng.randrange(4096)])
                w = {1: 1, 2: 1, 3: 2, 4: 4, 5: 8}[size]
                val = bytes([rng.choice([0, 1])]) if size == 1 else bytes(rng.getrandbits(8) for _ in range(w))
                offs.append((4 + len(body) + 4, w, size))
                body += key.to_bytes(4, 'little') + val
            data = bytes([0, rng.choice([0, 1, 2, 7]), 0, 0]) + body

            def rt(data=data):
                fr = UbxCfgValGet.construct(bytearray(data))
                fr.pack()
                return C.hexs(fr.data)
            impl = C.guarded(rt)
            desc = {'message': 'UbxCfgValGet', 'pairs': n, 'payload_hex': C.hexs(data)}
            cases.append(Case('valget-decode-encode', f'valgetenc {sk} {C.hexs(data)}', impl, desc, kind='valget/roundtrip'))
            if impl != C.hexs(data):
                res.violation('CFG-VALGET: decode then encode does not reproduce the payload', {'property': 'C08', 'input': desc, 'reencoded': impl}, 'c08-valget-rt')
            j = rng.randrange(n)
            off, w, size = offs[j]

            def edit(data=data, j=j, size=size, w=w):
                fr = UbxCfgValGet.construct(bytearray(data))
                item = fr.f._fields[f'data{j}']
                item.value = (not item.value) if size == 1 else (item.value ^ 1 if item.value >= 0 else item.value + 1 if item.value < -1 else -2)
                fr.pack()
                return bytes(fr.data)
            try:
                after = edit()
                if len(after) != len(data) or after[:off] != data[:off] or after[off + w:] != data[off + w:] or after == data:
                    res.violation('CFG-VALGET: editing one value changed bytes outside that pair\'s value (or nothing)', {'property': 'C08', 'input': dict(desc, edited=j), 'after': C.hexs(after)}, 'c08-valget-edit')
            except Exception as e:
                res.violation('CFG-VALGET: editing one value raised ' + type(e).__name__, {'property': 'C08', 'input': dict(desc, edited=j)}, 'c08-valget-edit-exn')
        # read-modify-write through the message's own edit methods (CFG-GNSS enable/disable of one system): the re-encoded
        # payload differs from the original exactly in that block's enable bit - whichever position the block has, 0 included
        from . import c17 as H
        GN = mt['UbxCfgGnss']['cls']
        for _ in range(60 if tier == 'quick' else 3000):
            ids = rng.sample(range(8), rng.randrange(1, 8))
            blocks = [(g, rng.randrange(16), rng.randrange(32), rng.getrandbits(32) & ~0xFF00) for g in ids]
            pos = rng.choice([0, 0, len(ids) - 1, rng.randrange(len(ids))])
            on = not (blocks[pos][3] & 1) if rng.random() < 0.8 else bool(blocks[pos][3] & 1)
            pay = H.gnss_payload(blocks)
            fr = GN.construct(bytearray(pay))
            cmd, impl = H.run_helper(fr, 'enable' if on else 'disable', (ids[pos],))
            want = H.gnss_payload(H.oracle_enable(blocks, ids[pos], on))
            desc = {'message': 'UbxCfgGnss', 'payload_hex': C.hexs(pay), 'edit': f'{"enable" if on else "disable"}_gnss({ids[pos]})', 'block_position': pos}
            cases.append(Case('edit-via-helper', cmd, impl, desc, kind='UbxCfgGnss/helper-edit'))
            if impl.split(' ')[-1] != C.hexs(want):
                res.violation('CFG-GNSS read-modify-write through enable/disable: payload differs from the original in other than that block\'s enable bit (or not at all)',
                              {'property': 'C08', 'input': desc, 'expected_payload': C.hexs(want), 'implementation_says': impl[-300:]}, 'c08-helper-edit')
        # CFG-VALGET read-modify-write as the library's examples do it: items of a decoded response are edited (value, or the key
        # parts when an item serves as template for a neighbouring key) and written back in a CFG-VALSET, in another order and
        # together with new items: the VALSET payload is the 4-byte header followed by exactly those items in the order given
        for _ in range(40 if tier == 'quick' else 1500):
            n = rng.randrange(2, 7)
            raw = [((rng.choice([2, 3, 4]) << 28) | (rng.randrange(256) << 16) | rng.randrange(4095), rng.randrange(200)) for _ in range(n)]
            body = b''.join(k.to_bytes(4, 'little') + v.to_bytes([0, 1, 1, 2, 4, 8][(k >> 28) & 7], 'little') for k, v in raw)

            def rmw(raw=raw, body=body):
                vg = UbxCfgValGet.construct(bytearray(bytes(4) + body))
                items = [vg.f._fields[f'data{j}'] for j in range(len(raw))]
                order = list(range(len(raw)))
                rng.shuffle(order)
                picked = [items[j] for j in order]
                edits = []
                for it in picked:
                    r = rng.random()
                    if r < 0.3:
                        it.value = (it.value + 1) % 100
                    elif r < 0.5:
                        it.item_id = (it.item_id + 1) & 0xFFF            # neighbouring key
                    elif r < 0.6:
                        it.group_id = (it.group_id + 1) & 0xFF
                if rng.random() < 0.6:
                    picked.insert(rng.randrange(len(picked) + 1), CK_.from_key(0x20110021, rng.randrange(10)))
                toks = [K.item_token(it.group_id, it.item_id, it.bits, it.signed, it.value) for it in picked]
                fr = UbxCfgValSetAction(list(picked))
                fr.pack()
                return toks, C.hexs(fr.data)
            from ubxlib.cfgkeys import CfgKeyData as CK_
            from ubxlib.ubx_cfg_valset import UbxCfgValSetAction
            r_ = C.guarded(rmw)
            if isinstance(r_, str):
                cases.append(Case('valget-items-into-valset', 'valset -', r_, {'message': 'UbxCfgValSetAction', 'raw': [hex(k) for k, _ in raw]}, kind='valset/rmw'))
            else:
                toks, impl = r_
                cases.append(Case('valget-items-into-valset', 'valset ' + ' '.join(toks), impl, {'message': 'UbxCfgValSetAction', 'items': toks}, kind='valset/rmw'))
        # CFG-VALSET: a value changed through the caller's item object after the frame was built is what gets encoded
        from ubxlib.cfgkeys import CfgKeyData as CK_
        from ubxlib.ubx_cfg_valset import UbxCfgValSetAction
        for _ in range(10 if tier == 'quick' else 300):
            items = [CK_.from_key(k, v) for k, v in ((0x20110021, rng.randrange(10)), (0x30210001, rng.randrange(1000)), (0x10310001, True))]
            fr = UbxCfgValSetAction(list(items))
            items[1].value = rng.randrange(1000, 60000)
            fr.f.data0 = rng.randrange(10)
            fr.pack()
            toks = [K.item_token(it.group_id, it.item_id, it.bits, it.signed, it.value) for it in items]
            cases.append(Case('valset-edit-after-build', 'valset ' + ' '.join(toks), C.hexs(fr.data), {'message': 'UbxCfgValSetAction', 'items': toks}, kind='valset/edit'))
        res.compare(cases)
        res.oblige('correspondence pack()/assignment vs model and oracle (Tie A)', not res.disagreements)
        res.oblige('implementation-only locality / value-return checks', not res.violations)
    return C.finish(res, CHECKER, ['in-range = accepted by the field type (struct range; CH: valid UTF-8, fits, no trailing NUL)'])


def replay(obj):
    C.import_impl()
    i = obj.get('input', {})
    print(i)
    print('model:', obj.get('model_says'), '\nimpl :', obj.get('implementation_says'))
    return 0
