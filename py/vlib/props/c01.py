"""C01 — serialised frames are exact UBX wire format for every payload length."""
from .. import common as C
from ..common import Case
from .. import reqsuite as S_

CHECKER = 'coqc props/C01.v (theorems in proofs/FrameP.v) + correspondence UbxFrame.to_bytes vs extracted to_bytes/wire'


_FRAMES = {}


def impl_tobytes(cls_, id_, payload, reuse=False):
    """to_bytes() twice; between the two calls the returned buffer is consumed (cleared) by the caller, as
    a transport may do. With reuse=True the SAME frame object serves successive payloads (data replaced
    without pack()): serialisation must depend on the current payload only. reuse=2: the payload OBJECT stays too, its content
    is replaced in place (frame.data[:] = ...)."""
    from ubxlib.cid import UbxCID
    from ubxlib.frame import UbxFrame
    key = (cls_, id_)
    if reuse and key in _FRAMES:
        f = _FRAMES[key]
    else:
        F = type('F', (UbxFrame,), {'CID': UbxCID(cls_, id_), 'NAME': 'SYN'})
        f = F()
        if reuse:
            _FRAMES[key] = f
    if reuse == 2 and isinstance(f.data, bytearray):
        f.data[:] = payload              # the SAME payload object, edited in place
    else:
        f.data = bytearray(payload)
    fields_before = f.f
    b1 = f.to_bytes()
    m1 = bytes(b1)
    try:
        b1.clear()
    except AttributeError:
        pass
    m2 = bytes(f.to_bytes())
    same = (f.f is fields_before) and f.CID.cls == cls_ and f.CID.id == id_
    return f'{C.hexs(m1)} {C.hexs(m2)} {C.hexs(f.data)}' + ('' if same else ' frame-changed')


def gen_payload(rng, n, style):
    if style == 'ff':
        return bytes([255]) * n
    if style == 'zero':
        return bytes(n)
    if style == 'sync':
        return bytes(rng.choice([0xB5, 0x62, 0xB5, 0x62, 0, 255]) for _ in range(n))
    return bytes(rng.getrandbits(8) for _ in range(n)) if n < 4096 else rng.randbytes(n)


def check(tier, seed):
    res = C.Result('C01', tier, seed)
    res.rule = ('synthetic frame class per (cls,id), payload lengths at the 8/16-bit boundaries plus seeded '
                'lengths (thorough: every length 0..4096 and +-2 around every multiple of 255 and 256 up to 65535), '
                'contents random/all-FF/zero/sync-dense; to_bytes() called twice; compared: both byte strings and '
                'frame.data afterwards with model, and first call with spec wire; half of the cases reuse one frame object per class/id for successive '
                'payloads (a quarter also keeps the payload OBJECT and replaces its content in place); block-size lengths 1024..61440 +-1 with random content; payloads and every case clears the returned buffer before the second call; non-trivial = payload length >= 1')
    with C.WorkDir('C01') as wd:
        C.audit_sources()
        C.tie_b_kernels(res, wd, ('ck', 'frame'))
        pr = C.check_props('C01', wd)
        res.assumption_lines = pr['assumptions']
        for t in pr['theorems']:
            res.oblige('theorem ' + t, pr['rc'] == 0, pr['out'])
        rng = C.rng_for(seed, 'C01')
        lens = [0, 1, 2, 3, 254, 255, 256, 257, 509, 510, 511, 512, 765, 1000, 1001, 65279, 65280, 65534, 65535]
        # block sizes an optimised checksum / copy might use: powers of two and their multiples, +-1
        blocks = sorted(set(x + d for x in (1024, 2048, 4096, 8192, 12288, 16384, 20480, 32768, 49152, 61440) for d in (-1, 0, 1)))
        lens += blocks
        if tier == 'quick':
            lens += [rng.randrange(0, 2000) for _ in range(150)] + [rng.randrange(2000, 65536) for _ in range(12)]
        else:
            lens += list(range(0, 4097))
            for m in (255, 256):
                for k in range(1, 65536 // m + 1):
                    for d in (-2, -1, 0, 1, 2):
                        if 0 <= k * m + d <= 65535:
                            lens.append(k * m + d)
            lens += [rng.randrange(0, 65536) for _ in range(300)]
        cases = []
        kept = []
        cids = [(6, 1), (0, 0), (255, 255), (0xB5, 0x62), (5, 1), (0x13, 0x40), (1, 3)]
        for k, n in enumerate(lens):
            if sum(len(c.cmd) for c in cases) > 40_000_000:      # stream in batches: long payloads make long command lines
                res.compare(cases)
                kept += [c for c in cases if c.comp == 'to_bytes' and c.desc['len'] <= 64][:25]
                cases = []
            c, i = cids[k % len(cids)] if k % 3 else (rng.randrange(256), rng.randrange(256))
            style = rng.choice(['rand', 'rand', 'ff', 'zero', 'sync'])
            if n in blocks:
                style = 'rand'           # constant or periodic contents hide a block summed twice
            p = gen_payload(rng, n, style)
            impl = C.guarded(impl_tobytes, c, i, p, (0, 1, 0, 2)[k % 4])
            if impl.startswith('!'):
                _FRAMES.pop((c, i), None)
            desc = {'cls': c, 'id': i, 'len': n, 'style': style, 'payload_hex': C.hexs(p) if n <= 300 else C.hexs(p[:300]) + '...'}
            cases.append(Case('to_bytes', f'tobytes {c} {i} {C.hexs(p)}', impl, desc, nontrivial=n >= 1,
                              kind=f'len<{256 if n < 256 else 1001 if n <= 1000 else 65536}/{style}'))
            cases.append(Case('to_bytes-vs-wire-spec', f'wire {c} {i} {C.hexs(p)}', impl.split(' ')[0] if not impl.startswith('!') else impl, desc,
                              nontrivial=False, kind='spec'))
        # real message classes (with fields): payload set directly, including the EMPTY payload, must be serialised as it is
        from .. import reflect as R_
        mt = R_.message_table()
        for name, e in sorted(mt.items()):
            if e['kind'] == 'ctor-args':
                continue
            for n in (0, 1, rng.randrange(2, 40)):
                p = gen_payload(rng, n, 'rand')

                def run(cls=e['cls'], p=p):
                    f = cls()
                    f.data = bytearray(p)
                    m1 = bytes(f.to_bytes())
                    m2 = bytes(f.to_bytes())
                    return f'{C.hexs(m1)} {C.hexs(m2)} {C.hexs(f.data)}'
                c, i = e['cid']
                cases.append(Case('to_bytes-real-class', f'tobytes {c} {i} {C.hexs(p)}', C.guarded(run), {'class': name, 'len': n, 'payload_hex': C.hexs(p), 'cls': c, 'id': i, 'style': 'rand'}, nontrivial=n >= 1, kind='real-class'))
        # one frame object through a history of pack / serialise / edit / pack / serialise (what a server does when the same
        # frame is sent again with another field value): every serialisation carries the payload produced by the pack() before it
        for name, e in sorted(mt.items()):
            if e['kind'] == 'ctor-args':
                continue

            def run_hist(cls=e['cls']):
                f = cls()
                ints = [n_ for n_, it in f.f._fields.items() if isinstance(getattr(it, 'value', None), int) and not isinstance(it.value, bool)
                        and type(it).__name__[:1] in 'UIX']
                out = []
                for step in range(3):
                    if ints and step:
                        setattr(f.f, ints[(step - 1) % len(ints)], step)
                    f.pack()
                    m = bytes(f.to_bytes())
                    out.append((bytes(f.data), m))
                return out
            r = C.guarded(run_hist)
            c, i = e['cid']
            if isinstance(r, str):
                cases.append(Case('to_bytes-pack-edit-pack', f'wire {c} {i} -', r, {'class': name, 'cls': c, 'id': i, 'len': 0, 'payload_hex': '-', 'style': 'pack-edit-pack'}, kind='pack-edit-pack'))
                continue
            for step, (pl, m) in enumerate(r):
                cases.append(Case('to_bytes-pack-edit-pack', f'wire {c} {i} {C.hexs(pl)}', C.hexs(m),
                                  {'class': name, 'cls': c, 'id': i, 'len': len(pl), 'payload_hex': C.hexs(pl), 'style': f'pack-edit-pack step {step}'},
                                  nontrivial=step > 0, kind='pack-edit-pack'))
        # a never-packed frame whose default payload buffer is extended in place must not affect other fresh frames
        from ubxlib.cid import UbxCID
        from ubxlib.frame import UbxFrame
        for _ in range(5):
            Fx = type('Fx', (UbxFrame,), {'CID': UbxCID(10, 4), 'NAME': 'X'})
            f1 = Fx()
            ext = gen_payload(rng, rng.randrange(1, 9), 'rand')
            f1.data += ext
            r1 = bytes(f1.to_bytes())
            f2 = Fx()
            r2 = bytes(f2.to_bytes())
            cases.append(Case('to_bytes-default-buffer', f'tobytes 10 4 {C.hexs(ext)}', f'{C.hexs(r1)} {C.hexs(r1)} {C.hexs(f1.data)}', {'cls': 10, 'id': 4, 'len': len(ext), 'payload_hex': C.hexs(ext), 'style': 'extend-default'}, kind='default-buffer'))
            cases.append(Case('to_bytes-default-buffer', 'tobytes 10 4 -', f'{C.hexs(r2)} {C.hexs(r2)} -', {'cls': 10, 'id': 4, 'len': 0, 'payload_hex': '-', 'style': 'fresh-after-extend'}, kind='default-buffer', nontrivial=False))
        # class hierarchies: the generic base class and a concrete parent class are serialised BEFORE the first
        # serialisation of a class derived from them that has another class/id (state kept per class must not be inherited)
        def hier(parent, c, i, p):
            def run():
                parent().to_bytes()
                D = type('D', (parent,), {'CID': UbxCID(c, i), 'NAME': 'DERIVED'})
                f = D()
                f.data = bytearray(p)
                m1 = bytes(f.to_bytes())
                g = parent()
                g.data = bytearray(p)
                par = bytes(g.to_bytes())
                m2 = bytes(f.to_bytes())
                return f'{C.hexs(m1)} {C.hexs(m2)} {C.hexs(f.data)}', par
            return run
        parents = [UbxFrame] + [e['cls'] for _, e in sorted(mt.items()) if e['kind'] != 'ctor-args']
        for parent in parents[:1] * 3 + rng.sample(parents[1:], 12):
            c, i = rng.randrange(256), rng.randrange(256)
            p = gen_payload(rng, rng.randrange(0, 30), 'rand')
            r = C.guarded(hier(parent, c, i, p))
            impl, par = r if isinstance(r, tuple) else (r, None)
            desc = {'cls': c, 'id': i, 'len': len(p), 'payload_hex': C.hexs(p), 'style': 'derived-from-' + parent.__name__}
            cases.append(Case('to_bytes-derived-class', f'tobytes {c} {i} {C.hexs(p)}', impl, desc, nontrivial=True, kind='derived-class'))
            if par is not None:
                pc, pi = parent.CID.cls, parent.CID.id
                cases.append(Case('to_bytes-derived-class', f'wire {pc} {pi} {C.hexs(p)}', C.hexs(par), dict(desc, cls=pc, id=pi, style='parent-after-derived'), nontrivial=False, kind='derived-class'))
        # a frame object whose class/id is set on the INSTANCE (generic "raw frame" usage): header and checksum follow frame.CID
        for _ in range(12 if tier == 'quick' else 300):
            c0, i0, c, i = (rng.randrange(256) for _ in range(4))
            p = gen_payload(rng, rng.randrange(0, 20), 'rand')

            def run_inst(c0=c0, i0=i0, c=c, i=i, p=p):
                Fi = type('Fi', (UbxFrame,), {'CID': UbxCID(c0, i0), 'NAME': 'RAW'})
                f = Fi()
                f.CID = UbxCID(c, i)
                f.data = bytearray(p)
                m1 = bytes(f.to_bytes())
                m2 = bytes(f.to_bytes())
                return f'{C.hexs(m1)} {C.hexs(m2)} {C.hexs(f.data)}'
            cases.append(Case('to_bytes-instance-cid', f'tobytes {c} {i} {C.hexs(p)}', C.guarded(run_inst), {'cls': c, 'id': i, 'class_level_cid': [c0, i0], 'len': len(p), 'payload_hex': C.hexs(p), 'style': 'instance-cid'}, kind='instance-cid'))
        # frame objects are independent of each other: another frame is serialised in the MIDDLE of the serialisation of one
        # (here through a payload container whose iteration has that side effect; threads do the same)
        for _ in range(10 if tier == 'quick' else 200):
            c, i = rng.choice(cids)
            p = gen_payload(rng, rng.randrange(2, 24), 'rand')
            p2 = gen_payload(rng, rng.randrange(0, 9), 'rand')

            def run_re(c=c, i=i, p=p, p2=p2):
                Fa = type('Fa', (UbxFrame,), {'CID': UbxCID(c, i), 'NAME': 'A'})
                Fb = type('Fb', (UbxFrame,), {'CID': UbxCID((c + 1) % 256, i), 'NAME': 'B'})
                other = Fb()
                other.data = bytearray(p2)

                class Busy(bytearray):
                    def __iter__(self_):
                        for k_, x in enumerate(bytearray.__iter__(self_)):
                            if k_ == len(self_) // 2:
                                other.to_bytes()
                            yield x
                f = Fa()
                f.data = Busy(p)
                m1 = bytes(f.to_bytes())
                f.data = bytearray(p)
                m2 = bytes(f.to_bytes())
                return f'{C.hexs(m1)} {C.hexs(m2)} {C.hexs(f.data)}'
            cases.append(Case('to_bytes-interleaved', f'tobytes {c} {i} {C.hexs(p)}', C.guarded(run_re), {'cls': c, 'id': i, 'len': len(p), 'payload_hex': C.hexs(p), 'style': 'another-frame-serialised-in-between'}, kind='interleaved'))
        # serialisation as a server performs it: what _transmit() is handed is exactly to_bytes(), also after the server
        # object has been idle for seconds, minutes or hours
        from .. import reqgen as Q_
        for _ in range(12 if tier == 'quick' else 200):
            c, i = rng.choice(cids)
            p = gen_payload(rng, rng.randrange(0, 24), 'rand')
            idle = [rng.choice([0, 29000, 31000, 600000, 86400000]) for _ in range(3)]

            def build(c=c, i=i, p=p):
                Fs = type('Fs', (UbxFrame,), {'CID': UbxCID(c, i), 'NAME': 'SRV'})
                f = Fs()
                f.data = bytearray(p)
                f.pack = lambda: None         # payload given directly
                return f
            out = Q_.run_impl({'pending': [], 'attempts': [], 'idle': 50}, 0, 100, [('fire', build)] * 3, idle_before=idle)
            tx = [S_.parse_result(x)['tx'] for x in out.split(' ;; ')]
            sent = [t[0][1:-1] if len(t) == 1 else f'{len(t)}-transmissions' for t in tx]
            for k_, h in enumerate(sent):
                cases.append(Case('to_bytes-via-server', f'wire {c} {i} {C.hexs(p)}', h, {'cls': c, 'id': i, 'len': len(p), 'payload_hex': C.hexs(p), 'style': 'fire_and_forget', 'idle_ms_before': idle[k_]}, nontrivial=False, kind='via-server'))
        res.compare(cases)
        # real message classes: wire(CID, pack()) on freshly constructed frames
        res.notes['lengths_distinct'] = len(set(lens))
        xs = [c for c in (kept + [c for c in cases if c.comp == 'to_bytes' and c.desc['len'] <= 64]) if not c.impl.startswith('!')][:25]
        terms = []
        for c in xs:
            _, cc, ii, h = c.cmd.split()
            body = bytes.fromhex(h) if h != '-' else b''
            m1 = c.impl.split(' ')[0]
            terms.append((f'list_eqb (fst (to_bytes (new_frame {cc} {ii} {C.coq_bytes(body)}))) '
                          f'{C.coq_bytes(bytes.fromhex(m1))}', ''))
        if not res.disagreements:
            res.notes['vm_compute_crosscheck'] = C.vm_crosscheck(terms, wd)
        res.oblige('correspondence to_bytes (Tie A)', not res.disagreements)
    return C.finish(res, CHECKER, ['payload length <= 65535 (the wire format has a 16-bit length field)'])


def replay(obj):
    C.import_impl()
    i = obj['input']
    if str(i.get('style', '')).startswith('pack-edit-pack'):
        from .. import reflect as R_
        e = R_.message_table()[i['class']]
        f = e['cls']()
        ints = [n_ for n_, it in f.f._fields.items() if isinstance(getattr(it, 'value', None), int) and not isinstance(it.value, bool)
                and type(it).__name__[:1] in 'UIX']
        bad = 0
        for step in range(3):
            if ints and step:
                setattr(f.f, ints[(step - 1) % len(ints)], step)
            f.pack()
            m = bytes(f.to_bytes())
            pl = bytes(f.data)
            a = b_ = 0
            body = bytes([i['cls'], i['id'], len(pl) & 255, len(pl) >> 8]) + pl
            for x in body:
                a = (a + x) & 255
                b_ = (b_ + a) & 255
            want = b'\xb5\x62' + body + bytes([a, b_])
            print(f'step {step}: payload {pl.hex()} serialised {m.hex()} expected {want.hex()}')
            bad += m != want
        return 1 if bad else 0
    h = i['payload_hex']
    if h.endswith('...'):
        print('payload truncated in replay; length', i['len'])
        p = bytes(i['len'])
    else:
        p = bytes.fromhex(h) if h != '-' else b''
    out = impl_tobytes(i['cls'], i['id'], p)
    print('implementation:', out[:200])
    print('model         :', obj.get('model_says', '')[:200])
    return 0 if out == obj.get('model_says') else 1
