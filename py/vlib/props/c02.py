"""C02 — parser delivers every well-formed frame exactly once, in order, intact."""
from .. import common as C
from .. import ubxgen as G
from ..common import Case

CHECKER = 'coqc props/C02.v (proofs/ParserUbxComplete.v) + correspondence UbxParser vs extracted step/process + independent expected() oracle'


def build(rng, n_streams, res):
    cases = []
    for k_ in range(n_streams):
        segs, s, kinds = G.rand_segments(rng, rng.choice([1, 2, 3, 6, 10]) if k_ % 10 else rng.choice([33, 40, 70, 130]))
        filt = G.rand_filter(rng, segs)
        if k_ % 25 == 7:
            # a long undrained backlog: hundreds of small frames, all passing the filter, fetched only at the end
            segs, s, kinds = G.backlog_segments(rng, rng.choice([65, 129, 257, 300, 520]))
            filt = rng.choice([None, sorted(set((x[1], x[2]) for x in segs))])
        q_a, n_a = G.expected_c02(segs, filt)
        filt_a = filt
        for cname, parts in G.chunkings(rng, s) + [('switch', None)]:
            filt, q_exp, n_exp = filt_a, q_a, n_a
            if cname == 'switch':
                # the filter is replaced while the stream is arriving (possibly in the middle of a frame): each frame is
                # judged by the filter in force when its last byte is processed
                cut = rng.randrange(len(s) + 1)
                filt0 = G.rand_filter(rng, segs)
                if filt is None:
                    filt = []
                q_exp, n_exp = G.expected_c02(segs, filt0, (cut, filt))
                cut2 = rng.randrange(cut + 1)
                ops = [('P', s[:cut2]), ('P', s[cut2:cut]), ('FS', filt), ('P', s[cut:])] + [('K',)] * (len(q_exp) + 1)
                impl = G.impl_ubx(filt0, ops)
                parts = [s[:cut2], s[cut2:cut], s[cut:]]
                filt_cmd = filt0
            else:
                ops = [('P', p) for p in parts] + [('K',)] * (len(q_exp) + 1)
                impl = G.impl_ubx(filt, ops)
                filt_cmd = filt
            exp = f'rx={n_exp} q=[] out=[{" ".join(q_exp + ["none"])}]'
            desc = {'segments': [[x if not isinstance(x, (bytes, bytearray)) else C.hexs(x) for x in sg] for sg in segs],
                    'filter': filt, 'chunking': cname, 'chunks': [C.hexs(p) for p in parts] if len(parts) < 40 else cname,
                    'stream_hex': C.hexs(s)}
            if impl != exp:
                res.violation('C02 oracle: delivered packets/counter differ from what the stream grammar prescribes',
                              {'property': 'C02', 'input': desc, 'expected': exp[:2000], 'implementation_says': impl[:2000]},
                              'c02|' + C.hexs(s)[:200] + '|' + cname)
            cases.append(Case('ubx-parser-grammar', G.ubx_cmd(filt_cmd, ops), impl, desc,
                              nontrivial=bool(q_exp) or n_exp > 0, kind='+'.join(sorted(set(k.split('-')[0] for k in kinds))) + '/' + cname))
    return cases


def check(tier, seed):
    res = C.Result('C02', tier, seed)
    res.rule = ('streams drawn from the segment grammar (frames 0..1000 bytes incl. sync-dense payloads, checksum-corrupted '
                'frames, over-length headers, sync-pair-free filler incl. NMEA and a lone B5 before a frame), each under 4 '
                'chunkings (whole, 1-byte, 128-byte, random with empty chunks) and a random filter, plus one run where the filter is replaced at a random stream offset (mid-frame included); compared with the model and '
                'with an independent expected() oracle; non-trivial = at least one frame or marker expected')
    with C.WorkDir('C02') as wd:
        C.audit_sources()
        C.props_obligations(res, 'C02', wd)
        C.tie_b_kernels(res, wd, ('ck', 'ubx'))
        rng = C.rng_for(seed, 'C02')
        cases = build(rng, 150 if tier == 'quick' else 6000, res)
        res.compare(cases)
        res.oblige('correspondence UbxParser (Tie A)', not res.disagreements)
        res.oblige('independent C02 oracle', not res.violations)
    return C.finish(res, CHECKER, ['bytes are 0..255', 'filler between frames does not contain the pair B5 62'])


def replay(obj):
    C.import_impl()
    i = obj['input']
    s = bytes.fromhex(i['stream_hex']) if i['stream_hex'] != '-' else b''
    filt = [tuple(x) for x in i['filter']] if i['filter'] is not None else None
    out = G.impl_ubx(filt, [('P', s)] + [('K',)] * 50)
    print('implementation (whole stream, 50 packet() calls):', out[:1500])
    print('expected / model:', (obj.get('expected') or obj.get('model_says') or '')[:1500])
    return 0
