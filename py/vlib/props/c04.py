"""C04 — requests return only fresh, matching and (for CFG) acknowledged answers."""
from .. import common as C
from .. import reqcheck as RC
from .. import reqsuite as S

CHECKER = 'coqc props/C04.v (proofs/RequestSafe.v) + correspondence of returned frames vs extracted model + safety oracle on the implementation'


def check(tier, seed):
    res = C.Result('C04', tier, seed)
    res.rule = ('all request kinds (every poll class, set of every settable family, set_mga, fire_and_forget) x scripted answer streams per '
                'attempt (answers, foreign ACKs, NAKs, rejected MGA-ACKs, duplicates, corrupted/truncated frames, garbage, other traffic, stale '
                'input before the transmission) x chunkings x retries; compared: the returned frame (class, payload, fields) with the model; safety '
                'oracle on the implementation: class/id, declared response type, checksum-valid occurrence in the bytes read after the last '
                'successful transmission, ACK-ACK naming the request after the response for CFG polls; non-trivial = >= 1 transmission')
    with C.WorkDir('C04') as wd:
        C.audit_sources()
        C.props_obligations(res, 'C04', wd)
        C.tie_b_request(res, wd)
        cases = RC.run_suite(res, 'C04', tier, seed, 400, 15000, n_req=[1, 1, 2], oracle=lambda sc, rq, r: S.safety_oracle(rq, r), pair_every=25)
        # fixed corpus: response and ACK of a configuration poll in different attempts - nothing may be returned
        from .. import reflect as R
        sk = ','.join(str(k) for k in R.key_tables()['signed']) or '-'
        proj = RC.proj_for('C04')
        for name, sc in S.fixed_split_answer_scenarios():
            out = S.run_scenario(sc)
            r = S.parse_result(out)
            desc = S.describe(sc)
            desc['answer_halves'] = name
            why = S.safety_oracle(sc['reqs'][0], r)
            if why is None and r['ret'].startswith('ret=Ubx'):
                why = 'a frame was returned although no attempt contained both the response and its acknowledgement'
            if why:
                res.violation('C04 oracle: ' + why, {'property': 'C04', 'input': desc, 'request': 'poll:' + sc['reqs'][0].label, 'implementation_says': out[:600], 'reason': why},
                              'C04|poll|fixed-split|' + name.split('/')[0])
            cases.append(C.Case('request-fixed-split-answer', S.model_cmd(sc, sk), proj(out), desc, domain=False, kind='fixed-split-answer', proj=proj))
        res.compare(cases)
        res.notes['returned_frames'] = sum(1 for c in cases if 'ret=Ubx' in c.impl)
        res.oblige('correspondence request loop: returned frames (Tie A)', not res.disagreements)
        res.oblige('safety oracle on the implementation', not res.violations)
    return C.finish(res, CHECKER, ['set_mga: acceptance (type = 1) is all that is required of the MGA-ACK; an ACK-NAK is returned by set() whatever it names'])


def replay(obj):
    print(obj.get('input'))
    print('reason:', obj.get('reason'), '\nimplementation:', (obj.get('implementation_says') or '')[:1500])
    print('model:', (obj.get('model_says') or '')[:1500])
    return 0
