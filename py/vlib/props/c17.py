"""C17 — convenience setters change exactly the documented fields of the right block."""
import datetime
import itertools

from .. import common as C
from .. import fieldsgen as F
from .. import reflect as R
from ..common import Case

CHECKER = 'coqc props/C17.v (proofs/HelpersP.v) + correspondence of every helper vs extracted model + independent block-list oracle on the implementation'


def gnss_payload(blocks, hdr=(0, 32, 32)):
    return bytes([hdr[0], hdr[1], hdr[2], len(blocks)]) + b''.join(
        bytes([g, r, m, 0]) + fl.to_bytes(4, 'little') for g, r, m, fl in blocks)


def run_helper(frame, name, args):
    before = F.render_fields(frame)
    cmd = f'helper {before} {name} ' + ' '.join(map(str, args))

    def call():
        if name == 'enable':
            frame.enable_gnss(*args)
        elif name == 'disable':
            frame.disable_gnss(*args)
        elif name in ('gps_glonass', 'gps_galileo_beidou'):
            getattr(frame, name)()
        elif name == 'rate':
            frame.set_rate_in_hz(*args)
        elif name in ('save', 'reset'):
            getattr(frame, name)(*args)
        elif name in ('warm', 'cold'):
            getattr(frame, name + '_start')()
        elif name in ('start', 'stop', 'backup', 'clear'):
            getattr(frame, name)()
        elif name == 'esfla':
            frame.set(*args)
        elif name == 'lever':
            r = frame.lever_arm(*args)
            return 'None' if r is None else f'{r["x"]},{r["y"]},{r["z"]}'
        elif name == 'datetime':
            frame.set_datetime(datetime.datetime(*args))
        after = F.render_fields(frame)
        packed = C.guarded(lambda: (frame.pack(), C.hexs(frame.data))[1])
        return f'{after} {packed}'
    return cmd, C.guarded(call)


def oracle_enable(blocks, sys_, on):
    out = list(blocks)
    for k, (g, r, m, fl) in enumerate(out):
        if g == sys_:
            out[k] = (g, r, m, (fl | 1) if on else (fl & ~1 & 0xFFFFFFFF))
            break
    return out


def check(tier, seed):
    res = C.Result('C17', tier, seed)
    res.rule = ('CFG-GNSS block lists: every ordered subset of the 8 systems up to size 3 (quick) / all 109601 ordered subsets (thorough) plus '
                'duplicates and absent systems, random flag words, x all systems x enable/disable and both presets, decoded from payloads; the '
                're-encoded payload is compared with an independent block-list oracle and with the model; block lists of 10..24 entries; rates 1..10 (and 0, 11), fractional rates 1.000..10.000; save/reset masks '
                'boundary + random 32-bit; reset/start/stop; lever-arm set (types x offsets at the limits, outside) and query; set_datetime incl. '
                'leap day / year 1 / 9999 under a non-UTC host time zone; SOS backup/clear; non-trivial = helper applied to a frame with >= 1 block or a value argument')
    with C.WorkDir('C17') as wd:
        C.audit_sources()
        C.props_obligations(res, 'C17', wd)
        C.tie_b_helpers(res, wd)
        C.tie_b_gnss(res, wd)
        C.tie_b_lever(res, wd)
        from .. import primcheck
        primcheck.run(res, wd)
        rng = C.rng_for(seed, 'C17')
        mt = R.message_table()
        GN = mt['UbxCfgGnss']['cls']
        cases = []
        systems = list(range(8))
        lists = []
        maxk = 3 if tier == 'quick' else 8
        for k in range(0, maxk + 1):
            lists += list(itertools.permutations(systems, k))
        if tier == 'quick':
            lists += [tuple(rng.sample(systems, rng.randrange(4, 9))) for _ in range(200)]
        lists += [(0, 0), (6, 0, 6), (3, 3, 3), (1, 0, 1, 0), (7,), (9, 0), (0, 255, 6)]
        # long messages (10..24 blocks; receivers list systems and SBAS/IMES variants several times, ids above 7 are other systems)
        for _ in range(40 if tier == 'quick' else 1500):
            n = rng.randrange(10, 25)
            ids = [rng.choice([8, 9, 10, 11, 200]) for _ in range(n)]
            for s_ in rng.sample(systems, rng.randrange(1, 8)):
                ids[rng.randrange(n)] = s_
            lists.append(tuple(ids))
        res.exhaustive = tier == 'thorough'
        res.notes['block_orders'] = len(lists)
        for ids in lists:
            blocks = [(g, rng.randrange(0, 16), rng.randrange(0, 32), rng.choice([0, 1, 0x01010000, 0x01010001, 0xFFFFFFFF, 0xFFFFFFFE, rng.getrandbits(32)])) for g in ids]
            pay = gnss_payload(blocks)
            todo = [(n, (s,)) for n in ('enable', 'disable') for s in (systems if len(ids) <= 3 or tier == 'quick' else [rng.randrange(8)])]
            if len(ids) <= 4 or rng.random() < 0.1:
                todo += [('gps_glonass', ()), ('gps_galileo_beidou', ())]
            if tier == 'thorough' and len(ids) > 3:
                todo = [rng.choice(todo)]
            for name, args in todo:
                fr = GN.construct(bytearray(pay))
                cmd, impl = run_helper(fr, name, args)
                desc = {'helper': name, 'args': list(args), 'block_ids': list(ids), 'payload_hex': C.hexs(pay)}
                cases.append(Case('gnss-helper', cmd, impl, desc, nontrivial=len(ids) > 0, kind=f'gnss/{name}/n={min(len(ids), 4)}'))
                # independent oracle on the re-encoded payload
                if name in ('enable', 'disable'):
                    want = oracle_enable(blocks, args[0], name == 'enable')
                elif name == 'gps_glonass':
                    want = blocks
                    for s in (0, 1, 6):
                        want = oracle_enable(want, s, True)
                    for s in (2, 3, 4, 5):
                        want = oracle_enable(want, s, False)
                else:
                    want = blocks
                    for s in (0, 1, 2, 3):
                        want = oracle_enable(want, s, True)
                    for s in (4, 5, 6):
                        want = oracle_enable(want, s, False)
                got = impl.split(' ')[-1]
                if got != C.hexs(gnss_payload(want)):
                    res.violation(f'CFG-GNSS {name}{args}: re-encoded payload differs from the protocol oracle (wrong block, wrong bit or collateral change)',
                                  {'property': 'C17', 'input': desc, 'expected_payload': C.hexs(gnss_payload(want)), 'implementation_says': impl[-400:]},
                                  f'c17-gnss|{name}|{ids[:4]}|{args}')
        # the same frame object decodes a second payload (other block order) and is then edited
        for _ in range(40 if tier == 'quick' else 2000):
            ids1 = rng.sample(systems, rng.randrange(1, 6))
            ids2 = rng.sample(systems, rng.randrange(1, 6))
            b1 = [(g, 1, 2, rng.getrandbits(32)) for g in ids1]
            b2 = [(g, 3, 4, rng.getrandbits(32)) for g in ids2]
            fr = GN.construct(bytearray(gnss_payload(b1)))
            sys_ = rng.choice(systems)
            fr.enable_gnss(sys_)
            fr.data = bytearray(gnss_payload(b2))
            fr.unpack()
            name = rng.choice(['enable', 'disable'])
            cmd, impl = run_helper(fr, name, (sys_,))
            desc = {'helper': name, 'args': [sys_], 'first_blocks': ids1, 'block_ids': ids2, 'reused_object': True}
            cases.append(Case('gnss-helper-reused-object', cmd, impl, desc, kind='gnss/reused'))
            want = oracle_enable(b2, sys_, name == 'enable')
            if impl.split(' ')[-1] != C.hexs(gnss_payload(want)):
                res.violation(f'CFG-GNSS {name}({sys_}) on a re-decoded frame object: wrong block changed', {'property': 'C17', 'input': desc, 'expected_payload': C.hexs(gnss_payload(want)), 'implementation_says': impl[-300:]}, 'c17-gnss-reuse')
        for s in (-1, 8, 100):
            fr = GN.construct(bytearray(gnss_payload([(0, 1, 1, 0)])))
            cmd, impl = run_helper(fr, 'enable', (s,))
            cases.append(Case('gnss-helper-reject', cmd, impl, {'helper': 'enable', 'args': [s]}, domain=False, kind='gnss/reject'))
        # CFG-RATE
        RT = mt['UbxCfgRate']['cls']
        for rate in range(0, 12):
            for base in ('fresh', 'decoded'):
                fr = RT() if base == 'fresh' else RT.construct(bytearray(bytes(rng.getrandbits(8) for _ in range(6))))
                tref = fr.f.timeRef
                cmd, impl = run_helper(fr, 'rate', (rate,))
                desc = {'helper': 'set_rate_in_hz', 'rate': rate, 'frame': base}
                cases.append(Case('rate-helper', cmd, impl, desc, domain=1 <= rate <= 10, kind='rate'))
                if 1 <= rate <= 10 and (fr.f.measRate != 1000 // rate or fr.f.navRate != 1 or fr.f.timeRef != tref):
                    res.violation('set_rate_in_hz: measRate/navRate/timeRef not as prescribed', {'property': 'C17', 'input': desc, 'result': impl}, f'c17-rate|{rate}')
        # fractional rates in range (1.000 .. 10.000 Hz in steps of 0.001): measRate = floor(1000 / rate) in exact arithmetic on
        # the decimal rate, navRate = 1 (implementation-only oracle; the model covers the integer rates)
        from fractions import Fraction
        n_frac = 0
        for k in (range(1000, 10001) if tier == 'thorough' else list(range(1000, 10001, 7)) + [1600, 1250, 3200, 6400, 2500, 9999, 1001]):
            fr = RT()
            r_ = C.guarded(lambda: (fr.set_rate_in_hz(k / 1000), (fr.f.measRate, fr.f.navRate))[1])
            want = (int(Fraction(1000) / Fraction(k, 1000)), 1)
            n_frac += 1
            if r_ != want:
                res.violation('set_rate_in_hz(fractional rate): measRate/navRate not as prescribed', {'property': 'C17', 'input': {'helper': 'set_rate_in_hz', 'rate': k / 1000}, 'expected': list(want), 'result': str(r_)}, 'c17-rate-frac')
        res.notes['fractional_rates_checked'] = n_frac
        # CFG-CFG masks
        CF = mt['UbxCfgCfgAction']['cls']
        for m in [0, 1, 0x1F1F, 0xFFFF, 0xFFFFFFFF, 0x80000000] + [rng.getrandbits(32) for _ in range(20 if tier == 'quick' else 2000)]:
            for name in ('save', 'reset'):
                fr = CF() if rng.random() < 0.5 else CF.construct(bytearray(bytes(rng.getrandbits(8) for _ in range(12))))
                cmd, impl = run_helper(fr, name, (m,))
                cases.append(Case('cfg-helper', cmd, impl, {'helper': name, 'mask': m}, kind='cfg/' + name))
                want = (0, m, 0) if name == 'save' else (m, 0, m)
                if (fr.f.clearMask, fr.f.saveMask, fr.f.loadMask) != want:
                    res.violation(f'CFG-CFG {name}: masks not as prescribed', {'property': 'C17', 'input': {'helper': name, 'mask': m}, 'result': impl}, f'c17-cfg|{name}')
        # rate helper on decoded frames that already carry the requested period, with any navRate / timeRef
        for rate in range(1, 11):
            for nav in (0, 1, 2, 127, 0xFFFF):
                pay = (1000 // rate).to_bytes(2, 'little') + nav.to_bytes(2, 'little') + bytes([rng.choice([0, 1, 5]), 0])
                fr = RT.construct(bytearray(pay))
                tref = fr.f.timeRef
                cmd, impl = run_helper(fr, 'rate', (rate,))
                desc = {'helper': 'set_rate_in_hz', 'rate': rate, 'frame': 'decoded ' + pay.hex()}
                cases.append(Case('rate-helper', cmd, impl, desc, kind='rate/decoded-same-period'))
                if fr.f.measRate != 1000 // rate or fr.f.navRate != 1 or fr.f.timeRef != tref:
                    res.violation('set_rate_in_hz: measRate/navRate/timeRef not as prescribed', {'property': 'C17', 'input': desc, 'result': impl}, f'c17-rate-same|{rate}')
        RS = mt['UbxCfgRstAction']['cls']
        # reset helpers on frames decoded with EVERY previous resetMode value
        for mode0 in range(256):
            for name, want in (('warm', (1, 1)), ('cold', (0xFFFF, 1)), ('start', (0, 9)), ('stop', (0, 8))):
                fr = RS.construct(bytearray(bytes([rng.getrandbits(8), rng.getrandbits(8), mode0, 0])))
                cmd, impl = run_helper(fr, name, ())
                desc = {'helper': name, 'frame': f'decoded, resetMode was {mode0}'}
                cases.append(Case('rst-helper', cmd, impl, desc, kind='rst/all-previous-modes'))
                if (fr.f.navBbrMask, fr.f.resetMode) != want:
                    res.violation(f'CFG-RST {name}: (navBbrMask, resetMode) not as prescribed', {'property': 'C17', 'input': desc, 'result': impl}, f'c17-rst-prev|{name}')
        for name, want in (('warm', (1, 1)), ('cold', (0xFFFF, 1)), ('start', (0, 9)), ('stop', (0, 8))):
            # on a fresh frame, on frames decoded from arbitrary payloads, and after another helper (sequences)
            for base in ['fresh'] + [bytes(rng.getrandbits(8) for _ in range(4)) for _ in range(6)] + ['after-warm', 'after-cold', 'after-stop']:
                if base == 'fresh':
                    fr = RS()
                elif isinstance(base, bytes):
                    fr = RS.construct(bytearray(base))
                else:
                    fr = RS()
                    {'after-warm': fr.warm_start, 'after-cold': fr.cold_start, 'after-stop': fr.stop}[base]()
                cmd, impl = run_helper(fr, name, ())
                desc = {'helper': name, 'frame': base if isinstance(base, str) else 'decoded ' + base.hex()}
                cases.append(Case('rst-helper', cmd, impl, desc, kind='rst'))
                if (fr.f.navBbrMask, fr.f.resetMode) != want:
                    res.violation(f'CFG-RST {name}: (navBbrMask, resetMode) not as prescribed', {'property': 'C17', 'input': desc, 'result': impl}, f'c17-rst|{name}')
        # ESFLA set / query
        ES = mt['UbxCfgEsflaSet']['cls']
        offs = [-1000, -999, -1, 0, 1, 1000] + [rng.randrange(-1000, 1001) for _ in range(4)]
        for t in (0, 1, 2, -1):
            for x, y, z in [(rng.choice(offs), rng.choice(offs), rng.choice(offs)) for _ in range(10 if tier == 'quick' else 300)] + [(1001, 0, 0), (0, -1001, 0), (0, 0, 5000)]:
                fr = ES()
                if rng.random() < 0.5:
                    fr.set(rng.randrange(2), rng.randrange(-1000, 1001), rng.randrange(-1000, 1001), rng.randrange(-1000, 1001))
                cmd, impl = run_helper(fr, 'esfla', (t, x, y, z))
                ok_dom = 0 <= t <= 1 and all(-1000 <= v <= 1000 for v in (x, y, z))
                cases.append(Case('esfla-set', cmd, impl, {'helper': 'esfla.set', 'args': [t, x, y, z]}, domain=ok_dom, kind='esfla/set'))
                if ok_dom and (fr.f.version, fr.f.numConfigs, fr.f.leverArmType, fr.f.leverArmX, fr.f.leverArmY, fr.f.leverArmZ) != (0, 1, t, x, y, z):
                    res.violation('CFG-ESFLA set(): fields not as prescribed', {'property': 'C17', 'input': {'args': [t, x, y, z]}, 'result': impl}, 'c17-esfla')
        EL = mt['UbxCfgEsfla']['cls']
        for _ in range(60 if tier == 'quick' else 3000):
            n = rng.randrange(0, 6)
            arms = [(rng.choice([0, 1, 2, 3, 4, 1]), rng.randrange(-32768, 32768), rng.randrange(-1000, 1001), rng.randrange(-5, 5)) for _ in range(n)]
            pay = bytes([0, n, 0, 0]) + b''.join(bytes([t, 0]) + x.to_bytes(2, 'little', signed=True) + y.to_bytes(2, 'little', signed=True) + z.to_bytes(2, 'little', signed=True) for t, x, y, z in arms)
            fr_shared = EL.construct(bytearray(pay))
            for t in (0, 1, 2, 4, 7, 0, 1):
                fr = fr_shared if rng.random() < 0.5 else EL.construct(bytearray(pay))      # several queries on one frame object
                cmd, impl = run_helper(fr, 'lever', (t,))
                first = next((a for a in arms if a[0] == t), None)
                want = 'None' if first is None else f'{first[1]},{first[2]},{first[3]}'
                desc = {'helper': 'lever_arm', 'type': t, 'arms': arms}
                cases.append(Case('esfla-query', cmd, impl, desc, kind='esfla/query'))
                if impl != want:
                    res.violation('lever_arm(): not the first block of the requested type', {'property': 'C17', 'input': desc, 'expected': want, 'result': impl}, 'c17-lever')
        UT = mt['UbxMgaIniTimeUtc']['cls']
        # the host's time zone must not matter: the fields are those of the datetime given (run under a non-UTC zone)
        import os
        import time as time_
        old_tz = os.environ.get('TZ')
        os.environ['TZ'] = 'VRF-9:30'
        time_.tzset()
        for dt in [(2000, 2, 29, 0, 0, 0), (2099, 12, 31, 23, 59, 59), (1, 1, 1, 0, 0, 0), (9999, 12, 31, 23, 59, 59), (2024, 6, 15, 12, 30, 45)] + \
                [(rng.randrange(1980, 2100), rng.randrange(1, 13), rng.randrange(1, 29), rng.randrange(24), rng.randrange(60), rng.randrange(60)) for _ in range(20 if tier == 'quick' else 1000)]:
            fr = UT() if rng.random() < 0.5 else UT.construct(bytearray(bytes(rng.getrandbits(8) for _ in range(24))))
            cmd, impl = run_helper(fr, 'datetime', dt)
            cases.append(Case('utc-helper', cmd, impl, {'helper': 'set_datetime', 'datetime': list(dt)}, kind='utc'))
            got = (fr.f.type, fr.f.version, fr.f.ref, fr.f.leapSecs, fr.f.year, fr.f.month, fr.f.day, fr.f.hour, fr.f.minute, fr.f.second, fr.f.ns, fr.f.tAccS, fr.f.tAccNs)
            if got != (0x10, 0, 0, -128) + dt + (0, 10, 0):
                res.violation('set_datetime(): fields not as prescribed', {'property': 'C17', 'input': {'datetime': list(dt)}, 'result': impl}, 'c17-utc')
        if old_tz is None:
            del os.environ['TZ']
        else:
            os.environ['TZ'] = old_tz
        time_.tzset()
        SO = mt['UbxUpdSosAction']['cls']
        for name, want in (('backup', 0), ('clear', 1)):
            fr = SO()
            fr.f.cmd = 7
            cmd, impl = run_helper(fr, name, ())
            cases.append(Case('sos-helper', cmd, impl, {'helper': name}, kind='sos'))
            if fr.f.cmd != want:
                res.violation(f'UPD-SOS {name}: cmd not as prescribed', {'property': 'C17', 'input': {'helper': name}, 'result': impl}, f'c17-sos|{name}')
        res.compare(cases)
        res.oblige('correspondence helper methods (Tie A)', not res.disagreements)
        res.oblige('independent protocol oracles on the implementation', not res.violations)
    return C.finish(res, CHECKER, ['the model covers integer rates; fractional rates are checked by an implementation-only oracle; datetimes within datetime.datetime\'s range'])


def replay(obj):
    print(obj.get('input'))
    print('expected/model:', obj.get('expected_payload') or obj.get('model_says') or obj.get('expected'))
    print('implementation:', (obj.get('implementation_says') or obj.get('result') or '')[-600:])
    return 0
