"""C05 — every request terminates: bounded retransmissions and bounded time."""
from .. import common as C
from .. import reqcheck as RC
from .. import reqsuite as S

CHECKER = 'coqc props/C05.v (proofs/RequestP.v) + correspondence of transmissions/elapsed virtual time vs extracted model + bound oracle on the implementation'


def endless_cases(res, tier, seed):
    """Receivers that keep sending answer-class frames / garbage forever (via a long pending script)."""
    from .. import reflect as R
    from .. import ubxgen as G
    mt, kt = R.message_table(), R.key_tables()
    rng = C.rng_for(seed, 'C05-endless')
    reqs = S.all_requests(rng, mt, kt)
    out = []
    for rq in reqs:
        if rq.op == 'fire':
            continue
        c, i = rq.cid
        for what in ('foreign_ack', 'nak', 'answer_class_dup', 'crc_errors', 'garbage'):
            for retries, delay, every in ((0, 100, 10), (2, 250, 50), (1, 0, 1)):
                if what == 'foreign_ack':
                    fr = G.frame(5, 1, bytes([c, (i + 1) % 256]))
                elif what == 'nak':
                    fr = G.frame(5, 0, bytes([c, i]))
                elif what == 'answer_class_dup':
                    fr = G.frame(c, i, b'') if rq.op == 'poll' else G.frame(0x13, 0x60, bytes([0, 0, 1, i, 0, 0, 0, 0]))
                elif what == 'crc_errors':
                    fr = G.frame(5, 1, bytes([c, i]))[:-1] + b'\x00'
                else:
                    fr = bytes(rng.getrandbits(8) for _ in range(9))
                n_ev = min(4000, 12 * (retries + 1) * 2 * (delay // every + 3))
                evs = [(fr, every)] * n_ev
                sc = {'retries': retries, 'delay': delay, 'script': {'pending': [], 'attempts': [(True, evs)] + [(True, evs)] * retries, 'idle': every},
                      'reqs': [rq], 'plan': [('endless-' + what,)]}
                out.append(sc)
    return out


def check(tier, seed):
    res = C.Result('C05', tier, seed)
    res.rule = ('scripted receivers per attempt (silence, garbage, truncated/corrupted answers, foreign ACKs, NAKs, rejected MGA-ACKs, '
                'unrelated UBX, NMEA, failed transmissions, undecodable answer frames, good answers on attempt k) x retries {0..10} x delay '
                '{0,1,100,250,1800,5000} x all request kinds, plus endless answer-class / foreign-ACK / NAK / CRC-error / garbage traffic and a never-pausing receiver on the real serial backend; every 4th scenario runs on the real serial backend over a scripted line; '
                'virtual clock; compared: number of transmissions, elapsed time, returns-vs-raises with the model; bound oracle '
                '(retries+1 sends, (retries+1)*k*(delay+T_rx) ms, no exception, no hang) on the implementation; non-trivial = >= 1 transmission')
    with C.WorkDir('C05') as wd:
        C.audit_sources()
        C.props_obligations(res, 'C05', wd)
        C.tie_b_request(res, wd)
        cases = RC.run_suite(res, 'C05', tier, seed, 250, 8000, oracle=S.bounds_oracle)
        # endless traffic
        from .. import reflect as R
        kt = R.key_tables()
        sk = ','.join(str(k) for k in kt['signed']) or '-'
        proj = RC.proj_for('C05')
        scs = endless_cases(res, tier, seed)
        if tier == 'quick':
            scs = scs[::7]
        for sc in scs:
            out = S.run_scenario(sc)
            desc = S.describe(sc)
            desc['script'] = desc['script'][:200] + '...'
            r = S.parse_result(out)
            why = S.bounds_oracle(sc, sc['reqs'][0], r)
            if why:
                res.violation('C05 oracle: ' + why, {'property': 'C05', 'input': desc, 'request': f'{sc["reqs"][0].op}:{sc["reqs"][0].label}',
                                                    'result': out[:300], 'reason': why}, f'C05|{sc["reqs"][0].op}|{sc["plan"][0][0]}|{why[:40]}')
            cases.append(C.Case('request-endless', S.model_cmd(sc, sk), proj(out), desc, domain=False, kind='endless/' + sc['plan'][0][0], proj=proj))
        # fixed corpus: MON-VER answers of particular shapes (extension strings with / without values, up to 1000 bytes)
        for name, sc in S.fixed_monver_scenarios():
            out = S.run_scenario(sc)
            desc = S.describe(sc)
            desc['answer_shape'] = name
            r = S.parse_result(out)
            why = S.bounds_oracle(sc, sc['reqs'][0], r)
            if why:
                res.violation('C05 oracle: ' + why, {'property': 'C05', 'input': desc, 'request': 'poll:UbxMonVerPoll', 'result': out[:300], 'reason': why},
                              f'C05|poll|fixed-monver|{name}|{why[:40]}')
            cases.append(C.Case('request-fixed-monver', S.model_cmd(sc, sk), proj(out), desc, domain=False, kind='fixed-monver', proj=proj))
        # a receiver that never pauses (a byte every few ms for ever) on the real serial backend: requests still return within the bounds
        rngb = C.rng_for(seed, 'C05-babble')
        from .. import reflect as R2
        breqs = [r for r in S.all_requests(rngb, R2.message_table(), kt) if r.op != 'fire']
        n_b = 0
        for rq in rngb.sample(breqs, min(len(breqs), 6 if tier == 'quick' else 60)) + [r for r in S.all_requests(rngb, R2.message_table(), kt) if r.op == 'fire'][:1]:
            retries, delay = rngb.choice([(0, 0), (0, 100), (2, 250), (1, 1800), (10, 1)])
            dt = rngb.choice([1, 7, 50])
            byte = rngb.choice([0x55, 0x24, 0xB5, 0x00, 0x0A])
            sc = {'retries': retries, 'delay': delay, 'script': {'pending': [], 'attempts': [], 'idle': dt, 'babble': (byte, dt)}, 'reqs': [rq],
                  'plan': [('babble',)], 'backend': 'tty', 'bauds': (rngb.choice([9600, 115200]), None), 'alarm_s': 6}
            out = S.run_scenario(sc)
            desc = S.describe(sc)
            desc['receiver'] = f'byte 0x{byte:02x} every {dt} ms, for ever'
            r = S.parse_result(out)
            n_b += 1
            why = S.bounds_oracle(sc, rq, r)
            if why:
                res.violation('C05 oracle: ' + why, {'property': 'C05', 'input': desc, 'request': f'{rq.op}:{rq.label}', 'result': out[:300], 'reason': why},
                              f'C05|{rq.op}|babble|{why[:40]}')
        res.notes['never_pausing_receiver_runs'] = n_b
        # the configuration interface itself: accepted ranges (0..10, 0..5000), defaults, old value returned, refusals leave it as it was
        import ubxlib.server_base as SB
        from ubxlib.frame_factory import FrameFactory
        FrameFactory.destroy()

        class Bare(SB.UbxServerBase_):
            pass
        b = Bare()
        probe = {'defaults': (b.max_retries, b.retry_delay_in_ms)}
        acc_r, acc_d = [], []
        for v in list(range(-2, 14)) + [100]:
            before = b.max_retries
            try:
                old = b.set_retries(v)
                acc_r.append(v)
                if old != before or b.max_retries != v:
                    probe['retries_semantics'] = f'set_retries({v}) returned {old}, stored {b.max_retries}'
            except AssertionError:
                if b.max_retries != before:
                    probe['retries_refusal'] = f'refused set_retries({v}) changed max_retries to {b.max_retries}'
        for v in [-1, 0, 1, 1800, 4999, 5000, 5001, 10000]:
            before = b.retry_delay_in_ms
            try:
                old = b.set_retry_delay(v)
                acc_d.append(v)
                if old != before or b.retry_delay_in_ms != v:
                    probe['delay_semantics'] = f'set_retry_delay({v}) returned {old}, stored {b.retry_delay_in_ms}'
            except AssertionError:
                if b.retry_delay_in_ms != before:
                    probe['delay_refusal'] = f'refused set_retry_delay({v}) changed the delay to {b.retry_delay_in_ms}'
        b.cleanup()
        probe['accepted_retries'], probe['accepted_delays'] = acc_r, acc_d
        res.notes['configuration_probe'] = probe
        if acc_r != list(range(0, 11)) or acc_d != [0, 1, 1800, 4999, 5000] or any(k.endswith(('semantics', 'refusal')) for k in probe):
            res.violation('retry configuration is not confined to retries 0..10 / delay 0..5000 ms (or a refused call changed it)',
                          {'property': 'C05', 'input': {'probe': 'set_retries(-2..13,100), set_retry_delay(-1,0,1,1800,4999,5000,5001,10000)'}, 'observed': probe}, 'c05-config')
        res.compare(cases)
        res.oblige('correspondence request loop: sends / time / returns (Tie A)', not res.disagreements)
        res.oblige('bound oracle on the implementation', not res.violations)
    return C.finish(res, CHECKER, ['virtual time: only _receive() takes time; every receive call takes 0 < dt <= T_rx (here: the largest dt of the script)',
                                   'requests whose frame cannot be packed (caller error) are outside the property'])


def replay(obj):
    print(obj.get('input'))
    print('reason:', obj.get('reason'), '\nimplementation:', (obj.get('implementation_says') or obj.get('result') or '')[:1500])
    print('model:', (obj.get('model_says') or '')[:1500])
    return 0
