"""C11 — only frames matching the current filter are queued; queued packets never change."""
from .. import common as C
from .. import ubxgen as G
from ..common import Case

CHECKER = 'coqc props/C11.v (proofs/ParserUbxP.v) + correspondence on API schedules with held-reference immutability check + UbxCID eq/hash sweep'


def schedule(rng):
    """Random schedule of process / set_filter(s) / empty_queue / packet / restart between chunks."""
    segs, s, _ = G.rand_segments(rng, rng.choice([2, 4, 6, 6, 6, 6, 6, 6, 6, 45]))
    cids = sorted(set((x[1], x[2]) for x in segs if x[0] in 'FB')) or [(6, 1)]
    ops = []
    pos = 0
    while pos < len(s):
        step = rng.choice([1, 2, 7, 8, 9, 40, 300, 2000])
        ops.append(('P', s[pos:pos + step]))
        pos += step
        r = rng.random()
        if r < 0.18:
            ops.append(('F', rng.choice(cids + G.CIDS[:3])))
        elif r < 0.36:
            ops.append(('FS', rng.choice([[], cids, cids[:1], G.CIDS, [(5, 1), (5, 0)] + cids[:2]])))
        elif r < 0.5:
            ops.append(('K',))
        elif r < 0.56:
            ops.append(('E',))
        elif r < 0.6:
            ops.append(('R',))
    ops += [('K',)] * rng.randrange(0, 4)
    return segs, s, ops


def cid_sweep(res, rng, tier):
    from ubxlib.cid import UbxCID
    pairs = [(c, i) for c in range(256) for i in range(256)] if tier == 'thorough' else \
        [(rng.randrange(256), rng.randrange(256)) for _ in range(3000)] + [(0, 0), (255, 255), (0, 2), (2, 0)]
    bad = None
    for c, i in pairs:
        a, b = UbxCID(c, i), UbxCID(c, i)
        others = [UbxCID((c + 1) % 256, i), UbxCID(c, (i + 1) % 256), UbxCID(i, c)] if c != i else \
            [UbxCID((c + 1) % 256, i), UbxCID(c, (i + 1) % 256)]
        if not (a == b and hash(a) == hash(b) and a in [others[0], b] and not any(a == o for o in others)
                and a not in others and not (a != b)):
            bad = (c, i)
            break
    res.notes['cid_pairs_checked'] = len(pairs)
    if bad:
        res.violation('UbxCID equality/hash is not equality of (class, id)', {'property': 'C11', 'input': {'cid': bad}}, f'cid|{bad}')
    return len(pairs)


def check(tier, seed):
    res = C.Result('C11', tier, seed)
    res.rule = ('grammar streams cut into chunks with set_filter/set_filters/empty_queue/packet/restart calls in between; every '
                'payload object ever queued or handed out is held and re-read at the end (immutability); results compared with the '
                'model; UbxCID __eq__/__hash__ on sampled (quick) or all 65536 (thorough) class/id pairs; non-trivial = schedule '
                'with at least one filter change or packet() call')
    with C.WorkDir('C11') as wd:
        C.audit_sources()
        C.props_obligations(res, 'C11', wd)
        a_ = list(res.assumption_lines)
        C.props_obligations(res, 'C11b', wd)
        res.assumption_lines = a_ + res.assumption_lines
        C.tie_b_kernels(res, wd, ('ck', 'ubx'))
        rng = C.rng_for(seed, 'C11')
        cases = []
        for _ in range(400 if tier == 'quick' else 15000):
            segs, s, ops = schedule(rng)
            filt = G.rand_filter(rng, segs)
            impl = G.impl_ubx(filt, ops)
            desc = {'filter': filt, 'ops': G.ops_tokens(ops) if len(ops) < 60 else G.ops_tokens(ops)[:60] + ['...'], 'stream_hex': C.hexs(s)}
            if impl.endswith('MUTATED-PACKET'):
                res.violation('a queued or handed-out packet was altered by later parser activity',
                              {'property': 'C11', 'input': desc, 'implementation_says': impl[:1500]}, 'c11-mut|' + C.hexs(s)[:200])
            cases.append(Case('ubx-schedule', G.ubx_cmd(filt, ops), impl, desc,
                              nontrivial=any(o[0] in ('F', 'FS', 'K') for o in ops),
                              kind='ops:' + ''.join(sorted(set(o[0] for o in ops)))))
        # the caller's filter list must not be modified by the parser: set_filters(L); set_filter(x); set_filters(L)
        for _ in range(20 if tier == 'quick' else 500):
            L = [rng.choice(G.CIDS), rng.choice(G.CIDS)]
            x = rng.choice(G.CIDS)
            fr = [G.frame(c, i, bytes([k])) for k, (c, i) in enumerate(L + [x] + L)]
            ops = [('FS', L), ('P', fr[0]), ('F', x), ('P', fr[2]), ('FS', L), ('P', fr[1] + fr[2] + fr[3])] + [('K',)] * 6
            impl = G.impl_ubx(None, ops)
            cases.append(Case('ubx-filter-list-reuse', G.ubx_cmd(None, ops), impl, {'L': L, 'x': x}, kind='filter-list-reuse'))
        # long backlogs: many matching frames queued before anything is fetched (first in, first out, nothing lost)
        for _ in range(12 if tier == 'quick' else 300):
            n = rng.choice([31, 32, 33, 34, 40, 64, 65, 100, 130])
            cid = rng.choice(G.CIDS)
            frames = [G.frame(cid[0], cid[1], bytes([j & 255, j >> 8])) for j in range(n)]
            ops = [('P', b''.join(frames))] + [('K',)] * (n + 1)
            impl = G.impl_ubx([cid], ops)
            cases.append(Case('ubx-backlog', G.ubx_cmd([cid], ops), impl, {'frames': n, 'cid': cid}, kind='backlog'))
        # a frame's last byte decides: filter changed between the first and the last byte of a frame
        for _ in range(100 if tier == 'quick' else 3000):
            c, i = rng.choice(G.CIDS)
            f = G.frame(c, i, G.rand_payload(rng, rng.choice([0, 1, 5, 300])))
            cut = rng.randrange(1, len(f))
            f1, f2 = rng.choice([[(c, i)], [], [(5, 1)]]), rng.choice([[(c, i)], [], [(5, 1)]])
            ops = [('FS', f1), ('P', f[:cut]), ('FS', f2), ('P', f[cut:]), ('K',), ('K',)]
            impl = G.impl_ubx(None, ops)
            cases.append(Case('ubx-filter-at-last-byte', G.ubx_cmd(None, ops), impl,
                              {'frame_hex': C.hexs(f), 'cut': cut, 'filter_before': f1, 'filter_at_end': f2}, kind='filter-midframe'))
        # restart() / filter change / empty_queue at every offset of the material that FOLLOWS a queued frame (the queued
        # packet, also one already handed out, must keep its payload)
        for _ in range(25 if tier == 'quick' else 800):
            c, i = rng.choice(G.CIDS)
            f = G.frame(c, i, G.rand_payload(rng, rng.choice([1, 2, 5, 40])))
            nxt = rng.choice([G.frame(c, i, b'\x09\x08'), b'\xb5', b'\xb5\xb5\x62', G.frame(5, 1, b'\x06\x01')[:-1], G.rand_junk(rng)[0] + b'\xb5'])
            for cut in sorted(set([0, 1, 2, 3, 5, len(nxt) - 1, len(nxt)] + [rng.randrange(len(nxt) + 1)])):
                if not 0 <= cut <= len(nxt):
                    continue
                mid = rng.choice([('R',), ('R',), ('F', (c, i)), ('FS', [(c, i), (5, 1)]), ('K',)])
                ops = [('P', f), ('P', nxt[:cut]), mid, ('P', nxt[cut:]), ('K',), ('R',), ('K',), ('K',)]
                impl = G.impl_ubx([(c, i), (5, 1)], ops)
                desc = {'frame_hex': C.hexs(f), 'then': C.hexs(nxt), 'cut': cut, 'op_at_cut': mid[0], 'filter': [(c, i), (5, 1)]}
                if impl.endswith('MUTATED-PACKET'):
                    res.violation('a queued or handed-out packet was altered by restart / filter change / further parsing',
                                  {'property': 'C11', 'input': desc, 'implementation_says': impl[:800]}, 'c11-mut2|' + mid[0])
                cases.append(Case('ubx-op-after-queued-frame', G.ubx_cmd([(c, i), (5, 1)], ops), impl, desc, kind='after-queued/' + mid[0]))
        # fixed corpus (no random choice): every sequence of up to three calls out of packet / empty_queue / restart /
        # set_filter / set_filters between a queued frame and what follows it (e.g. the request loop's own
        # process - packet - empty_queue - process); every payload ever handed out or queued is held and re-read
        import itertools
        fixed_mid = [('K',), ('E',), ('R',), ('F', (6, 1)), ('FS', [(6, 1), (5, 1)])]
        fa = G.frame(6, 1, bytes(range(1, 9)))
        for nxt in (G.frame(6, 1, b'\x09\x08\x07'), G.frame(5, 1, b'\x06\x01'), b'\xb5\x62\x0a\x04\x02', G.frame(1, 7, bytes(12)) + G.frame(6, 1, b'\xaa')):
            for n_mid in (1, 2, 3):
                for mids in itertools.product(fixed_mid, repeat=n_mid):
                    ops = [('P', fa)] + list(mids) + [('P', nxt), ('K',), ('K',), ('K',)]
                    impl = G.impl_ubx([(6, 1), (5, 1)], ops)
                    desc = {'frame_hex': C.hexs(fa), 'calls_in_between': G.ops_tokens(list(mids)), 'then': C.hexs(nxt), 'filter': [(6, 1), (5, 1)]}
                    if impl.endswith('MUTATED-PACKET'):
                        res.violation('a queued or handed-out packet was altered by the calls and the parsing that followed it',
                                      {'property': 'C11', 'input': desc, 'implementation_says': impl[:800]}, 'c11-fixed|' + ''.join(m[0] for m in mids))
                    cases.append(Case('ubx-fixed-call-sequences', G.ubx_cmd([(6, 1), (5, 1)], ops), impl, desc, kind='fixed-calls/' + str(n_mid)))
        # the filter is a set of (class, id) PAIRS: frames combining the class of one entry with the id of another are not queued
        for _ in range(40 if tier == 'quick' else 1500):
            ents = rng.sample(G.CIDS + [(6, 0), (6, 1), (5, 1), (5, 0), (10, 4), (1, 7)], rng.randrange(2, 5))
            crosses = sorted(set((a[0], b[1]) for a in ents for b in ents) - set(ents))
            s = b''.join(G.frame(c_, i_, bytes([c_, i_])) for c_, i_ in crosses + ents)
            ops = [('FS', ents), ('P', s)] + [('K',)] * (len(ents) + 1)
            impl = G.impl_ubx(None, ops)
            cases.append(Case('ubx-filter-cross', G.ubx_cmd(None, ops), impl, {'filter': ents, 'frames': crosses + ents}, kind='filter-cross'))
        cid_sweep(res, rng, tier)
        res.exhaustive = tier == 'thorough'
        res.compare(cases)
        res.oblige('correspondence parser schedules (Tie A)', not res.disagreements)
        res.oblige('held-reference immutability + UbxCID sweep', not res.violations)
    return C.finish(res, CHECKER, ['the model holds payloads by value; aliasing of the real bytearray objects is covered by the held-reference test only'])


def replay(obj):
    C.import_impl()
    print(obj.get('input'))
    print('model/expected:', (obj.get('model_says') or '')[:800])
    print('implementation:', (obj.get('implementation_says') or '')[:800])
    return 0
