"""C03 — parser never delivers anything but checksum-valid frames of the input."""
from .. import common as C
from .. import ubxgen as G
from ..common import Case

CHECKER = 'coqc props/C03.v (proofs/ParserUbxSound.v) + correspondence UbxParser vs extracted model + greedy occurrence matcher'


def check(tier, seed):
    res = C.Result('C03', tier, seed)
    res.rule = ('adversarial raw byte streams (random, sync-dense, truncated, nested, overlapping, bit-flipped, length 1000/1001/'
                '0xFFFF, rotated grammar streams) x filters x 4 chunkings; compared with the model, and every delivered queue '
                'checked by an independent greedy matcher against checksum-valid / checksum-failed occurrences in the stream; '
                'non-trivial = stream contains at least one sync pair')
    with C.WorkDir('C03') as wd:
        C.audit_sources()
        C.props_obligations(res, 'C03', wd)
        C.tie_b_kernels(res, wd, ('ck', 'ubx'))
        rng = C.rng_for(seed, 'C03')
        cases = []
        n = 300 if tier == 'quick' else 12000
        for _ in range(n):
            s, kind = G.rand_raw(rng)
            filt = rng.choice([None, [], [(6, 1)], [(5, 1), (6, 1)], G.CIDS, [(s[2], s[3])] if len(s) > 3 else [(1, 1)]])
            for cname, parts in G.chunkings(rng, s):
                ops = [('P', p) for p in parts]
                impl = G.impl_ubx(filt, ops)
                desc = {'stream_hex': C.hexs(s), 'filter': filt, 'chunking': cname, 'kind': kind}
                toks = impl.split('q=[')[1].split(']')[0].split()
                why = G.sound_c03(s, filt, toks) if not impl.startswith('!') else 'exception ' + impl
                if why:
                    res.violation('C03 oracle: ' + why, {'property': 'C03', 'input': desc, 'implementation_says': impl[:2000], 'reason': why},
                                  'c03|' + C.hexs(s)[:200] + '|' + cname)
                cases.append(Case('ubx-parser-raw', G.ubx_cmd(filt, ops), impl, desc, domain=False,
                                  nontrivial=bytes([0xB5, 0x62]) in s, kind=kind + '/' + cname))
        # over-length header hides nothing after its 6 bytes; one marker per bad frame (in-domain, unique answer)
        for _ in range(60 if tier == 'quick' else 1500):
            ln = rng.choice([1001, 1002, 0xFFFF, 2000])
            follow = G.frame(6, 1, G.rand_payload(rng, rng.choice([0, 1, 7])))
            s = bytes([0xB5, 0x62, rng.randrange(256), rng.randrange(256), ln & 255, ln >> 8]) + follow
            ops = [('P', s), ('K',), ('K',)]
            impl = G.impl_ubx([(6, 1)], ops)
            exp = f'rx=1 q=[] out=[pkt.6.1.{C.hexs(follow[6:-2])} none]'
            desc = {'stream_hex': C.hexs(s), 'filter': [(6, 1)], 'kind': 'overlength-then-frame', 'chunking': 'whole'}
            if impl != exp:
                res.violation('C03: an over-length header hid the frame that starts after its 6 bytes',
                              {'property': 'C03', 'input': desc, 'expected': exp, 'implementation_says': impl}, 'c03-over|' + C.hexs(s)[:80])
            cases.append(Case('ubx-parser-overlength', G.ubx_cmd([(6, 1)], ops), impl, desc, kind='overlength'))
        # exactly one error marker per frame-shaped sequence with a mismatching checksum, never a data packet (grammar streams, unique answer)
        for _ in range(60 if tier == 'quick' else 2500):
            segs, s, kinds = G.rand_segments(rng, rng.choice([1, 2, 4]))
            if not any(sg[0] == 'B' for sg in segs):
                continue
            filt = G.rand_filter(rng, segs)
            q_exp, n_exp = G.expected_c02(segs, filt)
            pre_ops = rng.choice([[], [], [('R',)], [('P', b'\xb5\x62\x06'), ('R',)], [('E',), ('R',)]])     # a history before the stream
            impl = G.impl_ubx(filt, pre_ops + [('P', s)])
            toks = impl.split('q=[')[1].split(']')[0].split() if not impl.startswith('!') else ['!']
            desc = {'stream_hex': C.hexs(s), 'filter': filt, 'kind': 'marker-per-bad-frame', 'chunking': 'whole', 'before': G.ops_tokens(pre_ops)}
            if toks != q_exp:
                res.violation('C03: a checksum-failed frame did not yield exactly one error marker (or was delivered as data)',
                              {'property': 'C03', 'input': desc, 'expected': ' '.join(q_exp)[:1500], 'implementation_says': impl[:1500]}, 'c03-marker|' + C.hexs(s)[:80])
            cases.append(Case('ubx-parser-markers', G.ubx_cmd(filt, pre_ops + [('P', s)]), impl, desc, kind='markers'))
        # the length gate and the delivery of small frames hold for EVERY class/id (no class/id is special): all 65536 pairs
        # on the implementation against the unique expected answer; a sample of them also against the model
        sweep = [(c, i) for c in range(256) for i in range(256)]
        n_bad = 0
        for c, i in sweep:
            follow = G.frame(c, i, bytes([c ^ i]))
            s = bytes([0xB5, 0x62, c, i, 0xE9, 0x03]) + follow + G.frame(c, i, b'')
            impl = G.impl_ubx([(c, i)], [('P', s)])
            exp = f'rx=2 q=[pkt.{c}.{i}.{c ^ i:02x} pkt.{c}.{i}.-] out=[]'
            if n_bad > 10:
                break               # enough evidence; a parser broken for every class/id makes each further run slow
            if impl != exp:
                n_bad += 1
                if n_bad <= 3:
                    res.violation('C03: an over-length header (1001) of this class/id hid the frames that start after its 6 bytes, or a small frame of this class/id was not delivered',
                                  {'property': 'C03', 'input': {'stream_hex': C.hexs(s), 'filter': [(c, i)], 'kind': 'cid-sweep', 'chunking': 'whole'}, 'expected': exp, 'implementation_says': impl[:300]}, f'c03-sweep|{c}|{i}')
            if (c * 256 + i) % 97 == 0 or n_bad and n_bad <= 3:
                cases.append(Case('ubx-parser-cid-sweep', G.ubx_cmd([(c, i)], [('P', s)]), impl, {'stream_hex': C.hexs(s), 'filter': [(c, i)], 'kind': 'cid-sweep', 'chunking': 'whole'}, kind='cid-sweep'))
        res.notes['class_id_pairs_swept'] = len(sweep)
        # a frame of class/id X passes, the filter is replaced by one without X (set_filters or set_filter), X arrives again
        for _ in range(40 if tier == 'quick' else 1500):
            x, y = rng.sample(G.CIDS, 2)
            fx = G.frame(x[0], x[1], bytes([rng.getrandbits(8)]))
            how = rng.choice(['FS', 'FS', 'F'])
            ops = [('FS', [x, y]), ('P', fx), (how, [y] if how == 'FS' else y), ('P', fx + G.frame(y[0], y[1], b'\x01')), ('FS', [x]), ('P', fx)]
            impl = G.impl_ubx(None, ops)
            toks = impl.split('q=[')[1].split(']')[0].split() if not impl.startswith('!') else ['!']
            exp = [f'pkt.{x[0]}.{x[1]}.{C.hexs(fx[6:-2])}', f'pkt.{y[0]}.{y[1]}.01', f'pkt.{x[0]}.{x[1]}.{C.hexs(fx[6:-2])}']
            desc = {'kind': 'filter-switch-same-cid', 'x': x, 'y': y, 'how': how}
            if toks != exp:
                res.violation('C03: a frame whose class/id is not in the filter in force was delivered (or one that is was not) after the filter was replaced',
                              {'property': 'C03', 'input': desc, 'expected': ' '.join(exp), 'implementation_says': impl[:600]}, 'c03-switch|' + how)
            cases.append(Case('ubx-parser-filter-switch', G.ubx_cmd(None, ops), impl, desc, kind='filter-switch'))
        # filter membership is membership of the PAIR: class of one entry with id of another must not pass
        for _ in range(40 if tier == 'quick' else 1500):
            ents = rng.sample(G.CIDS + [(6, 0), (6, 1), (5, 1), (5, 0), (10, 4), (1, 7)], rng.randrange(2, 5))
            crosses = sorted(set((a[0], b[1]) for a in ents for b in ents) - set(ents))
            if not crosses:
                continue
            s = b''.join(G.frame(c_, i_, bytes([c_, i_])) for c_, i_ in crosses) + G.frame(ents[0][0], ents[0][1], b'\x01')
            impl = G.impl_ubx(ents, [('P', s)])
            toks = impl.split('q=[')[1].split(']')[0].split() if not impl.startswith('!') else ['!']
            why = G.sound_c03(s, ents, toks)
            desc = {'stream_hex': C.hexs(s), 'filter': ents, 'kind': 'cross-product-of-filter-entries', 'chunking': 'whole'}
            if why:
                res.violation('C03 oracle: ' + why, {'property': 'C03', 'input': desc, 'implementation_says': impl[:1200], 'reason': why}, 'c03-cross')
            cases.append(Case('ubx-parser-filter-cross', G.ubx_cmd(ents, [('P', s)]), impl, desc, kind='filter-cross'))
        # filter membership must be exact: valid frames whose class/id is NEAR the filter's (shifted, swapped, neighbour ...)
        for c, i in [(0x0a, 4), (5, 1), (5, 0), (6, 0x8b), (0x13, 0x60), (1, 3)] + [(rng.randrange(1, 64), rng.randrange(2, 250)) for _ in range(6 if tier == 'quick' else 200)]:
            near = G.near_cids(c, i)
            s = b''.join(G.frame(cc, ii, bytes([cc, ii])) for cc, ii in near) + G.frame(c, i, b'\x01')
            filt = [(c, i)]
            ops = [('P', s)]
            impl = G.impl_ubx(filt, ops)
            toks = impl.split('q=[')[1].split(']')[0].split()
            why = G.sound_c03(s, filt, toks)
            desc = {'stream_hex': C.hexs(s), 'filter': filt, 'kind': 'near-cids', 'chunking': 'whole'}
            if why:
                res.violation('C03 oracle: ' + why, {'property': 'C03', 'input': desc, 'implementation_says': impl[:1500], 'reason': why}, f'c03-near|{c}|{i}')
            cases.append(Case('ubx-parser-near-cids', G.ubx_cmd(filt, ops), impl, desc, kind='near-cids'))
        for _ in range(20 if tier == 'quick' else 500):
            L = [rng.choice(G.CIDS), rng.choice(G.CIDS)]
            x = rng.choice([c for c in G.CIDS if c not in L])
            fx = G.frame(x[0], x[1], b'\x07')
            ops = [('FS', L), ('F', x), ('FS', L), ('P', fx + G.frame(L[0][0], L[0][1], b'\x01'))]
            impl = G.impl_ubx(None, ops)
            toks = impl.split('q=[')[1].split(']')[0].split()
            why = G.sound_c03(fx + G.frame(L[0][0], L[0][1], b'\x01'), L, toks)
            desc = {'kind': 'filter-list-reuse', 'L': L, 'x': x}
            if why:
                res.violation('C03 oracle: ' + why, {'property': 'C03', 'input': desc, 'implementation_says': impl[:800], 'reason': why}, 'c03-listreuse')
            cases.append(Case('ubx-parser-filter-list-reuse', G.ubx_cmd(None, ops), impl, desc, kind='filter-list-reuse'))
        # fixed corpus (no random choice): one checksum byte right, the other replaced by a value a sloppy comparison might
        # accept (00, ff, the other byte, off by one) - exactly one error marker, never a data packet; followed by a good frame
        fixed = [(6, 1, b''), (6, 1, b'\x01'), (5, 1, b'\x06\x01'), (10, 4, bytes(range(40))), (1, 7, bytes(92)), (6, 0x8b, b'\x00\x01\x00\x00\x01\x00\x52\x40'),
                 (0x13, 0x60, bytes([1, 0, 0, 6, 0x40, 0, 0, 0])), (6, 8, b'\xe8\x03\x01\x00\x01\x00'), (0xF0, 0, bytes(3)), (1, 0x35, bytes(8 + 12 * 7))]
        for c, i, pl in fixed:
            good = G.frame(c, i, pl)
            a_, b_ = good[-2], good[-1]
            for name, (x, y) in (('ckb=00', (a_, 0)), ('cka=00', (0, b_)), ('ckb=ff', (a_, 255)), ('cka=ff', (255, b_)), ('swapped', (b_, a_)),
                                 ('ckb+1', (a_, (b_ + 1) & 255)), ('cka+1', ((a_ + 1) & 255, b_)), ('both=00', (0, 0))):
                if (x, y) == (a_, b_):
                    continue
                s = good[:-2] + bytes([x, y]) + G.frame(c, i, b'\x07')
                filt = [(c, i)]
                for cname, parts in (('whole', [s]), ('bytewise', [s[k:k + 1] for k in range(len(s))])):
                    ops = [('P', q) for q in parts]
                    impl = G.impl_ubx(filt, ops)
                    toks = impl.split('q=[')[1].split(']')[0].split() if not impl.startswith('!') else ['!']
                    exp = ['crc', f'pkt.{c}.{i}.07']
                    desc = {'stream_hex': C.hexs(s), 'filter': filt, 'kind': 'fixed-checksum-byte/' + name, 'chunking': cname}
                    if toks != exp or not impl.startswith('rx=1 '):
                        res.violation('C03: a frame with one wrong checksum byte (' + name + ') did not yield exactly one error marker, or was delivered / counted as data',
                                      {'property': 'C03', 'input': desc, 'expected': 'rx=1 q=[' + ' '.join(exp) + ']', 'implementation_says': impl[:600]}, 'c03-fixedck|' + name)
                    cases.append(Case('ubx-parser-fixed-ck', G.ubx_cmd(filt, ops), impl, desc, kind='fixed-ck/' + name))
        res.compare(cases)
        res.oblige('correspondence UbxParser on raw streams (Tie A)', not res.disagreements)
        res.oblige('independent C03 occurrence matcher', not res.violations)
    return C.finish(res, CHECKER, ['bytes are 0..255'])


def replay(obj):
    C.import_impl()
    i = obj['input']
    s = bytes.fromhex(i['stream_hex']) if i['stream_hex'] != '-' else b''
    filt = [tuple(x) for x in i['filter']] if i['filter'] is not None else None
    out = G.impl_ubx(filt, [('P', s)])
    print('implementation:', out[:1500])
    toks = out.split('q=[')[1].split(']')[0].split()
    print('oracle:', G.sound_c03(s, filt, toks))
    return 0
