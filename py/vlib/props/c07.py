"""C07 — decoded fields carry the values prescribed by the u-blox message layouts."""
from .. import common as C
from .. import fieldsgen as F
from .. import reflect as R
from ..common import Case

CHECKER = ('coqc props/C07gen.v (proofs/FieldsP.v) + per-run coqc props/C07.v against Tables.v regenerated from /repo '
           '(layout oracle model/UbloxSpec.v) + correspondence construct() vs extracted decode and vs the extracted oracle decoder')


def xnorm(s):
    """oracle tokens do not distinguish X from U"""
    return ','.join(':'.join([p.split(':')[0], p.split(':')[1].replace('X', 'U')] + p.split(':')[2:]) for p in s.split(',')) if s not in ('-', '') and not s.startswith('!') else s


def message_cases(res, rng, mt, tier):
    cases = []
    per = 12 if tier == 'quick' else 500
    for name, e in sorted(mt.items()):
        cls = e['cls']
        if e['kind'] not in ('fixed', 'counted', 'monver'):
            continue
        if e['kind'] == 'fixed' and not e['layout']:
            continue
        for k in range(per):
            # choose block count / extension count
            if e['kind'] == 'counted':
                cmax = e['maxc'] if e['maxc'] is not None else 255
                c = rng.choice([0, 1, 2, 3, 5, min(8, cmax), min(16, cmax), cmax]) if k % 4 else rng.randrange(cmax + 1)
                c = min(c, cmax)
                hdrpay = bytearray(F.rand_payload_for(rng, e['hdr']))
                off = 0
                for n, t in e['hdr']:
                    if n == e['count']:
                        break
                    off += F.tok_width(t)
                hdrpay[off] = c
                lay = F.layout_for(e, hdrpay)
                pay = bytes(hdrpay) + F.rand_payload_for(rng, lay[len(e['hdr']):])
                kind = f'{name}/blocks={c if c < 4 else "4+"}'
            elif e['kind'] == 'monver':
                n_ext = rng.choice([0, 1, 2, 3, 8])
                lay = [('swVersion', 'C30'), ('hwVersion', 'C10')] + [(f'extension_{i}', 'C30') for i in range(n_ext)]
                pay = F.rand_payload_for(rng, lay) + bytes(rng.choice([0, 0, 1, 29]))
                kind = f'{name}/ext={n_ext}'
            else:
                lay = e['layout']
                pay = F.rand_payload_for(rng, lay)
                kind = name
            other = F.rand_payload_for(rng, lay, 'ones')
            impl = C.guarded(F.impl_decode, cls, pay, other, k % 3 == 0)
            desc = {'message': name, 'payload_hex': C.hexs(pay)}
            cases.append(Case('decode-vs-model', f'dec {e["kindspec"]} {C.hexs(pay)}', impl, desc, kind=kind))
            cases.append(Case('decode-vs-ublox-oracle', f'specdec {name} {C.hexs(pay)}', xnorm(impl), desc, kind=kind + '/oracle', nontrivial=False))
        # malformed: truncated / surplus payloads (outside the property's domain, still compared with the model)
        for k in range(3 if tier == 'quick' else 40):
            lay = e['layout'] if e['kind'] == 'fixed' else (e['hdr'] + [(f'{n}_0', t) for n, t in e['blk']] if e['kind'] == 'counted' else [('swVersion', 'C30'), ('hwVersion', 'C10')])
            pay = bytearray(F.rand_payload_for(rng, lay))
            if e['kind'] == 'counted':
                off = sum(F.tok_width(t) for n, t in e['hdr'][:[n for n, _ in e['hdr']].index(e['count'])])
                pay[off] = rng.choice([1, 2, 6, 200])
            cut = rng.randrange(0, len(pay) + 1)
            pay = bytes(pay[:cut]) if k % 2 == 0 else bytes(pay) + bytes(rng.getrandbits(8) for _ in range(rng.randrange(1, 5)))
            impl = C.guarded(F.impl_decode, cls, pay, None)
            cases.append(Case('decode-malformed', f'dec {e["kindspec"]} {C.hexs(pay)}', impl, {'message': name, 'payload_hex': C.hexs(pay)},
                              domain=False, kind=name + '/malformed', nontrivial=False))
    return cases


def codec_cases(rng, tier):
    """Item.unpack per type through a one-field container: 1- and 2-byte codecs exhaustively (thorough)."""
    from ubxlib import types as T
    from ubxlib.frame import UbxFrame
    cases = []
    for tname in ['U1', 'I1', 'X1', 'U2', 'I2', 'X2', 'U4', 'I4', 'X4']:
        w = int(tname[1])
        ty = getattr(T, tname)
        if w == 1:
            vals = range(256)
        elif w == 2:
            vals = range(65536) if tier == 'thorough' else [0, 1, 255, 256, 0x7FFF, 0x8000, 0xFFFF] + [rng.randrange(65536) for _ in range(200)]
        else:
            vals = [0, 1, 0x7FFFFFFF, 0x80000000, 0xFFFFFFFF, 0x01020304] + [rng.getrandbits(32) for _ in range(200 if tier == 'quick' else 5000)]
        for v in vals:
            raw = v.to_bytes(w, 'little')

            def run(raw=raw, ty=ty):
                it = ty('v')
                n = it.unpack(bytearray(raw))
                return f'v:{R.item_token(it)}:{F.value_token(it.value)}' + ('' if n == len(raw) else ' consumed=%d' % n)
            cases.append(Case('item-codec', f'dec F/v:{tname} {C.hexs(raw)}', C.guarded(run), {'type': tname, 'bytes': C.hexs(raw)}, kind='codec/' + tname))
    return cases


def factory_cases(rng, mt, tier):
    """Decoding through the frame factory: several classes share a class/id (request / action / response layouts); the class
    registered LAST for a class/id decodes the payload (poll() registers the response class right before waiting)."""
    from ubxlib.frame_factory import FrameFactory
    by_cid = {}
    for name, e in sorted(mt.items()):
        if e['kind'] in ('fixed', 'counted', 'monver') and (e['kind'] != 'fixed' or e['layout']):
            by_cid.setdefault(e['cid'], []).append((name, e))
    others = {}
    for name, e in sorted(mt.items()):
        others.setdefault(e['cid'], []).append((name, e))
    cases = []
    for cid, decs in sorted(by_cid.items()):
        for name, e in decs:
            for first_name, first in others[cid]:
                if first_name == name or first['kind'] == 'ctor-args':
                    continue
                if e['kind'] == 'fixed':
                    pay = F.rand_payload_for(rng, e['layout'])
                elif e['kind'] == 'monver':
                    pay = F.rand_payload_for(rng, [('swVersion', 'C30'), ('hwVersion', 'C10'), ('extension_0', 'C30')])
                else:
                    hdrpay = bytearray(F.rand_payload_for(rng, e['hdr']))
                    off = sum(F.tok_width(t) for n, t in e['hdr'][:[n for n, _ in e['hdr']].index(e['count'])])
                    hdrpay[off] = rng.choice([1, 2, 3])
                    lay = F.layout_for(e, hdrpay)
                    pay = bytes(hdrpay) + F.rand_payload_for(rng, lay[len(e['hdr']):])

                other = bytes((x ^ 0xFF) for x in pay) if e['kind'] != 'counted' else bytes(pay[:len(e['hdr']) and sum(F.tok_width(t) for _, t in e['hdr'])]) + bytes((x ^ 0x5A) for x in pay[sum(F.tok_width(t) for _, t in e['hdr']):])

                def run(a=first['cls'], b=e['cls'], pay=pay, other=other):
                    from ubxlib.cid import UbxCID
                    FrameFactory.destroy()
                    ff = FrameFactory.getInstance()
                    ff.register(a)
                    ff.register(b)
                    fr = ff.build_with_data(UbxCID(*cid), bytearray(pay))
                    # a second frame of the same type is decoded through the factory before the first one is read
                    try:
                        ff.build_with_data(UbxCID(*cid), bytearray(other))
                    except Exception:
                        pass
                    FrameFactory.destroy()
                    return ('' if type(fr) is b else f'decoded-as-{type(fr).__name__} ') + F.render_fields(fr)
                cases.append(Case('decode-via-factory', f'dec {e["kindspec"]} {C.hexs(pay)}', C.guarded(run),
                                  {'message': name, 'registered_before': first_name, 'payload_hex': C.hexs(pay)}, kind='factory-order'))
    return cases


def valget_cases(rng, tier):
    """CFG-VALGET responses: configuration key/value pairs indexed in payload order (1..64 pairs, all sizes)."""
    from .. import cfggen as K
    from .. import reflect
    kt = reflect.key_tables()
    sk = ','.join(str(k) for k in K.DOCUMENTED_SIGNED)       # the layout oracle, not what the library's own table says
    cases = []
    # every published key with the boundary patterns of its width (sign bit set / clear): signedness as documented
    consts = sorted(kt['consts'].values())
    pats = [lambda w: bytes(w), lambda w: b'\xff' * w, lambda w: bytes(w - 1) + b'\x80', lambda w: b'\xff' * (w - 1) + b'\x7f', lambda w: b'\x01' + bytes(w - 1)]
    for pi, pat in enumerate(pats):
        for start in range(0, len(consts), 40):
            body = b''
            for key in consts[start:start + 40]:
                size = (key >> 28) & 7
                w = {1: 1, 2: 1, 3: 2, 4: 4, 5: 8}.get(size)
                if w is None:
                    continue
                body += key.to_bytes(4, 'little') + (pat(w) if size != 1 else bytes([pi % 2]))
            data = bytes(4) + body
            impl = C.guarded(K.impl_valget, data)
            cases.append(Case('valget-decode-published-keys', f'valget {sk} {C.hexs(data)}', impl.rstrip(), {'message': 'UbxCfgValGet', 'pattern': pi, 'payload_hex': C.hexs(data)}, kind='valget/published'))
    # keys that share group and item with a documented-signed key but have another size: unsigned (signedness belongs to the key id)
    for k0 in K.DOCUMENTED_SIGNED + consts[:6]:
        body = b''
        for size in (1, 2, 3, 4, 5):
            key = (k0 & ~(7 << 28)) | (size << 28)
            if key in K.DOCUMENTED_SIGNED:
                continue
            w = {1: 1, 2: 1, 3: 2, 4: 4, 5: 8}[size]
            body += key.to_bytes(4, 'little') + (b'\x01' if size == 1 else bytes(w - 1) + b'\x80')
            body += (key ^ 0x00010000).to_bytes(4, 'little') + (b'\x00' if size == 1 else b'\xff' * w)
        data = bytes(4) + body
        impl = C.guarded(K.impl_valget, data)
        cases.append(Case('valget-decode-key-neighbours', f'valget {sk} {C.hexs(data)}', impl.rstrip(), {'message': 'UbxCfgValGet', 'near_key': hex(k0), 'payload_hex': C.hexs(data)}, kind='valget/neighbours'))
    for n in [0, 1, 2, 3, 10, 63, 64, 64] + [rng.randrange(1, 65) for _ in range(6 if tier == 'quick' else 300)]:
        body = b''
        for j in range(n):
            size = rng.randrange(1, 6)
            key = (size << 28) | (rng.randrange(256) << 16) | rng.choice([0, 1, 0x3FF, 0x400, 0x7FF, 0x800, 0xFFF, rng.randrange(4096)])
            if rng.random() < 0.3:
                key = rng.choice(sorted(kt['consts'].values()))
                size = (key >> 28) & 7
            w = {1: 1, 2: 1, 3: 2, 4: 4, 5: 8}[size]
            val = bytes([rng.choice([0, 1])]) if size == 1 else bytes(rng.getrandbits(8) for _ in range(w))
            body += key.to_bytes(4, 'little') + val
        data = bytes([rng.choice([0, 1]), rng.choice([0, 1, 2, 7]), 0, 0]) + body
        impl = C.guarded(K.impl_valget, data, len(cases) % 2 == 0)
        cases.append(Case('valget-decode', f'valget {sk} {C.hexs(data)}', impl.rstrip(), {'message': 'UbxCfgValGet', 'pairs': n, 'payload_hex': C.hexs(data)}, kind=f'valget/{n if n < 3 else "n"}'))
    return cases


def check(tier, seed):
    res = C.Result('C07', tier, seed)
    res.rule = ('every message class x well-formed payloads (random, all-ones, zero, sign-bit patterns, walking bytes; all '
                'block counts 0..max incl. 255 for GNSS/ESF-STATUS, 0..8 MON-VER extensions), each decode followed by decoding another '
                'instance of the same class before the first is read (frame independence); compared with the model decode AND with the '
                'extracted u-blox oracle decoder; integer codecs per type (1-byte all values; 2-byte all values in thorough); malformed '
                'lengths compared with the model only; non-trivial = well-formed payload of a message with >= 1 field')
    with C.WorkDir('C07') as wd:
        C.audit_sources()
        C.props_obligations(res, 'C07gen', wd)
        C.tie_b_items(res, wd)
        from .. import primcheck
        primcheck.run(res, wd)
        gen_lines = list(res.assumption_lines)
        tb = C.tie_b(res, wd)
        rng = C.rng_for(seed, 'C07')
        if tb:
            mt, kt, cs, xq = tb
            C.props_obligations(res, 'C07', wd, extra_q=xq, dynamic=True)
            res.assumption_lines = gen_lines + res.assumption_lines
        else:
            mt = None
        if mt is None:
            try:
                mt = R.message_table()
            except Exception:
                mt = {}
        cases = message_cases(res, rng, mt, tier) + codec_cases(rng, tier) + valget_cases(rng, tier) + factory_cases(rng, mt, tier)
        res.compare(cases)
        res.exhaustive = tier == 'thorough'
        res.oblige('correspondence construct()/Item.unpack vs model and oracle (Tie A)', not res.disagreements)
    return C.finish(res, CHECKER, ['well-formed = payload of the prescribed length (count-prefixed: header + count*stride; MON-VER: 40+30n)',
                                   'CH text is decoded as UTF-8 (what the code does), the oracle layouts are transcribed from memory'])


def replay(obj):
    C.import_impl()
    i = obj.get('input')
    if not i or 'message' not in i:
        print('no concrete input; broken obligation:', obj.get('broken'))
        print(obj.get('coqc_output', '')[-1500:])
        return 1
    mt = R.message_table()
    pay = bytes.fromhex(i['payload_hex']) if i['payload_hex'] != '-' else b''
    print('implementation:', C.guarded(F.impl_decode, mt[i['message']]['cls'], pay, None))
    print('model/oracle  :', obj.get('model_says'))
    return 0
