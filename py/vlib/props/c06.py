"""C06 — a correct answer to the k-th transmission is returned after exactly k sends."""
from .. import common as C
from .. import reqcheck as RC
from .. import reqsuite as S
from .. import reqgen as Q
from .. import ubxgen as G

CHECKER = 'coqc props/C06.v props/C06b.v (proofs/RequestGood.v, proofs/C06bP.v) + correspondence (returned frame, number of sends) + expected-answer oracle on the implementation'


# known finding F11: the gpsd backend has no _flush_input(); see known_findings.json and DESIGN.md 12
GPSD_FINDING = 'C06|gpsd-backend-unread-input-not-discarded'


def oracle(sc, rq, r):
    """The scenario's plan says which attempt is answered correctly and in time."""
    plan = sc['plans'][sc.get('_idx', 0)] if 'plans' in sc else sc['plan']
    # earlier requests of the sequence must have used exactly the transmissions scripted for them, otherwise the
    # receiver's script is out of step with this request and the plan says nothing about it
    for j in range(sc.get('_idx', 0)):
        if len(sc['_results'][j]['tx']) != len(sc['plans'][j]):
            return None
    good = [p for p in plan if p[0] == 'good']
    if not good or good[0][2]:
        return None            # no good attempt planned, or it arrives too late: nothing to demand
    k = good[0][1]
    gpsd = sc.get('backend') == 'gpsd'
    # the answer may legitimately come earlier if an earlier fault happens to be accepted (e.g. NAK for set): only demand success
    if r['ret'] in ('ret=None', 'hang') or r['ret'].startswith('exn='):
        why = f'attempt {k} was answered correctly and in time, but the request returned {r["ret"][:40]}'
        return (why, GPSD_FINDING) if gpsd else why
    if len(r['tx']) > k:
        why = f'attempt {k} was answered correctly and in time, but {len(r["tx"])} transmissions were made'
        return (why, GPSD_FINDING) if gpsd else why
    return None


def gpsd_leftover_case(res):
    """The listed finding, reproduced deterministically on the real gpsd backend over scripted sockets: attempt 1 is answered by
    the first 10 bytes of a frame that arrive after its waiting period (so they are still unread), attempt 2 is answered
    correctly and in time. With an input flush (serial backend) the answer is returned after 2 sends; on gpsd it is swallowed."""
    from .. import reflect as R
    rng = C.rng_for(0, 'C06-gpsd-finding')
    rq = next(r for r in S.all_requests(rng, R.message_table(), R.key_tables()) if r.label == 'UbxMonVerPoll')
    answer = G.frame(0x0A, 0x04, bytes(range(40)))
    stale = G.frame(0x01, 0x07, bytes(36))[:10]
    sc = {'retries': 1, 'delay': 100, 'reqs': [rq], 'plan': [('late_truncated', 1), ('good', 2, False)],
          'plans': [[('late_truncated', 1), ('good', 2, False)]],
          'script': {'pending': [], 'attempts': [(True, [(None, 120), (stale, 1)]), (True, [(answer, 1)])], 'idle': 13}}
    for backend in ('gpsd', 'tty'):
        sc_b = dict(sc, backend=backend, bauds=('/dev/ttyS3', None) if backend == 'gpsd' else (115200, None))
        if backend == 'tty':
            sc_b = dict(sc_b, script=Q.bytewise(sc['script']))
        out = S.run_scenario(sc_b)
        r = S.parse_result(out)
        ok = r['ret'].startswith('ret=UbxMonVer') and len(r['tx']) == 2
        res.notes[f'late_truncated_frame_then_answer_on_{backend}'] = 'answer returned after 2 sends' if ok else f'{r["ret"][:30]} after {len(r["tx"])} sends'
        if not ok:
            res.violation('C06: a truncated frame arriving after the end of attempt 1 hid the correct and timely answer to attempt 2',
                          {'property': 'C06', 'input': S.describe(sc_b), 'implementation_says': out[:1500]},
                          GPSD_FINDING if backend == 'gpsd' else 'C06|late-truncated|' + backend)


def markers_ahead_cases(res, seed, n):
    """props/C06c.v on the implementation: m checksum-failed frames and then the correct answer, all in ONE read (or byte by
    byte), with at least m further receive calls fitting into the period: the answer is returned after one send. Compared
    with the model; oracle on the implementation."""
    from .. import reflect as R
    from ..common import Case
    rng = C.rng_for(seed, 'C06-markers')
    kt = R.key_tables()
    sk = ','.join(str(k) for k in kt['signed']) or '-'
    reqs = [r for r in S.all_requests(rng, R.message_table(), kt) if r.op in ('set', 'mga') or (r.op == 'poll' and r.cid[0] != 6)]
    out = []
    proj = RC.proj_for('C06')
    for k_ in range(n):
        rq = rng.choice(reqs)
        frames, _i = S.good_answer(rng, rq, kt, 'ack')
        m = rng.choice([1, 2, 3, 5])
        bad = b''
        for _ in range(m):
            f = bytearray(G.frame(rng.choice([1, 5, 6, 10]), rng.randrange(8), bytes(rng.getrandbits(8) for _ in range(rng.randrange(0, 9)))))
            f[-1] ^= rng.choice([0x01, 0x80, 0xFF])
            bad += bytes(f)
        data = bad + b''.join(frames)
        idle = rng.choice([3, 13, 50])
        delay = (m + 2) * idle + rng.choice([5, 40, 400])
        evs = [(data, 1)] if k_ % 2 == 0 else [(data[j:j + 1], 0) for j in range(len(data))]
        backend = 'tty' if k_ % 2 else 'stub'
        sc = {'retries': rng.choice([0, 2]), 'delay': delay, 'reqs': [rq], 'plan': [('good', 1, False)], 'plans': [[('good', 1, False)]],
              'script': {'pending': [], 'attempts': [(True, evs)], 'idle': idle}}
        if backend == 'tty':
            sc = dict(sc, backend='tty', bauds=(115200, None))
        res_ = S.run_scenario(sc)
        r = S.parse_result(res_)
        desc = S.describe(sc)
        desc['markers_ahead_of_answer'] = m
        if r['ret'] in ('ret=None', 'hang') or r['ret'].startswith('exn=') or len(r['tx']) != 1:
            res.violation(f'C06: the correct answer behind {m} checksum-failed frame(s), with {m} further receive calls fitting into the period, was not returned after one send',
                          {'property': 'C06', 'input': desc, 'implementation_says': res_[:600]}, 'C06|markers-ahead')
        out.append(Case('request-markers-ahead', S.model_cmd(sc, sk), proj(res_), desc, domain=False, kind=f'markers-ahead/{backend}', proj=proj))
    return out


def fixed_monver_cases(res):
    """Fixed corpus: MON-VER answers of particular shapes (up to the largest frame the parser accepts) are returned after one send."""
    from .. import reflect as R
    from ..common import Case
    kt = R.key_tables()
    sk = ','.join(str(k) for k in kt['signed']) or '-'
    proj = RC.proj_for('C06')
    out = []
    for name, sc in S.fixed_monver_scenarios():
        res_ = S.run_scenario(sc)
        r = S.parse_result(res_)
        desc = S.describe(sc)
        desc['answer_shape'] = name
        if not r['ret'].startswith('ret=UbxMonVer') or len(r['tx']) != 1:
            res.violation('C06: the correct and timely MON-VER answer (' + name + ') to the first transmission was not returned after one send',
                          {'property': 'C06', 'input': desc, 'implementation_says': res_[:400]}, 'C06|fixed-monver|' + name)
        out.append(Case('request-fixed-monver', S.model_cmd(sc, sk), proj(res_), desc, domain=False, kind='fixed-monver', proj=proj))
    return out


def busy_line_cases(res, seed, n):
    """A busy serial line: 9..12 KiB of other traffic (sentences, other UBX frames; one byte per read) arrive before the
    correct and timely answer to the first transmission. Compared with the line model; oracle: answer after one send."""
    from .. import reflect as R
    from ..common import Case
    rng = C.rng_for(seed, 'C06-busy')
    kt = R.key_tables()
    sk = ','.join(str(k) for k in kt['signed']) or '-'
    reqs = [r for r in S.all_requests(rng, R.message_table(), kt) if r.label in ('UbxMonVerPoll', 'UbxCfgRate', 'UbxCfgNav5Poll')]
    out = []
    proj = RC.proj_for('C06')
    for _ in range(n):
        rq = rng.choice(reqs)
        frames, _i = S.good_answer(rng, rq, kt, 'ack')
        filler = b''
        while len(filler) < rng.choice([9000, 12000]):
            filler += rng.choice([G.nmea(b'GPGSV,3,1,12,01,40,083,46,02,17,308,41'), G.nmea(b'GNRMC,1'), G.frame(1, 7, bytes(92)), G.frame(1, 0x35, bytes(rng.randrange(8, 200)))])
        data = filler + b''.join(frames)
        evs = [(data[k:k + 1], 1 if k % 12 == 0 else 0) for k in range(len(data))]          # about 12 bytes per ms
        sc = {'retries': 1, 'delay': 1800, 'reqs': [rq], 'plan': [('good', 1, False)], 'plans': [[('good', 1, False)]],
              'script': {'pending': [], 'attempts': [(True, evs)], 'idle': 100}, 'backend': 'tty', 'bauds': (115200, None)}
        res_ = S.run_scenario(sc)
        r = S.parse_result(res_)
        desc = S.describe(sc)
        desc['script'] = f'{len(filler)} bytes of other traffic, then the answer; one byte per read'
        if r['ret'] in ('ret=None', 'hang') or r['ret'].startswith('exn=') or len(r['tx']) != 1:
            res.violation('C06: the correct and timely answer behind a lot of other traffic was not returned after one send',
                          {'property': 'C06', 'input': desc, 'implementation_says': res_[:300] + ' ... ' + res_[-200:]}, 'C06|busy-line')
        out.append(Case('request-busy-line', S.model_cmd(sc, sk), proj(res_), desc, domain=False, kind='busy-line', proj=proj))
    return out


def check(tier, seed):
    res = C.Result('C06', tier, seed)
    res.rule = ('scenarios where the k-th transmission (k in 1..retries+1, retries 0..10) is answered correctly and in time (response, +ACK for CFG '
                'polls; ACK/NAK for set; accepting MGA-ACK) after k-1 faulty attempts (silence, garbage, corrupted/truncated frames, failed sends, '
                'undecodable frames ...), alone or after one or two earlier requests on the same server object (whose own class/ids then occur in the inert traffic), every 4th scenario on the real serial backend over a scripted line (bit rate as constructed or changed by set_baudrate), with inert traffic (NMEA, other UBX, filler) interleaved and chunkings {1 byte, 128, whole, random}; compared: '
                'returned frame and number of sends with the model; oracle: the request returns a frame within k sends; non-trivial = a good answer planned')
    with C.WorkDir('C06') as wd:
        C.audit_sources()
        C.props_obligations(res, 'C06', wd)
        C.tie_b_request(res, wd)
        a0_ = list(res.assumption_lines)
        C.props_obligations(res, 'C06b', wd)
        a0_ += list(res.assumption_lines)
        C.props_obligations(res, 'C06c', wd)
        res.assumption_lines = a0_ + list(res.assumption_lines)
        cases = RC.run_suite(res, 'C06', tier, seed, 400, 15000, n_req=[1, 1, 1, 2, 3], force='good', oracle=oracle, late_every=10, history_every=6)
        gpsd_leftover_case(res)
        cases += fixed_monver_cases(res)
        cases += busy_line_cases(res, seed, 2 if tier == 'quick' else 12)
        cases += markers_ahead_cases(res, seed, 16 if tier == 'quick' else 400)
        res.compare(cases)
        res.notes['answered'] = sum(1 for c in cases if 'ret=Ubx' in c.impl)
        res.oblige('correspondence request loop: answer and sends (Tie A)', not res.disagreements)
        res.oblige('expected-answer oracle on the implementation (apart from listed findings)', not res.open_violations())
    return C.finish(res, CHECKER, ['"in time": the receive call that returns the last answer byte starts before the phase deadline',
                                   'inert traffic = grammar segments that deliver nothing for the request\'s filter (no checksum-failed frames: each error '
                                   'marker costs one loop iteration; covered by the correspondence, not by the theorem)'])


def replay(obj):
    print(obj.get('input'))
    print('reason:', obj.get('reason'), '\nimplementation:', (obj.get('implementation_says') or '')[:1500])
    print('model:', (obj.get('model_says') or '')[:1500])
    return 0
