"""C06 — a correct answer to the k-th transmission is returned after exactly k sends."""
from .. import common as C
from .. import reqcheck as RC
from .. import reqsuite as S
from .. import ubxgen as G

CHECKER = 'coqc props/C06.v (proofs/RequestGood.v) + correspondence (returned frame, number of sends) + expected-answer oracle on the implementation'


def oracle(sc, rq, r):
    """The scenario's plan says which attempt is answered correctly and in time."""
    plan = sc['plans'][sc.get('_idx', 0)] if 'plans' in sc else sc['plan']
    # earlier requests of the sequence must have used exactly the transmissions scripted for them, otherwise the
    # receiver's script is out of step with this request and the plan says nothing about it
    for j in range(sc.get('_idx', 0)):
        if len(sc['_results'][j]['tx']) != len(sc['plans'][j]):
            return None
    good = [p for p in plan if p[0] == 'good']
    if not good or good[0][2]:
        return None            # no good attempt planned, or it arrives too late: nothing to demand
    k = good[0][1]
    # the answer may legitimately come earlier if an earlier fault happens to be accepted (e.g. NAK for set): only demand success
    if r['ret'] in ('ret=None', 'hang') or r['ret'].startswith('exn='):
        return f'attempt {k} was answered correctly and in time, but the request returned {r["ret"][:40]}'
    if len(r['tx']) > k:
        return f'attempt {k} was answered correctly and in time, but {len(r["tx"])} transmissions were made'
    return None


def check(tier, seed):
    res = C.Result('C06', tier, seed)
    res.rule = ('scenarios where the k-th transmission (k in 1..retries+1, retries 0..10) is answered correctly and in time (response, +ACK for CFG '
                'polls; ACK/NAK for set; accepting MGA-ACK) after k-1 faulty attempts (silence, garbage, corrupted/truncated frames, failed sends, '
                'undecodable frames ...), alone or after one or two earlier requests on the same server object (whose own class/ids then occur in the inert traffic), every 4th scenario on the real serial backend over a scripted line (bit rate as constructed or changed by set_baudrate), with inert traffic (NMEA, other UBX, filler) interleaved and chunkings {1 byte, 128, whole, random}; compared: '
                'returned frame and number of sends with the model; oracle: the request returns a frame within k sends; non-trivial = a good answer planned')
    with C.WorkDir('C06') as wd:
        C.audit_sources()
        C.props_obligations(res, 'C06', wd)
        cases = RC.run_suite(res, 'C06', tier, seed, 400, 15000, n_req=[1, 1, 1, 2, 3], force='good', oracle=oracle, late_every=10, history_every=6)
        res.compare(cases)
        res.notes['answered'] = sum(1 for c in cases if 'ret=Ubx' in c.impl)
        res.oblige('correspondence request loop: answer and sends (Tie A)', not res.disagreements)
        res.oblige('expected-answer oracle on the implementation', not res.violations)
    return C.finish(res, CHECKER, ['"in time": the receive call that returns the last answer byte starts before the phase deadline',
                                   'inert traffic = grammar segments that deliver nothing for the request\'s filter (no checksum-failed frames: each error '
                                   'marker costs one loop iteration; covered by the correspondence, not by the theorem)'])


def replay(obj):
    print(obj.get('input'))
    print('reason:', obj.get('reason'), '\nimplementation:', (obj.get('implementation_says') or '')[:1500])
    print('model:', (obj.get('model_says') or '')[:1500])
    return 0
