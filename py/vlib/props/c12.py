"""C12 — all (re)transmissions carry the same canonical bytes; backends frame them right."""
from .. import common as C
from .. import reqcheck as RC
from .. import reqsuite as S

CHECKER = 'coqc props/C12.v props/C12b.v props/C12c.v (proofs/RequestP.v, proofs/BackendsP.v, proofs/LineBackendP.v) + correspondence of transmitted bytes + canonical-encoding oracle + stubbed serial/gpsd backends'


def check(tier, seed):
    res = C.Result('C12', tier, seed)
    res.rule = ('all request kinds x retry counts x failure patterns: every transmitted byte string compared with the model and with the '
                'independent wire encoding of the frame packed at call time; serial backend over a stub port (short writes, baud-rate log), gpsd '
                'backend over stub sockets (replies OK / ACK JSON / ERROR / garbage / socket errors, device names; setup() handshakes over lists of several devices followed by a command); non-trivial = >= 1 transmission')
    with C.WorkDir('C12') as wd:
        C.audit_sources()
        C.props_obligations(res, 'C12', wd)
        C.tie_b_request(res, wd)
        C.tie_b_kernels(res, wd, ('ck', 'frame'))
        a1 = list(res.assumption_lines)
        C.props_obligations(res, 'C12b', wd)
        a2 = a1 + res.assumption_lines
        C.props_obligations(res, 'C12c', wd)
        res.assumption_lines = a2 + res.assumption_lines
        cases = RC.run_suite(res, 'C12', tier, seed, 300, 10000, oracle=lambda sc, rq, r: S.canonical_tx_oracle(rq, r))
        from .. import backends as BK
        cases += BK.backend_cases(res, tier, seed)
        # gpsd backend end to end: the device is selected by the handshake (DEVICES lists with several devices), then a command is sent
        from .c20 import PATHS
        res.notes['gpsd_setup_runs'] = BK.gpsd_setup_cases(res, 'C12', C.rng_for(seed, 'C12-gpsd-setup'), 40 if tier == 'quick' else 1500, PATHS)
        res.compare(cases)
        res.oblige('correspondence transmissions / backends (Tie A)', not res.disagreements)
        res.oblige('canonical-encoding and backend oracles on the implementation', not res.violations)
    return C.finish(res, CHECKER, ['real serial ports, sockets and pyserial are replaced by stubs'])


def replay(obj):
    print(obj.get('input'))
    print('reason:', obj.get('reason'), '\nimplementation:', (obj.get('implementation_says') or '')[:1500])
    print('model:', (obj.get('model_says') or '')[:1500])
    return 0
