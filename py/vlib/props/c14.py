"""C14 — malformed configuration data is rejected with ValueError, never mis-decoded."""
from .. import cfggen as K
from .. import common as C
from ..common import Case

CHECKER = 'coqc props/C14.v (proofs/CfgKeysP.v) + correspondence CfgKeyData/VALSET/VALGET vs extracted model + dichotomy oracle on the implementation'


def clear_reserved(b):
    b = bytearray(b)
    if len(b) >= 4:
        b[1] &= 15
        b[3] &= 112
    return bytes(b)


def dichotomy(res, data, where):
    """decode -> either ValueError, or the consumed prefix re-encodes to itself (reserved bits cleared)."""
    from ubxlib.cfgkeys import CfgKeyData
    it = CfgKeyData('x')
    try:
        n = it.unpack(bytearray(data))
    except ValueError:
        return 'ValueError'
    except Exception as e:
        res.violation(f'decoding a configuration item raised {type(e).__name__} instead of ValueError',
                      {'property': 'C14', 'input': {'bytes': C.hexs(data), 'where': where}, 'exception': repr(e)}, 'c14-exn|' + C.hexs(data)[:40])
        return 'other'
    try:
        back = bytes(it.pack())
    except Exception as e:
        back = repr(e).encode()
    if n > len(data) or back != clear_reserved(data[:n]):
        res.violation('decoded configuration item does not re-encode to the consumed bytes',
                      {'property': 'C14', 'input': {'bytes': C.hexs(data), 'where': where}, 'consumed': n, 'reencoded': C.hexs(back)}, 'c14-reenc|' + C.hexs(data)[:40])
    return 'ok'


def check(tier, seed):
    res = C.Result('C14', tier, seed)
    res.rule = ('byte strings as item encodings: every prefix length 0..12 of valid encodings, all 8 size codes, all 256 values of the 1-bit '
                'byte, reserved bits set, random strings; constructor arguments out of range; VALSET with 1..64 items, VALGET polls with 1..64 '
                'keys, VALGET responses (valid, truncated, corrupted pairs, trailing fragments); compared with the model; the dichotomy '
                '(ValueError or faithful re-encode, no other exception) evaluated on the implementation directly; non-trivial = distinct input')
    with C.WorkDir('C14') as wd:
        C.audit_sources()
        C.props_obligations(res, 'C14', wd)
        C.tie_b_kernels(res, wd, ('cfgkeys',))
        C.tie_b_cfgobj(res, wd)
        from .. import primcheck
        primcheck.run(res, wd)
        from .. import reflect
        kt = reflect.key_tables()
        sk = ','.join(str(k) for k in kt['signed']) or '-'
        rng = C.rng_for(seed, 'C14')
        cases = []
        strings = []
        for size in range(8):
            for g, i in [(6, 0x2E), (0x31, 1), (255, 4095), (0, 0)]:
                key = (size << 28) | (g << 16) | i
                for rsv in (0, 1 << 31, 0xF << 24, 0xF << 12):
                    full = (key | rsv).to_bytes(4, 'little') + bytes(rng.getrandbits(8) for _ in range(8))
                    for n in range(0, 13):
                        strings.append(full[:n])
                    strings.append((key | rsv).to_bytes(4, 'little') + bytes([255] * 8))
        for v in range(256):
            strings.append((0x10310001).to_bytes(4, 'little') + bytes([v]))
            strings.append((0x10310001).to_bytes(4, 'little') + bytes([v, 7]))
        for k in sorted(kt['consts'].values()):
            strings.append(k.to_bytes(4, 'little') + bytes([0x80] * 8))
            strings.append(k.to_bytes(4, 'little') + bytes([0xFF, 0x7F]))
        for _ in range(300 if tier == 'quick' else 60000):
            strings.append(bytes(rng.getrandbits(8) for _ in range(rng.randrange(0, 14))))
        kinds = {}
        for s in strings:
            r = dichotomy(res, s, 'item')
            kinds[r] = kinds.get(r, 0) + 1
            cases.append(Case('cfg-unpack', f'cunpack {sk} {C.hexs(s)}', C.guarded(K.impl_unpack, s, len(cases) % 2 == 0), {'bytes': C.hexs(s)}, kind='unpack/' + r))
        res.notes['dichotomy_outcomes'] = kinds
        # constructor arguments out of range
        for g, i, bits, signed, v in [(-1, 0, 8, False, 0), (256, 0, 8, False, 0), (0, -1, 8, False, 0), (0, 4096, 8, False, 0), (0, 0, 0, False, 0),
                                      (0, 0, 2, False, 0), (0, 0, 7, False, 1), (0, 0, 128, False, 0), (0, 0, -8, True, 0), (1 << 70, 0, 8, False, 0)] + \
                [(6, 1, b, s, v) for b in (8, 16, 32, 64) for s in (False, True) for v in K.out_of_range(b, s)] + \
                [(6, 1, b, s, None) for b in (8, 64) for s in (False, True)]:
            impl = C.guarded(K.impl_pack, g, i, bits, signed, v)
            if impl != '!ValueError':
                res.violation('encoding an out-of-range configuration item did not raise ValueError',
                              {'property': 'C14', 'input': {'group': g, 'item': i, 'bits': bits, 'signed': signed, 'value': repr(v)}, 'result': impl}, f'c14-pack|{g}|{i}|{bits}|{signed}|{v!r}')
            cases.append(Case('cfg-pack-reject', 'cpack ' + K.item_token(g, i, bits, signed, v), impl, {'group': g, 'item': i, 'bits': bits, 'signed': signed, 'value': repr(v)}, kind='pack-reject'))
        # VALSET / VALGET
        def rand_item(ok=True):
            bits = rng.choice(K.BITS)
            signed = rng.random() < 0.3
            v = rng.choice(K.boundary_values(bits, signed)) if ok or rng.random() < 0.5 else rng.choice(K.out_of_range(bits, signed) if bits > 1 else [True])
            return (rng.randrange(256), rng.randrange(4096), bits, signed, v)
        for _ in range(60 if tier == 'quick' else 3000):
            n = rng.choice([1, 2, 3, 10, 63, 64])
            items = [rand_item(ok=rng.random() < 0.97) for _ in range(n)]
            impl = C.guarded(K.impl_valset, items)
            cases.append(Case('valset', 'valset ' + ' '.join(K.item_token(*it) for it in items), impl, {'items': [list(map(repr, it)) for it in items[:8]], 'n': n}, kind=f'valset/{"ok" if not impl.startswith("!") else "reject"}'))
            keys = [rng.choice(sorted(kt['consts'].values())) if rng.random() < 0.5 else rng.getrandbits(32) for _ in range(n)]
            cases.append(Case('valget-poll', 'valgetpoll ' + ','.join(map(str, keys)), C.guarded(K.impl_valgetpoll, keys), {'keys': [hex(k) for k in keys[:8]], 'n': n}, kind='valgetpoll'))
            # response
            good = [it for it in items if not C.guarded(K.impl_pack, *it).startswith('!')]
            body = b''.join(bytes.fromhex(K.impl_pack(*it)) for it in good)
            hdr = bytes([rng.choice([0, 1, 1, 2, 3, 255]), rng.choice([0, 1, 2, 7, 255]), rng.getrandbits(8), rng.getrandbits(8)])      # any header: only a malformed PAIR is a reason to reject
            mode = rng.choice(['ok', 'ok', 'trunc', 'corrupt', 'tail', 'hdronly', 'badpair', 'keyonly'])
            if mode == 'keyonly' and good:
                # the last pair is cut right after its 4-byte key (or inside it): malformed, must be rejected
                enc = [bytes.fromhex(K.impl_pack(*it)) for it in good]
                body = b''.join(enc[:-1]) + enc[-1][:4]
            if mode == 'badpair':
                # a malformed pair (size code 0, 6 or 7 - the all-zero key included - or a 1-bit value > 1) at a pair boundary, more pairs after it
                enc = [bytes.fromhex(K.impl_pack(*it)) for it in good]
                bad = rng.choice([bytes(4), bytes(4), bytes(5), b'\x01\x00\x11\x60\x00', b'\x01\x00\x11\x70', b'\x21\x00\x11\x10\x02', b'\x00\x00\x00\x00\x00\x00\x00\x00'])
                at = rng.randrange(len(enc) + 1)
                body = b''.join(enc[:at]) + bad + b''.join(enc[at:])
            if mode == 'trunc' and body:
                body = body[:rng.randrange(len(body))]
            elif mode == 'corrupt' and body:
                b = bytearray(body)
                b[rng.randrange(len(b))] ^= 1 << rng.randrange(8)
                body = bytes(b)
            elif mode == 'tail':
                body += bytes(rng.getrandbits(8) for _ in range(rng.randrange(1, 4)))
            elif mode == 'hdronly':
                body = b''
            data = hdr + body
            impl = C.guarded(K.impl_valget, data, len(cases) % 2 == 0)
            if impl.startswith('!') and impl != '!ValueError':
                res.violation(f'VALGET response decoding raised {impl[1:]} instead of ValueError',
                              {'property': 'C14', 'input': {'payload_hex': C.hexs(data), 'mode': mode}}, 'c14-valget-exn|' + C.hexs(data)[:60])
            cases.append(Case('valget-response', f'valget {sk} {C.hexs(data)}', impl.rstrip(), {'payload_hex': C.hexs(data), 'mode': mode}, kind='valget/' + mode))
        for _ in range(40 if tier == 'quick' else 1500):
            cmd, impl, desc = K.keyvalues_case(rng, sorted(kt['consts'].values()))
            cases.append(Case('valset-from-keyvalues', cmd, impl, desc, kind='valset/from-keyvalues'))
        from ubxlib.cfgkeys import CfgKeyData as CK_
        from ubxlib.ubx_cfg_valget import UbxCfgValGet
        from ubxlib.ubx_cfg_valset import UbxCfgValSetAction
        # long VALGET responses (more than 64 pairs; a malformed pair late in the payload)
        for n in (65, 66, 100, 150, 199):
            pairs = [(0x20110021 + (j << 16) % 0xFF0000, bytes([j & 255])) for j in range(n)]
            body = b''.join(k.to_bytes(4, 'little') + v for k, v in pairs)
            for bad in (False, True):
                data = bytes(4) + body + (b'\x01\x00\x11\x70\x00' if bad else b'')       # size code 7: must be rejected
                impl = C.guarded(K.impl_valget, data)
                cases.append(Case('valget-response-long', f'valget {sk} {C.hexs(data)}', impl.rstrip(), {'pairs': n, 'bad_tail_pair': bad, 'payload_hex': C.hexs(data)[:120]}, kind='valget/long'))
        # VALSET built from item objects that were used before (taken from a decoded VALGET, or from an earlier VALSET) in another order
        for _ in range(20 if tier == 'quick' else 600):
            n = rng.randrange(2, 7)
            raw = [((rng.choice([2, 3, 4]) << 28) | (rng.randrange(256) << 16) | rng.randrange(4096), rng.randrange(200)) for _ in range(n)]
            body = b''.join(k.to_bytes(4, 'little') + v.to_bytes([0, 1, 1, 2, 4, 8][(k >> 28) & 7], 'little') for k, v in raw)
            try:
                vg = UbxCfgValGet.construct(bytearray(bytes(4) + body))
                items = [vg.f._fields[f'data{j}'] for j in range(n)]
            except Exception as e:      # noqa
                res.violation(f'a well-formed CFG-VALGET response ({n} pairs) was rejected or mis-indexed: {type(e).__name__}',
                              {'property': 'C14', 'input': {'payload_hex': C.hexs(bytes(4) + body)}, 'result': repr(e)}, 'c14-valget-wellformed')
                continue
            order = list(range(n))
            rng.shuffle(order)
            picked = [items[j] for j in order]

            def build(picked=picked):
                fr = UbxCfgValSetAction(list(picked))
                if len(picked) > 1:
                    picked[0].value = (picked[0].value + 1) % 100          # edited through the caller's reference after the frame was built
                fr.pack()
                return C.hexs(fr.data)
            impl = C.guarded(build)
            toks = [K.item_token(it.group_id, it.item_id, it.bits, it.signed, it.value) for it in picked]
            cases.append(Case('valset-reused-items', 'valset ' + ' '.join(toks), impl, {'n': n, 'order': order}, kind='valset/reused-items'))
            again = [picked[j] for j in reversed(range(len(picked)))]
            impl2 = C.guarded(lambda: (lambda fr: (fr.pack(), C.hexs(fr.data))[1])(UbxCfgValSetAction(list(again))))
            cases.append(Case('valset-reused-items', 'valset ' + ' '.join(K.item_token(it.group_id, it.item_id, it.bits, it.signed, it.value) for it in again), impl2, {'n': n, 'order': 'reversed-again'}, kind='valset/reused-items'))
        res.compare(cases)
        res.oblige('correspondence CfgKeyData / VALSET / VALGET (Tie A)', not res.disagreements)
        res.oblige('dichotomy oracle on the implementation', not res.violations)
    return C.finish(res, CHECKER, ['1-bit items accept any truthy/falsy value (the code\'s documented coercion)',
                                   'a trailing fragment shorter than a key (< 4 bytes) at the end of a VALGET response is ignored'])


def replay(obj):
    C.import_impl()
    i = obj.get('input', {})
    if 'bytes' in i:
        b = bytes.fromhex(i['bytes']) if i['bytes'] != '-' else b''
        print('implementation unpack:', C.guarded(K.impl_unpack, b))
    print(i, '\nmodel:', obj.get('model_says'), '\nimpl :', obj.get('implementation_says'))
    return 0
