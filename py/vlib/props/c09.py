"""C09 — parsing is independent of chunking; restart() drops exactly the partial frame."""
from .. import common as C
from .. import ubxgen as G
from ..common import Case

CHECKER = 'coqc props/C09.v (proofs/ParserUbxP.v, ParserNmeaP.v) + chunking/restart differential on the implementation + model correspondence'


def nmea_stream(rng):
    parts = []
    for _ in range(rng.randrange(1, 5)):
        k = rng.choice(['good', 'bad', 'nochk', 'junk', 'ubx', 'lower', 'good', 'hibit', 'long'])
        body = bytes(rng.choice(b'GPRMC,0123456789.ANE  \t') for _ in range(rng.randrange(1, 25)))
        if rng.random() < 0.2:
            body = b' ' + body + b' '
        if k == 'hibit':
            # bytes >= 0x80 inside the sentence (valid UTF-8 sequences and lone bytes), checksum over all bytes
            ins = rng.choice([b'\xc3\xa9', b'\xe2\x82\xac', b'\x80', b'\xb5', b'\xff\xfe', b'\xf0\x9f\x98\x80'])
            pos = rng.randrange(len(body) + 1)
            body = body[:pos] + ins + body[pos:]
            k = 'good'
        if k == 'long':
            body = bytes(rng.choice(b'GPGSV,0123456789.ANE') for _ in range(rng.choice([70, 76, 77, 78, 82, 83, 120, 300])))
            k = 'good'
        if k == 'good':
            parts.append(G.nmea(body))
        elif k == 'lower':
            parts.append(G.nmea(body, case='lower', term=b'\n'))
        elif k == 'bad':
            parts.append(G.nmea(body, good=False))
        elif k == 'nochk':
            parts.append(b'$' + body + b'\r\n')
        elif k == 'junk':
            parts.append(bytes(rng.getrandbits(8) for _ in range(rng.randrange(0, 10))))
        else:
            parts.append(G.frame(6, 1, bytes(rng.getrandbits(8) for _ in range(4))))
    return b''.join(parts)


def check(tier, seed):
    res = C.Result('C09', tier, seed)
    res.rule = ('UBX and NMEA streams (grammar, adversarial, NMEA mixes) under all chunkings incl. 1-byte and empty chunks: the '
                'implementation must give identical results for every chunking (implementation-only differential) and equal the '
                'model; restart() at every byte offset of short streams (quick: sampled offsets) followed by the rest must equal the '
                'model, whose restart theorem makes that equal to a new parser; non-trivial = stream with >= 1 sync pair or "$"')
    with C.WorkDir('C09') as wd:
        C.audit_sources()
        C.props_obligations(res, 'C09', wd)
        C.tie_b_kernels(res, wd, ('ck', 'ubx', 'nmea'))
        rng = C.rng_for(seed, 'C09')
        cases = []
        n = 120 if tier == 'quick' else 4000
        for k in range(n):
            if k % 10 == 9:
                # an unterminated sentence start, frames free of 0x0A, then a line end - all of it possibly in one block
                frs = [G.frame(c_, i_, bytes(x for x in G.rand_payload(rng, rng.choice([0, 3, 8])) if x != 10)) for c_, i_ in (rng.choice(G.CIDS), rng.choice(G.CIDS))]
                frs = [f_ for f_ in frs if 10 not in f_] or [G.frame(6, 1, b'\x01')]
                s = rng.choice([b'', b'\r\n']) + rng.choice([b'$GPGGA,12', b'$GNTXT,01,01,02,x', b'$GPRMC,']) + b''.join(frs) + b'\r\n' + G.frame(5, 1, b'\x06\x01')
                filt = G.CIDS
            elif k % 10 == 7:
                # long backlogs: dozens of matching frames / checksum-failed frames before anything is fetched
                cid = rng.choice(G.CIDS)
                nf = rng.choice([15, 16, 17, 18, 31, 33, 46, 65, 130])
                parts_ = []
                for j in range(nf):
                    f_ = bytearray(G.frame(cid[0], cid[1], bytes([j & 255])))
                    if rng.random() < 0.2:
                        f_[-1] ^= 0x21
                    parts_.append(bytes(f_))
                s = b''.join(parts_)
                filt = [cid]
            elif k % 2:
                segs, s, _ = G.rand_segments(rng, 4)
                filt = G.rand_filter(rng, segs)
            else:
                s, _ = G.rand_raw(rng)
                filt = rng.choice([G.CIDS, [(6, 1)], None])
            outs = {}
            for cname, parts in G.chunkings(rng, s, 2):
                ops = [('P', p) for p in parts]
                impl = G.impl_ubx(filt, ops)
                outs.setdefault(impl, cname)
                cases.append(Case('ubx-chunking', G.ubx_cmd(filt, ops), impl, {'stream_hex': C.hexs(s), 'filter': filt, 'chunking': cname},
                                  nontrivial=b'\xb5\x62' in s, kind='ubx/' + cname))
            if len(outs) > 1:
                res.violation('UBX parser result depends on the chunking',
                              {'property': 'C09', 'input': {'stream_hex': C.hexs(s), 'filter': filt}, 'results_by_chunking': {v: k[:500] for k, v in outs.items()}},
                              'c09-chunk|' + C.hexs(s)[:200])
            # restart at offsets
            if len(s) <= (80 if tier == 'quick' else 400):
                offs = range(len(s) + 1) if tier == 'thorough' or len(s) < 24 else sorted(set(rng.randrange(len(s) + 1) for _ in range(6)))
                for off in offs:
                    ops = [('P', s[:off]), ('R',), ('P', s[off:]), ('K',), ('K',)]
                    impl = G.impl_ubx(filt, ops)
                    # implementation-only differential: prefix results + fresh parser on the rest
                    a = G.impl_ubx(filt, [('P', s[:off])])
                    b = G.impl_ubx(filt, [('P', s[off:])])
                    desc = {'stream_hex': C.hexs(s), 'filter': filt, 'restart_at': off}
                    try:
                        rxa, qa = a.split(' ', 1)[0], a.split('q=[')[1].split(']')[0].split()
                        rxb, qb = b.split(' ', 1)[0], b.split('q=[')[1].split(']')[0].split()
                        q = qa + qb
                        exp = f'rx={int(rxa[3:]) + int(rxb[3:])} q=[{" ".join(q[2:])}] out=[{" ".join((q + ["none", "none"])[:2])}]'
                    except Exception:
                        exp = 'n/a'
                    if impl != exp:
                        res.violation('after restart() the UBX parser does not behave like a new parser (queue and count kept)',
                                      {'property': 'C09', 'input': desc, 'expected': exp[:800], 'implementation_says': impl[:800]},
                                      'c09-restart|' + C.hexs(s)[:200] + f'|{off}')
                    cases.append(Case('ubx-restart', G.ubx_cmd(filt, ops), impl, desc, kind='ubx/restart'))
        # NMEA
        for k in range(n):
            s = nmea_stream(rng)
            outs = {}
            for cname, parts in G.chunkings(rng, s, 2):
                ops = [('P', p) for p in parts]
                impl = C.guarded(G.impl_nmea, ops)
                outs.setdefault(impl, cname)
                cases.append(Case('nmea-chunking', G.nmea_cmd(ops), impl, {'stream_hex': C.hexs(s), 'chunking': cname},
                                  nontrivial=b'$' in s, kind='nmea/' + cname))
            if len(outs) > 1:
                res.violation('NMEA parser result depends on the chunking', {'property': 'C09', 'input': {'stream_hex': C.hexs(s)},
                              'results_by_chunking': {v: k for k, v in outs.items()}}, 'c09-nchunk|' + C.hexs(s)[:200])
            offs = range(len(s) + 1) if tier == 'thorough' or len(s) < 24 else sorted(set(rng.randrange(len(s) + 1) for _ in range(6)))
            for off in offs:
                ops = [('P', s[:off]), ('R',), ('P', s[off:])]
                impl = C.guarded(G.impl_nmea, ops)
                a = C.guarded(G.impl_nmea, [('P', s[:off])])
                b = C.guarded(G.impl_nmea, [('P', s[off:])])
                desc = {'stream_hex': C.hexs(s), 'restart_at': off, 'parser': 'nmea'}
                exp = f'rx={int(a[3:]) + int(b[3:])}' if a.startswith('rx=') and b.startswith('rx=') else 'n/a'
                if impl != exp:
                    res.violation('after restart() the NMEA parser does not behave like a new parser (count kept)',
                                  {'property': 'C09', 'input': desc, 'expected': exp, 'implementation_says': impl},
                                  'c09-nrestart|' + (impl if impl.startswith('!') else C.hexs(s)[:200] + f'|{off}'))
                cases.append(Case('nmea-restart', G.nmea_cmd(ops), impl, desc, kind='nmea/restart'))
        # the backends' receive paths are part of the chunking: whatever block boundaries the transport produces, _receive() hands
        # every byte on unchanged (gpsd: recv(128) blocks at every alignment; serial: one byte per read)
        from .. import backends as BK
        from .. import reqgen as Q
        n_rx = 0
        for _ in range(6 if tier == 'quick' else 150):
            segs, s0, _k = G.rand_segments(rng, 5)
            s = rng.choice([b'', b'\r\n', b'{"class":"TPV"}\r\n']) + s0 + G.frame(0x0A, 0x04, b'\r\n\n\rtext\r\n') + G.frame(0x0D, 0x0A, b'\x0a\x0d')
            filt = G.CIDS + [(0x0A, 0x04), (0x0D, 0x0A)]
            want = G.impl_ubx(filt, [('P', s)])
            for shift in sorted(set([0, 1, 2, 3, 127] + [rng.randrange(128) for _ in range(4)])):
                def through_gpsd(shift=shift):
                    clock, trace = Q.VClock(), []
                    srv = Q.make_server_gpsd({'pending': [], 'attempts': [], 'idle': 7}, 0, 100, clock, trace)
                    st = BK.ScriptSocket.st
                    st['pending'] = [(s[:shift], 0)] * bool(shift) + [(s[k:k + 128], 0) for k in range(shift, len(s), 128)]
                    got = bytearray()
                    while st['pending']:
                        d = srv._receive()
                        if d:
                            got += d
                    srv.cleanup()
                    return bytes(got)
                got = C.guarded(through_gpsd)
                n_rx += 1
                if got != s:
                    res.violation('the gpsd backend\'s _receive() does not hand on exactly the bytes received',
                                  {'property': 'C09', 'input': {'stream_hex': C.hexs(s), 'first_block': shift, 'block': 128}, 'received_hex': C.hexs(got) if isinstance(got, bytes) else got},
                                  'c09-gpsd-receive')
                    break
            def through_tty():
                clock, trace = Q.VClock(), []
                srv = Q.make_server_tty({'pending': [(s[k:k + 1], 0) for k in range(len(s))], 'attempts': [], 'idle': 7}, 0, 100, clock, trace)
                got = bytearray()
                while srv.serial_port.pending:
                    got += srv._receive() or b''
                srv.cleanup()
                return bytes(got)
            got = C.guarded(through_tty)
            n_rx += 1
            if got != s:
                res.violation('the serial backend\'s _receive() does not hand on exactly the bytes received',
                              {'property': 'C09', 'input': {'stream_hex': C.hexs(s)}, 'received_hex': C.hexs(got) if isinstance(got, bytes) else got}, 'c09-tty-receive')
            cases.append(Case('ubx-chunking', G.ubx_cmd(filt, [('P', s)]), want, {'stream_hex': C.hexs(s), 'filter': filt, 'chunking': 'whole (stream of the receive-path runs)'}, kind='ubx/receive-path'))
        res.notes['receive_path_runs'] = n_rx
        res.compare(cases)
        res.oblige('correspondence parsers under chunking/restart (Tie A)', not res.disagreements)
        res.oblige('implementation-only chunking/restart differential', not res.violations)
    return C.finish(res, CHECKER, ['bytes are 0..255'])


def replay(obj):
    C.import_impl()
    i = obj['input']
    s = bytes.fromhex(i['stream_hex']) if i['stream_hex'] != '-' else b''
    off = i.get('restart_at', 0)
    if i.get('parser') == 'nmea' or 'filter' not in i:
        print('implementation:', C.guarded(G.impl_nmea, [('P', s[:off]), ('R',), ('P', s[off:])]))
    else:
        filt = [tuple(x) for x in i['filter']] if i['filter'] is not None else None
        print('implementation:', G.impl_ubx(filt, [('P', s[:off]), ('R',), ('P', s[off:]), ('K',), ('K',)])[:1000])
    print('expected:', obj.get('expected') or obj.get('model_says'))
    return 0
