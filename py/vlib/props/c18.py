"""C18 — bit-rate scan says yes only on real frames, and always when two arrive."""
from .. import backends as BK
from .. import common as C
from .. import reqgen as Q
from .. import ubxgen as G
from ..common import Case
from .c16 import count_ref

CHECKER = 'coqc props/C18.v (proofs/ScanP.v) + correspondence scan() over a stub serial port and virtual clock vs extracted model + soundness/liveness oracle'


def valid_ubx_frames(s):
    """number of checksum-valid UBX frames a left-to-right scan finds (oracle for soundness: upper bound on occurrences)"""
    n, k = 0, 0
    s = bytes(s)
    while True:
        k = s.find(b'\xb5\x62', k)
        if k < 0 or k + 8 > len(s):
            return n
        ln = s[k + 4] + 256 * s[k + 5]
        end = k + 8 + ln
        if end <= len(s) and G.fletcher(s[k + 2:end - 2]) == (s[end - 2], s[end - 1]):
            n += 1
        k += 1


def run_scan(events, interval_ms, idle, pre_events=None, bauds=(115200, None)):
    clock = Q.VClock()
    srv, T, ok = BK.tty_server(bauds[0])
    T.time = clock
    port = srv.serial_port
    if bauds[1] is not None:
        srv.set_baudrate(bauds[1])          # bit-rate detection: construct at one rate, scan at others
    port.clock = clock
    if pre_events is not None:
        # an earlier scan on the same object that ends in the middle of a frame / sentence
        port.rx = [(d if d is not None else b'', dt) for d, dt in pre_events]
        o_read = port.read

        def read0(n):
            if port.rx:
                return o_read(n)
            clock.ms += idle
            return b''
        port.read = read0
        srv.scan(0.05)
        port.read = o_read
        port.rx = []
        clock.ms = 0
    port.rx = [(d if d is not None else b'', dt) for d, dt in events]

    # idle reads
    orig_read = port.read

    def read(n):
        if port.rx:
            return orig_read(n)
        # a read that gets nothing lasts as long as the port's read timeout (the 100 ms idle time stands for it)
        clock.ms += idle if idle != 100 else int(round((port.timeout if port.timeout is not None else 0.1) * 1000))
        return b''
    port.read = read
    n0 = len(port.rx)
    flushed = port.in_flushes
    r = srv.scan(interval_ms / 1000.0)
    reads = n0 - len(port.rx)
    srv.cleanup()
    return r, clock.ms, port.in_flushes - flushed


def check(tier, seed):
    check._n_two = 1          # the first two-sentence stream of a run has no line end after its first sentence
    res = C.Result('C18', tier, seed)
    res.rule = ('byte streams delivered one byte (or nothing) per read through a stub serial port under a virtual clock: noise, single frames, '
                'two UBX frames / two NMEA sentences separated by sync-free filler, one of each, corrupted frames, frames completing just before / '
                'after the deadline, busy lines (hundreds of bytes of other material around the two frames), port constructed at one bit rate and scanned at another, '
                'silence gaps; intervals {0, 100, 1500, 5000} ms; compared: verdict and elapsed time with the model; oracle: True '
                'only if the delivered bytes hold >= 2 valid UBX frames or >= 2 valid sentences, True whenever two complete in time; non-trivial = stream with >= 1 frame')
    with C.WorkDir('C18') as wd:
        C.audit_sources()
        C.props_obligations(res, 'C18', wd)
        C.tie_b_kernels(res, wd, ('ck', 'ubx', 'nmea'))
        BK.install_stub_serial()
        C.tie_b_scan(res, wd)
        rng = C.rng_for(seed, 'C18')
        cases = []
        ties = 0
        batch = []
        for _ in range(150 if tier == 'quick' else 6000):
            kind = rng.choice(['long_two', 'long_two', 'noise', 'one_ubx', 'two_ubx', 'two_nmea', 'mixed', 'bad_ubx', 'three', 'late', 'ubx_filler', 'silence', 'near_nmea', 'near_nmea', 'bad_then_two', 'bad_then_two', 'burst_two', 'burst_two', 'ubx_text', 'ubx_text'])
            fr = lambda: G.frame(*rng.choice(G.CIDS), G.rand_payload(rng, rng.choice([0, 2, 8, 30])))
            nm = lambda good=True: G.nmea(bytes(rng.choice(b'GPRMC,0123456789.AN') for _ in range(rng.randrange(3, 30))), good=good)
            junk = lambda: G.rand_junk(rng)[0]
            if kind == 'noise':
                s = bytes(rng.getrandbits(8) for _ in range(rng.randrange(0, 120)))
            elif kind == 'one_ubx':
                s = junk() + fr()
            elif kind == 'long_two':
                # a busy line: several hundred bytes of other material (invalid sentences, filler) before / between the two frames
                def fill():
                    # filler pieces are joined back to back: the joint must not form a sync pair (the property's proviso)
                    while True:
                        f_ = b''.join(G.rand_junk(rng)[0] if rng.random() < 0.5 else nm(False) for _ in range(rng.randrange(8, 30)))
                        if b'\xb5\x62' not in f_:
                            return f_
                two = rng.choice([(fr, fr), (nm, nm)])
                s = fill() + two[0]() + fill() + two[1]()
            elif kind == 'two_ubx':
                s = fr() + fr()
            elif kind == 'ubx_text':
                # two well-formed UBX frames whose payloads are text: complete, checksum-valid NMEA sentences
                tx = lambda: G.frame(*rng.choice(G.CIDS), rng.choice([b'', b'\r\n', b'xx']) + nm() + rng.choice([b'', nm(False)]))
                s = rng.choice([lambda: tx() + fr(), lambda: fr() + tx(), lambda: tx() + junk() + fr() + fr(), lambda: tx() + tx()])()
            elif kind == 'burst_two':
                # everything becomes readable at one instant (a USB packet, an epoch's burst): two or three frames / sentences
                s = b''.join(rng.choice([(fr, fr), (nm, nm), (fr, fr, fr), (nm, fr, nm)]))() if False else b''.join(f_() for f_ in rng.choice([(fr, fr), (nm, nm), (fr, fr, fr), (nm, fr, nm)]))
            elif kind == 'ubx_filler':
                s = junk() + fr() + junk() + fr()
            elif kind == 'two_nmea':
                s = nm() + rng.choice([b'', b'\xb5b\x01']) + nm()
                # the line end of the first sentence varies (cycled, no extra random draw): CR LF, nothing, CR only, a blank
                n_two = getattr(check, '_n_two', 0)
                check._n_two = n_two + 1
                term = (b'\r\n', b'', b'\r', b' ')[n_two % 4]
                if term != b'\r\n' and s.count(b'\r\n') >= 1:
                    k_ = s.index(b'\r\n')
                    s = s[:k_] + term + s[k_ + 2:]
            elif kind == 'mixed':
                s = fr() + nm()
            elif kind == 'bad_ubx':
                b = bytearray(fr() + fr())
                b[rng.randrange(2, len(b))] ^= 0x10
                s = bytes(b) + nm(False)
            elif kind == 'near_nmea':
                # sentences that are valid except for one inserted byte (line noise with the high bit set, or any byte)
                def hit(x):
                    x = bytearray(x)
                    x.insert(rng.randrange(1, len(x) - 5), rng.choice([0x80, 0xb5, 0xff, 0xc3, rng.randrange(128, 256), 0x01]))
                    return bytes(x)
                s = hit(nm()) + hit(nm()) + rng.choice([b'', hit(nm())])
            elif kind == 'bad_then_two':
                def bad():
                    b = bytearray(fr())
                    b[-1] ^= 0x5a
                    return bytes(b)
                s = b''.join(bad() for _ in range(rng.choice([3, 4, 6]))) + (nm() + nm() if rng.random() < 0.5 else fr() + fr())
            elif kind == 'three':
                s = nm() + fr() + nm() + fr()
            elif kind == 'late':
                s = fr() + fr()
            else:
                s = b''
            interval = rng.choice([0, 100, 1500, 1500, 5000])
            idle = rng.choice([100, 101, 7])
            dts = [rng.choice([0, 1, 1, 2]) for _ in s]
            if kind == 'long_two':
                interval = rng.choice([1500, 5000])
                dts = [rng.choice([0, 0, 0, 1]) for _ in s]
            if kind == 'burst_two':
                interval = rng.choice([100, 1500, 5000])
                dts = [rng.choice([0, 1, 5])] + [0] * (len(s) - 1)
            if kind == 'late' and s:
                # put the end of the second frame around the deadline
                k = rng.randrange(max(1, len(s) - 12), len(s))
                dts[k] = max(0, interval - sum(dts[:k]) + rng.choice([-3, -1, 1, 2, 50]))
            events = [(bytes([b]), dt) for b, dt in zip(s, dts)]
            if rng.random() < 0.3 and events:
                events.insert(rng.randrange(len(events)), (None, rng.choice([3, 100])))
            batch.append((kind, s, interval, idle, events))
        for bi, (kind, s, interval, idle, events) in enumerate(batch):
            pre = None
            if bi % 3 == 0:
                cutf = G.frame(6, 1, b'\x01\x02\x03')
                pre = [(bytes([b]), 1) for b in rng.choice([cutf[:-3], cutf + cutf[:5], b'$GPRMC,1*', G.nmea(b'GPGGA,7') + b'$GP', b'\xb5\x62\x0a\x04\xe8\x03'])]
            bauds = (rng.choice([1200, 1200, 9600, 115200, 921600]), rng.choice([None, 1200, 2400, 4800, 9600, 115200, 460800]))
            r, t, fl = run_scan(events, interval, idle, pre, bauds)
            evtok = ','.join(('N' if d is None else C.hexs(d)) + f'@{dt}' for d, dt in events) or '-'
            cmd = f'scan {interval} {idle} {evtok}'
            impl = f'{r} t={t}'
            desc = {'kind': kind, 'stream_hex': C.hexs(s), 'interval_ms': interval, 'idle_ms': idle, 'events': evtok[:600], 'bauds_ctor_then_set': list(bauds)}
            # which bytes were delivered before the scan ended
            delivered, tt = b'', 0
            for d, dt in events:
                if tt >= interval:
                    break
                tt += dt
                if d:
                    delivered += d
            if r is True and valid_ubx_frames(delivered) < 2 and count_ref(delivered) < 2:
                res.violation('scan() returned True although fewer than two valid frames/sentences were received', {'property': 'C18', 'input': desc, 'result': impl}, 'c18-sound|' + kind)
            if r not in (True, None, False):
                res.violation('scan() returned an unexpected value', {'property': 'C18', 'input': desc, 'result': impl}, 'c18-type')
            total = sum(dt for _, dt in events)
            if kind in ('two_ubx', 'two_nmea', 'ubx_filler', 'three', 'bad_then_two', 'long_two', 'burst_two', 'ubx_text') and total + 1 < interval and r is not True:
                res.violation('two well-formed frames of one protocol arrived within the interval but scan() did not return True', {'property': 'C18', 'input': desc, 'result': impl}, 'c18-live|' + kind)
            if r is not True and t > interval + max([idle] + [dt for _, dt in events]):
                res.violation('scan() returned later than interval + one read timeout', {'property': 'C18', 'input': desc, 'result': impl}, 'c18-time')
            if fl < 1:
                res.violation('scan() did not flush the input before scanning', {'property': 'C18', 'input': desc}, 'c18-flush', )
            cases.append(Case('scan', cmd, impl, desc, domain=False, nontrivial=b'\xb5\x62' in s or b'$' in s, kind=kind,
                              proj=lambda o: ' '.join(o.split(' ')[:2])))
        # drop exact deadline ties (float comparison)
        outs = C.run_driver([c.cmd for c in cases])
        keep = []
        for c, o, (kind, s, interval, idle, events) in zip(cases, outs, batch):
            tt, tie = 0, False
            for d, dt in events + [(None, idle)] * 3:
                if tt == interval:
                    tie = True
                if tt >= interval:
                    break
                tt += dt
            if tie:
                ties += 1
            else:
                keep.append(c)
        res.notes['deadline_ties_dropped'] = ties
        res.compare(keep)
        res.oblige('correspondence scan() (Tie A)', not res.disagreements)
        res.oblige('soundness / liveness / time oracle on the implementation', not res.violations)
    return C.finish(res, CHECKER, ['virtual time; serial port replaced by a stub that returns one byte or nothing per read'])


def replay(obj):
    print(obj.get('input'))
    print('result:', obj.get('result') or obj.get('implementation_says'), ' model:', obj.get('model_says'))
    return 0
