"""C16 — NMEA parser counts exactly the sentences with a valid checksum."""
import itertools

from .. import common as C
from .. import ubxgen as G
from ..common import Case
from .c09 import nmea_stream

CHECKER = 'coqc props/C16.v (proofs/ParserNmeaP.v) + correspondence NmeaParser vs extracted model and vs the count_sentences spec'

CLASSES = [b'$', b'*', b'4', b'\n', b'A', b'\xb5', b'0', b'!']


def count_ref(s):
    """Independent Python transcription of the property text (oracle)."""
    n, k = 0, 0
    s = bytes(s)
    while True:
        k = s.find(b'$', k)
        if k < 0:
            return n
        j = k + 1
        x = 0
        while j < len(s) and s[j] not in b'$*':
            x ^= s[j]
            j += 1
        if j < len(s) and s[j] == 0x2A and j + 2 < len(s):
            try:
                if s[j + 1:j + 3].isalnum() and int(s[j + 1:j + 3].decode('ascii'), 16) == x and all(ch in b'0123456789abcdefABCDEF' for ch in s[j + 1:j + 3]):
                    n += 1
            except ValueError:
                pass
        k += 1


def check(tier, seed):
    res = C.Result('C16', tier, seed)
    res.rule = ('NMEA sentences with correct/wrong/missing/non-hex/upper/lower-case checksums, nested "$", "*" in odd places, bytes '
                '>= 128, UBX binary between sentences, CR/LF variants; thorough adds all strings of length <= 4 over 8 byte classes '
                'before/inside/after a valid sentence; compared: frames_rx vs model, vs extracted count_sentences spec, vs a Python '
                'transcription of the property text; every pair of 23 characters (hex digits, blanks, signs, CR/LF/TAB ...) as checksum field for bodies '
                'with small and large XOR; sentence bodies with binary material (sync pairs, NUL, CR/LF, bytes >= 128); every stream whole, cut in two (position rotating), with an empty chunk in between, and byte-wise; non-trivial = stream contains "$"')
    with C.WorkDir('C16') as wd:
        C.audit_sources()
        C.props_obligations(res, 'C16', wd)
        C.tie_b_kernels(res, wd, ('nmea',))
        rng = C.rng_for(seed, 'C16')
        streams = []
        for _ in range(700 if tier == 'quick' else 30000):
            s = bytearray(nmea_stream(rng))
            r = rng.random()
            if r < 0.3 and s:
                s[rng.randrange(len(s))] = rng.choice(b'$*0aF\n\xb5G')
            elif r < 0.4 and s:
                del s[rng.randrange(len(s))]
            streams.append((bytes(s), 'mix'))
        # sentence bodies are arbitrary bytes other than '$' and '*': binary material (UBX sync pairs, NUL, bytes >= 128) inside the body
        for _ in range(120 if tier == 'quick' else 5000):
            body = bytearray(rng.choice(b'GPRMC,0123456789.ANE') for _ in range(rng.randrange(0, 14)))
            for _k in range(rng.randrange(1, 4)):
                ins = rng.choice([b'\xb5\x62', b'\xb5', b'\x62\xb5', b'\x00', b'\xff\xfe', b'\r\n', b'\xb5\x62\x06\x01', bytes([rng.randrange(256)])])
                at = rng.randrange(len(body) + 1)
                body[at:at] = ins
            body = bytes(b for b in body if b not in b'$*')
            streams.append((rng.choice([b'', b'\xb5\x62', b'x']) + G.nmea(body, case=rng.choice(['upper', 'lower'])) + G.nmea(b'GPGGA,2'), 'binary-body'))
        # after a wrong checksum nothing is "resumed": `$body*<wrong>tail*<hh>` with hh = XOR of everything after the '$' is no sentence
        for _ in range(60 if tier == 'quick' else 3000):
            body = bytes(rng.choice(b'GPTXT,0123456789 ABC') for _ in range(rng.randrange(1, 12)))
            x = 0
            for ch in body:
                x ^= ch
            wrong = f'{x ^ rng.choice([1, 0x10, 0xFF]):02X}'.encode()
            tail = bytes(rng.choice(b',0123456789ABC ') for _ in range(rng.randrange(0, 8)))
            y = 0
            for ch in body + b'*' + wrong + tail:
                y ^= ch
            streams.append((b'$' + body + b'*' + wrong + tail + b'*' + f'{y:02X}'.encode() + b'\r\n' + G.nmea(b'GPGGA,2'), 'resume-after-bad'))
            streams.append((G.nmea(bytes(rng.choice(b'PMTKUBX0123456789') for _ in range(rng.randrange(1, 9)))) + G.nmea(b'GPGGA'), 'no-comma'))
        good = G.nmea(b'GPRMC,1')
        L = 3 if tier == 'quick' else 4
        for n in range(L + 1):
            for combo in itertools.product(CLASSES, repeat=n):
                w = b''.join(combo)
                streams.append((w + good, 'pre'))
                streams.append((good + w + good, 'mid'))
                streams.append((good[:4] + w + good[4:], 'inside'))
        # checksum field: every pair of characters from an extended alphabet (hex digits of both cases, blanks, signs,
        # CR/LF/TAB, prefixes that int(x, 16) would accept, other text) after '*', for bodies with small and large XOR
        alpha = b'0159aAfFgG +-\r\n\t_xX.*$'
        bodies = [b'AA', b'AB', b'AK', b'GPTXT,01,01,02,0w', b'AQ', b'Az', b'GPRMC,1', b'\x01', b'' ] if tier == 'quick' else \
            [bytes([65, 65 ^ x]) for x in list(range(0, 20)) + [0x7f, 0xa5, 0xff]] + [b'GPTXT,01,01,02,0w', b'GPRMC,1', b'']
        for body in bodies + [bytes([65, 65 ^ x]) for x in (0xab, 0xfd, 0xaf, 0xce, 0x1b, 0xd4)]:
            x = 0
            for ch in body:
                x ^= ch
            for h in (f'{x:02X}', f'{x:02x}', f'{x:02X}'[0] + f'{x:02x}'[1], f'{x:02x}'[0] + f'{x:02X}'[1]):
                streams.append((b'$' + body + b'*' + h.encode() + b'\r\n' + good, 'case-mix'))
        for body in bodies:
            for c1 in alpha:
                for c2 in alpha:
                    streams.append((b'$' + body + b'*' + bytes([c1, c2]) + b'\r\n' + good, 'chkfield'))
        # every byte value 0..255 in either checksum position (digits of other scripts, Latin-1 superscripts ...), and as the byte
        # before '$' / inside the body (other start-of-sentence characters such as '!' must mean nothing)
        for body in (b'AK', b'GPRMC,1', b'Az'):
            x = 0
            for ch in body:
                x ^= ch
            hx = f'{x:02X}'.encode()
            for v in range(256):
                streams.append((b'$' + body + b'*' + bytes([v, hx[1]]) + b'\r\n' + good, 'chk-anybyte'))
                streams.append((b'$' + body + b'*' + bytes([hx[0], v]) + b'\r\n' + good, 'chk-anybyte'))
                if v not in b'$*':
                    b2 = body[:1] + bytes([v]) + body[1:]
                    streams.append((G.nmea(b2) + bytes([v]) + body + b'*' + hx + b'\r\n' + good, 'anybyte-body'))
        res.exhaustive = True
        res.notes['exhaustive_part'] = f'all strings of length <= {L} over 8 byte classes before / between / inside valid sentences'
        cases = []
        for idx, (s, kind) in enumerate(streams):
            ref = f'rx={count_ref(s)}'
            # every stream whole; additionally byte-wise and cut at every position (rotating through the streams)
            variants = [('whole', [s])]
            if kind not in ('chkfield', 'chk-anybyte', 'anybyte-body') or idx % 7 == 0:
                variants.append(('bytes', [s[k:k + 1] for k in range(len(s))]))
            cut = idx % (len(s) + 1)
            variants.append((f'cut@{cut}', [s[:cut], s[cut:]]))
            if idx % 3 == 0:        # an empty chunk (a read that timed out) in the middle of the stream changes nothing
                variants.append((f'empty@{cut}', [s[:cut], b'', s[cut:]]))
            for cname, parts in variants:
                ops = [('P', p) for p in parts]
                impl = C.guarded(G.impl_nmea, ops)
                desc = {'stream_hex': C.hexs(s), 'kind': kind, 'chunking': cname}
                if impl != ref:
                    res.violation('NMEA counter differs from the number of valid sentences in the stream',
                                  {'property': 'C16', 'input': desc, 'expected': ref, 'implementation_says': impl}, 'c16|' + C.hexs(s)[:200] + cname)
                cases.append(Case('nmea-count', G.nmea_cmd(ops), impl, desc, nontrivial=b'$' in s, kind=kind + '/' + cname.split('@')[0]))
            impl = C.guarded(G.impl_nmea, [('P', s)])
            desc = {'stream_hex': C.hexs(s), 'kind': kind}
            cases.append(Case('nmea-count-spec', 'nmeacount ' + C.hexs(s), impl[3:] if impl.startswith('rx=') else impl, desc, nontrivial=False, kind=kind + '-spec'))
        # the log level changes nothing: a sample of the streams again with the "ubxlib" logger at DEBUG
        import logging
        lg = logging.getLogger('ubxlib')
        n_dbg = 0
        for idx, (s, kind) in enumerate(streams):
            if idx % 9 and kind not in ('no-comma', 'resume-after-bad', 'binary-body'):
                continue
            a_ = C.guarded(G.impl_nmea, [('P', s)])
            logging.disable(logging.NOTSET)
            lg.setLevel(logging.DEBUG)
            if not lg.handlers:
                lg.addHandler(logging.NullHandler())
            try:
                b_ = C.guarded(G.impl_nmea, [('P', s)])
            finally:
                lg.setLevel(logging.CRITICAL + 1)
                logging.disable(logging.CRITICAL)
            n_dbg += 1
            if a_ != b_:
                res.violation('NMEA counter differs with the logger at DEBUG', {'property': 'C16', 'input': {'stream_hex': C.hexs(s), 'kind': kind}, 'logging_disabled': a_, 'logging_debug': b_}, 'c16-debug|' + kind)
        res.notes['streams_repeated_at_DEBUG'] = n_dbg
        res.compare(cases)
        res.oblige('correspondence NmeaParser (Tie A)', not res.disagreements)
        res.oblige('independent count oracle', not res.violations)
    return C.finish(res, CHECKER, ['bytes are 0..255'])


def replay(obj):
    C.import_impl()
    i = obj['input']
    s = bytes.fromhex(i['stream_hex']) if i['stream_hex'] != '-' else b''
    print('implementation:', C.guarded(G.impl_nmea, [('P', s)]), ' oracle: rx=%d' % count_ref(s))
    return 0
