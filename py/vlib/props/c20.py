"""C20 — gpsd handshake picks the right device and tolerates any interleaved data."""
import json

from .. import backends as BK
from .. import common as C
from .. import ubxgen as G
from ..common import Case

CHECKER = 'coqc props/C20.v props/C20b.v (proofs/GpsdP.v, proofs/GpsdLoopP.v) + correspondence _parse_gpsd_msg over real bytes vs extracted model + selection oracle'


def jtok(v):
    if isinstance(v, bool):
        return 't' if v else 'f'
    if v is None:
        return 'z'
    if isinstance(v, (int, float)):
        return 'n'
    if isinstance(v, str):
        return 's' + (v.encode().hex() or '')
    if isinstance(v, list):
        return 'a(' + ','.join(jtok(x) for x in v) + ')'
    return 'o(' + ','.join(k.encode().hex() + '=' + jtok(x) for k, x in v.items()) + ')'


def rtok(v):
    if isinstance(v, bool):
        return 't' if v else 'f'
    if v is None:
        return 'z'
    if isinstance(v, (int, float)):
        return 'n'
    if isinstance(v, str):
        return 's:' + v
    if isinstance(v, list):
        return 'a(' + ','.join(rtok(x) for x in v) + ')'
    return 'o(' + ','.join(k + '=' + rtok(x) for k, x in v.items()) + ')'


PATHS = ['/dev/ttyS3', '/dev/gnss0', '/dev/ttyACM0', '/dev/a', '/dev/b', '/dev/ttyACM10', '/dev/ttyACM1', '/dev/ttyS30', 'dev/b', '/dev/b ', '/dev/gps-\u00e9', '/dev/serial/by-id/usb-\u00b5blox']


def rand_line(rng, requested):
    k = rng.choice(['version', 'devices', 'devices', 'scalar', 'array', 'string', 'other_obj', 'nmea', 'partial', 'watch', 'tpv', 'classnum', 'blank', 'deep', 'classobj', 'device', 'device', 'otherclass'])
    if k == 'version':
        return {'class': 'VERSION', 'release': rng.choice(['3.17', '3.25', 3, None]), 'rev': 'x', 'proto_major': 3}, k
    if k == 'devices':
        n = rng.randrange(0, 6)
        devs = [dict({'class': 'DEVICE', 'path': p}, **rng.choice([{'driver': 'u-blox'}, {'driver': 'NMEA0183'}, {'driver': 'PPS'}, {'driver': None}, {}, {'activated': '2020-01-01T00:00:00Z', 'native': 0}])) for p in rng.sample(PATHS, min(n, len(PATHS)))]
        if requested and rng.random() < 0.5 and devs:
            devs[rng.randrange(len(devs))]['path'] = requested
        return {'class': 'DEVICES', 'devices': devs}, k
    if k == 'device':
        # gpsd's notification about ONE device (activation / deactivation): not a DEVICES list, selects nothing
        return dict({'class': 'DEVICE', 'path': rng.choice(PATHS + ([requested] if requested else []))},
                    **rng.choice([{}, {'driver': 'PPS'}, {'activated': 0}, {'driver': 'u-blox', 'native': 1}, {'activated': '2024-05-01T10:00:00.000Z'},
                                  {'activated': 1714557600.5, 'driver': 'u-blox'}, {'activated': True}])), k
    if k == 'otherclass':
        # any other report class gpsd knows, with and without the members one might expect
        cls = rng.choice(['ERROR', 'ERROR', 'POLL', 'TOFF', 'PPS', 'OSC', 'GST', 'ATT', 'RAW', 'SUBFRAME', 'devices', 'Version'])
        return dict({'class': cls}, **rng.choice([{}, {'message': 'x'}, {'message': None}, {'devices': []}, {'release': '9'}, {'path': '/dev/a'}, {'device': '/dev/b', 'real_sec': 1}])), k
    if k == 'scalar':
        return rng.choice([5, 0, -1.5, True, False, None]), k
    if k == 'array':
        return rng.choice([[], ['class'], [1, 2], [{'class': 'VERSION'}], ['DEVICES', 'class']]), k
    if k == 'string':
        return rng.choice(['class', 'VERSION', '', 'xclassx']), k
    if k == 'other_obj':
        return rng.choice([{}, {'class': 'TPV', 'mode': 3}, {'klass': 'VERSION'}, {'class': 5}, {'class': None}, {'class': ['VERSION']}, {'class': 'version'}]), k
    if k == 'watch':
        return {'class': 'WATCH', 'enable': True, 'raw': 2, 'devices': 'x'}, k
    if k == 'tpv':
        return {'class': 'SKY', 'device': rng.choice(['/dev/a', '/dev/\u00fc']), 'satellites': [{'PRN': 1}], 'note': rng.choice(['x', '48\u00b0 N', '\u6771\u4eac'])}, k
    if k == 'classnum':
        return {'class': 'DEVICES ', 'devices': 7}, k
    if k == 'classobj':
        return rng.choice([{'class': ['DEVICES']}, {'class': {'name': 'VERSION'}}, {'class': [1, [2]]}, {'class': {}}]), k
    return None, k     # nmea / partial / blank / deep: not JSON (json.loads raises)


def check(tier, seed):
    res = C.Result('C20', tier, seed)
    res.rule = ('sequences of received chunks built from JSON objects (VERSION, DEVICES with 0..5 devices, other classes), arrays, scalars, '
                'strings (incl. "class" and arrays containing it), NMEA text, truncated JSON, binary UBX chunks, several lines per chunk, CR/LF '
                'variants x requested device present / absent / not given / empty string; real bytes through the real _parse_gpsd_msg over a stub '
                'socket; setup() handshakes end to end compared with the model of the handshake loop (selection, readiness, chunks left unread, command header); '
                'one command sent afterwards; compared: selected device, ready flag, release with the model; oracle: selection rule evaluated directly; non-trivial = '
                'sequence containing a DEVICES object')
    with C.WorkDir('C20') as wd:
        C.audit_sources()
        C.props_obligations(res, 'C20', wd)
        C.tie_b_gpsd(res, wd)
        a0_ = list(res.assumption_lines)
        C.props_obligations(res, 'C20b', wd)
        res.assumption_lines = a0_ + res.assumption_lines
        rng = C.rng_for(seed, 'C20')
        cases = []
        for _ in range(400 if tier == 'quick' else 15000):
            requested = rng.choice([None, None, '', '/dev/ttyS3', '/dev/b', '/dev/notthere', '/dev/ttyACM1', '/dev/ttyS'])
            chunks_b, chunks_t, kinds, dev_msgs = [], [], set(), []
            for _c in range(rng.randrange(1, 5)):
                if rng.random() < 0.15:
                    chunks_b.append(G.frame(1, 7, bytes(rng.getrandbits(8) | 0x80 for _ in range(12))) + b'\xff\xfe')
                    chunks_t.append('U')
                    kinds.add('binary')
                    continue
                lines_b, lines_t = [], []
                for _l in range(rng.randrange(1, 4)):
                    v, k = rand_line(rng, requested)
                    kinds.add(k)
                    if k == 'nmea':
                        lines_b.append(G.nmea(b'GPRMC,1,2').strip())
                        lines_t.append('X')
                    elif k == 'partial':
                        lines_b.append(b'{"class":"DEVICES","devices":[{"pa')
                        lines_t.append('X')
                    elif k == 'blank':
                        lines_b.append(b'')
                        lines_t.append('X')
                    elif k == 'deep':
                        lines_b.append(b'[' * rng.choice([50, 2000, 5000]))
                        lines_t.append('X')
                    else:
                        lines_b.append(json.dumps(v, ensure_ascii=rng.random() < 0.5).encode('utf-8'))       # gpsd sends UTF-8
                        lines_t.append(jtok(v))
                        if isinstance(v, dict) and v.get('class') == 'DEVICES' and isinstance(v.get('devices'), list):
                            dev_msgs.append([d['path'] for d in v['devices']])
                sep = rng.choice([b'\n', b'\r\n'])
                chunks_b.append(sep.join(lines_b) + rng.choice([b'', sep]))
                chunks_t.append('L:' + ';'.join(lines_t))
            srv, SV = BK.gpsd_server(requested)

            def run():
                for cb in chunks_b:
                    srv._parse_gpsd_msg(cb)
                rel = srv.release
                return f'sel={srv.selected_device} enabled={srv.enabled} release={"None" if rel is None and "version" not in kinds else rtok(rel)}'
            impl = C.guarded(run)
            # the release token: model prints None when never set; json null prints z
            desc = {'requested': requested, 'chunks': [c.decode('latin-1') for c in chunks_b][:6]}
            if impl.startswith('!'):
                res.violation('processing gpsd data raised ' + impl[1:], {'property': 'C20', 'input': desc, 'result': impl}, 'c20-raise|' + impl[1:])
            else:
                # selection oracle
                sel, en = None, False
                for paths in dev_msgs:
                    if requested:
                        if requested in paths:
                            sel, en = requested, True
                    elif paths:
                        sel, en = paths[0], True
                want = f'sel={sel} enabled={en}'
                if not impl.startswith(want + ' '):
                    res.violation('device selection differs from the rule (requested-if-listed, else first, else none)',
                                  {'property': 'C20', 'input': desc, 'expected': want, 'result': impl}, f'c20-select|{bool(requested)}')
            req_tok = '-' if requested is None else (requested.encode().hex() or '')
            if requested == '':
                req_tok = '-'      # '' is falsy: same as not given (the model's requested())
            cases.append(Case('gpsd-handshake', f'gpsd {req_tok} ' + ' '.join(chunks_t), impl, desc,
                              nontrivial=bool(dev_msgs), kind='+'.join(sorted(kinds))[:50]))
        # fixed corpus (no random choice): device lists that contain only LOOK-ALIKES of the requested device (same base name in
        # another directory, the bare name, a longer / shorter / differently cased path) - nothing is selected; then the same
        # list with the requested device at the end - it is selected
        for requested in ('/dev/gnss0', '/dev/b', '/dev/ttyACM1'):
            base = requested.rsplit('/', 1)[1]
            alike = ['/dev/serial/by-id/' + base, base, 'dev/' + base, requested + '0', requested[:-1], '/dev/' + base.upper(), '/x' + requested, requested + '/', ' ' + requested]
            for paths, want in ((alike, 'sel=None enabled=False'), (alike[:3], 'sel=None enabled=False'), (alike + [requested], f'sel={requested} enabled=True')):
                v = {'class': 'DEVICES', 'devices': [{'class': 'DEVICE', 'path': p_} for p_ in paths]}
                chunk = json.dumps(v).encode('utf-8') + b'\r\n'
                srv, SV = BK.gpsd_server(requested)

                def run1(srv=srv, chunk=chunk):
                    srv._parse_gpsd_msg(chunk)
                    return f'sel={srv.selected_device} enabled={srv.enabled} release=None'
                impl = C.guarded(run1)
                desc = {'requested': requested, 'chunks': [chunk.decode('latin-1')], 'kind': 'fixed look-alike paths'}
                if not impl.startswith(want + ' '):
                    res.violation('device selection differs from the rule (requested-if-listed, else first, else none): a path that merely resembles the requested device',
                                  {'property': 'C20', 'input': desc, 'expected': want, 'result': impl}, 'c20-select|lookalike')
                cases.append(Case('gpsd-handshake', f'gpsd {requested.encode().hex()} L:' + jtok(v), impl, desc, nontrivial=True, kind='fixed-lookalike'))
        # fixed corpus: a DEVICE notification (a receiver activated later) is not a device list - it selects nothing and changes
        # no selection, before or after the DEVICES list, whatever its `activated` value
        for requested in (None, '/dev/gnss0'):
            for act in ('2024-05-01T10:00:00.000Z', 1714557600.5, True, 0, None):
                note = {'class': 'DEVICE', 'path': '/dev/gnss0' if requested else '/dev/ttyACM9', 'driver': 'u-blox', 'activated': act}
                lst = {'class': 'DEVICES', 'devices': [{'class': 'DEVICE', 'path': '/dev/ttyS3'}, {'class': 'DEVICE', 'path': '/dev/a'}]}
                for order, want in (([note], 'sel=None enabled=False'),
                                    ([lst, note], 'sel=None enabled=False' if requested else 'sel=/dev/ttyS3 enabled=True'),
                                    ([note, lst], 'sel=None enabled=False' if requested else 'sel=/dev/ttyS3 enabled=True')):
                    chunks = [json.dumps(v).encode('utf-8') + b'\r\n' for v in order]
                    srv, SV = BK.gpsd_server(requested)

                    def run2(srv=srv, chunks=chunks):
                        for cb in chunks:
                            srv._parse_gpsd_msg(cb)
                        return f'sel={srv.selected_device} enabled={srv.enabled} release=None'
                    impl = C.guarded(run2)
                    desc = {'requested': requested, 'chunks': [c_.decode('latin-1') for c_ in chunks], 'kind': 'fixed DEVICE notification'}
                    if not impl.startswith(want + ' '):
                        res.violation('device selection differs from the rule (requested-if-listed, else first, else none): a DEVICE notification was taken for a device list',
                                      {'property': 'C20', 'input': desc, 'expected': want, 'result': impl}, 'c20-select|device-notification')
                    cases.append(Case('gpsd-handshake', f'gpsd {"-" if requested is None else requested.encode().hex()} ' + ' '.join('L:' + jtok(v) for v in order),
                                      impl, desc, nontrivial=True, kind='fixed-device-notification'))
        n_setup = BK.gpsd_setup_cases(res, 'C20', rng, 40 if tier == 'quick' else 1500, PATHS, jtok, cases)
        res.notes['setup_runs'] = n_setup
        res.compare(cases)
        res.oblige('correspondence _parse_gpsd_msg (Tie A)', not res.disagreements)
        res.oblige('no-raise and selection oracle on the implementation', not res.violations)
    return C.finish(res, CHECKER, ['bytes.decode, str.splitlines and json.loads are environment (trusted); json recursion limits not modelled',
                                   'VERSION objects carry "release", DEVICES objects carry "devices": a list of objects with a string "path"'])


def replay(obj):
    print(obj.get('input'))
    print('expected/model:', obj.get('expected') or obj.get('model_says'), '\nimplementation:', obj.get('result') or obj.get('implementation_says'))
    return 0
