"""C15 — checksum is 8-bit Fletcher for every byte sequence."""
import hashlib

from .. import common as C
from ..common import Case

CHECKER = 'coqc props/C15.v (theorems in proofs/ChecksumP.v) + correspondence Checksum vs extracted ck_add/fletcher'


def impl_hist(ops):
    from ubxlib.checksum import Checksum
    ck = Checksum()
    for o in ops:
        if o == 'r':
            ck.reset()
        else:
            ck.add(o)
    a, b = ck.value()
    return a, b, ck


def check(tier, seed):
    res = C.Result('C15', tier, seed)
    res.rule = ('seeded histories of add()/reset() on one live Checksum object compared with the model fold '
                'from the last reset and with the spec fletcher; step function on sampled (quick) or all '
                '65536x256 (thorough) state/byte pairs reached through a 2-byte prefix; non-trivial = '
                'history with >= 2 bytes after the last reset')
    with C.WorkDir('C15') as wd:
        C.audit_sources()
        C.tie_b_kernels(res, wd, ('ck',))
        pr = C.check_props('C15', wd)
        res.assumption_lines = pr['assumptions']
        for t in pr['theorems']:
            res.oblige('theorem ' + t, pr['rc'] == 0, pr['out'])
        rng = C.rng_for(seed, 'C15')
        from ubxlib.checksum import Checksum
        cases = []
        n_hist = 1500 if tier == 'quick' else 40000
        for k in range(n_hist):
            kind = rng.choice(['short', 'long', 'reset', 'ff', 'zero'])
            n = rng.choice([0, 1, 2, 3, 5, 17, 255, 256, 257]) if kind != 'long' else rng.randrange(300, 3000)
            if kind == 'ff':
                body = [255] * n
            elif kind == 'zero':
                body = [0] * n
            else:
                body = [rng.randrange(256) for _ in range(n)]
            ops = list(body)
            if kind == 'reset':
                pre = [rng.randrange(256) for _ in range(rng.randrange(0, 40))]
                ops = pre + ['r'] + body
            # a second live object is created and driven in between (objects must not share state)
            other = Checksum()
            a, b, ck = impl_hist(ops[:len(ops) // 2])
            other.add(rng.randrange(256))
            other.add(rng.randrange(256))
            for o in ops[len(ops) // 2:]:
                if o == 'r':
                    ck.reset()
                else:
                    ck.add(o)
                if rng.random() < 0.2:
                    other.add(rng.randrange(256))
                if rng.random() < 0.05:
                    Checksum()
            a, b = ck.value()
            bad1 = ck.matches((a + 1) & 255, b)
            bad2 = ck.matches(a, (b + 1) & 255)
            good = ck.matches(a, b) and ck.matches(a, b)          # observing twice must not disturb anything
            if ck.value() != (a, b):
                good = False
            impl = f'{a} {b}'
            # ... and the object keeps absorbing bytes after matches(): continue the same history
            tail = [rng.randrange(256) for _ in range(rng.randrange(1, 4))]
            for o in tail:
                ck.add(o)
            ta, tb = ck.value()
            cases.append(Case('checksum-after-matches', 'ck ' + C.hexs(bytes(body + tail)), f'{ta} {tb}',
                              {'ops': ops[:64], 'then_matches_then': tail}, nontrivial=False, kind=kind + '-cont'))
            cases.append(Case('checksum-history', 'ck ' + C.hexs(body), impl, {'ops': ops[:64], 'n': len(ops)},
                              nontrivial=len(body) >= 2, kind=kind))
            cases.append(Case('checksum-spec', 'fletcher ' + C.hexs(body), impl, {'ops': ops[:64], 'n': len(ops)},
                              nontrivial=False, kind=kind + '-spec'))
            if not (good and not bad1 and not bad2):
                res.violation('matches() is not true for exactly value()',
                              {'property': 'C15', 'component': 'matches', 'ops': ops, 'value': [a, b],
                               'matches': [good, bad1, bad2]}, 'matches|' + C.hexs(body))
        # very long unreset histories (hidden state beyond the reported pair must not exist)
        for n, fill in ((9000, 255), (20000, 255), (12000, None), (70000 if tier == 'thorough' else 16000, 1)):
            body = [fill] * n if fill is not None else [rng.randrange(256) for _ in range(n)]
            a, b, _ = impl_hist(body)
            cases.append(Case('checksum-long', 'ck ' + C.hexs(bytes(body)), f'{a} {b}', {'n': n, 'fill': fill}, kind='very-long'))
        # observations interleaved with reset(): value()/matches() must always describe the bytes since the last reset
        for _ in range(300 if tier == 'quick' else 8000):
            ck = Checksum()
            since = []
            ok = True
            trace = []
            for _s in range(rng.randrange(2, 12)):
                op = rng.choice(['add', 'add', 'value', 'matches', 'reset', 'value'])
                trace.append(op)
                if op == 'add':
                    x = rng.randrange(256)
                    since.append(x)
                    ck.add(x)
                elif op == 'reset':
                    ck.reset()
                    since = []
                else:
                    a0, b0 = 0, 0
                    for x in since:
                        a0 = (a0 + x) & 255
                        b0 = (b0 + a0) & 255
                    if op == 'value':
                        ok = ok and ck.value() == (a0, b0)
                    else:
                        ok = ok and ck.matches(a0, b0) and not ck.matches(a0 ^ 1, b0)
            a, b = ck.value()
            cases.append(Case('checksum-observe-reset', 'ck ' + C.hexs(bytes(since)), f'{a} {b}' if ok else 'observation-wrong',
                              {'ops': trace, 'since_last_reset': since}, nontrivial=False, kind='observe-reset'))
        # an add() that is REFUSED (TypeError for None / str / bytes arguments) adds no byte: the sums describe the accepted bytes only
        for _ in range(120 if tier == 'quick' else 4000):
            ck = Checksum()
            acc = []
            ok = True
            for _s in range(rng.randrange(2, 14)):
                if rng.random() < 0.3:
                    bad = rng.choice([None, 'x', b'a', '7', [1]])
                    try:
                        ck.add(bad)
                        ok = False          # accepted something that is no byte: outside the property
                    except TypeError:
                        pass
                    except Exception:      # noqa
                        ok = False
                else:
                    x = rng.randrange(256)
                    acc.append(x)
                    ck.add(x)
            if not ok:
                continue
            a, b = ck.value()
            cases.append(Case('checksum-refused-adds', 'ck ' + C.hexs(bytes(acc)), f'{a} {b}' if ck.matches(a, b) else f'{a} {b} no-match', {'ops': acc, 'with_refused_calls_in_between': True}, kind='refused-adds'))
        # copies of a checksum object (copy.copy / copy.deepcopy / pickle) continue independently of the original
        import copy
        import pickle
        for _ in range(150 if tier == 'quick' else 4000):
            h0 = [rng.randrange(256) for _ in range(rng.randrange(0, 9))]
            t1 = [rng.randrange(256) for _ in range(rng.randrange(1, 6))]
            t2 = [rng.randrange(256) for _ in range(rng.randrange(0, 6))]
            how = rng.choice(['copy', 'copy', 'deepcopy', 'pickle0', 'pickle1', 'pickle2', 'pickle5'])
            if rng.random() < 0.3:
                h0 = rng.choice([[], [0, 0, 0], [0x55, 0xaa, 0x00, 0xae, 0x53], [0] * 7])      # copies taken in the state (0, 0)

            _, _, ck = impl_hist(h0)
            try:
                c2 = copy.copy(ck) if how == 'copy' else copy.deepcopy(ck) if how == 'deepcopy' else pickle.loads(pickle.dumps(ck, protocol=int(how[6:])))
            except Exception as e:      # noqa: an object that cannot be copied this way at all is not a property matter
                res.notes['uncopyable'] = f'{how}: {type(e).__name__}'
                continue
            reset_copy = rng.random() < 0.3

            def use():
                if reset_copy:
                    c2.reset()
                for x in t1:
                    ck.add(x)
                for x in t2:
                    c2.add(x)
                return ck.value(), c2.value()
            r_ = C.guarded(use)
            if isinstance(r_, str):
                v1 = v2 = (r_, 'copy-unusable')
            else:
                v1, v2 = r_
            cases.append(Case('checksum-copy', 'ck ' + C.hexs(bytes(h0 + t1)), f'{v1[0]} {v1[1]}', {'ops': h0 + t1, 'copied_by': how, 'role': 'original'}, kind='copy'))
            cases.append(Case('checksum-copy', 'ck ' + C.hexs(bytes(([] if reset_copy else h0) + t2)), f'{v2[0]} {v2[1]}',
                              {'ops': ([] if reset_copy else h0) + t2, 'copied_by': how, 'role': 'copy', 'original_then_got': t1}, kind='copy'))
        # the same arithmetic in an interpreter started with -O (assert statements removed) and with -OO
        import subprocess
        import sys
        hist = [[rng.randrange(256) for _ in range(n)] for n in (0, 1, 2, 5, 40, 300, 600)] + [[255] * 300, [0] * 5, [1] * 257]
        prog = ('import sys, json\nsys.path.insert(0, sys.argv[1])\nfrom ubxlib.checksum import Checksum\nout = []\n'
                'for h in json.loads(sys.argv[2]):\n    c = Checksum()\n    [c.add(x) for x in h]\n    a, b = c.value()\n'
                '    out.append([a, b, bool(c.matches(a, b)), bool(c.matches((a + 1) % 256, b))])\nprint(json.dumps(out))')
        import json as json_
        for flag in ('-O', '-OO'):
            p_ = subprocess.run([sys.executable, flag, '-c', prog, C.REPO, json_.dumps(hist)], stdout=subprocess.PIPE, stderr=subprocess.PIPE, timeout=120)
            try:
                outs = json_.loads(p_.stdout.decode())
            except ValueError:
                outs = [['!' + p_.stderr.decode()[-200:]]] * len(hist)
            for h, o in zip(hist, outs):
                impl = f'{o[0]} {o[1]}' if len(o) == 4 and o[2] and not o[3] else f'wrong under python {flag}: {o}'
                cases.append(Case('checksum-optimised-interpreter', 'ck ' + C.hexs(bytes(h)), impl, {'ops': h[:64], 'n': len(h), 'interpreter_flag': flag}, kind='python' + flag))
        # step function from states reached through a 2-byte prefix
        ck = Checksum()

        def reach(a, b):
            ck.reset()
            ck.add((b - a) % 256)
            ck.add((2 * a - b) % 256)
            return ck.value() == (a, b)
        if tier == 'quick':
            for _ in range(3000):
                a, b, x = rng.randrange(256), rng.randrange(256), rng.randrange(256)
                ok = reach(a, b)
                ck.add(x)
                v = ck.value()
                cases.append(Case('checksum-step', f'ckstep {a} {b} {x}',
                                  f'{v[0]} {v[1]}' if ok else 'unreached', {'state': [a, b], 'byte': x},
                                  kind='step'))
        else:
            h = hashlib.md5()
            okall = True
            add = ck.add
            for a in range(256):
                buf = bytearray()
                for b in range(256):
                    p1, p2 = (b - a) % 256, (2 * a - b) % 256
                    for x in range(256):
                        ck.reset()
                        add(p1)
                        add(p2)
                        if x == 0 and ck.value() != (a, b):
                            okall = False
                        add(x)
                        v = ck.value()
                        buf.append(v[0] & 255 if 0 <= v[0] < 256 else 255)
                        buf.append(v[1] & 255 if 0 <= v[1] < 256 else 255)
                        if not (0 <= v[0] < 256 and 0 <= v[1] < 256):
                            okall = False
                h.update(bytes(buf))
            cases.append(Case('checksum-step-sweep', 'cksweep', h.hexdigest() if okall else 'range-or-reach-failure',
                              {'sweep': '65536 states x 256 bytes'}, kind='sweep'))
            res.exhaustive = True
            res.notes['sweep_pairs'] = 65536 * 256
        res.compare(cases)
        xs = [c for c in cases if c.comp == 'checksum-history'][:40]
        terms = []
        for c in xs:
            body = bytes.fromhex(c.cmd.split()[1]) if c.cmd.split()[1] != '-' else b''
            a, b = c.impl.split()
            terms.append((f'let r := ck_adds ck_reset {C.coq_bytes(body)} in (fst r =? {a}) && (snd r =? {b})', ''))
        if not res.disagreements:
            res.notes['vm_compute_crosscheck'] = C.vm_crosscheck(terms, wd)
        res.oblige('correspondence checksum (Tie A)', not res.disagreements)
    return C.finish(res, CHECKER, ['Python bytes are 0..255'])


def replay(obj):
    C.import_impl()
    ops = obj.get('input', {}).get('ops') or obj.get('ops')
    if ops is None:
        print('replay: nothing to run', obj.get('broken'))
        return 1
    a, b, _ = impl_hist(ops)
    print('implementation value():', a, b, ' model:', obj.get('model_says'))
    return 0
