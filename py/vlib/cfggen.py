"""Generators / implementation runners for configuration key items (C13 C14)."""
import struct

from . import common as C


def cval_token(v):
    if v is None:
        return 'N'
    if v is True:
        return 'T'
    if v is False:
        return 'F'
    return str(v)


def item_token(g, i, bits, signed, v):
    return f'{g}.{i}.{bits}.{1 if signed else 0}.{cval_token(v)}'


def impl_item_token(it):
    return item_token(it.group_id, it.item_id, it.bits, it.signed, it.value)


def impl_pack(g, i, bits, signed, v):
    from ubxlib.cfgkeys import CfgKeyData
    it = CfgKeyData('x', g, i, bits, v, signed)
    return C.hexs(it.pack())


_DEC = {}


def impl_unpack(data, reuse=False):
    """reuse=True: ONE CfgKeyData object decodes successive inputs (state must not carry over)"""
    from ubxlib.cfgkeys import CfgKeyData
    if reuse:
        it = _DEC.setdefault('it', CfgKeyData('x'))
    else:
        it = CfgKeyData('x')
    n = it.unpack(bytearray(data))
    return f'{impl_item_token(it)} {n}'


def impl_fromkey(key, v):
    from ubxlib.cfgkeys import CfgKeyData
    it = CfgKeyData.from_key(key, v)
    tok = impl_item_token(it)
    return tok + ' ' + C.guarded(lambda: C.hexs(it.pack()))


def impl_valset(items):
    from ubxlib.cfgkeys import CfgKeyData
    from ubxlib.ubx_cfg_valset import UbxCfgValSetAction
    its = [CfgKeyData('k', g, i, b, v, s) for g, i, b, s, v in items]
    fr = UbxCfgValSetAction(its)
    fr.pack()
    names_ok = [it.name for it in its] == [f'data{k}' for k in range(len(its))]
    return C.hexs(fr.data) + ('' if names_ok else ' names-not-renamed')


def impl_valgetpoll(keys):
    from ubxlib.ubx_cfg_valget import UbxCfgValGetPoll
    fr = UbxCfgValGetPoll(list(keys))
    fr.pack()
    return C.hexs(fr.data)


_VG = {}


def impl_valget(data, reuse=False):
    """reuse=True: the SAME response object decodes successive payloads (frame.data = ...; frame.unpack())"""
    from ubxlib.cfgkeys import CfgKeyData
    from ubxlib.ubx_cfg_valget import UbxCfgValGet
    if reuse:
        fr = _VG.setdefault('fr', UbxCfgValGet())
        fr.data = bytearray(data)
        try:
            fr.unpack()
        except Exception:
            _VG.pop('fr', None)
            raise
    else:
        fr = UbxCfgValGet.construct(bytearray(data))
    items = sorted(fr.f._fields.values(), key=lambda it: it.order)
    hdr = [it for it in items if not isinstance(it, CfgKeyData)]
    cfg = [it for it in items if isinstance(it, CfgKeyData)]
    if [it.name for it in cfg] != [f'data{k}' for k in range(len(cfg))]:
        return 'bad-names'
    from . import fieldsgen as F_
    h = ','.join(f'{it.name}:U{struct.calcsize("<" + it.fmt)}:{F_.read_value(fr, it)}' for it in hdr)
    return (h + ' ' + ' '.join(impl_item_token(it) for it in cfg)).rstrip() + ('' if cfg else ' ')


BITS = [1, 8, 16, 32, 64]

# The keys the u-blox interface description types as signed (I2), among those the library publishes; the same independent
# two-entry oracle as `documented_signed` in coq/props/C13.v. Everything else published is unsigned or boolean.
DOCUMENTED_SIGNED = [805699630, 805699631]

# Key ids of the interface description for the constants the library publishes (same hand-kept oracle as `documented_keys`
# in coq/props/C13.v); constants published beyond this list are not judged.
DOCUMENTED_KEYS = {
    'CFG_NAVSPG_DYNMODEL': 0x20110021,
    'CFG_NAVSPG_FIXMODE': 0x20110011,
    'CFG_NMEA_PROTVER': 0x20930001,
    'CFG_RATE_MEAS': 0x30210001,
    'CFG_RATE_NAV': 0x30210002,
    'CFG_RATE_NAV_PRIO': 0x20210004,
    'CFG_SFCORE_USE_SF': 0x10080001,
    'CFG_SFIMU_IMU_MNTALG_PITCH': 0x3006002e,
    'CFG_SFIMU_IMU_MNTALG_ROLL': 0x3006002f,
    'CFG_SFIMU_IMU_MNTALG_YAW': 0x4006002d,
    'CFG_SIGNAL_BDS_B1_ENA': 0x1031000d,
    'CFG_SIGNAL_BDS_ENA': 0x10310022,
    'CFG_SIGNAL_GAL_E1_ENA': 0x10310007,
    'CFG_SIGNAL_GAL_ENA': 0x10310021,
    'CFG_SIGNAL_GLO_ENA': 0x10310025,
    'CFG_SIGNAL_GLO_L1_ENA': 0x10310018,
    'CFG_SIGNAL_GPS_ENA': 0x1031001f,
    'CFG_SIGNAL_GPS_L1CA_ENA': 0x10310001,
    'CFG_SIGNAL_QZSS_ENA': 0x10310024,
    'CFG_SIGNAL_QZSS_L1CA_ENA': 0x10310012,
    'CFG_SIGNAL_QZSS_L1S_ENA': 0x10310014,
    'CFG_SIGNAL_SBAS_ENA': 0x10310020,
    'CFG_SIGNAL_SBAS_L1CA_ENA': 0x10310005,
    'CFG_TP_ALIGN_TO_TOW_TP2': 0x10050015,
    'CFG_TP_LEN_LOCK_TP2': 0x40050010,
    'CFG_TP_LEN_TP2': 0x4005000f,
    'CFG_TP_PERIOD_LOCK_TP2': 0x4005000e,
    'CFG_TP_PERIOD_TP2': 0x4005000d,
    'CFG_TP_POL_TP2': 0x10050016,
    'CFG_TP_PULSE_DEF': 0x20050023,
    'CFG_TP_PULSE_LENGTH_DEF': 0x20050030,
    'CFG_TP_TIMEGRID_TP2': 0x20050017,
    'CFG_TP_TP2_ENA': 0x10050012,
    'CFG_TP_USE_LOCKED_TP2': 0x10050014,
    'CFG_UART1_BAUDRATE': 0x40520001,
}


def boundary_values(bits, signed):
    if bits == 1:
        return [True, False, 0, 1, 2, -1, None]
    if signed:
        m = 1 << (bits - 1)
        return [0, 1, -1, m - 1, -m, m // 2]
    m = 1 << bits
    return [0, 1, m - 1, m // 2, m // 2 - 1]


def out_of_range(bits, signed):
    if signed:
        m = 1 << (bits - 1)
        return [m, -m - 1]
    return [1 << bits, -1]


def keyvalues_case(rng, consts):
    """CfgKeyValues.from_keyvalues on a list of (key, value) pairs - keys may REPEAT - turned into a VALSET payload:
    one item per pair, in the order given. Returns (model command, implementation result, description)."""
    n = rng.choice([1, 2, 3, 5, 8])
    keys = [rng.choice(consts) if rng.random() < 0.6 else ((rng.randrange(1, 6) << 28) | (rng.randrange(256) << 16) | rng.randrange(4096)) for _ in range(n)]
    if n > 1 and rng.random() < 0.6:
        keys[rng.randrange(1, n)] = keys[0]                  # the same key more than once
    if n > 2 and rng.random() < 0.3:
        keys[-1] = keys[1]
    pairs, toks = [], []
    for key in keys:
        bits = [0, 1, 8, 16, 32, 64, 0, 0][(key >> 28) & 7]
        signed = key in DOCUMENTED_SIGNED
        v = rng.choice([True, False]) if bits == 1 else rng.choice(boundary_values(bits, signed))
        pairs.append((key, v))
        toks.append(item_token((key >> 16) & 0xFF, key & 0xFFF, bits, signed, v))

    def run():
        from ubxlib.cfgkeys import CfgKeyValues
        from ubxlib.ubx_cfg_valset import UbxCfgValSetAction
        its = CfgKeyValues.from_keyvalues(list(pairs))
        fr = UbxCfgValSetAction(its)
        fr.pack()
        return C.hexs(fr.data)
    return 'valset ' + ' '.join(toks), C.guarded(run), {'pairs': [[hex(k), repr(v)] for k, v in pairs]}
