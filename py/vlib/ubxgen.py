"""Generators and implementation runners for the UBX / NMEA parsers (C02 C03 C09 C11 C16 C18)."""
from . import common as C

SYNC1, SYNC2 = 0xB5, 0x62


def fletcher(bs):
    a = b = 0
    for x in bs:
        a = (a + x) & 255
        b = (b + a) & 255
    return a, b


def frame(c, i, payload):
    """Independent Python rendering of the UBX wire format (oracle side, not ubxlib)."""
    n = len(payload)
    body = bytes([c, i, n & 255, n >> 8]) + bytes(payload)
    a, b = fletcher(body)
    return bytes([SYNC1, SYNC2]) + body + bytes([a, b])


def nmea(body, good=True, case='upper', term=b'\r\n'):
    x = 0
    for ch in body:
        x ^= ch
    if not good:
        x ^= 0x10
    hx = f'{x:02X}' if case == 'upper' else f'{x:02x}'
    return b'$' + bytes(body) + b'*' + hx.encode() + term


def has_sync(g):
    return bytes([SYNC1, SYNC2]) in bytes(g)


# ---------------------------------------------------------------- grammar streams (C02)
LEN_BIAS = [0, 0, 1, 1, 2, 3, 5, 8, 20, 36, 100, 255, 256, 257, 511, 512, 999, 1000]
CIDS = [(6, 1), (5, 1), (5, 0), (1, 3), (0x13, 0x60), (0x0A, 4), (0xB5, 0x62), (0x62, 0xB5), (0, 2), (0, 0), (255, 255)]


def rand_payload(rng, n):
    style = rng.choice(['rand', 'rand', 'sync', 'ff', 'zero', 'frame', 'nmeatext'])
    if style == 'nmeatext':      # a text payload: NMEA sentences, line ends included
        txt = b''.join(nmea(bytes(rng.choice(b'GPRMC,0123456789.ANE') for _ in range(rng.randrange(1, 12)))) for _ in range(n // 8 + 1))
        return (b'\r\n' + txt)[:n]
    if style == 'rand':
        return bytes(rng.getrandbits(8) for _ in range(n))
    if style == 'sync':
        return bytes(rng.choice([0xB5, 0x62, 0xB5, 0x62, 0x00, 0x24]) for _ in range(n))
    if style == 'ff':
        return bytes([255]) * n
    if style == 'zero':
        return bytes(n)
    inner = frame(rng.randrange(256), rng.randrange(256), bytes(rng.getrandbits(8) for _ in range(rng.randrange(0, 6))))
    return (inner * (n // len(inner) + 1))[:n]


def rand_junk(rng):
    kind = rng.choice(['nmea', 'nmea_bad', 'noise', 'loneb5', 'b5tail', 'text', 'sync2', 'b5b5', 'nmea_open', 'crlf', 'nmea_blank'])
    if kind == 'nmea':
        g = nmea(bytes(rng.choice(b'GPRMC,0123456789.ANE') for _ in range(rng.randrange(1, 40))))
    elif kind == 'nmea_bad':
        g = nmea(b'GPGGA,1,2', good=False)
    elif kind == 'noise':
        g = bytes(rng.getrandbits(8) for _ in range(rng.randrange(1, 30)))
    elif kind == 'loneb5':
        g = bytes([SYNC1])
    elif kind == 'b5tail':
        g = bytes(rng.getrandbits(8) for _ in range(rng.randrange(0, 8))) + bytes([SYNC1])
    elif kind == 'text':
        g = b'hello world\n'
    elif kind == 'nmea_open':
        g = rng.choice([b'$GPGGA,12', b'$GNTXT,01,01,02,u-blox AG ', b'\r\n$GPRMC,'])     # a sentence start without its line end
    elif kind == 'crlf':
        g = rng.choice([b'\r\n', b'\n', b' \r\n '])
    elif kind == 'nmea_blank':
        g = nmea(b'GNTXT,01,01,02, u-blox AG - www.u-blox.com ')
    elif kind == 'sync2':
        g = bytes([SYNC2, SYNC2, SYNC1])
    else:
        g = bytes([SYNC1, SYNC1, SYNC1])
    # enforce the grammar: no adjacent B5 62 inside junk
    g = bytearray(g)
    for k in range(len(g) - 1):
        if g[k] == SYNC1 and g[k + 1] == SYNC2:
            g[k + 1] = 0x63
    return bytes(g), kind


def rand_segments(rng, nmax=6):
    """Returns (list of segment descriptors, stream bytes, kinds). Descriptors:
    ('F',c,i,payload) ('B',c,i,payload,k1,k2) ('O',c,i,lo,hi) ('J',bytes)"""
    segs, out, kinds = [], bytearray(), []
    prev_junk = False
    for _ in range(rng.randrange(1, nmax + 1)):
        k = rng.choice(['F', 'F', 'F', 'B', 'O', 'J', 'J'])
        if k == 'J' and prev_junk:
            k = 'F'
        c, i = rng.choice(CIDS) if rng.random() < 0.7 else (rng.randrange(256), rng.randrange(256))
        if k == 'F' and segs and segs[-1][0] == 'F' and rng.random() < 0.15:
            # the same frame again, byte for byte (a receiver repeating itself; gpsd forwarding a frame twice)
            segs.append(segs[-1])
            out += frame(segs[-1][1], segs[-1][2], segs[-1][3])
            kinds.append('frame-repeated')
            prev_junk = False
            continue
        if k in 'FB':
            n = rng.choice(LEN_BIAS) if rng.random() < 0.8 else rng.randrange(0, 1001)
            if nmax > 12:
                n = rng.choice([0, 1, 2, 4, 8])
            p = rand_payload(rng, n)
            fr = bytearray(frame(c, i, p))
            if k == 'F':
                segs.append(('F', c, i, p))
                kinds.append('frame')
            else:
                # corrupt anywhere but sync pair and length field; keep the checksum mismatching
                where = rng.choice(['cls', 'id', 'payload', 'cka', 'ckb', 'ckb=00', 'cka=00', 'ck-swapped', 'ckb=ff'])
                if where == 'payload' and n == 0:
                    where = 'cka'
                if where in ('ckb=00', 'cka=00', 'ck-swapped', 'ckb=ff'):
                    # one checksum byte right, the other replaced by a value that a sloppy comparison may accept
                    a_, b_ = fr[-2], fr[-1]
                    if where == 'ckb=00':
                        fr[-1] = 0
                    elif where == 'ckb=ff':
                        fr[-1] = 0xFF
                    elif where == 'cka=00':
                        fr[-2] = 0
                    else:
                        fr[-2], fr[-1] = b_, a_
                    if (fr[-2], fr[-1]) == (a_, b_):
                        fr[-1] ^= 0x80
                else:
                    pos = {'cls': 2, 'id': 3, 'payload': 6 + (rng.randrange(n) if n else 0), 'cka': len(fr) - 2, 'ckb': len(fr) - 1}[where]
                    fr[pos] ^= 1 << rng.randrange(8)
                c2, i2, p2 = fr[2], fr[3], bytes(fr[6:-2])
                if fletcher(bytes(fr[2:-2])) == (fr[-2], fr[-1]):
                    fr[-1] ^= 0xFF
                segs.append(('B', c2, i2, p2, fr[-2], fr[-1]))
                kinds.append('bad-' + where)
            out += fr
            prev_junk = False
        elif k == 'O':
            ln = rng.choice([1001, 1002, 1024, 0xFFFF, 0x0400, 0xB562, rng.randrange(1001, 65536)])
            segs.append(('O', c, i, ln & 255, ln >> 8))
            out += bytes([SYNC1, SYNC2, c, i, ln & 255, ln >> 8])
            kinds.append('overlen')
            prev_junk = False
        else:
            g, jk = rand_junk(rng)
            segs.append(('J', g))
            out += g
            kinds.append('junk-' + jk)
            prev_junk = True
    return segs, bytes(out), kinds


def backlog_segments(rng, n):
    """n small well-formed frames (and a few checksum-failed ones) back to back: a long undrained backlog"""
    segs, out, kinds = [], bytearray(), []
    for k in range(n):
        c, i = rng.choice(CIDS)
        p = rand_payload(rng, rng.choice([0, 1, 2, 4]))
        segs.append(('F', c, i, p))
        out += frame(c, i, p)
        kinds.append('frame')
    return segs, bytes(out), kinds


def near_cids(c, i):
    """class/id pairs that a sloppy key (shift, precedence, swap, truncation) would confuse with (c, i)"""
    out = set()
    for k in range(1, 8):
        if i - k >= 0 and (c << k) < 256:
            out.add((c << k, i - k))
        if i + k < 256 and c % (1 << k) == 0:
            out.add((c >> k, i + k))
    out |= {(i, c), ((c + 1) % 256, i), (c, (i + 1) % 256), ((c - 1) % 256, i), (c, (i - 1) % 256), ((c + 16) % 256, i), (c, i ^ 0x80), (c ^ 0x80, i),
            ((c + i) % 256, 0), (0, (c + i) % 256), (c ^ i, 0)}
    out.discard((c, i))
    return sorted(out)


def rand_filter(rng, segs=()):
    r = rng.random()
    cids = [(s[1], s[2]) for s in segs if s[0] in 'FB']
    if r < 0.08:
        return None
    if r < 0.14:
        return []
    if r < 0.6 and cids:
        f = sorted(set(rng.sample(cids, rng.randrange(1, len(cids) + 1))))
        if rng.random() < 0.25:
            f = f + [f[0]] + f[:1]          # the same class/id listed more than once
        return f
    if r < 0.8:
        return sorted(set(cids + [(5, 1), (5, 0)]))
    return [rng.choice(CIDS)]


# ---------------------------------------------------------------- adversarial raw streams (C03)
def rand_raw(rng):
    kind = rng.choice(['random', 'syncdense', 'truncated', 'nested', 'overlap', 'bitflip', 'lenedge', 'mixed', 'stale_ck', 'stale_ck'])
    if kind == 'random':
        s = bytes(rng.getrandbits(8) for _ in range(rng.randrange(0, 200)))
    elif kind == 'syncdense':
        s = bytes(rng.choice([0xB5, 0x62, 0x00, 0x01, 0x05, 0x06, 0x02]) for _ in range(rng.randrange(0, 150)))
    elif kind == 'truncated':
        f = frame(*rng.choice(CIDS), rand_payload(rng, rng.choice([0, 1, 4, 30])))
        s = f[:rng.randrange(len(f))] + frame(6, 1, b'\x01\x02')
    elif kind == 'nested':
        inner = frame(5, 1, bytes([6, 1]))
        s = frame(6, 1, inner + inner[:4]) + inner
    elif kind == 'overlap':
        f = frame(6, 1, b'\xb5\x62\x05\x01\x02\x00\x06\x01\x0f\x38')
        s = f[:8] + f
    elif kind == 'bitflip':
        f = bytearray(frame(*rng.choice(CIDS), rand_payload(rng, rng.choice([0, 2, 8, 40]))) + frame(5, 1, b'\x06\x01'))
        f[rng.randrange(len(f))] ^= 1 << rng.randrange(8)
        s = bytes(f)
    elif kind == 'stale_ck':
        s = stale_checksum_stream(rng, *rng.choice(CIDS), rand_payload(rng, rng.choice([0, 2, 8])))
    elif kind == 'lenedge':
        ln = rng.choice([1000, 1001, 0xFFFF, 999, 1002])
        body = bytes(rng.getrandbits(8) for _ in range(min(ln, 1003)))
        hdr = bytes([6, 1, ln & 255, ln >> 8])
        a, b = fletcher(hdr + body[:ln])
        s = bytes([SYNC1, SYNC2]) + hdr + body[:ln] + bytes([a, b]) + frame(5, 1, b'\x06\x01')
    else:
        segs, s, _ = rand_segments(rng, 4)
        cut = rng.randrange(len(s) + 1)
        s = s[cut:] + s[:cut]
    return s, kind


def stale_checksum_stream(rng, c, i, payload):
    """An aborted frame start (over-length header, or a truncated frame) followed by a frame-shaped sequence whose
    checksum bytes are the Fletcher sum CONTINUED from the aborted bytes - valid only for a parser that forgets to
    reset its running checksum. Optionally followed by a genuinely valid frame."""
    k = rng.choice(['overlen', 'overlen', 'truncated_hdr', 'truncated_data'])
    if k == 'overlen':
        ln = rng.choice([1001, 0xFFFF, 2000])
        stale = bytes([rng.randrange(256), rng.randrange(256), ln & 255, ln >> 8])
        pre = bytes([SYNC1, SYNC2]) + stale
    elif k == 'truncated_hdr':
        stale = bytes([rng.randrange(256), rng.randrange(256)])
        pre = bytes([SYNC1, SYNC2]) + stale
    else:
        stale = bytes([5, 1, 4, 0, 9, 9])
        pre = bytes([SYNC1, SYNC2]) + stale
    n = len(payload)
    body = bytes([c, i, n & 255, n >> 8]) + bytes(payload)
    a, b = fletcher(stale + body)
    out = pre + bytes([SYNC1, SYNC2]) + body + bytes([a, b])
    if rng.random() < 0.5:
        out += frame(c, i, payload)
    return out


def chunkings(rng, s, n_random=1):
    """Partitions of s: whole, 1-byte, 128-byte, random (with empty chunks)."""
    res = [('whole', [s]), ('bytes', [s[k:k + 1] for k in range(len(s))]),
           ('128', [s[k:k + 128] for k in range(0, len(s), 128)])]
    for _ in range(n_random):
        cuts = sorted(rng.randrange(len(s) + 1) for _ in range(rng.randrange(0, 6)))
        parts, prev = [], 0
        for c in cuts:
            parts.append(s[prev:c])
            prev = c
        parts.append(s[prev:])
        if rng.random() < 0.5:
            parts.insert(rng.randrange(len(parts) + 1), b'')
        res.append(('random', parts))
    return res


# ---------------------------------------------------------------- running the implementation
def filt_token(f):
    if f is None:
        return 'N'
    return ','.join(f'{c}.{i}' for c, i in f) if f else '-'


def ops_tokens(ops):
    out = []
    for o in ops:
        if o[0] == 'P':
            out.append('P:' + C.hexs(o[1]))
        elif o[0] == 'F':
            out.append(f'F:{o[1][0]}.{o[1][1]}')
        elif o[0] == 'FS':
            out.append('FS:' + (','.join(f'{c}.{i}' for c, i in o[1]) if o[1] else '-'))
        else:
            out.append(o[0])
    return out


CRC_CID = (0, 2)


def pkt_token(parser, entry):
    cid, data = entry
    if cid is None and data is None:
        return 'none'
    if data is None:
        return 'crc' if cid == parser.crc_error_cid else 'crc?'
    return f'pkt.{cid.cls}.{cid.id}.{C.hexs(data)}'


def impl_ubx(filt, ops, check_mutation=True):
    """Run a schedule on a real UbxParser; canonical result string (same format as the driver).
    Every second run happens under a clock that jumps ahead between any two readings (time must not matter)."""
    global _RUNS
    _RUNS += 1
    if _RUNS % 2:
        with C.JumpyClock():
            return _impl_ubx(filt, ops, check_mutation)
    return _impl_ubx(filt, ops, check_mutation)


_RUNS = 0


def _impl_ubx(filt, ops, check_mutation=True):
    from ubxlib.cid import UbxCID
    from ubxlib.parser_ubx import UbxParser
    p = UbxParser(UbxCID(*CRC_CID))
    if filt is not None:
        p.set_filters([UbxCID(c, i) for c, i in filt])
    held = []      # (object, snapshot) for every payload ever seen in the queue or handed out
    seen = set()

    def hold():
        for (cid, data) in p.rx_queue:
            if data is not None and id(data) not in seen:
                seen.add(id(data))
                held.append((data, bytes(data), cid, (cid.cls, cid.id)))
    outs = []
    lists = {}

    def the_list(cids):
        # filter lists with the same content are the SAME Python list object throughout a run (callers keep and reuse them)
        key = tuple(cids)
        if key not in lists:
            lists[key] = [UbxCID(c, i) for c, i in cids]
        return lists[key]
    other = UbxParser(UbxCID(*CRC_CID))          # a second live parser: objects must not share state
    other.set_filters([UbxCID(6, 1)])
    n_op = 0
    for o in ops:
        n_op += 1
        if o[0] == 'P':
            # the API takes any bytes-like / iterable of ints: alternate the container type
            data = o[1]
            kind = (len(data) + n_op) % 5
            try:
                p.process(bytes(data) if kind == 0 else bytearray(data) if kind == 1 else list(data) if kind == 2
                          else iter(bytes(data)) if kind == 3 else (x for x in bytes(data)))
            except Exception as e_:
                if kind < 3:
                    raise
                # an iterator / generator used to be accepted: report it in the result and go on with the same bytes
                outs.append(f'!{type(e_).__name__}(process-given-an-{"iterator" if kind == 3 else "generator"})')
                p.process(bytes(data))
            if n_op % 2:
                other.process(b'\xb5\x62\x06\x01\x02\x00\xaa')
        elif o[0] == 'F':
            p.set_filter(UbxCID(*o[1]))
        elif o[0] == 'FS':
            p.set_filters(the_list(o[1]))
        elif o[0] == 'E':
            hold()
            p.empty_queue()
        elif o[0] == 'K':
            hold()
            outs.append(pkt_token(p, p.packet()))
        elif o[0] == 'R':
            p.restart()
        hold()
    res = f'rx={p.frames_rx} q=[{" ".join(pkt_token(p, e) for e in p.rx_queue)}] out=[{" ".join(outs)}]'
    if check_mutation:
        for obj, snap, cid, cidv in held:
            if bytes(obj) != snap or (cid.cls, cid.id) != cidv:
                res += ' MUTATED-PACKET'
                break
    return res


def ubx_cmd(filt, ops):
    return 'ubx ' + filt_token(filt) + ' ' + ' '.join(ops_tokens(ops))


def impl_nmea(ops):
    global _RUNS
    _RUNS += 1
    if _RUNS % 2:
        with C.JumpyClock():
            return _impl_nmea(ops)
    return _impl_nmea(ops)


def _impl_nmea(ops):
    from ubxlib.parser_nmea import NmeaParser
    p = NmeaParser()
    other = NmeaParser()
    k = 0
    for o in ops:
        k += 1
        if o[0] == 'P':
            p.process(bytes(o[1]) if k % 2 else bytearray(o[1]))
            other.process(b'$GP*')
        else:
            p.restart()
    return f'rx={p.frames_rx}'


def nmea_cmd(ops):
    return 'nmea ' + ' '.join('P:' + C.hexs(o[1]) if o[0] == 'P' else 'R' for o in ops)


# ---------------------------------------------------------------- independent oracles
def seg_len(s):
    return len(s[3]) + 8 if s[0] in 'FB' else 6 if s[0] == 'O' else len(s[1])


def expected_c02(segs, filt, switch=None):
    """What C02 prescribes for a grammar stream: queue tokens and counter. switch = (offset, filter): the
    filter is replaced after `offset` bytes of the stream; a frame is judged by the filter in force when its last byte arrives."""
    q, n = [], 0
    ofs = 0
    filt0 = filt
    for s in segs:
        ofs += seg_len(s)
        filt = switch[1] if (switch is not None and ofs > switch[0]) else filt0
        if s[0] == 'F':
            n += 1
            if filt and (s[1], s[2]) in filt:
                q.append(f'pkt.{s[1]}.{s[2]}.{C.hexs(s[3])}')
        elif s[0] == 'B':
            q.append('crc')
    return q, n


def sound_c03(stream, filt, queue_tokens):
    """Greedy in-order matcher (C03): every delivered packet / marker must correspond to a distinct,
    non-overlapping occurrence in the stream, in order. Returns None if sound, else a reason."""
    pos = 0
    s = bytes(stream)
    for t in queue_tokens:
        if t.startswith('pkt.'):
            _, c, i, h = t.split('.')
            c, i = int(c), int(i)
            pl = bytes.fromhex(h) if h != '-' else b''
            if len(pl) > 1000:
                return f'delivered payload longer than 1000: {t[:60]}'
            if not filt or (c, i) not in filt:
                return f'delivered packet not in filter: {t[:60]}'
            k = s.find(frame(c, i, pl), pos)
            if k < 0:
                return f'delivered packet is not a checksum-valid occurrence after offset {pos}: {t[:80]}'
            pos = k + len(pl) + 8
        elif t == 'crc':
            # earliest-ending frame-shaped occurrence with mismatching checksum
            best = None
            k = s.find(bytes([SYNC1, SYNC2]), pos)
            while k >= 0:
                if k + 6 <= len(s):
                    ln = s[k + 4] + 256 * s[k + 5]
                    end = k + 8 + ln
                    if ln <= 1000 and end <= len(s) and fletcher(s[k + 2:end - 2]) != (s[end - 2], s[end - 1]):
                        if best is None or end < best:
                            best = end
                if best is not None and k + 8 > best:
                    break
                k = s.find(bytes([SYNC1, SYNC2]), k + 1)
            if best is None:
                return f'error marker without a checksum-failed occurrence after offset {pos}'
            pos = best
        else:
            return f'unexpected queue entry {t[:40]}'
    return None
