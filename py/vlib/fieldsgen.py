"""Generators and implementation runners for typed fields and message classes (C07 C08 C17 C19)."""
from . import common as C
from . import reflect as R


def tok_width(t):
    return int(t[1:])


def value_token(v):
    if isinstance(v, bool):
        return 'i' + str(int(v))
    if isinstance(v, int):
        return 'i' + str(v)
    if isinstance(v, str):
        return 's' + C.hexs(v.encode('utf-8', 'surrogatepass'))
    return '?' + type(v).__name__


def read_value(frame, it):
    """the field value as the API hands it out: frame.f.<name>, frame.get(name).value and the item itself must agree"""
    v = it.value
    try:
        va = getattr(frame.f, it.name)
    except Exception as e:
        va = e
    try:
        vg = frame.get(it.name).value
    except Exception as e:
        vg = e
    same = lambda a, b: type(a) is type(b) and a == b
    if same(v, va) and same(v, vg):
        return value_token(v)
    return f'?item={value_token(v)}/attr={value_token(va)}/get={value_token(vg)}'


def render_fields(frame):
    items = sorted(frame.f._fields.values(), key=lambda it: it.order)
    return ','.join(f'{it.name}:{R.item_token(it)}:{read_value(frame, it)}' for it in items) or '-'


_REUSE = {}


def impl_decode(cls, payload, disturb=None, reuse=False):
    """construct(payload); then (frame independence) build and decode other instances of the same
    class, and only then read the first frame's fields. reuse=True: the SAME frame object decodes successive
    payloads (frame.data = ...; frame.unpack()); payload container type alternates between bytes and bytearray."""
    data = bytearray(payload) if len(payload) % 2 else bytes(payload)
    if reuse:
        fr = _REUSE.get(cls)
        if fr is None:
            fr = _REUSE[cls] = cls()
        fr.data = data
        try:
            fr.unpack()
        except Exception:
            _REUSE.pop(cls, None)
            raise
    else:
        fr = cls.construct(data)
    if disturb is not None:
        try:
            cls.construct(bytearray(disturb))
        except Exception:
            pass
        try:
            cls()
        except Exception:
            pass
    return render_fields(fr)


def impl_decenc(cls, payload):
    fr = cls.construct(bytearray(payload))
    fr.pack()
    return C.hexs(fr.data)


def py_value(tok):
    if tok[0] == 'i':
        return int(tok[1:])
    h = tok[1:]
    return (bytes.fromhex(h) if h != '-' else b'').decode('utf-8')


def impl_decsetenc(cls, payload, name, vtok, style=0):
    """style 0: frame.f.<name> = v; 1: frame.get(name).value = v; 2: frame.f.get(name).value = v"""
    fr = cls.construct(bytearray(payload))
    # read-modify-write as an application does it: the payload is re-encoded first (the "before"), kept, and compared later
    fr.pack()
    before = fr.data
    snap = bytes(before)
    if style == 0:
        setattr(fr.f, name, py_value(vtok))
    elif style == 1:
        fr.get(name).value = py_value(vtok)
    else:
        fr.f.get(name).value = py_value(vtok)
    fr.pack()
    if bytes(before) != snap:
        return C.hexs(fr.data) + ' EARLIER-PAYLOAD-OBJECT-CHANGED'
    return C.hexs(fr.data)


def layout_for(entry, payload):
    """Expanded layout of a message for a given payload (python side, from the reflected kind)."""
    k = entry['kind']
    if k == 'fixed':
        return entry['layout']
    if k == 'counted':
        off = 0
        for n, t in entry['hdr']:
            if n == entry['count']:
                break
            off += tok_width(t)
        c = payload[off] if off < len(payload) else 0
        return entry['hdr'] + [(f'{n}_{i}', t) for i in range(c) for n, t in entry['blk']]
    if k == 'monver':
        return [('swVersion', 'C30'), ('hwVersion', 'C10')] + [(f'extension_{i}', 'C30') for i in range(max(0, len(payload) - 40) // 30)]
    return []


def size_of(layout):
    return sum(tok_width(t) for _, t in layout)


ASCII = b'abcXYZ019 .-_/'


def rand_text(rng, n, full=False):
    style = rng.choice(['ascii', 'ascii', 'short', 'empty', 'utf8', 'nul-mid', 'nul-lead', 'blank-edges', 'vocab'])
    if style == 'vocab':
        # what receivers really put into text fields, with the separators varied
        w_ = rng.choice([b'PROTVER=18.00', b'PROTVER 18.00', b'PROTVER', b'PROTVER=', b'FWVER=SPG 3.01', b'FWVER=HPG 1.13=x', b'ROM BASE 2.01 (75331)',
                         b'GPS;GLO;GAL;BDS', b'SBAS;IMES;QZSS', b'MOD=NEO-M8L', b'=', b'==', b'EXT CORE 3.01 (111141)', b'00080000', b'GP', b';', b'A=B=C'])
        return (w_ + bytes(n))[:n]
    if style == 'nul-lead' and n >= 2:
        # NULs in FRONT of the text are characters of the field (only trailing NULs are padding)
        k = rng.randrange(1, n)
        return (bytes(k) + bytes(rng.choice(ASCII.replace(b' ', b'')) for _ in range(rng.randrange(1, n - k + 1))) + bytes(n))[:n]
    if style == 'blank-edges' and n >= 3:
        lead, trail = rng.choice([b' ', b'\t', b'\r\n']), rng.choice([b' ', b'\t', b'\n', b'\xc2\xa0'])
        if len(lead) + len(trail) > n:
            lead, trail = b' ', b' '
        body = lead + bytes(rng.choice(ASCII) for _ in range(rng.randrange(0, n - len(lead) - len(trail) + 1))) + trail      # never cuts a character
        return (body + bytes(n))[:n]
    if style == 'empty':
        return bytes(n)
    if style == 'short':
        k = rng.randrange(0, n + 1)
        return bytes(rng.choice(ASCII) for _ in range(k)) + bytes(n - k)
    if style == 'utf8' and n >= 2:
        s = 'é' if n < 3 else rng.choice(['é', '€', 'ü', 'e\u0301', 'A\u030a', '\u212b', 'o\u0308'])      # composed and DEcomposed forms: the bytes decide
        b = s.encode()
        k = rng.randrange(0, n - len(b) + 1)
        return (bytes(rng.choice(ASCII) for _ in range(k)) + b + bytes(n))[:n]
    if style == 'nul-mid' and n >= 3:
        return (b'a\x00b' + bytes(n))[:n]
    return bytes(rng.choice(ASCII) for _ in range(n))


def rand_payload_for(rng, layout, style=None):
    """Well-formed payload for an expanded layout; exercises every byte and sign bit."""
    style = style or rng.choice(['rand', 'rand', 'ones', 'zero', 'sign', 'walk', 'sync'])
    out = bytearray()
    for idx, (n, t) in enumerate(layout):
        w = tok_width(t)
        if t[0] == 'C':
            out += rand_text(rng, w)
            continue
        if style == 'ones':
            out += bytes([255]) * w
        elif style == 'zero':
            out += bytes(w)
        elif style == 'sign':
            out += rng.choice([bytes(w - 1) + b'\x80', bytes([255]) * (w - 1) + b'\x7f', bytes([255]) * w, b'\x01' + bytes(w - 1)])
        elif style == 'sync':
            out += bytes(rng.choice([0xB5, 0x62]) if (len(out) + k) % 2 == 0 else rng.choice([0x62, 0xB5, 0x24]) for k in range(w))
        elif style == 'walk':
            out += bytes((17 * (len(out) + k) + 3) & 255 for k in range(w))
        else:
            out += bytes(rng.getrandbits(8) for _ in range(w))
    return bytes(out)


def in_range_value(rng, t):
    w = tok_width(t)
    if t[0] in 'UX':
        m = 1 << (8 * w)
        return 'i' + str(rng.choice([0, 1, m - 1, m // 2, m // 2 - 1, rng.randrange(m)]))
    if t[0] == 'I':
        m = 1 << (8 * w)
        return 'i' + str(rng.choice([0, -1, 1, -(m // 2), m // 2 - 1, rng.randrange(-(m // 2), m // 2)]))
    if t[0] == 'C':
        k = rng.randrange(0, w + 1)
        s = bytes(rng.choice(ASCII.replace(b' ', b'')) for _ in range(k))
        return 's' + C.hexs(s)
    return 'i0'


def out_of_range_value(rng, t):
    w = tok_width(t)
    m = 1 << (8 * w)
    if t[0] in 'UX':
        return 'i' + str(rng.choice([-1, m, m + 5]))
    if t[0] == 'I':
        return 'i' + str(rng.choice([-(m // 2) - 1, m // 2]))
    if t[0] == 'C':
        return 's' + C.hexs(b'x' * (w + 1))
    return 'i0'
