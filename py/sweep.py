#!/venv/bin/python
"""Self-validation aid (not a registered check): run the quick checks against many patches in parallel.
  sweep.py seeds   <outdir> [-j N] [glob]   every seeded/<id>/patch.diff against its own property's check
  sweep.py harmless <outdir> [-j N] [glob]  every selftest/harmless/h*.diff against all 20 checks
  sweep.py harmless-anchored <outdir> [-j N] [glob]  ... against the checks of the properties anchored in a touched file
Each patch is applied in a scratch worktree of /repo (removed afterwards); results: <outdir>/<name>.json, summary on stdout."""
import glob, json, os, subprocess, sys, tempfile
from concurrent.futures import ThreadPoolExecutor
VERIF = os.path.dirname(os.path.dirname(os.path.abspath(__file__)))
ALL = [f'C{k:02d}' for k in range(1, 21)]


def sh(cmd, cwd=None, env=None, timeout=7200):
    p = subprocess.run(cmd, cwd=cwd, env=env, shell=True, stdout=subprocess.PIPE, stderr=subprocess.STDOUT, timeout=timeout)
    return p.returncode, p.stdout.decode('utf-8', 'replace')


def run(patch, props, tag):
    wt = tempfile.mkdtemp(prefix='ubx-sw-', dir='/tmp')
    os.rmdir(wt)
    out = {}
    try:
        rc, o = sh(f'git -C /repo worktree add -q --detach {wt} HEAD')
        if rc:
            return {'error': o[-200:]}
        rc, o = sh(f'git apply {patch}', cwd=wt)
        if rc:
            return {'error': 'patch does not apply'}
        env = dict(os.environ, UBXLIB_REPO=wt, PYTHONDONTWRITEBYTECODE='1', VERIF_EVIDENCE_DIR=f'/tmp/ubx-sweep-evidence/{tag}')
        os.makedirs(env['VERIF_EVIDENCE_DIR'], exist_ok=True)
        for p in props:
            rc, o = sh(f'./check {p} --tier quick', cwd=VERIF, env=env)
            lines = [l for l in o.splitlines() if l.startswith(('VIOLATION', 'MACHINERY', 'OK ', 'KNOWN'))]
            out[p] = {'rc': rc, 'lines': lines[:4]}
    finally:
        sh(f'git -C /repo worktree remove --force {wt}')
    return out


def main():
    mode, outdir = sys.argv[1], sys.argv[2]
    j = int(sys.argv[sys.argv.index('-j') + 1]) if '-j' in sys.argv else 6
    pat = [a for a in sys.argv[3:] if a not in ('-j', str(j))]
    os.makedirs(outdir, exist_ok=True)
    jobs = []
    if mode == 'seeds':
        for d in sorted(glob.glob(os.path.join(VERIF, 'seeded', pat[0] if pat else '*'))):
            meta = json.load(open(os.path.join(d, 'meta.json')))
            jobs.append((os.path.basename(d), os.path.join(d, 'patch.diff'), [meta['property']]))
    elif mode == 'harmless-anchored':
        # every rewrite against the checks of the properties anchored in a file it touches (all 20 if none is)
        anchors = {}
        for line in open(os.path.join(VERIF, 'properties.jsonl')):
            d = json.loads(line)
            anchors[d['id']] = set(d.get('anchors', {}).get('files', []))
        for f in sorted(glob.glob(os.path.join(VERIF, 'selftest', 'harmless', pat[0] if pat else 'h*.diff'))):
            touched = {l[6:].strip() for l in open(f) if l.startswith('+++ b/')}
            props = [p for p in ALL if anchors.get(p, set()) & touched] or ALL
            jobs.append((os.path.basename(f)[:-5], f, props))
    else:
        for f in sorted(glob.glob(os.path.join(VERIF, 'selftest', 'harmless', pat[0] if pat else 'h*.diff'))):
            jobs.append((os.path.basename(f)[:-5], f, ALL))

    only = [x for x in os.environ.get('SWEEP_PROPS', '').split(',') if x]
    if only:
        jobs = [(n_, p_, [q for q in pr if q in only]) for n_, p_, pr in jobs]
        jobs = [j_ for j_ in jobs if j_[2]]

    def one(job):
        name, patch, props = job
        r = run(patch, props, name)
        json.dump(r, open(os.path.join(outdir, name + '.json'), 'w'), indent=1)
        if mode == 'seeds':
            v = r.get(props[0], {})
            how = 'MISSED' if v.get('rc') == 0 else 'fault' if v.get('rc') != 1 else ('no-input' if any('no-failing-input-found' in l for l in v.get('lines', [])) else 'input')
            print(name, how, flush=True)
        else:
            bad = [p for p, v in r.items() if isinstance(v, dict) and v.get('rc') != 0]
            print(name, 'silent' if not bad and 'error' not in r else 'ALARM ' + ' '.join(bad) + str(r.get('error', '')), flush=True)
    with ThreadPoolExecutor(j) as ex:
        list(ex.map(one, jobs))


if __name__ == '__main__':
    main()
