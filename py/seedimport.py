#!/usr/bin/env python3
"""Import mutants produced by independent sub-agents (/tmp/mut/<prop>/out) into /verif/seeded/<prop>-m<k>/."""
import json, os, re, shutil, sys
for prop in sys.argv[1:]:
    out = f'/tmp/mut/{prop}/out'
    notes = open(os.path.join(out, 'notes.md')).read() if os.path.exists(os.path.join(out, 'notes.md')) else ''
    for k in (1, 2):
        src = os.path.join(out, f'm{k}.diff')
        if not os.path.exists(src):
            continue
        d = f'/verif/seeded/{prop}-m{k}'
        os.makedirs(d, exist_ok=True)
        shutil.copy(src, os.path.join(d, 'patch.diff'))
        demo = open(os.path.join(out, f'm{k}_demo.py')).read()
        open(os.path.join(d, 'demo.py'), 'w').write(demo)
        meta_p = os.path.join(d, 'meta.json')
        meta = json.load(open(meta_p)) if os.path.exists(meta_p) else {}
        meta.update({'property': prop, 'origin': 'independent sub-agent given only the property text and a scratch worktree',
                     'files_touched': sorted(set(re.findall(r'^\+\+\+ b/(\S+)', open(src).read(), flags=re.M)))})
        meta.setdefault('notes_excerpt', notes[:4000])
        json.dump(meta, open(meta_p, 'w'), indent=1)
        print('imported', d)
