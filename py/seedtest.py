#!/venv/bin/python
"""Self-validation aid (not a registered check): evaluate a seeded mutant.

  seedtest.py confirm <dir>            verify patch.diff + demo in a scratch worktree:
                                       demo passes clean; with patch: 75 tests pass, demo fails
  seedtest.py detect <dir> [--all]     run ./check <property> (or all checks) against a scratch
                                       worktree carrying the patch (UBXLIB_REPO), print verdicts
<dir> = /verif/seeded/<id>/ with patch.diff, demo.py, meta.json
"""
import json
import os
import subprocess
import sys
import tempfile

VERIF = os.path.dirname(os.path.dirname(os.path.abspath(__file__)))
ALL = [f'C{k:02d}' for k in range(1, 21)]


def sh(cmd, cwd=None, env=None, timeout=3600):
    p = subprocess.run(cmd, cwd=cwd, env=env, shell=True, stdout=subprocess.PIPE, stderr=subprocess.STDOUT, timeout=timeout)
    return p.returncode, p.stdout.decode('utf-8', 'replace')


class Worktree:
    def __enter__(self):
        self.dir = tempfile.mkdtemp(prefix='ubx-seed-', dir='/tmp')
        os.rmdir(self.dir)
        rc, out = sh(f'git -C /repo worktree add -q --detach {self.dir} HEAD')
        if rc:
            raise RuntimeError(out)
        return self.dir

    def __exit__(self, *a):
        sh(f'git -C /repo worktree remove --force {self.dir}')


def confirm(d):
    patch, demo = os.path.join(d, 'patch.diff'), os.path.join(d, 'demo.py')
    with Worktree() as wt:
        env = dict(os.environ, PYTHONPATH=wt, PYTHONHASHSEED='0', PYTHONDONTWRITEBYTECODE='1')
        rc0, o0 = sh(f'/venv/bin/python {demo}', cwd=wt, env=env, timeout=600)
        rc, o = sh(f'git apply {patch}', cwd=wt)
        if rc:
            return {'ok': False, 'why': 'patch does not apply: ' + o[-300:]}
        rct, ot = sh('/venv/bin/python -m pytest -q -p no:cacheprovider', cwd=wt, env=env, timeout=900)
        rc1, o1 = sh(f'/venv/bin/python {demo}', cwd=wt, env=env, timeout=600)
    tests = ot.strip().splitlines()[-1] if ot.strip() else ''
    ok = rc0 == 0 and rc1 != 0 and rct == 0 and '75 passed' in tests
    return {'ok': ok, 'demo_clean_rc': rc0, 'demo_patched_rc': rc1, 'tests': tests,
            'demo_patched_output': o1.strip().splitlines()[-1][:300] if o1.strip() else ''}


def detect(d, props):
    patch = os.path.join(d, 'patch.diff')
    out = {}
    with Worktree() as wt:
        rc, o = sh(f'git apply {patch}', cwd=wt)
        if rc:
            return {'error': 'patch does not apply'}
        env = dict(os.environ, UBXLIB_REPO=wt, PYTHONDONTWRITEBYTECODE='1', VERIF_EVIDENCE_DIR='/tmp/ubx-seed-evidence')
        for p in props:
            rc, o = sh(f'./check {p} --tier quick', cwd=VERIF, env=env, timeout=3600)
            lines = [l for l in o.splitlines() if l.startswith('VIOLATION') or l.startswith('MACHINERY') or l.startswith('OK ') or l.startswith('#')]
            out[p] = {'rc': rc, 'lines': lines[:6]}
    return out


def main():
    cmd, d = sys.argv[1], os.path.abspath(sys.argv[2])
    meta = json.load(open(os.path.join(d, 'meta.json')))
    if cmd == 'confirm':
        r = confirm(d)
    else:
        props = ALL if '--all' in sys.argv else [meta['property']]
        r = detect(d, props)
    print(json.dumps(r, indent=1))


if __name__ == '__main__':
    main()
