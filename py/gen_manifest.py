#!/usr/bin/env python3
"""Regenerates /verif/MANIFEST.json from the table below (kept in one place)."""
import json, os
HERE = os.path.dirname(os.path.dirname(os.path.abspath(__file__)))
ALL = [f'C{k:02d}' for k in range(1, 21)]
CLAIMED = {
 'C01': dict(text='to_bytes() model proved equal to the wire-format spec for every class/id and every payload of length <= 65535, idempotent and frame-preserving (Coq, induction via the Fletcher fold theorem); model tied to frame.py by correspondence on boundary-biased lengths up to 65535',
             note='model of to_bytes/_calc_checksum is hand-written and tied by differential testing against the real UbxFrame.to_bytes (Tie A); Python int/bytearray semantics trusted',
             tech='Coq proof (lia, fold_left) + model/implementation correspondence via extracted OCaml', ref='4 C01'),
 'C15': dict(text='Checksum model proved to be the 8-bit Fletcher sum of every byte list, range and matches() characterised, every state reachable by a 2-byte prefix; step function of the real object compared with the model on sampled (quick) or all 2^24 (thorough) state/byte pairs',
             note='hand model of checksum.py tied by correspondence (exhaustive over the step function in the thorough tier)',
             tech='Coq proof by induction on the byte list + exhaustive step-function correspondence', ref='4 C15'),
 'C02': dict(text='UbxParser model proved complete for every stream of the segment grammar (frames <= 1000 bytes with arbitrary content, checksum-corrupted frames, over-length headers, sync-pair-free filler, lone B5 before a frame), any filter, any start queue/counter, any chunking: queue = expected, counter = number of well-formed frames (Coq, induction over segments and payload); model tied to parser_ubx.py by correspondence on generated grammar streams under 4 chunkings plus an independent expected() oracle',
             note='hand model of the 9-state machine tied by differential testing; filler must not contain B5 62 (the property\'s own proviso); no two filler segments adjacent',
             tech='Coq proof (induction on segment list, DATA-phase induction) + correspondence via extracted OCaml', ref='4 C02'),
 'C03': dict(text='for every byte list and filter the model queue is exactly the emission of a left-to-right decomposition of the stream into gaps and non-overlapping frame-shaped occurrences (one packet per valid in-filter occurrence, one marker per checksum failure), counter = valid occurrences; over-length header transparency and one-marker lemmas (Coq, per-byte invariant); implementation compared with the model on adversarial streams and checked by an independent greedy occurrence matcher',
             note='bytes < 256 assumed (Python bytes); hand model tied by differential testing',
             tech='Coq proof (invariant over fold_left step) + correspondence + independent soundness oracle', ref='4 C03'),
 'C09': dict(text='process (process p a) b = process p (a ++ b) and the n-chunk generalisation for both parsers; after restart() from ANY parser state every further schedule of API calls behaves as on a new parser keeping queue and counter (simulation relation), NMEA likewise (Coq); implementation: all chunkings give identical results and restart at every offset equals prefix + fresh parser (implementation-only differential) and the model',
             note='hand models of both parsers tied by differential testing', tech='Coq proof (fold_left_app, simulation relation) + chunking/restart differential', ref='4 C09'),
 'C11': dict(text='at the last byte of a valid frame: counted always, queued iff in the filter then in force; counter independent of filter calls; FIFO/sentinel/purge; parsing only appends, filter changes and restart keep the queue, without pops the old queue stays a prefix (Coq); schedules of all API calls compared with the model while every payload object ever queued or handed out is held and re-read (immutability); UbxCID eq/hash sweep',
             note='the model holds payloads by value, so object aliasing (buffer reuse) is detected by the held-reference test in the correspondence, not by the theorem', tech='Coq proof (step lemmas, induction over schedules) + correspondence with held references', ref='4 C11'),
 'C16': dict(text='frames_rx of the model = count_sentences for every byte list, from any idle state and under every chunking; the spec predicate is characterised against the property text (Coq, continuation invariant); NmeaParser compared with model, extracted spec and an independent Python transcription, exhaustively over all strings of length <= 3 (quick) / 4 (thorough) over 7 byte classes around valid sentences',
             note='hand model of the 5-state machine tied by differential testing', tech='Coq proof (generalised counting invariant) + exhaustive small-string correspondence', ref='4 C16'),
 'C07': dict(text='generic theorems: decode of any fixed / count-prefixed (every block count) / MON-VER layout yields exactly the values at each field\'s offset, width, signedness, little-endian, text NUL-stripped (Coq, induction on layouts); per run the layout tables are regenerated from /repo by reflection and proved equal to a hand-written u-blox layout oracle with explicit offsets (vm_compute over the finite table), so the generic theorems instantiate to every message class; construct() compared with the model AND with the extracted oracle decoder on generated payloads incl. all block counts, with interleaved decoding of other instances',
             note='oracle layouts transcribed from memory (no access to the PDF); frame-object independence (aliasing) is covered by the interleaving test and the reflective extractor, not by the theorem (pure model) - partial',
             tech='Coq proof (generic layout lemmas) + per-run table obligations over reflected layouts (Tie B) + correspondence (Tie A)', ref='4 C07'),
 'C08': dict(text='encode(decode p) = p with reserved bytes zeroed; decode(encode fs) = fs for every in-range assignment; editing one field changes only that field\'s bytes - for every layout, hence (through the expanded layouts) fixed and variable-length messages alike (Coq); construct()/pack()/attribute assignment compared with the model, with the oracle zero_reserved, and locality checked directly on the implementation for every field',
             note='hand model of types.py tied by differential testing; CH text = valid UTF-8 that fits and has no trailing NUL', tech='Coq proof (induction on field lists, codec inverses) + correspondence', ref='4 C08'),
 'C13': dict(text='item round trip for every group 0..255, item 0..4095, size 8/16/32/64 (and 1-bit), signedness and in-range value: 4+width bytes, first four = little-endian key id size<<28|group<<16|item, decode returns the same group/item/size and the value (exactly, whenever packed with the key\'s documented signedness or below the sign bit); every key with zero reserved bits built by from_key encodes to that key (Coq, bit-field arithmetic); per run the published key constants and the signedness table regenerated from /repo are checked against a two-entry documented-signed oracle and instantiated; correspondence incl. all 256x4096x5 headers (thorough)',
             note='"in-range" read as in range for the packing type; a negative value packed as signed for a key documented unsigned cannot be recovered by any decoder of this wire format (characterised by reinterp, not claimed)', tech='Coq proof + per-run table obligations (Tie B) + correspondence (Tie A)', ref='4 C13'),
 'C14': dict(text='dichotomy for every byte string and every signedness table: ValueError, or a consumed prefix that re-encodes to itself with reserved bits cleared; only ValueError can be raised by decode and by encode; short data, size codes 0/6/7, 1-bit values >1, short values, out-of-range constructor arguments all raise ValueError; VALSET = header + items in order, VALGET poll = header + keys in order, VALGET response = successive pairs tiling the payload up to a <4-byte tail or ValueError; loop fuel never binding (Coq); implementation compared with the model and the dichotomy evaluated directly on it',
             note='1-bit items coerce any value by truthiness (documented by the code); a trailing fragment < 4 bytes of a VALGET response is ignored', tech='Coq proof (case analysis on size code, fuelled loop) + correspondence + dichotomy oracle', ref='4 C13/C14'),
 'C05': dict(text='model of poll/set/set_mga/fire_and_forget/_wait over an ARBITRARY backend (universally quantified receive/transmit/flush/recover) in virtual time: at most retries+1 transmissions and a trace that only grows; fire_and_forget exactly one Tx and no read; under 0 < dt per receive the model\'s fuel never binds (termination) and the only exception is that of packing an invalid frame; elapsed time <= (retries+1)*k*(delay+T_rx), k = 2 for configuration polls (Coq, induction on fuel/attempts); implementation over a stub backend and virtual clock compared with the model (sends, elapsed time, returns-vs-raises) incl. endless answer-class traffic, and checked against the bound directly',
             note='time is virtual: only _receive() takes time, every receive takes 0 < dt <= T_rx; float deadline comparisons that are exact ties are detected by the model and regenerated; real clock/scheduler not modelled - partial',
             tech='Coq proof (fuel sufficiency, arithmetic invariants over an abstract backend) + correspondence under a virtual clock', ref='4 request layer / C05'),
 'C10': dict(text='two servers with equal retry configuration and base registrations but ARBITRARY parser state (queue, half-received frame, previous filter) and registry extras give the same result, the same new trace events and the same backend state for any request and any backend; hence the i-th request of any sequence equals the same request alone on a new server (Coq, simulation relation ignoring dead registers and the counter); implementation: each request of generated sequences is re-run alone on a freshly set-up server facing the same receiver state (implementation-only differential) and sequences are compared with the model',
             note='polls must not re-register the ACK-ACK/ACK-NAK/MGA-ACK class ids (no library poll does); FrameFactory is a process-wide singleton: "fresh server" = after destroy()+setup()',
             tech='Coq proof (world simulation by induction on fuel) + sequence-vs-fresh differential', ref='4 request layer / C10'),
 'C12': dict(text='every Tx event of a request (all retries, failed sends included) carries wire(class,id, body packed once at call time), nothing is sent when packing fails (Coq, via C01); serial backend: exactly the bytes are handed to write(), success iff written = len, recovery keeps the port open at the previous bit rate; gpsd backend: command = & device = lower-case hex (unhex(hex d) = d), success only on a reply containing OK or ACK, socket errors = failure (Coq, small models); implementation: transmitted bytes vs model and vs an independent encoder; both real backend classes over stub serial / socket objects',
             note='real serial ports, pyserial, sockets and gpsd are replaced by stubs; the backend models are thin (logic only) - partial',
             tech='Coq proof + correspondence over stubbed transports', ref='4 request layer / C12'),
}
PENDING_REASON = 'check under construction in this round; not yet claimed'
def main():
    checks = []
    for p in ALL:
        if p not in CLAIMED:
            continue
        c = CLAIMED[p]
        checks.append({
            'property_id': p,
            'quick_cmd': f'./check {p} --tier quick',
            'thorough_cmd': f'./check {p} --tier thorough',
            'evidence_file': f'/verif/evidence/{p}.json',
            'replay_cmd_template': f'./check {p} --replay {{path}}',
            'engine': 'coq-ubx',
            'level_claimed': {'category': 'proof', 'text': c['text'], 'design_ref': 'DESIGN.md section ' + c['ref']},
            'level_note': c['note'] + '; trusted base: Coq 8.16.1 kernel, ExtrOcamlBasic extraction + OCaml driver, correspondence harness; no axioms (Print Assumptions recorded in evidence)',
            'technique': c['tech'],
        })
    m = {
        'version': 1,
        'setup_cmd': 'cd /verif && ./setup.sh',
        'hooks': {'guard': 'UBXLIB_VERIF', 'enable': 'no source hooks: clock, serial and socket are substituted from outside the package by the harness',
                  'baseline_off_cmd': 'cd /repo && /venv/bin/python -m pytest -ra -q -p no:cacheprovider --timeout=900 --continue-on-collection-errors',
                  'source_commits': [], 'add_only': True},
        'engines': [{'name': 'coq-ubx', 'path': '/verif/coq', 'serves_properties': sorted(CLAIMED),
                     'kind_free_text': 'Coq 8.16 models + theorems (coq/model, coq/proofs, coq/props), tables regenerated from /repo per run (Tie B), extracted OCaml model compared with the implementation (Tie A)'}],
        'checks': checks,
        'notes': 'Exit 2 = machinery fault (never a VIOLATION). known_findings.json lists repaired defects (fixed:) and open findings.',
        'not_applicable': [{'property_id': p, 'reason': PENDING_REASON} for p in ALL if p not in CLAIMED],
    }
    with open(os.path.join(HERE, 'MANIFEST.json'), 'w') as fh:
        json.dump(m, fh, indent=1)
if __name__ == '__main__':
    main()
