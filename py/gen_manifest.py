#!/usr/bin/env python3
"""Regenerates /verif/MANIFEST.json from the table below (kept in one place)."""
import json, os
HERE = os.path.dirname(os.path.dirname(os.path.abspath(__file__)))
ALL = [f'C{k:02d}' for k in range(1, 21)]
CLAIMED = {
 'C01': dict(text='to_bytes() model proved equal to the wire-format spec for every class/id and every payload of length <= 65535, idempotent and frame-preserving (Coq, induction via the Fletcher fold theorem); model tied to frame.py by correspondence on boundary-biased lengths up to 65535',
             note='model of to_bytes/_calc_checksum is hand-written and tied by differential testing against the real UbxFrame.to_bytes (Tie A); Python int/bytearray semantics trusted',
             tech='Coq proof (lia, fold_left) + model/implementation correspondence via extracted OCaml', ref='4 C01'),
 'C15': dict(text='Checksum model proved to be the 8-bit Fletcher sum of every byte list, range and matches() characterised, every state reachable by a 2-byte prefix; step function of the real object compared with the model on sampled (quick) or all 2^24 (thorough) state/byte pairs',
             note='hand model of checksum.py tied by correspondence (exhaustive over the step function in the thorough tier)',
             tech='Coq proof by induction on the byte list + exhaustive step-function correspondence', ref='4 C15'),
}
PENDING_REASON = 'check under construction in this round; not yet claimed'
def main():
    checks = []
    for p in ALL:
        if p not in CLAIMED:
            continue
        c = CLAIMED[p]
        checks.append({
            'property_id': p,
            'quick_cmd': f'./check {p} --tier quick',
            'thorough_cmd': f'./check {p} --tier thorough',
            'evidence_file': f'/verif/evidence/{p}.json',
            'replay_cmd_template': f'./check {p} --replay {{path}}',
            'engine': 'coq-ubx',
            'level_claimed': {'category': 'proof', 'text': c['text'], 'design_ref': 'DESIGN.md section ' + c['ref']},
            'level_note': c['note'] + '; trusted base: Coq 8.16.1 kernel, ExtrOcamlBasic extraction + OCaml driver, correspondence harness; no axioms (Print Assumptions recorded in evidence)',
            'technique': c['tech'],
        })
    m = {
        'version': 1,
        'setup_cmd': 'cd /verif && ./setup.sh',
        'hooks': {'guard': 'UBXLIB_VERIF', 'enable': 'no source hooks: clock, serial and socket are substituted from outside the package by the harness',
                  'baseline_off_cmd': 'cd /repo && /venv/bin/python -m pytest -ra -q -p no:cacheprovider --timeout=900 --continue-on-collection-errors',
                  'source_commits': [], 'add_only': True},
        'engines': [{'name': 'coq-ubx', 'path': '/verif/coq', 'serves_properties': sorted(CLAIMED),
                     'kind_free_text': 'Coq 8.16 models + theorems (coq/model, coq/proofs, coq/props), tables regenerated from /repo per run (Tie B), extracted OCaml model compared with the implementation (Tie A)'}],
        'checks': checks,
        'notes': 'Exit 2 = machinery fault (never a VIOLATION). known_findings.json lists repaired defects (fixed:) and open findings.',
        'not_applicable': [{'property_id': p, 'reason': PENDING_REASON} for p in ALL if p not in CLAIMED],
    }
    with open(os.path.join(HERE, 'MANIFEST.json'), 'w') as fh:
        json.dump(m, fh, indent=1)
if __name__ == '__main__':
    main()
