#!/usr/bin/env python3
"""Regenerates /verif/MANIFEST.json from the table below (kept in one place)."""
import json, os
HERE = os.path.dirname(os.path.dirname(os.path.abspath(__file__)))
ALL = [f'C{k:02d}' for k in range(1, 21)]
CLAIMED = {
 'C01': dict(text='to_bytes() model proved equal to the wire-format spec for every class/id and every payload of length <= 65535, idempotent and frame-preserving (Coq, induction via the Fletcher fold theorem); model tied to frame.py by correspondence on boundary-biased lengths up to 65535',
             note='model of to_bytes/_calc_checksum is hand-written and tied by differential testing against the real UbxFrame.to_bytes (Tie A); Python int/bytearray semantics trusted',
             tech='Coq proof (lia, fold_left) + model/implementation correspondence via extracted OCaml', ref='4 C01'),
 'C15': dict(text='Checksum model proved to be the 8-bit Fletcher sum of every byte list, range and matches() characterised, every state reachable by a 2-byte prefix; step function of the real object compared with the model on sampled (quick) or all 2^24 (thorough) state/byte pairs',
             note='hand model of checksum.py tied by correspondence (exhaustive over the step function in the thorough tier)',
             tech='Coq proof by induction on the byte list + exhaustive step-function correspondence', ref='4 C15'),
 'C02': dict(text='UbxParser model proved complete for every stream of the segment grammar (frames <= 1000 bytes with arbitrary content, checksum-corrupted frames, over-length headers, sync-pair-free filler, lone B5 before a frame), any filter, any start queue/counter, any chunking: queue = expected, counter = number of well-formed frames (Coq, induction over segments and payload); model tied to parser_ubx.py by correspondence on generated grammar streams under 4 chunkings plus an independent expected() oracle',
             note='hand model of the 9-state machine tied by differential testing; filler must not contain B5 62 (the property\'s own proviso); no two filler segments adjacent',
             tech='Coq proof (induction on segment list, DATA-phase induction) + correspondence via extracted OCaml', ref='4 C02'),
 'C03': dict(text='for every byte list and filter the model queue is exactly the emission of a left-to-right decomposition of the stream into gaps and non-overlapping frame-shaped occurrences (one packet per valid in-filter occurrence, one marker per checksum failure), counter = valid occurrences; over-length header transparency and one-marker lemmas (Coq, per-byte invariant); implementation compared with the model on adversarial streams and checked by an independent greedy occurrence matcher',
             note='bytes < 256 assumed (Python bytes); hand model tied by differential testing',
             tech='Coq proof (invariant over fold_left step) + correspondence + independent soundness oracle', ref='4 C03'),
 'C09': dict(text='process (process p a) b = process p (a ++ b) and the n-chunk generalisation for both parsers; after restart() from ANY parser state every further schedule of API calls behaves as on a new parser keeping queue and counter (simulation relation), NMEA likewise (Coq); implementation: all chunkings give identical results and restart at every offset equals prefix + fresh parser (implementation-only differential) and the model',
             note='hand models of both parsers tied by differential testing', tech='Coq proof (fold_left_app, simulation relation) + chunking/restart differential', ref='4 C09'),
 'C11': dict(text='at the last byte of a valid frame: counted always, queued iff in the filter then in force; counter independent of filter calls; FIFO/sentinel/purge; parsing only appends, filter changes and restart keep the queue, without pops the old queue stays a prefix (Coq); schedules of all API calls compared with the model while every payload object ever queued or handed out is held and re-read (immutability); UbxCID eq/hash sweep',
             note='the model holds payloads by value, so object aliasing (buffer reuse) is detected by the held-reference test in the correspondence, not by the theorem', tech='Coq proof (step lemmas, induction over schedules) + correspondence with held references', ref='4 C11'),
 'C16': dict(text='frames_rx of the model = count_sentences for every byte list, from any idle state and under every chunking; the spec predicate is characterised against the property text (Coq, continuation invariant); NmeaParser compared with model, extracted spec and an independent Python transcription, exhaustively over all strings of length <= 3 (quick) / 4 (thorough) over 7 byte classes around valid sentences',
             note='hand model of the 5-state machine tied by differential testing', tech='Coq proof (generalised counting invariant) + exhaustive small-string correspondence', ref='4 C16'),
}
PENDING_REASON = 'check under construction in this round; not yet claimed'
def main():
    checks = []
    for p in ALL:
        if p not in CLAIMED:
            continue
        c = CLAIMED[p]
        checks.append({
            'property_id': p,
            'quick_cmd': f'./check {p} --tier quick',
            'thorough_cmd': f'./check {p} --tier thorough',
            'evidence_file': f'/verif/evidence/{p}.json',
            'replay_cmd_template': f'./check {p} --replay {{path}}',
            'engine': 'coq-ubx',
            'level_claimed': {'category': 'proof', 'text': c['text'], 'design_ref': 'DESIGN.md section ' + c['ref']},
            'level_note': c['note'] + '; trusted base: Coq 8.16.1 kernel, ExtrOcamlBasic extraction + OCaml driver, correspondence harness; no axioms (Print Assumptions recorded in evidence)',
            'technique': c['tech'],
        })
    m = {
        'version': 1,
        'setup_cmd': 'cd /verif && ./setup.sh',
        'hooks': {'guard': 'UBXLIB_VERIF', 'enable': 'no source hooks: clock, serial and socket are substituted from outside the package by the harness',
                  'baseline_off_cmd': 'cd /repo && /venv/bin/python -m pytest -ra -q -p no:cacheprovider --timeout=900 --continue-on-collection-errors',
                  'source_commits': [], 'add_only': True},
        'engines': [{'name': 'coq-ubx', 'path': '/verif/coq', 'serves_properties': sorted(CLAIMED),
                     'kind_free_text': 'Coq 8.16 models + theorems (coq/model, coq/proofs, coq/props), tables regenerated from /repo per run (Tie B), extracted OCaml model compared with the implementation (Tie A)'}],
        'checks': checks,
        'notes': 'Exit 2 = machinery fault (never a VIOLATION). known_findings.json lists repaired defects (fixed:) and open findings.',
        'not_applicable': [{'property_id': p, 'reason': PENDING_REASON} for p in ALL if p not in CLAIMED],
    }
    with open(os.path.join(HERE, 'MANIFEST.json'), 'w') as fh:
        json.dump(m, fh, indent=1)
if __name__ == '__main__':
    main()
