#!/venv/bin/python
"""Self-validation aid (not a registered check): classify patches by what Tie B for the request loop says about them.
  tiebeval.py <patch.diff> ...   ->  one line per patch: unavailable (translator rejects) | bridge-FAILS | bridge-holds"""
import os, subprocess, sys, tempfile, shutil
VERIF = os.path.dirname(os.path.dirname(os.path.abspath(__file__)))

def sh(cmd, cwd=None, env=None):
    p = subprocess.run(cmd, cwd=cwd, env=env, shell=True, stdout=subprocess.PIPE, stderr=subprocess.STDOUT)
    return p.returncode, p.stdout.decode('utf-8', 'replace')

MODES = {'req': ('emit_req_v', 'ReqKernels.v', 'BridgeReq.v'), 'scan': ('emit_scan_v', 'ScanKernels.v', 'BridgeScan.v'),
         'cfg': ('emit_cfgobj_v', 'CfgKernels.v', 'BridgeCfgObj.v'), 'items': ('emit_items_v', 'ItemKernels.v', 'BridgeItems.v'), 'gpsd': ('emit_gpsd_v', 'GpsdKernels.v', 'BridgeGpsd.v'),
         'valget': ('emit_valget_v', 'ValgetKernels.v', 'BridgeValget.v'),
         'helpers': ('emit_helpers_v', 'HelperKernels.v', 'BridgeHelpers.v'), 'gnss': ('emit_gnss_v', 'GnssKernels.v', 'BridgeGnss.v'), 'lever': ('emit_lever_v', 'LeverKernels.v', 'BridgeLever.v')}


def one_old(patch):
    """the older translator (translate.py): checksum, both parsers, to_bytes, static cfg-key helpers"""
    wt = tempfile.mkdtemp(prefix='ubx-tb-', dir='/tmp'); os.rmdir(wt)
    gen = tempfile.mkdtemp(prefix='ubx-tbg-', dir='/tmp')
    try:
        rc, o = sh(f'git -C /repo worktree add -q --detach {wt} HEAD')
        if rc: return 'worktree-error ' + o[-100:]
        rc, o = sh(f'git apply {patch}', cwd=wt)
        if rc: return 'patch-does-not-apply'
        env = dict(os.environ, PYTHONPATH=f'{wt}:{VERIF}/py', PYTHONDONTWRITEBYTECODE='1')
        res = []
        for parts, bridges in ((('ck', 'ubx', 'nmea'), ('BridgeCk.v', 'BridgeUbx.v', 'BridgeNmea.v')), (('ck', 'frame'), ('BridgeCk.v', 'BridgeFrame.v')),
                               (('cfgkeys',), ('BridgeCfgKeys.v',))):
            for f in os.listdir(gen):
                os.remove(os.path.join(gen, f))
            code = ("from vlib import translate\n"
                    "try:\n translate.emit_kernels_v(" + repr(os.path.join(gen, 'Kernels.v')) + ", " + repr(parts) + ")\n print('OK')\n"
                    "except translate.TranslateError as e:\n print('REJECT', e)\n"
                    "except Exception as e:\n print('REJECT', repr(e))\n")
            with open(os.path.join(gen, 'run.py'), 'w') as fh:
                fh.write(code)
            rc, o = sh('/venv/bin/python run.py', cwd=gen, env=env)
            last = o.strip().splitlines()[-1] if o.strip() else ''
            tag = '+'.join(parts)
            if not last.startswith('OK'):
                res.append(f'{tag}: unavailable ({last[:80]})')
                continue
            rc, o = sh(f'prlimit --as=12000000000 timeout 300 coqc -w -notation-overridden -Q {VERIF}/coq Ubx -Q . UbxGen Kernels.v', cwd=gen)
            if rc:
                res.append(f'{tag}: unavailable (generated file does not type-check)')
                continue
            verdict = 'bridge-holds'
            for b in bridges:
                shutil.copy(f'{VERIF}/coq/bridge/{b}', gen)
                rc, o = sh(f'prlimit --as=12000000000 timeout 600 coqc -w -notation-overridden -Q {VERIF}/coq Ubx -Q . UbxGen {b}', cwd=gen)
                if rc:
                    verdict = f'bridge-FAILS ({b})'
                    break
            res.append(f'{tag}: {verdict}')
        return '; '.join(res)
    finally:
        sh(f'git -C /repo worktree remove --force {wt}')
        shutil.rmtree(gen, ignore_errors=True)


def one(patch, mode='req'):
    emit, kern, bridge = MODES[mode]
    wt = tempfile.mkdtemp(prefix='ubx-tb-', dir='/tmp'); os.rmdir(wt)
    gen = tempfile.mkdtemp(prefix='ubx-tbg-', dir='/tmp')
    try:
        rc, o = sh(f'git -C /repo worktree add -q --detach {wt} HEAD')
        if rc: return 'worktree-error ' + o[-100:]
        rc, o = sh(f'git apply {patch}', cwd=wt)
        if rc: return 'patch-does-not-apply'
        env = dict(os.environ, PYTHONPATH=f'{wt}:{VERIF}/py', PYTHONDONTWRITEBYTECODE='1')
        target = os.path.join(gen, kern)
        code = ("from vlib import translate_req, translate, backends\n"
                "backends.install_stub_serial()\n"
                "try:\n translate_req." + emit + "(" + repr(target) + ")\n print('OK')\n"
                "except translate.TranslateError as e:\n print('REJECT', e)\n"
                "except Exception as e:\n print('REJECT', repr(e))\n")
        with open(os.path.join(gen, 'run.py'), 'w') as fh:
            fh.write(code)
        rc, o = sh('/venv/bin/python run.py', cwd=gen, env=env)
        last = o.strip().splitlines()[-1] if o.strip() else ''
        if not last.startswith('OK'):
            return 'unavailable: ' + last[:160]
        if mode == 'valget':
            # rests on the CfgKeyData kernels and their bridge, generated into the same directory
            shutil.copy(f'{VERIF}/coq/bridge/BridgeCfgObj.v', gen)
            for pre in ('CfgKernels.v', 'BridgeCfgObj.v'):
                rc, o = sh(f'prlimit --as=12000000000 timeout 300 coqc -w -notation-overridden -Q {VERIF}/coq Ubx -Q . UbxGen {pre}', cwd=gen)
                if rc:
                    return 'unavailable: ' + pre + ' does not go through (see --cfg)'
        rc, o = sh(f'prlimit --as=12000000000 timeout 300 coqc -w -notation-overridden -Q {VERIF}/coq Ubx -Q . UbxGen {kern}', cwd=gen)
        if rc: return 'unavailable: generated file does not type-check: ' + o[-160:].replace('\n', ' ')
        shutil.copy(f'{VERIF}/coq/bridge/{bridge}', gen)
        rc, o = sh(f'prlimit --as=12000000000 timeout 600 coqc -w -notation-overridden -Q {VERIF}/coq Ubx -Q . UbxGen {bridge}', cwd=gen)
        if rc:
            import re
            m = re.search(r'File "./Bridge\w+.v", line (\d+)', o)
            return 'bridge-FAILS' + (f' (line {m.group(1)})' if m else '')
        return 'bridge-holds'
    finally:
        sh(f'git -C /repo worktree remove --force {wt}')
        shutil.rmtree(gen, ignore_errors=True)

if __name__ == '__main__':
    mode = 'scan' if '--scan' in sys.argv else 'cfg' if '--cfg' in sys.argv else 'items' if '--items' in sys.argv else 'gpsd' if '--gpsd' in sys.argv else 'valget' if '--valget' in sys.argv else 'helpers' if '--helpers' in sys.argv else 'gnss' if '--gnss' in sys.argv else 'lever' if '--lever' in sys.argv else 'req'
    for p in [a for a in sys.argv[1:] if not a.startswith('--')]:
        print(p, '->', one_old(os.path.abspath(p)) if '--old' in sys.argv else one(os.path.abspath(p), mode), flush=True)
