#!/usr/bin/env python3
"""Collect confirm/detect results of the seeded changes into seeded/<id>/meta.json and print a markdown table."""
import glob, json, os, re
rows = []
for d in sorted(glob.glob('/verif/seeded/*')):
    m = os.path.basename(d)
    meta_p = os.path.join(d, 'meta.json')
    meta = json.load(open(meta_p))
    cf = f'/tmp/mut/confirm-{m}.json'
    mx = f'/tmp/mut/matrix-{m}.json'
    own = f'/tmp/mut/own-{m}.json'
    if os.path.exists(own):
        try:
            o2 = json.load(open(own))
            meta['own_check_final'] = {p: {'rc': v['rc'], 'lines': v['lines'][:2]} for p, v in o2.items()}
        except Exception:
            pass
    if os.path.exists(mx):
        try:
            o = json.load(open(mx))
            meta['detected_by'] = sorted(p for p, v in o.items() if v['rc'] == 1)
            meta['own_check_first_lines'] = o.get(meta['property'], {}).get('lines', [])[:2]
            meta['ran'] = ['py/seedtest.py confirm (scratch worktree: demo passes clean; with patch 75 tests pass and demo fails)',
                           'py/seedtest.py detect --all (all 20 quick checks against a scratch worktree carrying the patch)']
        except Exception:
            pass
    notes = meta.get('notes_excerpt', '')
    json.dump(meta, open(meta_p, 'w'), indent=1)
    fin = meta.get('own_check_final', {}).get(meta['property'], {})
    own = meta['property'] in meta.get('detected_by', []) or fin.get('rc') == 1
    if fin.get('lines'):
        meta['own_check_first_lines'] = fin['lines']
    first = (meta.get('own_check_first_lines') or [''])[0]
    how = 'failing input' if meta.get('own_check_first_lines') and not any('no-failing-input-found' in l for l in meta['own_check_first_lines']) else 'no-failing-input-found'
    rows.append((m, ', '.join(meta.get('files_touched', [])), 'yes (' + how + ')' if own else 'NO', ' '.join(meta.get('detected_by', []))))
print('| change | file(s) | caught by own check | all checks that alarm |')
print('|---|---|---|---|')
for r in rows:
    print('| ' + ' | '.join(r) + ' |')
