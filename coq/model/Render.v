(* Model of rendering (C19): Item.__str__ and its table-driven subclasses, Fields.__str__,
   UbxFrame.__str__, CfgKeyData.__str__. Text is modelled as tokens (names rendered, table
   entries selected); Python's number formatting is trusted. Definitions only.
   X2_Proto mirrors the code after the F7 repair (text computed from the value in __str__). *)
From Ubx Require Import Fields Base CfgKeys.
Open Scope N_scope.

(* renderer classes *)
Inductive rcls :=
| RPlain            (* Item.__str__ without fmt_string: f'{name}: {value}' *)
| RHex              (* with fmt_string '02x' / '04x' / '08x' *)
| RProto            (* X2_Proto *)
| RMode             (* X4_Mode *)
| RLever            (* U1_LeverArmType *)
| RGnssId           (* U1_GnssId *)
| RFlagsEn          (* X4_Flags (CFG-GNSS) *)
| RAlgFlags         (* U1_Flags (ESF-ALG) *)
| RInit1 | RInit2   (* X1_InitStatus1 / 2 *)
| RFusion           (* U1_FusionMode *)
| RSens1 | RSens2   (* X1_SensStatus1 / 2 *)
| RGpsFix           (* U1_GpsFix *)
| RNavFlags.        (* X1_Flags (NAV-STATUS) *)

(* the lookup tables: name and length (regenerated from the source by reflection, Tie B) *)
Definition tables := list (string * nat).
Fixpoint tlen (t : tables) (name : string) : nat :=
  match t with [] => O | (n, l) :: r => if String.eqb n name then l else tlen r name end.

Inductive token :=
| TName (s : string)                    (* message NAME *)
| TField (s : string)                   (* a field name *)
| TEntry (table : string) (idx : nat)   (* a table entry selected by index *)
| TText.                                (* anything else (numbers, fixed words) *)

Definition field_bits (v shift mask : N) : nat := N.to_nat (N.land (N.shiftr v shift) mask).
(* unguarded table access: IndexError when out of range *)
Definition pick (t : tables) (table : string) (i : nat) : res token :=
  if Nat.ltb i (tlen t table) then Ok (TEntry table i) else Raise IndexError.
(* access guarded by `if value < len(table)` with an '<invalid>' fallback *)
Definition pick_guarded (t : tables) (table : string) (i : nat) : token :=
  if Nat.ltb i (tlen t table) then TEntry table i else TText.

(* [cached]: for classes that decode sub-fields in unpack() and render those cached attributes,
   the raw value seen by the last unpack() (0 for a fresh item) — NOT the current value. *)
Definition render_item (t : tables) (c : rcls) (name : string) (v : fval) (cached : N)
  : res (list token) :=
  match c with
  | RPlain => Ok [TField name; TText]
  | RHex => match v with VInt _ => Ok [TField name; TText] | VStr _ => Raise ValueError end
  | RProto => match v with
              | VInt _ => Ok [TField name; TText]
              | VStr _ => Raise TypeError        (* str & int *)
              end
  | RMode =>
      match v with
      | VInt z =>
          let n := Z.to_N z in
          let* a := pick t "charlen_str" (field_bits n 6 3) in
          let* b := pick t "parity_str" (field_bits n 9 7) in
          let* d := pick t "stopbits_str" (field_bits n 12 3) in
          Ok [TField name; a; b; d]
      | VStr _ => Raise TypeError
      end
  | RLever => match v with
              | VInt z => Ok [TField name; pick_guarded t "type_names" (Z.to_nat z)]
              | VStr _ => Raise TypeError
              end
  | RGnssId => match v with
               | VInt z => Ok [TField name; pick_guarded t "gnss_system_names" (Z.to_nat z)]
               | VStr _ => Raise TypeError
               end
  | RFlagsEn => match v with VInt _ => Ok [TField name; TText] | VStr _ => Raise TypeError end
  | RAlgFlags =>
      let* a := pick t "status_strings" (field_bits cached 1 7) in Ok [TField name; TText; a]
  | RInit1 =>
      let* a := pick t "wt_init_strings" (field_bits cached 0 3) in
      let* b := pick t "mnt_alg_strings" (field_bits cached 2 7) in
      let* d := pick t "ins_init_strings" (field_bits cached 5 3) in
      Ok [TField name; a; b; d]
  | RInit2 =>
      let* a := pick t "imu_init_strings" (field_bits cached 0 3) in Ok [TField name; a]
  | RFusion => match v with
               | VInt z => Ok [TField name; pick_guarded t "fusion_mode_strings" (Z.to_nat z)]
               | VStr _ => Raise TypeError
               end
  | RSens1 => Ok [TField name; pick_guarded t "sensor_types" (field_bits cached 0 63); TText; TText]
  | RSens2 =>
      let* a := pick t "calib_strings" (field_bits cached 0 3) in
      let* b := pick t "time_strings" (field_bits cached 2 3) in
      Ok [TField name; a; b]
  | RGpsFix => match v with
               | VInt z => Ok [TField name; pick_guarded t "gps_fix_strings" (Z.to_nat z)]
               | VStr _ => Raise TypeError
               end
  | RNavFlags => Ok [TField name; TText; TText; TText; TText]
  end.

(* the tables each class needs and the index range its masks can produce *)
Definition needed : list (string * nat) :=
  [("charlen_str"%string, 4%nat); ("parity_str"%string, 8%nat); ("stopbits_str"%string, 4%nat);
   ("status_strings"%string, 8%nat); ("wt_init_strings"%string, 4%nat);
   ("mnt_alg_strings"%string, 8%nat); ("ins_init_strings"%string, 4%nat);
   ("imu_init_strings"%string, 4%nat); ("calib_strings"%string, 4%nat);
   ("time_strings"%string, 4%nat)].
Definition tables_ok (t : tables) : bool :=
  forallb (fun nl => Nat.leb (snd nl) (tlen t (fst nl))) needed.

(* Fields.__str__: every non-Padding field, in order *)
Definition rfields := list (string * fty * rcls * fval * N).    (* name, type, renderer, value, cached *)
Fixpoint render_fields (t : tables) (fs : rfields) : res (list token) :=
  match fs with
  | [] => Ok []
  | (n, ty, c, v, cached) :: r =>
      match ty with
      | TPad _ => render_fields t r
      | _ => let* a := render_item t c n v cached in
             let* b := render_fields t r in Ok (a ++ b)
      end
  end.
(* UbxFrame.__str__: f'{NAME} {CID}' + str(f) *)
Definition render_frame (t : tables) (name : string) (fs : rfields) : res (list token) :=
  let* b := render_fields t fs in Ok (TName name :: TText :: b).

(* renderer and value compatible: what in-range assignment / decoding can produce *)
Definition rvalue_ok (ty : fty) (v : fval) : bool :=
  match ty, v with
  | TCh _, VStr _ => true
  | TCh _, VInt _ => false
  | _, VInt _ => true
  | _, VStr _ => false
  end.
Definition rcls_ok (ty : fty) (c : rcls) : bool :=
  match ty, c with
  | TCh _, RPlain => true
  | TCh _, _ => false
  | _, _ => true
  end.

(* CfgKeyData.__str__ *)
Definition render_cfg (it : item) : res (list token) :=
  let* _ := build_header (it_group it) (it_item it) (it_bits it) in
  if (it_bits it =? 1)%Z then Ok [TText; TText]
  else match it_value it with
       | CInt _ | CBool _ => Ok [TText; TText]        (* f'{value:d}' (and hex for unsigned) *)
       | CNone => Raise TypeError
       end.
