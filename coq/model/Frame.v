(* Model of ubxlib/frame.py: UbxFrame.to_bytes / _calc_checksum, and the wire-format spec. *)
From Ubx Require Import Base Checksum.

(* ---- Spec: the UBX wire format ------------------------------------------ *)
Definition wire_hdr (c i : N) (p : bytes) : bytes :=
  let n := N.of_nat (length p) in [c; i; n mod 256; n / 256].
Definition wire (c i : N) (p : bytes) : bytes :=
  let k := fletcher (wire_hdr c i p ++ p) in
  [181; 98] ++ wire_hdr c i p ++ p ++ [fst k; snd k].

(* ---- Model ---------------------------------------------------------------- *)
(* The attributes to_bytes()/_calc_checksum() read or write. [fr_cka]/[fr_ckb] do not
   exist before the first call (None). [fr_fields] stands for the Fields object
   (opaque here: to_bytes never touches it). *)
Record frame := mkFrame {
  fr_cls : N; fr_id : N; fr_data : bytes;
  fr_ck : ck; fr_cka : option N; fr_ckb : option N
}.

Definition new_frame (c i : N) (data : bytes) : frame :=
  mkFrame c i data ck_reset None None.

(* _calc_checksum(): reset; add cls, id, len & 0xFF, (len >> 8) & 0xFF, data bytes *)
Definition calc_checksum (f : frame) : frame :=
  let len := N.of_nat (length (fr_data f)) in
  let s := ck_reset in
  let s := ck_add s (fr_cls f) in
  let s := ck_add s (fr_id f) in
  let s := ck_add s (N.land (N.shiftr len 0) 255) in
  let s := ck_add s (N.land (N.shiftr len 8) 255) in
  let s := ck_adds s (fr_data f) in
  mkFrame (fr_cls f) (fr_id f) (fr_data f) s (Some (fst (ck_value s))) (Some (snd (ck_value s))).

Definition opt_get (o : option N) : N := match o with Some x => x | None => 0 end.

(* to_bytes(): returns the message and the (attribute-updated) frame *)
Definition to_bytes (f : frame) : bytes * frame :=
  let f' := calc_checksum f in
  let len := N.of_nat (length (fr_data f')) in
  let msg := [181; 98; fr_cls f'; fr_id f';
              N.land (N.shiftr len 0) 255; N.land (N.shiftr len 8) 255]
             ++ fr_data f' ++ [opt_get (fr_cka f'); opt_get (fr_ckb f')] in
  (msg, f').
