(* Specification side for C07 / C08: what the u-blox layouts prescribe, independent of how
   types.py walks the field list. Definitions only. *)
From Ubx Require Import Fields Base.
Open Scope N_scope.

Definition size (l : layout) : nat := fold_right (fun nt acc => (width (snd nt) + acc)%nat) 0%nat l.

(* Interpretation of the bytes found at a field's place *)
Definition spec_value (t : fty) (slice : bytes) : fval :=
  match t with
  | TU _ | TX _ => VInt (Z.of_N (le_dec slice))
  | TI w => let u := le_dec slice in
            if pow256 w / 2 <=? u then VInt (Z.of_N u - Z.of_N (pow256 w)) else VInt (Z.of_N u)
  | TPad _ => VInt 0
  | TCh _ => VStr (rstrip0 slice)
  end.

Definition slice (data : bytes) (off w : nat) : bytes := firstn w (skipn off data).

(* Field k of the decoded frame = the value at that field's offset, width, signedness *)
Fixpoint spec_decode (l : layout) (off : nat) (data : bytes) : fields :=
  match l with
  | [] => []
  | (n, t) :: r => (n, t, spec_value t (slice data off (width t))) :: spec_decode r (off + width t) data
  end.

(* explicit offsets, for comparison with the hand-written u-blox layout oracle *)
Inductive ukind := KU | KI | KX | KPad | KCh.
Definition kind_of (t : fty) : ukind :=
  match t with TU _ => KU | TI _ => KI | TX _ => KX | TPad _ => KPad | TCh _ => KCh end.
Definition ukind_eqb (a b : ukind) : bool :=
  match a, b with KU, KU | KI, KI | KX, KX | KPad, KPad | KCh, KCh => true | _, _ => false end.
Fixpoint layout_offsets (l : layout) (off : nat) : list (string * nat * nat * ukind) :=
  match l with
  | [] => []
  | (n, t) :: r => (n, off, width t, kind_of t) :: layout_offsets r (off + width t)
  end.

(* CH fields hold valid UTF-8 *)
Fixpoint ch_valid (l : layout) (off : nat) (data : bytes) : bool :=
  match l with
  | [] => true
  | (_, t) :: r =>
      (match t with TCh n => utf8_valid (slice data off n) | _ => true end)
      && ch_valid r (off + width t) data
  end.

(* payload with reserved (Padding) bytes zeroed *)
Fixpoint zero_reserved (l : layout) (data : bytes) : bytes :=
  match l with
  | [] => []
  | (_, t) :: r =>
      (match t with TPad n => zeros n | _ => firstn (width t) data end)
      ++ zero_reserved r (skipn (width t) data)
  end.

(* in-range field values (what struct.pack / CH.pack accept) *)
Definition val_ok (t : fty) (v : fval) : bool :=
  match t, v with
  | (TU w | TX w), VInt z => (0 <=? z)%Z && (z <? Z.of_N (pow256 w))%Z
  | TI w, VInt z => (- (Z.of_N (pow256 w) / 2) <=? z)%Z && (z <? Z.of_N (pow256 w) / 2)%Z
  | TPad _, VInt z => (z =? 0)%Z
  | TCh n, VStr s => Nat.leb (length s) n && utf8_valid s && all_bytes s
                     && list_eqb (rstrip0 s) s
  | _, _ => false
  end.
Definition fields_ok (fs : fields) : bool := forallb (fun x => val_ok (snd (fst x)) (snd x)) fs.
Definition widths_ok (l : layout) : bool :=
  forallb (fun nt => match snd nt with
                     | TU w | TI w | TX w => Nat.eqb w 1 || Nat.eqb w 2 || Nat.eqb w 4
                     | _ => true end) l.

Fixpoint names_unique (l : list string) : bool :=
  match l with
  | [] => true
  | n :: r => negb (existsb (String.eqb n) r) && names_unique r
  end.

(* offset and width of a named field *)
Fixpoint field_pos (l : layout) (name : string) (off : nat) : option (nat * nat) :=
  match l with
  | [] => None
  | (n, t) :: r => if String.eqb n name then Some (off, width t) else field_pos r name (off + width t)
  end.

(* Layout of a count-prefixed message with c blocks *)
Definition counted_layout (hdr blk : layout) (c : nat) : layout := hdr ++ blocks blk c.
