(* A scripted backend: the receiver's behaviour written out as data, so that the same script can
   drive the model (extracted) and the real code (Python stub). One entry per transmission:
   whether the transmission succeeds and which receive events it triggers. *)
From Ubx Require Import Fields Base Checksum Frame ParserUbx CfgKeys Request.
Open Scope N_scope.

Definition rxev := (option bytes * N)%type.
Record script := mkScript {
  pending : list rxev;                    (* buffered / scheduled input *)
  future : list (bool * list rxev);       (* per coming transmission *)
  idle_dt : N                             (* duration of a receive that returns nothing *)
}.

Definition s_receive (s : script) : option bytes * N * script :=
  match pending s with
  | [] => (None, idle_dt s, s)
  | (d, dt) :: t => (d, dt, mkScript t (future s) (idle_dt s))
  end.
Definition s_transmit (s : script) (_ : bytes) : bool * script :=
  match future s with
  | [] => (true, s)
  | (ok, evs) :: t => (ok, mkScript (pending s ++ evs) t (idle_dt s))
  end.
Definition s_flush (s : script) : script := mkScript [] (future s) (idle_dt s).
Definition s_recover (s : script) : script := s.

Definition script_backend : backend script := mkBackend script s_receive s_transmit s_flush s_recover.

(* a sequence of requests on one server object *)
Fixpoint run_requests (sk : list N) (fuel : nat) (rs : list (rop * request)) (w : world script)
  : list (outcome * list event * N * bool) :=
  match rs with
  | [] => []
  | (o, rq) :: t =>
      let w0 := mkWorld (wsrv w) (wenv w) (wnow w) [] false in
      let (out, w') := do_request script_backend sk fuel o rq w0 in
      (out, wtrace w', wnow w' - wnow w, wtie w') :: run_requests sk fuel t w'
  end.
