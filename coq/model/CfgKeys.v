(* Model of ubxlib/cfgkeys.py (CfgKeyData), ubx_cfg_valset.py, ubx_cfg_valget.py. *)
From Ubx Require Import Fields Base.
Open Scope N_scope.

(* Python values a configuration item may hold *)
Inductive cval :=
| CInt (z : Z)
| CBool (b : bool)
| CNone.

Record item := mkItem {
  it_group : Z; it_item : Z; it_bits : Z; it_signed : bool; it_value : cval
}.

(* SIZE_FROM_BITS / BITS_FROM_SIZE / BYTES_FROM_BITS *)
Definition size_from_bits (bits : Z) : option N :=
  if (bits =? 1)%Z then Some 1 else if (bits =? 8)%Z then Some 2
  else if (bits =? 16)%Z then Some 3 else if (bits =? 32)%Z then Some 4
  else if (bits =? 64)%Z then Some 5 else None.
Definition bits_from_size (size : N) : Z :=
  match size with
  | 1 => 1%Z | 2 => 8%Z | 3 => 16%Z | 4 => 32%Z | 5 => 64%Z | _ => 0%Z
  end.
Definition bytes_from_bits (bits : Z) : option nat :=
  if (bits =? 1)%Z then Some 1%nat else if (bits =? 8)%Z then Some 1%nat
  else if (bits =? 16)%Z then Some 2%nat else if (bits =? 32)%Z then Some 4%nat
  else if (bits =? 64)%Z then Some 8%nat else None.

Definition bits_from_key (key : N) : Z := bits_from_size (N.land (N.shiftr key 28) 7).
Definition group_from_key (key : N) : Z := Z.of_N (N.land (N.shiftr key 16) 255).
Definition item_from_key (key : N) : Z := Z.of_N (N.land key 4095).

(* _build_header(): masks applied with Python's & on possibly huge/negative ints; pack()
   has range-checked group and item before, so here they are in range (as Z >= 0). *)
Definition build_header (g i bits : Z) : res N :=
  match size_from_bits bits with
  | None => Raise ValueError
  | Some size =>
      Ok (N.lor (N.lor (N.shiftl (N.land size 7) 28)
                       (N.shiftl (Z.to_N (Z.land g 255)) 16))
                (Z.to_N (Z.land i 4095)))
  end.

(* `1 if self.value else 0` *)
Definition truthy (v : cval) : bool :=
  match v with CInt z => negb (z =? 0)%Z | CBool b => b | CNone => false end.
Definition as_fval (v : cval) : option fval :=
  match v with CInt z => Some (VInt z) | CBool b => Some (VInt (if b then 1 else 0)) | CNone => None end.

Definition map_struct {A} (r : res A) : res A :=      (* except struct.error: raise ValueError *)
  match r with Raise StructError => Raise ValueError | x => x end.

Definition pack_value (it : item) : res bytes :=
  if (it_bits it =? 1)%Z then Ok [if truthy (it_value it) then 1 else 0]
  else match bytes_from_bits (it_bits it) with
       | Some w =>
           match as_fval (it_value it) with
           | Some v => pack_int (it_signed it) w v
           | None => Raise StructError       (* struct.pack of None *)
           end
       | None => Raise ValueError
       end.

Definition pack_item_cfg (it : item) : res bytes :=
  if ((it_group it <? 0) || (255 <? it_group it))%Z then Raise ValueError
  else if ((it_item it <? 0) || (4095 <? it_item it))%Z then Raise ValueError
  else map_struct (
    let* h := build_header (it_group it) (it_item it) (it_bits it) in
    let* v := pack_value it in
    Ok (le_enc 4 h ++ v)).

(* The signedness table: the keys KEY_INFO marks signed (regenerated from the source) *)
Definition sign_of (signed_keys : list N) (key : N) : bool := existsb (N.eqb key) signed_keys.

Definition unpack_value (bits : Z) (signed : bool) (data : bytes) : res (cval * nat) :=
  match bytes_from_bits bits with
  | None => Raise ValueError
  | Some w =>
      if (bits =? 1)%Z then
        let* z := unpack_int false 1 (firstn 1 data) in
        if (z =? 0)%Z then Ok (CBool false, w)
        else if (z =? 1)%Z then Ok (CBool true, w)
        else Raise ValueError
      else
        let* z := unpack_int signed w (firstn w data) in Ok (CInt z, w)
  end.

Definition unpack_item_cfg (signed_keys : list N) (data : bytes) : res (item * nat) :=
  if Nat.ltb (length data) 4 then Raise ValueError
  else
    let key := le_dec (firstn 4 data) in
    let bits := bits_from_key key in
    let s := sign_of signed_keys key in
    let* (v, w) := map_struct (unpack_value bits s (skipn 4 data)) in
    Ok (mkItem (group_from_key key) (item_from_key key) bits s v, (4 + w)%nat).

(* from_key(key, value) *)
Definition from_key (signed_keys : list N) (key : N) (v : cval) : item :=
  mkItem (group_from_key key) (item_from_key key) (bits_from_key key) (sign_of signed_keys key) v.

(* ---- VALSET payload: version, layer = 1, res0, res1, then the items in order ---- *)
Fixpoint pack_items (l : list item) : res bytes :=
  match l with
  | [] => Ok []
  | it :: t => let* b := pack_item_cfg it in let* r := pack_items t in Ok (b ++ r)
  end.
Definition valset_payload (l : list item) : res bytes :=
  let* r := pack_items l in Ok ([0; 1; 0; 0] ++ r).

(* ---- VALGET poll payload: version 0, layer 0, position 0 (U2), then U4 keys ---- *)
Fixpoint pack_keys (keys : list Z) : res bytes :=
  match keys with
  | [] => Ok []
  | k :: t => let* b := pack_int false 4 (VInt k) in let* r := pack_keys t in Ok (b ++ r)
  end.
Definition valget_poll_payload (keys : list Z) : res bytes :=
  let* r := pack_keys keys in Ok ([0; 0; 0; 0] ++ r).

(* ---- VALGET response: 4-byte header, then `while len(work) >= 4` loop ---------- *)
Fixpoint valget_items (signed_keys : list N) (fuel : nat) (work : bytes) : res (list item) :=
  match fuel with
  | O => Ok []                    (* unreachable with fuel = length work, see proofs *)
  | S k =>
      if Nat.ltb (length work) 4 then Ok []
      else
        let* (it, n) := unpack_item_cfg signed_keys work in
        let* r := valget_items signed_keys k (skipn n work) in
        Ok (it :: r)
  end.
Definition valget_hdr : layout :=
  [("version"%string, TU 1); ("layer"%string, TU 1); ("position"%string, TU 2)].
Definition valget_decode (signed_keys : list N) (data : bytes) : res (fields * list item) :=
  let* (h, work) := unpack_fields (fresh_fields valget_hdr) data in
  let* its := valget_items signed_keys (length work) work in
  Ok (h, its).

(* frame.pack() of a decoded VALGET response: header fields, then every item re-packed in order *)
Definition valget_reencode (signed_keys : list N) (data : bytes) : res bytes :=
  let* (h, its) := valget_decode signed_keys data in
  let* hb := encode h in
  let* ib := pack_items its in
  Ok (hb ++ ib).
