(* Models of the logic in the two backends: server_tty.py (_transmit, _recover) and server.py
   (_transmit over the gpsd control socket). OS objects are parameters. Definitions only. *)
From Ubx Require Import Fields Base.
Open Scope N_scope.

(* ---- serial ------------------------------------------------------------------------- *)
(* _transmit(): bytes_sent = port.write(data); return bytes_sent == len(data) *)
Definition tty_transmit (written : Z) (data : bytes) : bytes * bool :=
  (data, (written =? Z.of_nat (length data))%Z).      (* what is handed to write(), success flag *)

Record port := mkPort { p_open : bool; p_baud : Z; p_baud_log : list Z }.
(* _recover(): assert open; current = baudrate; baudrate = 9600; baudrate = current *)
Definition tty_recover (p : port) : res port :=
  if p_open p then Ok (mkPort (p_open p) (p_baud p) (p_baud_log p ++ [9600%Z; p_baud p]))
  else Raise AssertionError.

(* ---- gpsd --------------------------------------------------------------------------- *)
Definition hexdigit (n : N) : N := if n <? 10 then 48 + n else 87 + n.      (* '0'..'9' 'a'..'f' *)
Fixpoint hexlify (d : bytes) : bytes :=
  match d with [] => [] | b :: t => hexdigit (b / 16) :: hexdigit (b mod 16) :: hexlify t end.
Definition unhexdigit (c : N) : N := if c <? 58 then c - 48 else c - 87.
Fixpoint unhexlify (s : bytes) : bytes :=
  match s with
  | a :: b :: t => (16 * unhexdigit a + unhexdigit b) :: unhexlify t
  | _ => []
  end.

Fixpoint starts_with (needle hay : bytes) : bool :=
  match needle, hay with
  | [], _ => true
  | n :: nt, h :: ht => (n =? h) && starts_with nt ht
  | _ :: _, [] => false
  end.
Fixpoint contains (needle hay : bytes) : bool :=
  starts_with needle hay || match hay with [] => false | _ :: t => contains needle t end.

Inductive gpsd_reply :=
| GReply (data : bytes)        (* what recv(32) returned *)
| GSockError.                  (* socket.error / timeout anywhere in the exchange *)

Definition OK_ : bytes := [79; 75].
Definition ACK_ : bytes := [65; 67; 75].

(* _transmit(): returns the command sent on the control socket (None if the error struck before
   sending is irrelevant here: the command is computed first) and the success flag *)
Definition gpsd_transmit (device : bytes) (data : bytes) (reply : gpsd_reply) : bytes * res bool :=
  let cmd := [38] ++ device ++ [61] ++ hexlify data in       (* '&' device '=' hex *)
  (cmd,
   match reply with
   | GSockError => Ok false
   | GReply r => if utf8_valid r then Ok (contains OK_ r || contains ACK_ r)
                 else Raise UnicodeError
   end).
