(* The PINNED (pre-repair, F3) inner loop of poll(): every call of _wait() armed a fresh deadline.
   Kept to state the refutation of C05 for the old code. Definitions only. *)
From Ubx Require Import Fields Base Checksum Frame ParserUbx CfgKeys Request.
Open Scope N_scope.

Section Pinned.
Context {E : Type} (B : backend E) (sk : list N).

Fixpoint poll_phase_pinned (fuel : nat) (req : cid) (ack_phase : bool) (resp : option rframe)
         (w : world E) : attempt_end * world E :=
  match fuel with
  | O => (AFuel, w)
  | S k =>
      match wait B sk (S k) (wnow w + sdelay (wsrv w)) w with      (* time_end = time.time() + delay, every time *)
      | (None, w') => (AFuel, w')
      | (Some None, w') => (ATimeout, w')
      | (Some (Some f), w') =>
          if negb ack_phase then
            if cid_eqb (rf_cid f) req then
              if fst req =? CLASS_CFG then poll_phase_pinned k req true (Some f) w' else (AOk f, w')
            else poll_phase_pinned k req false resp w'
          else
            match check_ack_nak req f with
            | IsAck => match resp with Some r => (AOk r, w') | None => (ATimeout, w') end
            | _ => poll_phase_pinned k req true resp w'
            end
      end
  end.
End Pinned.

(* A receiver that answers every read, after 1 ms, with a complete ACK-ACK naming ANOTHER request (06 00) *)
Definition foreign_ack : bytes := wire 5 1 [6; 0].
Definition nagger : backend unit :=
  mkBackend unit (fun _ => (Some foreign_ack, 1, tt)) (fun _ _ => (true, tt)) (fun _ => tt) (fun _ => tt).

(* the world right after a successful transmission of a CFG poll (06 01): purged parser, poll filter *)
Definition pinned_start (delay : N) : world unit :=
  mkWorld (mkSrv (set_filters (fresh None) [(6, 1); CID_ACK; CID_NAK]) base_registry 0 delay) tt 0 [] false.
