(* Model of ubxlib/parser_nmea.py (class NmeaParser), and the sentence-count spec. *)
From Ubx Require Import Base.

Inductive nstate := WAIT_SYNC | NDATA | CHKSUM1 | CHKSUM2 | LINEEND.

Record nparser := mkN {
  nst : nstate;
  nchk : N;        (* self.checksum      *)
  nxor : N;        (* self.checksum_data *)
  nrx : N          (* frames_rx *)
}.
(* msg_data (the text) is only logged; not modelled. *)

Definition nfresh : nparser := mkN WAIT_SYNC 0 0 0.

(* _to_bin(): hex digit value, None for -1 *)
Definition to_bin (d : N) : option N :=
  if (48 <=? d) && (d <=? 57) then Some (d - 48)
  else if (97 <=? d) && (d <=? 102) then Some (d - 87)
  else if (65 <=? d) && (d <=? 70) then Some (d - 55)
  else None.

Definition DOLLAR : N := 36.
Definition STAR : N := 42.
Definition NL : N := 10.

Definition nstep (p : nparser) (d : N) : nparser :=
  if d =? DOLLAR then mkN NDATA 0 0 (nrx p)
  else match nst p with
  | WAIT_SYNC => p
  | NDATA =>
      if d =? STAR then mkN CHKSUM1 (nchk p) (nxor p) (nrx p)
      else mkN NDATA (nchk p) (N.lxor (nxor p) d) (nrx p)
  | CHKSUM1 =>
      match to_bin d with
      | Some v => mkN CHKSUM2 (N.shiftl v 4) (nxor p) (nrx p)
      | None => mkN WAIT_SYNC (nchk p) (nxor p) (nrx p)
      end
  | CHKSUM2 =>
      match to_bin d with
      | Some v =>
          let c := nchk p + v in
          if c =? nxor p then mkN LINEEND c (nxor p) (nrx p + 1)
          else mkN LINEEND c (nxor p) (nrx p)
      | None => mkN WAIT_SYNC (nchk p) (nxor p) (nrx p)
      end
  | LINEEND =>
      if d =? NL then mkN WAIT_SYNC (nchk p) (nxor p) (nrx p) else p
  end.

Definition nprocess (p : nparser) (data : bytes) : nparser := fold_left nstep data p.
(* restart(): state := WAIT_SYNC (F5 repair; the pinned tree named a state that does not exist) *)
Definition nrestart (p : nparser) : nparser := mkN WAIT_SYNC (nchk p) (nxor p) (nrx p).

(* ---- Spec: number of valid sentences in a byte string --------------------- *)
(* body_xor l = Some (x, rest): l = body ++ '*' :: rest with body free of '$' and '*',
   x = xor of body.  None when a '$' or the end comes first. *)
Fixpoint body_xor (acc : N) (l : bytes) : option (N * bytes) :=
  match l with
  | [] => None
  | d :: t => if d =? DOLLAR then None
              else if d =? STAR then Some (acc, t)
              else body_xor (N.lxor acc d) t
  end.

(* Does a valid sentence start at this '$' (l = what follows the '$')? *)
Definition sentence_at (l : bytes) : bool :=
  match body_xor 0 l with
  | Some (x, h1 :: h2 :: _) =>
      match to_bin h1, to_bin h2 with
      | Some a, Some b => 16 * a + b =? x
      | _, _ => false
      end
  | _ => false
  end.

Fixpoint count_sentences (l : bytes) : N :=
  match l with
  | [] => 0
  | d :: t => (if (d =? DOLLAR) && sentence_at t then 1 else 0) + count_sentences t
  end.
