(* The serial backend (server_tty.py: _receive / _transmit / _flush_input / _recover) over a serial LINE:
   a port with a bit rate, a receiver that understands - and is understood - only at its own bit rate, and
   the receiver's behaviour written as a script (ScriptBackend.v). This is the Coq counterpart of
   py/vlib/backends.py:LineSerial, over which the real ubxlib.server_tty.GnssUBlox is run.
   Definitions only. *)
From Ubx Require Import Fields Base Checksum Frame ParserUbx CfgKeys Request ScriptBackend Backends.
Open Scope N_scope.

Record sline := mkSLine {
  l_port : port;          (* open flag, bit rate, log of bit-rate assignments *)
  l_rxbaud : Z;           (* the receiver's bit rate *)
  l_script : script;      (* what the receiver does *)
  l_out : list bytes;     (* ghost: frames written that still sit in the port's output buffer, oldest first *)
  l_got : list bytes      (* ghost: frames that have left the port, in order *)
}.

Definition heard (l : sline) : bool := (p_baud (l_port l) =? l_rxbaud l)%Z.

(* _receive(): serial_port.read(1). At a wrong bit rate the scripted event still takes its time but nothing
   intelligible arrives. *)
Definition l_receive (l : sline) : option bytes * N * sline :=
  let '(d, dt, s') := s_receive (l_script l) in
  (* time passes: whatever sits in the output buffer leaves the port *)
  ((if heard l then d else None), dt, mkSLine (l_port l) (l_rxbaud l) s' [] (l_got l ++ l_out l)).

(* _transmit(): write(); the scripted attempt is consumed, the receiver answers only what it understood.
   The success flag is the comparison of the number of bytes written with len(data) (Backends.tty_transmit);
   the script's flag says whether the stub port reports all bytes written. *)
Definition l_transmit (l : sline) (data : bytes) : bool * sline :=
  let s := l_script l in
  match future s with
  | [] => (snd (tty_transmit (Z.of_nat (length data)) data),
           mkSLine (l_port l) (l_rxbaud l) s (l_out l ++ [data]) (l_got l))
  | (ok, evs) :: t =>
      let written := if ok then Z.of_nat (length data) else (Z.of_nat (length data) - 1)%Z in
      (snd (tty_transmit written data),
       mkSLine (l_port l) (l_rxbaud l)
              (mkScript (pending s ++ (if heard l then evs else [])) t (idle_dt s))
              (if ok then l_out l ++ [data] else l_out l) (l_got l))
  end.

(* _flush_input(): reset_input_buffer() *)
Definition l_flush (l : sline) : sline := mkSLine (l_port l) (l_rxbaud l) (s_flush (l_script l)) (l_out l) (l_got l).

(* _recover(): Backends.tty_recover on the port (AssertionError if the port is closed: modelled as no change) *)
Definition l_recover (l : sline) : sline :=
  match tty_recover (l_port l) with
  | Ok p' => mkSLine p' (l_rxbaud l) (l_script l) (l_out l) (l_got l)
  | Raise _ => l
  end.

Definition line_backend : backend sline := mkBackend sline l_receive l_transmit l_flush l_recover.

(* the line as seen by the request loop: in step with the script backend *)
Definition line_ok (l : sline) (s : script) : Prop :=
  l_script l = s /\ heard l = true /\ p_open (l_port l) = true.

(* a recovery that comes back at another bit rate (what the property forbids), for the refutation below *)
Definition l_recover_to (b : Z) (l : sline) : sline :=
  mkSLine (mkPort (p_open (l_port l)) b (p_baud_log (l_port l) ++ [9600%Z; b])) (l_rxbaud l) (l_script l) (l_out l) (l_got l).
Definition bad_line_backend (b : Z) : backend sline := mkBackend sline l_receive l_transmit l_flush (l_recover_to b).

(* a flush that also resets the OUTPUT buffer (what the property forbids: transmitted bytes must reach the receiver) *)
Definition l_flush_both (l : sline) : sline := mkSLine (l_port l) (l_rxbaud l) (s_flush (l_script l)) [] (l_got l).
Definition flush_both_backend : backend sline := mkBackend sline l_receive l_transmit l_flush_both l_recover.

(* the frames of the successful transmissions recorded in a trace, oldest first *)
Fixpoint tx_ok_frames (tr : list event) : list bytes :=
  match tr with
  | [] => []
  | Tx d true :: t => d :: tx_ok_frames t
  | _ :: t => tx_ok_frames t
  end.
(* what the receiver has got or will get: frames that left the port, then the output buffer *)
Definition l_sent (l : sline) : list bytes := l_got l ++ l_out l.

(* a sequence of requests on one server object over the serial line; reports the port's bit rate after each and how many frames it handed to the line *)
Fixpoint run_requests_line (sk : list N) (fuel : nat) (rs : list (rop * request)) (w : world sline)
  : list (outcome * list event * N * bool * Z * nat) :=
  match rs with
  | [] => []
  | (o, rq) :: t =>
      let w0 := mkWorld (wsrv w) (wenv w) (wnow w) [] false in
      let (out, w') := do_request line_backend sk fuel o rq w0 in
      (out, wtrace w', wnow w' - wnow w, wtie w', p_baud (l_port (wenv w')),
       (length (l_sent (wenv w')) - length (l_sent (wenv w)))%nat) :: run_requests_line sk fuel t w'
  end.

(* ---- gpsd backend (server.py) under the request loop -------------------------------------------------
   _receive = recv(128) on the data socket (None on timeout / empty), _transmit = one command on the control
   socket (Backends.gpsd_transmit frames it; success = gpsd answered OK/ACK), _flush_input and _recover are
   the base class's no-ops: data received before a transmission is NOT discarded by the backend. *)
Definition gpsd_script_backend : backend script :=
  mkBackend script s_receive s_transmit (fun s => s) (fun s => s).

Definition visible_event (e : event) : bool :=
  match e with Flush | Recover => false | _ => true end.

(* a sequence of requests on one server object over gpsd; the no-op hooks leave no observable event *)
Fixpoint run_requests_gpsd (sk : list N) (fuel : nat) (rs : list (rop * request)) (w : world script)
  : list (outcome * list event * N * bool) :=
  match rs with
  | [] => []
  | (o, rq) :: t =>
      let w0 := mkWorld (wsrv w) (wenv w) (wnow w) [] false in
      let (out, w') := do_request gpsd_script_backend sk fuel o rq w0 in
      (out, filter visible_event (wtrace w'), wnow w' - wnow w, wtie w') :: run_requests_gpsd sk fuel t w'
  end.
