(* Base.v — shared vocabulary of all models: bytes, exceptions-as-values.
   Definitions only; no proofs (so the model keeps running when a proof breaks). *)
From Coq Require Export NArith ZArith List Bool.
Export ListNotations.
Open Scope N_scope.

Definition bytes := list N.

(* Python exceptions the modelled code can raise, as values. *)
Inductive exn :=
| ValueError | StructError | KeyError | IndexError | TypeError
| AttributeError | AssertionError | UnicodeError.

Inductive res (A : Type) :=
| Ok (a : A)
| Raise (e : exn).
Arguments Ok {A} a.
Arguments Raise {A} e.

Definition bind {A B} (r : res A) (f : A -> res B) : res B :=
  match r with Ok a => f a | Raise e => Raise e end.
Notation "'let*' x ':=' r 'in' k" := (bind r (fun x => k))
  (at level 200, x pattern, r at level 100, k at level 200).

Definition exn_eqb (a b : exn) : bool :=
  match a, b with
  | ValueError, ValueError | StructError, StructError | KeyError, KeyError
  | IndexError, IndexError | TypeError, TypeError | AttributeError, AttributeError
  | AssertionError, AssertionError | UnicodeError, UnicodeError => true
  | _, _ => false
  end.

Definition is_byte (b : N) : bool := b <? 256.
Definition all_bytes (l : bytes) : bool := forallb is_byte l.

Fixpoint list_eqb (l1 l2 : list N) : bool :=
  match l1, l2 with
  | [], [] => true
  | x :: t1, y :: t2 => (x =? y) && list_eqb t1 t2
  | _, _ => false
  end.

(* Little-endian unsigned value of a byte list, and its inverse on a given width. *)
Fixpoint le_dec (l : bytes) : N :=
  match l with [] => 0 | b :: t => b + 256 * le_dec t end.
Fixpoint le_enc (w : nat) (v : N) : bytes :=
  match w with O => [] | S w' => (v mod 256) :: le_enc w' (v / 256) end.

Definition sum (l : list N) : N := fold_right N.add 0 l.
