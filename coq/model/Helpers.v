(* Models of the convenience setters (C17): CFG-GNSS enable/disable/presets, CFG-RATE, CFG-CFG,
   CFG-RST, CFG-ESFLA set / lever_arm, MGA-INI-TIME_UTC set_datetime, UPD-SOS.
   They act on the field list of a frame (decoded or fresh). Definitions only.
   enable_gnss/disable_gnss mirror the code after the F6 repair (`is not None`, flags_{pos}). *)
From Ubx Require Import Fields Base.
Open Scope Z_scope.

Definition fname (base : string) (i : nat) : string := append base (append "_" (dec i)).

Definition get_int (fs : fields) (name : string) : res Z :=
  match getf fs name with
  | Some (VInt z) => Ok z
  | Some (VStr _) => Raise TypeError
  | None => Raise KeyError
  end.

(* ---- CFG-GNSS ------------------------------------------------------------------------ *)
(* _find_entry(): first i in range(numConfigBlocks) with gnssId_i == system *)
Fixpoint find_from (fs : fields) (sys : Z) (i n : nat) : res (option nat) :=
  match n with
  | O => Ok None
  | S k => let* g := get_int fs (fname "gnssId" i) in
           if g =? sys then Ok (Some i) else find_from fs sys (S i) k
  end.
Definition find_entry (fs : fields) (sys : Z) : res (option nat) :=
  if negb ((0 <=? sys) && (sys <=? 7)) then Raise AssertionError
  else let* n := get_int fs "numConfigBlocks" in find_from fs sys 0 (Z.to_nat n).

Definition set_enable_bit (on : bool) (fs : fields) (sys : Z) : res fields :=
  let* pos := find_entry fs sys in
  match pos with
  | None => Ok fs
  | Some i =>
      let* v := get_int fs (fname "flags" i) in
      Ok (setf fs (fname "flags" i) (VInt (if on then Z.lor v 1 else Z.land v (-2))))
  end.
Definition enable_gnss := set_enable_bit true.
Definition disable_gnss := set_enable_bit false.

Fixpoint apply_all (f : fields -> Z -> res fields) (fs : fields) (l : list Z) : res fields :=
  match l with [] => Ok fs | s :: t => let* fs' := f fs s in apply_all f fs' t end.
Definition GPS := 0. Definition SBAS := 1. Definition Galileo := 2. Definition BeiDou := 3.
Definition IMES := 4. Definition QZSS := 5. Definition GLONASS := 6. Definition IRNSS := 7.
Definition gps_glonass (fs : fields) : res fields :=
  let* fs := apply_all enable_gnss fs [GPS; SBAS; GLONASS] in
  apply_all disable_gnss fs [Galileo; BeiDou; IMES; QZSS].
Definition gps_galileo_beidou (fs : fields) : res fields :=
  let* fs := apply_all enable_gnss fs [GPS; SBAS; Galileo; BeiDou] in
  apply_all disable_gnss fs [IMES; QZSS; GLONASS].

(* ---- CFG-RATE ------------------------------------------------------------------------ *)
Definition set_rate_in_hz (fs : fields) (rate : Z) : res fields :=
  if negb ((1 <=? rate) && (rate <=? 10)) then Raise AssertionError
  else Ok (setf (setf fs "measRate" (VInt (1000 / rate))) "navRate" (VInt 1)).

(* ---- CFG-CFG -------------------------------------------------------------------------- *)
Definition cfg_save (fs : fields) (m : Z) : fields :=
  setf (setf (setf fs "saveMask" (VInt m)) "clearMask" (VInt 0)) "loadMask" (VInt 0).
Definition cfg_reset (fs : fields) (m : Z) : fields :=
  setf (setf (setf fs "clearMask" (VInt m)) "loadMask" (VInt m)) "saveMask" (VInt 0).

(* ---- CFG-RST -------------------------------------------------------------------------- *)
Definition rst (fs : fields) (mode mask : Z) : fields :=
  setf (setf fs "resetMode" (VInt mode)) "navBbrMask" (VInt mask).
Definition warm_start fs := rst fs 1 1.
Definition cold_start fs := rst fs 1 65535.
Definition rst_start fs := rst fs 9 0.
Definition rst_stop fs := rst fs 8 0.

(* ---- CFG-ESFLA ------------------------------------------------------------------------ *)
Definition esfla_set (fs : fields) (t x y z : Z) : res fields :=
  if negb (t <=? 1) then Raise AssertionError
  else if negb ((-1000 <=? x) && (x <=? 1000)) then Raise AssertionError
  else if negb ((-1000 <=? y) && (y <=? 1000)) then Raise AssertionError
  else if negb ((-1000 <=? z) && (z <=? 1000)) then Raise AssertionError
  else Ok (setf (setf (setf (setf fs "leverArmType" (VInt t)) "leverArmX" (VInt x))
                      "leverArmY" (VInt y)) "leverArmZ" (VInt z)).

Fixpoint lever_from (fs : fields) (t : Z) (i n : nat) : res (option (Z * Z * Z)) :=
  match n with
  | O => Ok None
  | S k => let* a := get_int fs (fname "leverArmType" i) in
           if a =? t then
             let* x := get_int fs (fname "leverArmX" i) in
             let* y := get_int fs (fname "leverArmY" i) in
             let* z := get_int fs (fname "leverArmZ" i) in
             Ok (Some (x, y, z))
           else lever_from fs t (S i) k
  end.
Definition lever_arm (fs : fields) (t : Z) : res (option (Z * Z * Z)) :=
  let* n := get_int fs "numConfigs" in lever_from fs t 0 (Z.to_nat n).

(* ---- MGA-INI-TIME_UTC ------------------------------------------------------------------ *)
Definition set_datetime (fs : fields) (year month day hour minute second : Z) : fields :=
  let fs := setf fs "type" (VInt 16) in
  let fs := setf fs "version" (VInt 0) in
  let fs := setf fs "ref" (VInt 0) in
  let fs := setf fs "leapSecs" (VInt (-128)) in
  let fs := setf fs "year" (VInt year) in
  let fs := setf fs "month" (VInt month) in
  let fs := setf fs "day" (VInt day) in
  let fs := setf fs "hour" (VInt hour) in
  let fs := setf fs "minute" (VInt minute) in
  let fs := setf fs "second" (VInt second) in
  let fs := setf fs "ns" (VInt 0) in
  let fs := setf fs "tAccS" (VInt 10) in
  setf fs "tAccNs" (VInt 0).

(* ---- UPD-SOS --------------------------------------------------------------------------- *)
Definition sos_backup (fs : fields) : fields := setf fs "cmd" (VInt 0).
Definition sos_clear (fs : fields) : fields := setf fs "cmd" (VInt 1).

(* ======================================================================================= *)
(* Specification side: what the u-blox protocol prescribes, on an abstract block list.      *)
Record gblock := mkG { g_id : Z; g_res : Z; g_max : Z; g_flags : Z }.
(* the enable bit (bit 0 of flags) of the FIRST block whose gnssId is sys; nothing else *)
Fixpoint spec_enable (on : bool) (sys : Z) (bs : list gblock) : list gblock :=
  match bs with
  | [] => []
  | b :: t => if g_id b =? sys
              then mkG (g_id b) (g_res b) (g_max b) (if on then Z.lor (g_flags b) 1 else Z.land (g_flags b) (-2)) :: t
              else b :: spec_enable on sys t
  end.
Definition spec_gps_glonass (bs : list gblock) : list gblock :=
  fold_left (fun b s => spec_enable false s b) [Galileo; BeiDou; IMES; QZSS]
            (fold_left (fun b s => spec_enable true s b) [GPS; SBAS; GLONASS] bs).
Definition spec_gps_galileo_beidou (bs : list gblock) : list gblock :=
  fold_left (fun b s => spec_enable false s b) [IMES; QZSS; GLONASS]
            (fold_left (fun b s => spec_enable true s b) [GPS; SBAS; Galileo; BeiDou] bs).

(* the field list of a decoded CFG-GNSS frame holding header values and these blocks *)
Definition gblock_fields (i : nat) (b : gblock) : fields :=
  [(fname "gnssId" i, TU 1, VInt (g_id b)); (fname "resTrkCh" i, TU 1, VInt (g_res b));
   (fname "maxTrkCh" i, TU 1, VInt (g_max b)); (fname "res1" i, TPad 1, VInt 0);
   (fname "flags" i, TX 4, VInt (g_flags b))].
Fixpoint gblocks_fields (i : nat) (bs : list gblock) : fields :=
  match bs with [] => [] | b :: t => gblock_fields i b ++ gblocks_fields (S i) t end.
Definition gnss_fields (ver hw use_ : Z) (bs : list gblock) : fields :=
  [("msgVer"%string, TU 1, VInt ver); ("numTrkChHw"%string, TU 1, VInt hw);
   ("numTrkChUse"%string, TU 1, VInt use_);
   ("numConfigBlocks"%string, TU 1, VInt (Z.of_nat (length bs)))] ++ gblocks_fields 0 bs.

(* lever arms *)
Record larm := mkL { l_type : Z; l_x : Z; l_y : Z; l_z : Z }.
Definition larm_fields (i : nat) (a : larm) : fields :=
  [(fname "leverArmType" i, TU 1, VInt (l_type a)); (fname "res2" i, TPad 1, VInt 0);
   (fname "leverArmX" i, TI 2, VInt (l_x a)); (fname "leverArmY" i, TI 2, VInt (l_y a));
   (fname "leverArmZ" i, TI 2, VInt (l_z a))].
Fixpoint larms_fields (i : nat) (l : list larm) : fields :=
  match l with [] => [] | a :: t => larm_fields i a ++ larms_fields (S i) t end.
Definition esfla_fields (ver : Z) (l : list larm) : fields :=
  [("version"%string, TU 1, VInt ver); ("numConfigs"%string, TU 1, VInt (Z.of_nat (length l)));
   ("res1"%string, TPad 2, VInt 0)] ++ larms_fields 0 l.
Fixpoint spec_lever (t : Z) (l : list larm) : option (Z * Z * Z) :=
  match l with
  | [] => None
  | a :: r => if l_type a =? t then Some (l_x a, l_y a, l_z a) else spec_lever t r
  end.
