(* A scripted serial line for scan(): receive pops scripted events; flush (reset_input_buffer before
   the scan starts) does not touch what arrives later. *)
From Ubx Require Import Fields Base Request ScriptBackend.
Definition scan_backend : backend script := mkBackend script s_receive s_transmit (fun s => s) s_recover.
