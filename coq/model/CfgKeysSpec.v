(* Specification side for C13 / C14 (configuration key/value items). Definitions only. *)
From Ubx Require Import Fields Base CfgKeys.
Open Scope N_scope.

(* The 32-bit key id as the u-blox interface description lays it out:
   size code in bits 30..28, group in bits 23..16, item in bits 11..0 *)
Definition size_code (bits : Z) : N :=
  if (bits =? 1)%Z then 1 else if (bits =? 8)%Z then 2 else if (bits =? 16)%Z then 3
  else if (bits =? 32)%Z then 4 else if (bits =? 64)%Z then 5 else 0.
Definition key_id (bits g i : Z) : N := size_code bits * 2 ^ 28 + Z.to_N g * 2 ^ 16 + Z.to_N i.

Definition valid_bits (bits : Z) : bool :=
  ((bits =? 1) || (bits =? 8) || (bits =? 16) || (bits =? 32) || (bits =? 64))%Z.
Definition value_width (bits : Z) : nat :=
  if (bits =? 16)%Z then 2%nat else if (bits =? 32)%Z then 4%nat else if (bits =? 64)%Z then 8%nat else 1%nat.

(* value range of a (bits, signed) integer item *)
Definition int_in_range (bits : Z) (signed : bool) (v : Z) : bool :=
  if signed then ((- 2 ^ (bits - 1) <=? v) && (v <? 2 ^ (bits - 1)))%Z
  else ((0 <=? v) && (v <? 2 ^ bits))%Z.

(* how a decoder that believes signedness s' reads back a value packed as (bits, v) *)
Definition reinterp (s' : bool) (bits v : Z) : Z :=
  let u := (v mod 2 ^ bits)%Z in
  if s' && (2 ^ (bits - 1) <=? u)%Z then (u - 2 ^ bits)%Z else u.

(* reserved key bits: 31, 27..24, 15..12 *)
Definition reserved_zero (key : N) : bool :=
  (N.land key (2 ^ 31 + 15 * 2 ^ 24 + 15 * 2 ^ 12) =? 0) && (key <? 2 ^ 32).
Definition key_size (key : N) : N := N.land (N.shiftr key 28) 7.

(* clearing the reserved bits in an encoded item (first four bytes = little-endian key) *)
Definition clear_reserved (bs : bytes) : bytes :=
  match bs with
  | b0 :: b1 :: b2 :: b3 :: rest => b0 :: N.land b1 15 :: b2 :: N.land b3 112 :: rest
  | _ => bs
  end.
