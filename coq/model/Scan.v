(* Model of server_tty.GnssUBlox.scan(): bit-rate scan with two private parsers. Definitions only. *)
From Ubx Require Import Fields Base Checksum ParserUbx ParserNmea Request.
Open Scope N_scope.

Record scan_world (E : Type) := mkScan {
  sc_ubx : parser;            (* UbxParser(None): no filter, nothing but error markers is queued *)
  sc_nmea : nparser;
  sc_env : E;
  sc_now : N;
  sc_rx : list (option bytes * N)     (* ghost: receive results, oldest first *)
}.
Arguments sc_ubx {E}. Arguments sc_nmea {E}. Arguments sc_env {E}. Arguments sc_now {E}. Arguments sc_rx {E}.
Arguments mkScan {E}.

Inductive scan_result := ScanTrue | ScanNone | ScanFuel.

Section Scan.
Context {E : Type} (B : backend E).

(* while time.time() < t_end: data = _receive(); if data: ubx.process; >= 2 -> True; nmea.process; >= 2 -> True *)
Fixpoint scan_loop (fuel : nat) (deadline : N) (w : scan_world E) : scan_result * scan_world E :=
  match fuel with
  | O => (ScanFuel, w)
  | S k =>
      if sc_now w <? deadline then
        let '(data, dt, e') := receive B (sc_env w) in
        let w1 := mkScan (sc_ubx w) (sc_nmea w) e' (sc_now w + dt) (sc_rx w ++ [(data, dt)]) in
        match nonempty data with
        | None => scan_loop k deadline w1
        | Some d =>
            let u := process (sc_ubx w1) d in
            if 2 <=? rx u then (ScanTrue, mkScan u (sc_nmea w1) (sc_env w1) (sc_now w1) (sc_rx w1))
            else
              let n := nprocess (sc_nmea w1) d in
              let w2 := mkScan u n (sc_env w1) (sc_now w1) (sc_rx w1) in
              if 2 <=? nrx n then (ScanTrue, w2) else scan_loop k deadline w2
        end
      else (ScanNone, w)
  end.

(* scan(interval): fresh parsers, flush, deadline = now + interval *)
Definition scan (fuel : nat) (interval : N) (e : E) (now : N) : scan_result * scan_world E :=
  let w := mkScan (fresh None) nfresh (flush B e) now [] in
  scan_loop fuel (now + interval) w.
End Scan.

Definition scan_stream {E} (w : scan_world E) : bytes :=
  flat_map (fun ev => match fst ev with Some d => d | None => [] end) (sc_rx w).
