(* Specification vocabulary for the request-layer properties C04 C05 C06 C10 C12.
   Definitions only. *)
From Ubx Require Import Fields Base Checksum Frame ParserUbx ParserUbxSpec CfgKeys Request.
Open Scope N_scope.

(* ---- traces ------------------------------------------------------------------------- *)
Definition is_tx (e : event) : bool := match e with Tx _ _ => true | _ => false end.
Definition is_rx (e : event) : bool := match e with Rx _ _ => true | _ => false end.
Definition count_tx (tr : list event) : nat := length (filter is_tx tr).

(* bytes received after the most recent successful transmission (None: there was none) *)
Fixpoint rx_after_last_tx (tr : list event) : option bytes :=
  match tr with
  | [] => None
  | ev :: t =>
      match rx_after_last_tx t with
      | Some s => Some s                                   (* a later successful Tx exists *)
      | None =>
          match ev with
          | Tx _ true =>
              Some (flat_map (fun e => match e with
                                       | Rx (Some d) _ => d
                                       | _ => []
                                       end) t)
          | _ => None
          end
      end
  end.

(* ---- assumptions on the environment ------------------------------------------------- *)
Definition rx_dt {E} (B : backend E) (e : E) : N := snd (fst (receive B e)).
Definition rx_data {E} (B : backend E) (e : E) : option bytes := fst (fst (receive B e)).
(* every receive call takes some time, at most T (virtual ms; unit-free) *)
Definition dt_pos {E} (B : backend E) : Prop := forall e, 0 < rx_dt B e.
Definition dt_le {E} (B : backend E) (T : N) : Prop := forall e, rx_dt B e <= T.
(* what is received are bytes *)
Definition rx_bytes {E} (B : backend E) : Prop :=
  forall e d, rx_data B e = Some d -> Forall (fun b => b < 256) d.

(* ---- filters of the request kinds --------------------------------------------------- *)
Definition poll_filter (c : cid) : list cid :=
  if fst c =? CLASS_CFG then [c; CID_ACK; CID_NAK] else [c].
Definition is_cfg (c : cid) : bool := fst c =? CLASS_CFG.
(* waiting periods per attempt *)
Definition periods (o : rop) (c : cid) : N :=
  match o with RPoll => if is_cfg c then 2 else 1 | RFire => 0 | _ => 1 end.

(* an ACK-ACK payload names the request *)
Definition ack_names (payload : bytes) (c : cid) : Prop :=
  exists rest, payload = fst c :: snd c :: rest.

(* ---- independence (C10) ------------------------------------------------------------- *)
Definition reg_agree (r1 r2 : registry) : Prop :=
  reg_lookup r1 CID_ACK = reg_lookup r2 CID_ACK
  /\ reg_lookup r1 CID_NAK = reg_lookup r2 CID_NAK
  /\ reg_lookup r1 CID_MGA_ACK = reg_lookup r2 CID_MGA_ACK.
Definition srv_equiv (s1 s2 : srv) : Prop :=
  sretries s1 = sretries s2 /\ sdelay s1 = sdelay s2 /\ reg_agree (sreg s1) (sreg s2).
(* events appended by a request *)
Definition new_events {E} (w w' : world E) : list event := skipn (length (wtrace w)) (wtrace w').

(* ---- good answers (C06) ------------------------------------------------------------- *)
(* n successive receive calls from environment state e *)
Fixpoint rx_unfold {E} (B : backend E) (e : E) (n : nat) : list (option bytes * N) * E :=
  match n with
  | O => ([], e)
  | S k => let '(d, dt, e') := receive B e in
           let (evs, e'') := rx_unfold B e' k in ((d, dt) :: evs, e'')
  end.
Definition chunks_of (evs : list (option bytes * N)) : bytes :=
  flat_map (fun ev => match fst ev with Some d => d | None => [] end) evs.
Definition time_of (evs : list (option bytes * N)) : N := fold_right (fun ev acc => snd ev + acc) 0 evs.

(* traffic that is not an answer-class frame for this filter: grammar segments that deliver
   nothing (no frame whose class/id is in the filter, no checksum-failed frame) *)
Definition inert (filt : list cid) (segs : list seg) : Prop :=
  Forall seg_ok segs /\ Forall (fun s => expected (Some filt) s = []) segs.

(* The receive events [evs] deliver, in time for [deadline] when waiting starts at [now], inert
   traffic followed by the frame (c, i, pl), whose last byte arrives in the last event. *)
Definition delivers (filt : list cid) (now deadline : N) (evs : list (option bytes * N))
           (c i : N) (pl : bytes) : Prop :=
  exists segs,
    inert filt segs /\ no_adj_junk (segs ++ [SFrame c i pl]) = true
    /\ chunks_of evs = flat_map seg_bytes segs ++ wire c i pl
    /\ (length pl <= 1000)%nat
    /\ evs <> []
    /\ (exists d, fst (last evs (None, 0)) = Some d /\ d <> [])
    /\ now + time_of (removelast evs) < deadline.

(* ---- sequences of requests (C10) ---------------------------------------------------- *)
Fixpoint run_seq {E} (B : backend E) (sk : list N) (fuel : nat) (rs : list (rop * request)) (w : world E) : world E :=
  match rs with
  | [] => w
  | (o, rq) :: t => run_seq B sk fuel t (snd (do_request B sk fuel o rq w))
  end.
(* a poll does not re-register the classes the library itself relies on (ACK-ACK, ACK-NAK, MGA-ACK) *)
Definition keeps_base (orq : rop * request) : Prop :=
  fst orq = RPoll -> ~ In (rq_cid (snd orq)) [CID_ACK; CID_NAK; CID_MGA_ACK].

(* ---- the k-th attempt (C06) --------------------------------------------------------- *)
Section Attempts.
Context {E : Type} (B : backend E) (sk : list N) (fuel : nat).

(* outcome of the waiting part of ONE attempt, after a successful transmission and the purge:
   Some f = the request returns f; None = the attempt fails and the next one starts from w'
   (recovery included where the code recovers) *)
Definition attempt_wait (o : rop) (req : cid) (w : world E) : option (option rframe * world E) :=
  match o with
  | RPoll =>
      match poll_phase B sk fuel req false None (wnow w + sdelay (wsrv w)) w with
      | (AOk f, w') => Some (Some f, w')
      | (ATimeout, w') => Some (None, do_recover B w')
      | (AFuel, _) => None
      end
  | RSet | RSetMga =>
      match wait B sk fuel (wnow w + sdelay (wsrv w)) w with
      | (None, _) => None
      | (Some None, w') => Some (None, do_recover B w')
      | (Some (Some f), w') =>
          let accept := match o with
                        | RSetMga => check_mga f
                        | _ => match check_ack_nak req f with IsAck | IsNak => true | IsOther => false end
                        end in
          if accept then Some (Some f, w') else Some (None, w')
      end
  | RFire => None
  end.

(* n attempts that all fail (failed transmission, timeout, rejected answer ...), leading from w to w' *)
Inductive failed_attempts (o : rop) (req : cid) (payload : bytes) : nat -> world E -> world E -> Prop :=
| fa_zero w : failed_attempts o req payload 0 w w
| fa_txfail n w w1 w' :
    send B (do_flush B w) req payload = (false, w1) ->
    failed_attempts o req payload n w1 w' -> failed_attempts o req payload (S n) w w'
| fa_nowait n w w1 w2 w' :
    send B (do_flush B w) req payload = (true, w1) ->
    attempt_wait o req (purge w1) = Some (None, w2) ->
    failed_attempts o req payload n w2 w' -> failed_attempts o req payload (S n) w w'.
End Attempts.
