(* Model of ubxlib/parser_ubx.py (class UbxParser). Definitions only. *)
From Ubx Require Import Base Checksum.

Inductive pstate := INIT | SYNC | CLASS | ID | LEN1 | LEN2 | DATA | CRC1 | CRC2.

(* What sits in rx_queue: (cid, payload) or the checksum-error marker (crc_error_cid, None) *)
Inductive pkt :=
| Pkt (c i : N) (payload : bytes)
| CrcErr.

Definition cid := (N * N)%type.
Definition cid_eqb (a b : cid) : bool := (fst a =? fst b) && (snd a =? snd b).

(* Per-frame registers, (re)initialised by _reset() *)
Record regs := mkRegs {
  mcls : N; mid : N; mlen : N; mdata : bytes; mcka : N; mckb : N; ofs : N; cks : ck
}.
Definition regs0 : regs := mkRegs 0 0 0 [] 0 0 0 ck_reset.

Record parser := mkParser {
  st : pstate;
  rg : regs;
  queue : list pkt;          (* rx_queue, head = oldest *)
  rx : N;                    (* frames_rx *)
  filt : option (list cid)   (* wait_cids: None, or a list (possibly empty) *)
}.

Definition MAX_MESSAGE_LENGTH : N := 1000.

Definition fresh (f : option (list cid)) : parser := mkParser INIT regs0 [] 0 f.

Definition with_st (p : parser) (s : pstate) : parser :=
  mkParser s (rg p) (queue p) (rx p) (filt p).
Definition with_rg (p : parser) (s : pstate) (r : regs) : parser :=
  mkParser s r (queue p) (rx p) (filt p).

(* `self.wait_cids and cid in self.wait_cids` *)
Definition in_filter (f : option (list cid)) (c : cid) : bool :=
  match f with
  | None => false
  | Some l => existsb (cid_eqb c) l
  end.

Definition step (p : parser) (d : N) : parser :=
  let r := rg p in
  match st p with
  | INIT => if d =? 181 then with_st p SYNC else p
  | SYNC =>
      if d =? 98 then with_rg p CLASS regs0
      else if d =? 181 then p            (* stays in SYNC (F2 repair) *)
      else with_st p INIT
  | CLASS =>
      with_rg p ID (mkRegs d (mid r) (mlen r) (mdata r) (mcka r) (mckb r) (ofs r) (ck_add (cks r) d))
  | ID =>
      with_rg p LEN1 (mkRegs (mcls r) d (mlen r) (mdata r) (mcka r) (mckb r) (ofs r) (ck_add (cks r) d))
  | LEN1 =>
      with_rg p LEN2 (mkRegs (mcls r) (mid r) d (mdata r) (mcka r) (mckb r) (ofs r) (ck_add (cks r) d))
  | LEN2 =>
      let len := mlen r + d * 256 in
      let r' := mkRegs (mcls r) (mid r) len (mdata r) (mcka r) (mckb r) (ofs r) (ck_add (cks r) d) in
      if len =? 0 then with_rg p CRC1 r'
      else if MAX_MESSAGE_LENGTH <? len then with_rg p INIT r'
      else with_rg p DATA (mkRegs (mcls r) (mid r) len (mdata r) (mcka r) (mckb r) 0 (ck_add (cks r) d))
  | DATA =>
      let o := ofs r + 1 in
      let r' := mkRegs (mcls r) (mid r) (mlen r) (mdata r ++ [d]) (mcka r) (mckb r) o (ck_add (cks r) d) in
      if o =? mlen r then with_rg p CRC1 r' else with_rg p DATA r'
  | CRC1 =>
      with_rg p CRC2 (mkRegs (mcls r) (mid r) (mlen r) (mdata r) d (mckb r) (ofs r) (cks r))
  | CRC2 =>
      let r' := mkRegs (mcls r) (mid r) (mlen r) (mdata r) (mcka r) d (ofs r) (cks r) in
      if ck_matches (cks r) (mcka r) d then
        if in_filter (filt p) (mcls r, mid r)
        then mkParser INIT r' (queue p ++ [Pkt (mcls r) (mid r) (mdata r)]) (rx p + 1) (filt p)
        else mkParser INIT r' (queue p) (rx p + 1) (filt p)
      else mkParser INIT r' (queue p ++ [CrcErr]) (rx p) (filt p)
  end.

Definition process (p : parser) (data : bytes) : parser := fold_left step data p.

Definition restart (p : parser) : parser := with_st p INIT.
Definition set_filters (p : parser) (l : list cid) : parser :=
  mkParser (st p) (rg p) (queue p) (rx p) (Some l).
Definition set_filter (p : parser) (c : cid) : parser := set_filters p [c].
Definition empty_queue (p : parser) : parser :=
  mkParser (st p) (rg p) [] (rx p) (filt p).
(* packet(): pops the head; None stands for the (None, None) sentinel *)
Definition packet (p : parser) : option pkt * parser :=
  match queue p with
  | [] => (None, p)
  | x :: q => (Some x, mkParser (st p) (rg p) q (rx p) (filt p))
  end.

(* Operation language for schedules of API calls (C09, C11) *)
Inductive op :=
| OProcess (data : bytes)
| OSetFilter (c : cid)
| OSetFilters (l : list cid)
| OEmptyQueue
| OPacket
| ORestart.

Inductive out :=
| ONone                       (* call returns nothing *)
| OPkt (x : option pkt).      (* result of packet() *)

Definition run_op (p : parser) (o : op) : parser * out :=
  match o with
  | OProcess d => (process p d, ONone)
  | OSetFilter c => (set_filter p c, ONone)
  | OSetFilters l => (set_filters p l, ONone)
  | OEmptyQueue => (empty_queue p, ONone)
  | OPacket => let (x, p') := packet p in (p', OPkt x)
  | ORestart => (restart p, ONone)
  end.

Fixpoint run (p : parser) (ops : list op) : parser * list out :=
  match ops with
  | [] => (p, [])
  | o :: t => let (p', x) := run_op p o in
              let (p'', xs) := run p' t in (p'', x :: xs)
  end.
