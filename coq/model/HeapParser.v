(* A heap-level model of UbxParser for the aliasing part of C11: msg_data is a mutable bytearray OBJECT that is
   queued by reference and handed out by packet(). Buffers live in a heap; packets carry buffer indices.
   `_reset()` allocates a new buffer (self.msg_data = bytearray()); DATA appends in place to the current one.
   Definitions only. The value model (ParserUbx.v) is its abstraction; see proofs/HeapParserP.v. *)
From Ubx Require Import Base Checksum ParserUbx.
Open Scope N_scope.

Inductive hpkt := HPkt (c i : N) (buf : nat) | HCrcErr.

Record hparser := mkHP {
  h_st : pstate;
  h_cls : N; h_id : N; h_len : N; h_cka : N; h_ckb : N; h_ofs : N; h_ck : ck;
  h_cur : nat;                    (* index of the buffer self.msg_data refers to *)
  h_heap : list bytes;            (* all bytearray objects ever allocated by this parser *)
  h_queue : list hpkt;
  h_out : list nat;               (* ghost: buffers already handed out by packet() *)
  h_rx : N;
  h_filt : option (list cid)
}.

Definition hget (h : list bytes) (i : nat) : bytes := nth i h [].
Fixpoint hset (h : list bytes) (i : nat) (v : bytes) : list bytes :=
  match h, i with
  | [], _ => []
  | _ :: t, O => v :: t
  | x :: t, S k => x :: hset t k v
  end.

Definition hfresh (f : option (list cid)) : hparser :=
  mkHP INIT 0 0 0 0 0 0 ck_reset 0 [[]] [] [] 0 f.

(* one byte; [reuse] = false is the real code (allocation in _reset); [reuse] = true models the tempting
   optimisation `self.msg_data.clear()` *)
Definition hstep (reuse : bool) (p : hparser) (d : N) : hparser :=
  match h_st p with
  | INIT => if d =? 181 then mkHP SYNC (h_cls p) (h_id p) (h_len p) (h_cka p) (h_ckb p) (h_ofs p) (h_ck p) (h_cur p) (h_heap p) (h_queue p) (h_out p) (h_rx p) (h_filt p) else p
  | SYNC =>
      if d =? 98 then
        if reuse
        then mkHP CLASS 0 0 0 0 0 0 ck_reset (h_cur p) (hset (h_heap p) (h_cur p) []) (h_queue p) (h_out p) (h_rx p) (h_filt p)
        else mkHP CLASS 0 0 0 0 0 0 ck_reset (length (h_heap p)) (h_heap p ++ [[]]) (h_queue p) (h_out p) (h_rx p) (h_filt p)
      else if d =? 181 then p
      else mkHP INIT (h_cls p) (h_id p) (h_len p) (h_cka p) (h_ckb p) (h_ofs p) (h_ck p) (h_cur p) (h_heap p) (h_queue p) (h_out p) (h_rx p) (h_filt p)
  | CLASS => mkHP ID d (h_id p) (h_len p) (h_cka p) (h_ckb p) (h_ofs p) (ck_add (h_ck p) d) (h_cur p) (h_heap p) (h_queue p) (h_out p) (h_rx p) (h_filt p)
  | ID => mkHP LEN1 (h_cls p) d (h_len p) (h_cka p) (h_ckb p) (h_ofs p) (ck_add (h_ck p) d) (h_cur p) (h_heap p) (h_queue p) (h_out p) (h_rx p) (h_filt p)
  | LEN1 => mkHP LEN2 (h_cls p) (h_id p) d (h_cka p) (h_ckb p) (h_ofs p) (ck_add (h_ck p) d) (h_cur p) (h_heap p) (h_queue p) (h_out p) (h_rx p) (h_filt p)
  | LEN2 =>
      let len := h_len p + d * 256 in
      let k := ck_add (h_ck p) d in
      if len =? 0 then mkHP CRC1 (h_cls p) (h_id p) len (h_cka p) (h_ckb p) (h_ofs p) k (h_cur p) (h_heap p) (h_queue p) (h_out p) (h_rx p) (h_filt p)
      else if MAX_MESSAGE_LENGTH <? len then mkHP INIT (h_cls p) (h_id p) len (h_cka p) (h_ckb p) (h_ofs p) k (h_cur p) (h_heap p) (h_queue p) (h_out p) (h_rx p) (h_filt p)
      else mkHP DATA (h_cls p) (h_id p) len (h_cka p) (h_ckb p) 0 k (h_cur p) (h_heap p) (h_queue p) (h_out p) (h_rx p) (h_filt p)
  | DATA =>
      let o := h_ofs p + 1 in
      let heap' := hset (h_heap p) (h_cur p) (hget (h_heap p) (h_cur p) ++ [d]) in       (* in-place append *)
      mkHP (if o =? h_len p then CRC1 else DATA) (h_cls p) (h_id p) (h_len p) (h_cka p) (h_ckb p) o (ck_add (h_ck p) d)
           (h_cur p) heap' (h_queue p) (h_out p) (h_rx p) (h_filt p)
  | CRC1 => mkHP CRC2 (h_cls p) (h_id p) (h_len p) d (h_ckb p) (h_ofs p) (h_ck p) (h_cur p) (h_heap p) (h_queue p) (h_out p) (h_rx p) (h_filt p)
  | CRC2 =>
      if ck_matches (h_ck p) (h_cka p) d then
        if in_filter (h_filt p) (h_cls p, h_id p)
        then mkHP INIT (h_cls p) (h_id p) (h_len p) (h_cka p) d (h_ofs p) (h_ck p) (h_cur p) (h_heap p)
                  (h_queue p ++ [HPkt (h_cls p) (h_id p) (h_cur p)]) (h_out p) (h_rx p + 1) (h_filt p)
        else mkHP INIT (h_cls p) (h_id p) (h_len p) (h_cka p) d (h_ofs p) (h_ck p) (h_cur p) (h_heap p) (h_queue p) (h_out p) (h_rx p + 1) (h_filt p)
      else mkHP INIT (h_cls p) (h_id p) (h_len p) (h_cka p) d (h_ofs p) (h_ck p) (h_cur p) (h_heap p) (h_queue p ++ [HCrcErr]) (h_out p) (h_rx p) (h_filt p)
  end.

Definition hprocess (reuse : bool) (p : hparser) (data : bytes) : hparser := fold_left (hstep reuse) data p.

(* packet(): pops the head and hands the buffer OBJECT out *)
Definition hpacket (p : hparser) : option hpkt * hparser :=
  match h_queue p with
  | [] => (None, p)
  | x :: q =>
      let out' := match x with HPkt _ _ b => b :: h_out p | HCrcErr => h_out p end in
      (Some x, mkHP (h_st p) (h_cls p) (h_id p) (h_len p) (h_cka p) (h_ckb p) (h_ofs p) (h_ck p) (h_cur p) (h_heap p) q out' (h_rx p) (h_filt p))
  end.
Definition hrestart (p : hparser) : hparser :=
  mkHP INIT (h_cls p) (h_id p) (h_len p) (h_cka p) (h_ckb p) (h_ofs p) (h_ck p) (h_cur p) (h_heap p) (h_queue p) (h_out p) (h_rx p) (h_filt p).
Definition hset_filters (p : hparser) (l : list cid) : hparser :=
  mkHP (h_st p) (h_cls p) (h_id p) (h_len p) (h_cka p) (h_ckb p) (h_ofs p) (h_ck p) (h_cur p) (h_heap p) (h_queue p) (h_out p) (h_rx p) (Some l).
Definition hempty_queue (p : hparser) : hparser :=
  mkHP (h_st p) (h_cls p) (h_id p) (h_len p) (h_cka p) (h_ckb p) (h_ofs p) (h_ck p) (h_cur p) (h_heap p) [] (h_out p) (h_rx p) (h_filt p).

Inductive hop := HProcess (d : bytes) | HSetFilters (l : list cid) | HEmptyQueue | HPacket | HRestart.
Definition hrun_op (reuse : bool) (p : hparser) (o : hop) : hparser :=
  match o with
  | HProcess d => hprocess reuse p d
  | HSetFilters l => hset_filters p l
  | HEmptyQueue => hempty_queue p
  | HPacket => snd (hpacket p)
  | HRestart => hrestart p
  end.
Definition hrun (reuse : bool) (p : hparser) (ops : list hop) : hparser := fold_left (hrun_op reuse) ops p.

(* buffers somebody else may be holding: queued or handed out *)
Definition exposed (p : hparser) : list nat :=
  flat_map (fun x => match x with HPkt _ _ b => [b] | HCrcErr => [] end) (h_queue p) ++ h_out p.

(* abstraction to the value model *)
Definition deref (h : list bytes) (x : hpkt) : pkt :=
  match x with HPkt c i b => Pkt c i (hget h b) | HCrcErr => CrcErr end.
Definition habs (p : hparser) : parser :=
  mkParser (h_st p)
           (mkRegs (h_cls p) (h_id p) (h_len p) (hget (h_heap p) (h_cur p)) (h_cka p) (h_ckb p) (h_ofs p) (h_ck p))
           (map (deref (h_heap p)) (h_queue p)) (h_rx p) (h_filt p).
