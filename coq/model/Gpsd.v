(* Model of the gpsd handshake in server.py: _parse_gpsd_msg / _parse_version / _parse_devices.
   Input is the PARSED line (bytes.decode, splitlines, json.loads are environment). Definitions only.
   Mirrors the code after the F8 repair (non-object JSON values are ignored). *)
From Ubx Require Import Fields Base.

Inductive json :=
| JObj (members : list (string * json))
| JArr (items : list json)
| JStr (s : string)
| JNum | JBool (b : bool) | JNull.

Inductive line :=
| NotJson                  (* json.loads raises JSONDecodeError: NMEA, text, partial objects *)
| J (v : json).
Inductive chunk :=
| Undecodable              (* bytes.decode raises UnicodeDecodeError: binary UBX data *)
| Lines (ls : list line).

(* dict lookup after json.loads: the last duplicate wins *)
Fixpoint jget (m : list (string * json)) (k : string) : option json :=
  match m with
  | [] => None
  | (k', v) :: t => match jget t k with
                    | Some x => Some x
                    | None => if String.eqb k k' then Some v else None
                    end
  end.

Record gstate := mkG {
  g_req : option string;       (* device_name given to the constructor (None or '' = not given) *)
  g_sel : option string;       (* selected_device *)
  g_enabled : bool;
  g_release : option json
}.
Definition ginit (req : option string) : gstate := mkG req None false None.
Definition requested (s : gstate) : option string :=
  match g_req s with Some EmptyString => None | x => x end.      (* `if self.device_name:` *)

(* for device in data['devices']: ... break *)
Fixpoint pick_device (s : gstate) (devs : list json) : res gstate :=
  match devs with
  | [] => Ok s
  | d :: t =>
      match d with
      | JObj m =>
          match jget m "path" with
          | None => Raise KeyError
          | Some p =>
              match requested s with
              | Some r =>
                  match p with
                  | JStr ps => if String.eqb r ps then Ok (mkG (g_req s) (Some r) true (g_release s))
                               else pick_device s t
                  | _ => pick_device s t                 (* str == non-str is False *)
                  end
              | None =>
                  match p with
                  | JStr ps => Ok (mkG (g_req s) (Some ps) true (g_release s))
                  | _ => Raise TypeError                 (* not modelled further: path must be a string *)
                  end
              end
          end
      | _ => Raise TypeError                             (* device['path'] on a non-object *)
      end
  end.

Definition parse_line (s : gstate) (l : line) : res gstate :=
  match l with
  | NotJson => Ok s
  | J (JObj m) =>
      match jget m "class" with
      | Some (JStr "VERSION") =>
          match jget m "release" with
          | Some r => Ok (mkG (g_req s) (g_sel s) (g_enabled s) (Some r))
          | None => Raise KeyError
          end
      | Some (JStr "DEVICES") =>
          match jget m "devices" with
          | Some (JArr devs) => pick_device s devs
          | Some _ => Raise TypeError
          | None => Raise KeyError
          end
      | _ => Ok s
      end
  | J _ => Ok s                                          (* arrays, strings, numbers, true/false/null *)
  end.

Fixpoint parse_lines (s : gstate) (ls : list line) : res gstate :=
  match ls with [] => Ok s | l :: t => let* s' := parse_line s l in parse_lines s' t end.
Definition parse_chunk (s : gstate) (c : chunk) : res gstate :=
  match c with Undecodable => Ok s | Lines ls => parse_lines s ls end.
Fixpoint parse_chunks (s : gstate) (cs : list chunk) : res gstate :=
  match cs with [] => Ok s | c :: t => let* s' := parse_chunk s c in parse_chunks s' t end.

(* cmd_header = f'&{selected_device}=' *)
Definition cmd_header (s : gstate) : option string :=
  match g_sel s with Some d => Some (append "&" (append d "=")) | None => None end.

(* well-formedness of VERSION / DEVICES objects (the property's proviso) *)
Definition device_ok (d : json) : bool :=
  match d with JObj m => match jget m "path" with Some (JStr _) => true | _ => false end | _ => false end.
Definition line_ok (l : line) : bool :=
  match l with
  | J (JObj m) =>
      match jget m "class" with
      | Some (JStr "VERSION") => match jget m "release" with Some _ => true | None => false end
      | Some (JStr "DEVICES") => match jget m "devices" with Some (JArr ds) => forallb device_ok ds | _ => false end
      | _ => true
      end
  | _ => true
  end.
Definition chunk_ok (c : chunk) : bool := match c with Undecodable => true | Lines ls => forallb line_ok ls end.

Definition paths (devs : list json) : list string :=
  flat_map (fun d => match d with JObj m => match jget m "path" with Some (JStr p) => [p] | _ => [] end | _ => [] end) devs.
Definition devices_msg (devs : list json) : line := J (JObj [("class"%string, JStr "DEVICES"); ("devices"%string, JArr devs)]).

(* _enable(): `self.enabled = False; while not self.enabled: data = recv(); if data: _parse_gpsd_msg(data)` over the
   chunks the data socket delivers (a timeout or an empty read is no chunk). Returns the state reached and the chunks
   NOT read; with the chunk list exhausted and the connection still not ready the real loop keeps waiting - here: the
   state reached and nothing left. setup() then builds the command header from the selected device. *)
Fixpoint enable_loop (s : gstate) (cs : list chunk) : res (gstate * list chunk) :=
  match cs with
  | [] => Ok (s, [])
  | c :: t =>
      match parse_chunk s c with
      | Raise e => Raise e
      | Ok s' => if g_enabled s' then Ok (s', t) else enable_loop s' t
      end
  end.
