(* The u-blox message layouts (M8/M9 interface descriptions), written by hand with EXPLICIT
   offsets, independently of how ubxlib declares its field lists: the yardstick for C07.
   Field names are the library's API names. (field, offset, width, kind); X (bitfield) fields are
   unsigned and listed as KU.  Transcribed from memory in a sealed sandbox — see DESIGN.md §6. *)
From Ubx Require Import Fields Base FieldsSpec.
Open Scope nat_scope.
Open Scope string_scope.

Definition fspec := (string * nat * nat * ukind)%type.

Inductive uspec :=
| UFixed (fs : list fspec)
| UCounted (hdr : list fspec) (count : string) (maxc : option N) (stride : nat)
           (blk : list fspec)        (* offsets relative to the start of the block *)
| UMonVer.

Definition ack_fields : list fspec := [("clsId", 0, 1, KU); ("msgId", 1, 1, KU)].

Definition ublox : list (string * (N * N) * string * uspec) := [
  ("UbxAckAck", (5, 1)%N, "UBX-ACK-ACK", UFixed ack_fields);
  ("UbxAckNak", (5, 0)%N, "UBX-ACK-NAK", UFixed ack_fields);

  ("UbxCfgCfg_", (6, 9)%N, "UBX-CFG-CFG", UFixed []);
  ("UbxCfgCfgAction", (6, 9)%N, "UBX-CFG-CFG-ACTION",
     UFixed [("clearMask", 0, 4, KU); ("saveMask", 4, 4, KU); ("loadMask", 8, 4, KU)]);

  ("UbxCfgEsfAlg_", (6, 86)%N, "UBX-CFG-ESFALG", UFixed []);
  ("UbxCfgEsfAlgPoll", (6, 86)%N, "UBX-CFG-ESFALG-POLL", UFixed []);
  ("UbxCfgEsfAlg", (6, 86)%N, "UBX-CFG-ESFALG",
     UFixed [("bitfield", 0, 4, KU); ("yaw", 4, 4, KU); ("pitch", 8, 2, KI); ("roll", 10, 2, KI)]);

  ("UbxCfgEsfla_", (6, 47)%N, "UBX-CFG-ESFLA", UFixed []);
  ("UbxCfgEsflaPoll", (6, 47)%N, "UBX-CFG-ESFLA-POLL", UFixed []);
  ("UbxCfgEsfla", (6, 47)%N, "UBX-CFG-ESFLA",
     UCounted [("version", 0, 1, KU); ("numConfigs", 1, 1, KU); ("res1", 2, 2, KPad)]
              "numConfigs" (Some 5%N) 8
              [("leverArmType", 0, 1, KU); ("res2", 1, 1, KPad); ("leverArmX", 2, 2, KI);
               ("leverArmY", 4, 2, KI); ("leverArmZ", 6, 2, KI)]);
  ("UbxCfgEsflaSet", (6, 47)%N, "UBX-CFG-ESFLA",
     UFixed [("version", 0, 1, KU); ("numConfigs", 1, 1, KU); ("res1", 2, 2, KPad);
             ("leverArmType", 4, 1, KU); ("res2", 5, 1, KPad); ("leverArmX", 6, 2, KI);
             ("leverArmY", 8, 2, KI); ("leverArmZ", 10, 2, KI)]);

  ("UbxCfgGnss_", (6, 62)%N, "UBX-CFG-GNSS", UFixed []);
  ("UbxCfgGnssPoll", (6, 62)%N, "UBX-CFG-GNSS-POLL", UFixed []);
  ("UbxCfgGnss", (6, 62)%N, "UBX-CFG-GNSS",
     UCounted [("msgVer", 0, 1, KU); ("numTrkChHw", 1, 1, KU); ("numTrkChUse", 2, 1, KU);
               ("numConfigBlocks", 3, 1, KU)]
              "numConfigBlocks" None 8
              [("gnssId", 0, 1, KU); ("resTrkCh", 1, 1, KU); ("maxTrkCh", 2, 1, KU);
               ("res1", 3, 1, KPad); ("flags", 4, 4, KU)]);

  ("UbxCfgNav5_", (6, 36)%N, "UBX-CFG-NAV5", UFixed []);
  ("UbxCfgNav5Poll", (6, 36)%N, "UBX-CFG-NAV5-POLL", UFixed []);
  ("UbxCfgNav5", (6, 36)%N, "UBX-CFG-NAV5",
     UFixed [("mask", 0, 2, KU); ("dynModel", 2, 1, KU); ("fixMode", 3, 1, KU);
             ("fixedAlt", 4, 4, KI); ("fixedAltVar", 8, 4, KU); ("minElev", 12, 1, KI);
             ("drLimit", 13, 1, KU); ("pDop", 14, 2, KU); ("tDop", 16, 2, KU);
             ("pAcc", 18, 2, KU); ("tAcc", 20, 2, KU); ("staticHoldThresh", 22, 1, KU);
             ("dgpsTimeOut", 23, 1, KU); ("cnoThreshNumSVs", 24, 1, KU); ("cnoThresh", 25, 1, KU);
             ("pAccAdr", 26, 2, KU); ("staticHoldMaxDist", 28, 2, KU); ("utcStandard", 30, 1, KU);
             ("res1", 31, 5, KPad)]);

  ("UbxCfgNavx5_", (6, 35)%N, "UBX-CFG-NAVX5", UFixed []);
  ("UbxCfgNavx5Poll", (6, 35)%N, "UBX-CFG-NAVX5-POLL", UFixed []);
  ("UbxCfgNavx5", (6, 35)%N, "UBX-CFG-NAVX5",
     UFixed [("version", 0, 2, KU); ("mask1", 2, 2, KU); ("mask2", 4, 4, KU); ("res1", 8, 2, KPad);
             ("minSVs", 10, 1, KU); ("maxSVs", 11, 1, KU); ("minCN0", 12, 1, KU); ("res2", 13, 1, KPad);
             ("iniFix3D", 14, 1, KU); ("res3", 15, 2, KPad); ("ackAiding", 17, 1, KU);
             ("wknRollover", 18, 2, KU); ("sigAttenCompMode", 20, 1, KU); ("res4", 21, 1, KPad);
             ("res5", 22, 2, KPad); ("res6", 24, 2, KPad); ("usePPP", 26, 1, KU); ("aopCfg", 27, 1, KU);
             ("res7", 28, 2, KPad); ("aopOrbMaxErr", 30, 2, KU); ("res8", 32, 4, KPad);
             ("res9", 36, 3, KPad); ("useAdr", 39, 1, KU); ("res10", 40, 2, KPad); ("res11", 42, 2, KPad)]);

  ("UbxCfgNmea_", (6, 23)%N, "UBX-CFG-NMEA", UFixed []);
  ("UbxCfgNmeaPoll", (6, 23)%N, "UBX-CFG-NMEA-POLL", UFixed []);
  ("UbxCfgNmea", (6, 23)%N, "UBX-CFG-NMEA",
     UFixed [("filter", 0, 1, KU); ("nmeaVersion", 1, 1, KU); ("numSV", 2, 1, KU); ("flags", 3, 1, KU);
             ("gnssToFilter", 4, 4, KU); ("svNumbering", 8, 1, KU); ("mainTalkerId", 9, 1, KU);
             ("gsvTalkerId", 10, 1, KU); ("version", 11, 1, KU); ("bdsTalkerId", 12, 2, KCh);
             ("res1", 14, 6, KPad)]);

  ("UbxCfgPrt_", (6, 0)%N, "UBX-CFG-PRT", UFixed []);
  ("UbxCfgPrtPoll", (6, 0)%N, "UBX-CFG-PRT-POLL", UFixed [("PortId", 0, 1, KU)]);
  ("UbxCfgPrtUart", (6, 0)%N, "UBX-CFG-PRT",
     UFixed [("PortId", 0, 1, KU); ("res1", 1, 1, KPad); ("txReady", 2, 2, KU); ("mode", 4, 4, KU);
             ("baudRate", 8, 4, KU); ("inProtoMask", 12, 2, KU); ("outProtoMask", 14, 2, KU);
             ("flags", 16, 2, KU); ("res2", 18, 2, KPad)]);

  ("UbxCfgRate_", (6, 8)%N, "UBX-CFG-RATE", UFixed []);
  ("UbxCfgRatePoll", (6, 8)%N, "UBX-CFG-RATE-POLL", UFixed []);
  ("UbxCfgRate", (6, 8)%N, "UBX-CFG-RATE",
     UFixed [("measRate", 0, 2, KU); ("navRate", 2, 2, KU); ("timeRef", 4, 2, KU)]);

  ("UbxCfgRst_", (6, 4)%N, "UBX-CFG-RST", UFixed []);
  ("UbxCfgRstAction", (6, 4)%N, "UBX-CFG-RST-ACTION",
     UFixed [("navBbrMask", 0, 2, KU); ("resetMode", 2, 1, KU); ("res1", 3, 1, KPad)]);

  ("UbxCfgTp5_", (6, 49)%N, "UBX-CFG-TP5", UFixed []);
  ("UbxCfgTp5Poll", (6, 49)%N, "UBX-CFG-TP5-POLL", UFixed [("tpIdx", 0, 1, KU)]);
  ("UbxCfgTp5", (6, 49)%N, "UBX-CFG-TP5",
     UFixed [("tpIdx", 0, 1, KU); ("version", 1, 1, KU); ("res1", 2, 2, KPad);
             ("antCableDelay", 4, 2, KI); ("rfGroupDelay", 6, 2, KI);
             ("freqPeriod", 8, 4, KU); ("freqPeriodLock", 12, 4, KU);
             ("pulseLenRatio", 16, 4, KU); ("pulseLenRatioLock", 20, 4, KU);
             ("userConfigDelay", 24, 4, KI); ("flags", 28, 4, KU)]);

  ("UbxCfgValGet_", (6, 139)%N, "UBX-CFG-VALGET", UFixed []);
  ("UbxCfgValSet_", (6, 138)%N, "UBX-CFG-VALSET", UFixed []);

  ("UbxEsfAlg_", (16, 20)%N, "UBX-ESF-ALG", UFixed []);
  ("UbxEsfAlgPoll", (16, 20)%N, "UBX-ESF-ALG-POLL", UFixed []);
  ("UbxEsfAlg", (16, 20)%N, "UBX-ESF-ALG",
     UFixed [("iTow", 0, 4, KU); ("version", 4, 1, KU); ("flags", 5, 1, KU); ("error", 6, 1, KU);
             ("res1", 7, 1, KPad); ("yaw", 8, 4, KU); ("pitch", 12, 2, KI); ("roll", 14, 2, KI)]);
  ("UbxEsfResetAlgAction", (16, 19)%N, "UBX-ESF-RESETALG", UFixed []);

  ("UbxEsfMeas_", (16, 2)%N, "UBX-ESF-MEAS", UFixed []);
  ("UbxEsfMeas", (16, 2)%N, "UBX-ESF-MEAS",
     UFixed [("timeTag", 0, 4, KU); ("flags", 4, 2, KU); ("id", 6, 2, KU); ("data", 8, 4, KU)]);

  ("UbxEsfStatus_", (16, 16)%N, "UBX-ESF-STATUS", UFixed []);
  ("UbxEsfStatusPoll", (16, 16)%N, "UBX-ESF-STATUS-POLL", UFixed []);
  ("UbxEsfStatus", (16, 16)%N, "UBX-ESF-STATUS",
     UCounted [("iTow", 0, 4, KU); ("version", 4, 1, KU); ("initStatus1", 5, 1, KU);
               ("initStatus2", 6, 1, KU); ("res1", 7, 5, KPad); ("fusionMode", 12, 1, KU);
               ("res2", 13, 2, KPad); ("numSens", 15, 1, KU)]
              "numSens" None 4
              [("sensStatus1", 0, 1, KU); ("sensStatus2", 1, 1, KU); ("freq", 2, 1, KU);
               ("faults", 3, 1, KU)]);

  ("UbxMgaAckData0_", (19, 96)%N, "UBX-MGA-ACK-DATA0", UFixed []);
  ("UbxMgaAckData0", (19, 96)%N, "UBX-MGA-ACK-DATA0",
     UFixed [("type", 0, 1, KU); ("version", 1, 1, KU); ("infoCode", 2, 1, KU); ("msgId", 3, 1, KU);
             ("msgPayloadStart", 4, 4, KU)]);

  ("UbxMgaIniTimeUtc_", (19, 64)%N, "UBX-MGA-INI-TIME_UTC", UFixed []);
  ("UbxMgaIniTimeUtc", (19, 64)%N, "UBX-MGA-INI-TIME_UTC",
     UFixed [("type", 0, 1, KU); ("version", 1, 1, KU); ("ref", 2, 1, KU); ("leapSecs", 3, 1, KI);
             ("year", 4, 2, KU); ("month", 6, 1, KU); ("day", 7, 1, KU); ("hour", 8, 1, KU);
             ("minute", 9, 1, KU); ("second", 10, 1, KU); ("res1", 11, 1, KPad); ("ns", 12, 4, KU);
             ("tAccS", 16, 2, KU); ("res2", 18, 2, KPad); ("tAccNs", 20, 4, KU)]);

  ("UbxMonVer_", (10, 4)%N, "UBX-MON-VER", UFixed []);
  ("UbxMonVerPoll", (10, 4)%N, "UBX-MON-VER-POLL", UFixed []);
  ("UbxMonVer", (10, 4)%N, "UBX-MON-VER", UMonVer);

  ("UbxNavStatus_", (1, 3)%N, "UBX-NAV-STATUS", UFixed []);
  ("UbxNavStatusPoll", (1, 3)%N, "UBX-NAV-STATUS-POLL", UFixed []);
  ("UbxNavStatus", (1, 3)%N, "UBX-NAV-STATUS",
     UFixed [("iTow", 0, 4, KU); ("gpsFix", 4, 1, KU); ("flags", 5, 1, KU); ("fixStat", 6, 1, KU);
             ("flags2", 7, 1, KU); ("ttff", 8, 4, KU); ("msss", 12, 4, KU)]);

  ("UbxUpdSos_", (9, 20)%N, "UBX-UPD-SOS", UFixed []);
  ("UbxUpdSosPoll", (9, 20)%N, "UBX-UPD-SOS-POLL", UFixed []);
  ("UbxUpdSos", (9, 20)%N, "UBX-UPD-SOS",
     UFixed [("cmd", 0, 1, KU); ("res1_1", 1, 1, KU); ("res1_2", 2, 1, KU); ("res1_3", 3, 1, KU);
             ("response", 4, 1, KU); ("res2_1", 5, 1, KU); ("res2_2", 6, 1, KU); ("res2_3", 7, 1, KU)]);
  ("UbxUpdSosAction", (9, 20)%N, "UBX-UPD-SOS-ACTION",
     UFixed [("cmd", 0, 1, KU); ("res1_1", 1, 1, KU); ("res1_2", 2, 1, KU); ("res1_3", 3, 1, KU)])
].

(* ---- comparison of a regenerated table entry with the oracle ------------------ *)
Definition norm (k : ukind) : ukind := match k with KX => KU | x => x end.
Definition fspec_eqb (a b : fspec) : bool :=
  let '(n1, o1, w1, k1) := a in let '(n2, o2, w2, k2) := b in
  String.eqb n1 n2 && Nat.eqb o1 o2 && Nat.eqb w1 w2 && ukind_eqb (norm k1) (norm k2).
Fixpoint fspecs_eqb (a b : list fspec) : bool :=
  match a, b with
  | [], [] => true
  | x :: s, y :: t => fspec_eqb x y && fspecs_eqb s t
  | _, _ => false
  end.
Definition optN_eqb (a b : option N) : bool :=
  match a, b with None, None => true | Some x, Some y => N.eqb x y | _, _ => false end.

Definition kind_matches (k : mkind) (u : uspec) : bool :=
  match k, u with
  | KFixed l, UFixed fs =>
      fspecs_eqb (layout_offsets l 0) fs && widths_ok l && names_unique (map fst l)
  | KCounted hdr cnt maxc blk, UCounted uh ucnt umax stride ublk =>
      fspecs_eqb (layout_offsets hdr 0) uh && String.eqb cnt ucnt && optN_eqb maxc umax
      && Nat.eqb (size blk) stride && fspecs_eqb (layout_offsets blk 0) ublk
      && widths_ok hdr && widths_ok blk && names_unique (map fst hdr) && names_unique (map fst blk)
  | KMonVer, UMonVer => true
  | _, _ => false
  end.

Fixpoint lookup_spec (n : string) (t : list (string * (N * N) * string * uspec)) :=
  match t with
  | [] => None
  | (m, c, nm, u) :: r => if String.eqb n m then Some (c, nm, u) else lookup_spec n r
  end.

Definition msg_matches (g : string * (N * N) * string * mkind) : bool :=
  let '(n, c, nm, k) := g in
  match lookup_spec n ublox with
  | Some (c', nm', u) => N.eqb (fst c) (fst c') && N.eqb (snd c) (snd c') && String.eqb nm nm' && kind_matches k u
  | None => false
  end.

(* every message of the oracle that carries fields must be present in the regenerated table *)
Definition spec_covered (g : list (string * (N * N) * string * mkind)) : bool :=
  forallb (fun e => let '(n, _, _, u) := e in
                    match u with
                    | UFixed [] => true
                    | _ => existsb (fun x => String.eqb (fst (fst (fst x))) n) g
                    end) ublox.

(* ---- the oracle as an executable decoder (used to search for failing inputs and as a direct
        yardstick in the correspondence): value of every field at the prescribed place -------- *)
Definition fty_of_spec (k : ukind) (w : nat) : fty :=
  match k with KU | KX => TU w | KI => TI w | KPad => TPad w | KCh => TCh w end.
Definition layout_of_fspecs (fs : list fspec) : layout :=
  map (fun f => let '(n, _, w, k) := f in (n, fty_of_spec k w)) fs.
Fixpoint count_offset (fs : list fspec) (cnt : string) : option nat :=
  match fs with
  | [] => None
  | (n, o, _, _) :: r => if String.eqb n cnt then Some o else count_offset r cnt
  end.
Definition oracle_layout (u : uspec) (data : bytes) : option layout :=
  match u with
  | UFixed fs => Some (layout_of_fspecs fs)
  | UCounted hdr cnt _ _ blk =>
      match count_offset hdr cnt with
      | Some o => match nth_error data o with
                  | Some c => Some (List.app (layout_of_fspecs hdr) (blocks (layout_of_fspecs blk) (N.to_nat c)))
                  | None => None
                  end
      | None => None
      end
  | UMonVer => Some (monver_layout (length data))
  end.
Definition oracle_decode (name : string) (data : bytes) : option fields :=
  match lookup_spec name ublox with
  | Some (_, _, u) =>
      match oracle_layout u data with
      | Some l => if Nat.leb (size l) (length data) then Some (spec_decode l 0 data) else None
      | None => None
      end
  | None => None
  end.
Definition oracle_zero_reserved (name : string) (data : bytes) : option bytes :=
  match lookup_spec name ublox with
  | Some (_, _, u) =>
      match oracle_layout u data with
      | Some l => if Nat.eqb (size l) (length data) then Some (zero_reserved l data) else None
      | None => None
      end
  | None => None
  end.
