(* Model of ubxlib/types.py: Item / Padding / CH / U1..X4 / Fields, and of
   UbxFrame.construct()/pack() for fixed and count-prefixed messages. Definitions only. *)
From Coq Require Export String Ascii.
From Coq Require Import DecimalString.
From Ubx Require Import Base.
Open Scope N_scope.

Inductive fty :=
| TU (w : nat)      (* U1 U2 U4: struct 'B' 'H' 'I' *)
| TI (w : nat)      (* I1 I2 I4: struct 'b' 'h' 'i' *)
| TX (w : nat)      (* X1 X2 X4: unsigned, rendered in hex *)
| TPad (n : nat)    (* Padding(n) *)
| TCh (n : nat).    (* CH(n) *)

Definition width (t : fty) : nat :=
  match t with TU w | TI w | TX w => w | TPad n | TCh n => n end.

Definition fty_eqb (a b : fty) : bool :=
  match a, b with
  | TU x, TU y | TI x, TI y | TX x, TX y | TPad x, TPad y | TCh x, TCh y => Nat.eqb x y
  | _, _ => false
  end.

(* Field values: Python int, or Python str represented by its UTF-8 bytes *)
Inductive fval :=
| VInt (z : Z)
| VStr (s : bytes).

Definition layout := list (string * fty).
Definition fields := list (string * fty * fval).

Definition default_val (t : fty) : fval :=
  match t with TCh _ => VStr [] | _ => VInt 0 end.
Definition fresh_fields (l : layout) : fields :=
  map (fun nt => (fst nt, snd nt, default_val (snd nt))) l.
Definition layout_of (fs : fields) : layout := map (fun x => (fst (fst x), snd (fst x))) fs.

(* ---- struct codecs ------------------------------------------------------- *)
Definition pow256 (w : nat) : N := 2 ^ (8 * N.of_nat w).

(* struct.unpack('<' fmt, bs): needs exactly w bytes *)
Definition unpack_int (signed : bool) (w : nat) (bs : bytes) : res Z :=
  if negb (Nat.eqb (length bs) w) then Raise StructError
  else
    let u := le_dec bs in
    if signed && (pow256 w / 2 <=? u) then Ok (Z.of_N u - Z.of_N (pow256 w))%Z
    else Ok (Z.of_N u).

(* struct.pack('<' fmt, v): range-checked *)
Definition pack_int (signed : bool) (w : nat) (v : fval) : res bytes :=
  match v with
  | VInt z =>
      let m := Z.of_N (pow256 w) in
      let lo := if signed then (- (m / 2))%Z else 0%Z in
      let hi := if signed then (m / 2)%Z else m in
      if (lo <=? z)%Z && (z <? hi)%Z
      then Ok (le_enc w (Z.to_N (z mod m)))
      else Raise StructError
  | VStr _ => Raise StructError
  end.

(* ---- UTF-8 (CPython strict decoder: no overlongs, no surrogates, <= U+10FFFF) ---- *)
Definition cont (b : N) : bool := (128 <=? b) && (b <=? 191).
Fixpoint utf8_valid_fuel (fuel : nat) (l : bytes) : bool :=
  match fuel with
  | O => match l with [] => true | _ => false end
  | S k =>
    match l with
    | [] => true
    | b0 :: t =>
      if b0 <? 128 then utf8_valid_fuel k t
      else if (194 <=? b0) && (b0 <=? 223) then
        match t with b1 :: t' => cont b1 && utf8_valid_fuel k t' | _ => false end
      else if b0 =? 224 then
        match t with b1 :: b2 :: t' => (160 <=? b1) && (b1 <=? 191) && cont b2 && utf8_valid_fuel k t' | _ => false end
      else if ((225 <=? b0) && (b0 <=? 236)) || (b0 =? 238) || (b0 =? 239) then
        match t with b1 :: b2 :: t' => cont b1 && cont b2 && utf8_valid_fuel k t' | _ => false end
      else if b0 =? 237 then
        match t with b1 :: b2 :: t' => (128 <=? b1) && (b1 <=? 159) && cont b2 && utf8_valid_fuel k t' | _ => false end
      else if b0 =? 240 then
        match t with b1 :: b2 :: b3 :: t' => (144 <=? b1) && (b1 <=? 191) && cont b2 && cont b3 && utf8_valid_fuel k t' | _ => false end
      else if (241 <=? b0) && (b0 <=? 243) then
        match t with b1 :: b2 :: b3 :: t' => cont b1 && cont b2 && cont b3 && utf8_valid_fuel k t' | _ => false end
      else if b0 =? 244 then
        match t with b1 :: b2 :: b3 :: t' => (128 <=? b1) && (b1 <=? 143) && cont b2 && cont b3 && utf8_valid_fuel k t' | _ => false end
      else false
    end
  end.
Definition utf8_valid (l : bytes) : bool := utf8_valid_fuel (length l) l.

(* str.rstrip('\x00') on the UTF-8 bytes: drop trailing 0x00 bytes *)
Fixpoint rstrip0 (l : bytes) : bytes :=
  match l with
  | [] => []
  | b :: t => match rstrip0 t with
              | [] => if b =? 0 then [] else [b]
              | t' => b :: t'
              end
  end.

Definition zeros (n : nat) : bytes := repeat 0 n.

(* ---- Item.unpack / Item.pack per type -------------------------------------- *)
(* returns the new value (None: value untouched, for Padding) — consumed is width t *)
Definition unpack_item (t : fty) (data : bytes) : res (option fval) :=
  match t with
  | TU w | TX w => let* z := unpack_int false w (firstn w data) in Ok (Some (VInt z))
  | TI w => let* z := unpack_int true w (firstn w data) in Ok (Some (VInt z))
  | TPad _ => Ok None
  | TCh n =>
      if Nat.ltb (length data) n then Raise ValueError
      else let raw := firstn n data in
           if utf8_valid raw then Ok (Some (VStr (rstrip0 raw))) else Raise ValueError
  end.

Definition pack_item (t : fty) (v : fval) : res bytes :=
  match t with
  | TU w | TX w => pack_int false w v
  | TI w => pack_int true w v
  | TPad n => Ok (zeros n)
  | TCh n =>
      match v with
      | VStr s =>
          if Nat.ltb n (length s) then Raise ValueError
          else Ok (s ++ zeros (n - length s))
      | VInt _ => Raise AttributeError       (* int has no .encode() *)
      end
  end.

(* ---- Fields.unpack / Fields.pack ------------------------------------------- *)
Fixpoint unpack_fields (fs : fields) (data : bytes) : res (fields * bytes) :=
  match fs with
  | [] => Ok ([], data)
  | (n, t, v) :: rest =>
      let* ov := unpack_item t data in
      let v' := match ov with Some x => x | None => v end in
      let* (rest', tail) := unpack_fields rest (skipn (width t) data) in
      Ok ((n, t, v') :: rest', tail)
  end.

Fixpoint pack_fields (fs : fields) : res bytes :=
  match fs with
  | [] => Ok []
  | (n, t, v) :: rest =>
      let* b := pack_item t v in
      let* r := pack_fields rest in
      Ok (b ++ r)
  end.

(* Attribute-style access: f.<name> = v  /  f.<name> *)
Fixpoint setf (fs : fields) (name : string) (v : fval) : fields :=
  match fs with
  | [] => []
  | (n, t, x) :: rest => if String.eqb n name then (n, t, v) :: rest
                         else (n, t, x) :: setf rest name v
  end.
Fixpoint getf (fs : fields) (name : string) : option fval :=
  match fs with
  | [] => None
  | (n, t, x) :: rest => if String.eqb n name then Some x else getf rest name
  end.

(* ---- Message kinds ----------------------------------------------------------- *)
Definition dec (n : nat) : string := NilEmpty.string_of_uint (Nat.to_uint n).
Definition suffixed (l : layout) (i : nat) : layout :=
  map (fun nt => (append (fst nt) (append "_" (dec i)), snd nt)) l.
Fixpoint blocks_from (blk : layout) (start count : nat) : layout :=
  match count with
  | O => []
  | S k => suffixed blk start ++ blocks_from blk (S start) k
  end.
Definition blocks (blk : layout) (count : nat) : layout := blocks_from blk 0 count.

Inductive mkind :=
| KFixed (l : layout)
| KCounted (hdr : layout) (count : string) (maxc : option N) (blk : layout)
| KMonVer.
(* CFG-VALGET responses are modelled in CfgKeys.v *)

Definition monver_layout (len : nat) : layout :=
  let ext := ((len - 40) / 30)%nat in
  [("swVersion"%string, TCh 30); ("hwVersion"%string, TCh 10)]
  ++ map (fun i => (append "extension_" (dec i), TCh 30)) (seq 0 ext).

(* UbxFrame.construct(data) for each kind: the decoded field list *)
Definition decode (k : mkind) (data : bytes) : res fields :=
  match k with
  | KFixed l =>
      let* (fs, _) := unpack_fields (fresh_fields l) data in Ok fs
  | KCounted hdr cnt maxc blk =>
      let* (h, _) := unpack_fields (fresh_fields hdr) data in
      match getf h cnt with
      | Some (VInt c) =>
          if match maxc with Some m => (Z.of_N m <? c)%Z | None => false end
          then Raise AssertionError
          else
            let all := h ++ fresh_fields (blocks blk (Z.to_nat c)) in
            let* (fs, _) := unpack_fields all data in Ok fs
      | _ => Raise KeyError
      end
  | KMonVer =>
      let* (fs, _) := unpack_fields (fresh_fields (monver_layout (length data))) data in Ok fs
  end.

(* frame.pack(): data = f.pack() *)
Definition encode (fs : fields) : res bytes := pack_fields fs.
