(* Model of ubxlib/checksum.py (class Checksum) and the Fletcher spec. *)
From Ubx Require Import Base.

(* ---- Spec: 8-bit Fletcher as the property states it --------------------- *)
(* cka_seq a l = the successive CK_A values while absorbing l from CK_A = a *)
Fixpoint cka_seq (a : N) (l : bytes) : list N :=
  match l with
  | [] => []
  | x :: t => let a' := (a + x) mod 256 in a' :: cka_seq a' t
  end.
Definition fletcher (l : bytes) : N * N :=
  (sum l mod 256, sum (cka_seq 0 l) mod 256).

(* ---- Model: the Python object, state = (_cka, _ckb) ---------------------- *)
Definition ck := (N * N)%type.
Definition ck_reset : ck := (0, 0).
(* add(): cka += byte; cka &= 0xFF; ckb += cka; ckb &= 0xFF *)
Definition ck_add (s : ck) (x : N) : ck :=
  let a := N.land (fst s + x) 255 in
  (a, N.land (snd s + a) 255).
Definition ck_value (s : ck) : N * N := s.
Definition ck_matches (s : ck) (a b : N) : bool := (fst s =? a) && (snd s =? b).
Definition ck_adds (s : ck) (l : bytes) : ck := fold_left ck_add l s.
