(* Model of ubxlib/server_base.py: poll / set / set_mga / fire_and_forget / _wait over an
   arbitrary backend (receive / transmit / flush / recover), virtual time, ghost trace.
   Definitions only.  Mirrors the code after the F3 (per-phase deadline) and F9 (undecodable
   answer frames are skipped) repairs. *)
From Ubx Require Import Fields Base Checksum Frame ParserUbx CfgKeys.
Open Scope N_scope.

(* ---- environment ------------------------------------------------------------------ *)
(* A backend is any deterministic receiver: receive returns the chunk (None: nothing read), the
   time the call took (virtual milliseconds), and the new environment state. *)
Record backend (E : Type) := mkBackend {
  receive : E -> option bytes * N * E;
  transmit : E -> bytes -> bool * E;
  flush : E -> E;
  recover : E -> E
}.
Arguments receive {E}. Arguments transmit {E}. Arguments flush {E}. Arguments recover {E}.

Inductive event :=
| Tx (data : bytes) (ok : bool)
| Rx (data : option bytes) (dt : N)
| Flush
| Recover.

(* ---- frames ----------------------------------------------------------------------- *)
(* How a registered response class decodes a payload *)
Inductive rkind :=
| RK (k : mkind)
| RValGet.

Inductive decoded :=
| DFields (fs : fields)
| DValGet (hdr : fields) (items : list item).

(* a typed frame object as returned by _wait(): class name, CID, payload, decoded fields *)
Record rframe := mkRFrame { rf_name : string; rf_cid : cid; rf_payload : bytes; rf_dec : decoded }.

Definition registry := list (cid * (string * rkind)).
Fixpoint reg_lookup (r : registry) (c : cid) : option (string * rkind) :=
  match r with
  | [] => None
  | (c', x) :: t => if cid_eqb c c' then Some x else reg_lookup t c
  end.
(* dict assignment: the newest registration for a CID wins *)
Definition reg_register (r : registry) (c : cid) (x : string * rkind) : registry := (c, x) :: r.

Definition build_with_data (sk : list N) (k : rkind) (data : bytes) : res decoded :=
  match k with
  | RK mk => let* fs := decode mk data in Ok (DFields fs)
  | RValGet => let* (h, its) := valget_decode sk data in Ok (DValGet h its)
  end.

Definition dec_getf (d : decoded) (name : string) : option fval :=
  match d with DFields fs => getf fs name | DValGet h _ => getf h name end.

(* ---- requests --------------------------------------------------------------------- *)
Inductive rbody :=
| BFields (fs : fields)
| BValSet (items : list item)
| BValGetPoll (keys : list Z).

Definition pack_body (b : rbody) : res bytes :=
  match b with
  | BFields fs => encode fs
  | BValSet its => valset_payload its
  | BValGetPoll ks => valget_poll_payload ks
  end.

Record request := mkRequest {
  rq_cid : cid;
  rq_body : rbody;
  rq_resp : string * rkind      (* _cls_response(): class registered for the answer (poll only) *)
}.

Definition CID_ACK : cid := (5, 1).
Definition CID_NAK : cid := (5, 0).
Definition CID_MGA_ACK : cid := (19, 96).
Definition CID_CRC_ERROR : cid := (0, 2).
Definition CLASS_CFG : N := 6.

(* ---- server state ----------------------------------------------------------------- *)
Record srv := mkSrv {
  sparser : parser;
  sreg : registry;          (* the process-wide FrameFactory *)
  sretries : nat;           (* max_retries *)
  sdelay : N                (* retry_delay_in_ms *)
}.

(* everything that is threaded through a request *)
Record world (E : Type) := mkWorld {
  wsrv : srv;
  wenv : E;
  wnow : N;                 (* virtual clock, ms *)
  wtrace : list event;      (* ghost: newest event last *)
  wtie : bool               (* ghost: some deadline comparison was an exact tie *)
}.
Arguments wsrv {E}. Arguments wenv {E}. Arguments wnow {E}. Arguments wtrace {E}. Arguments wtie {E}.
Arguments mkWorld {E}.

Inductive outcome :=
| Return (f : option rframe)
| Raised (e : exn)
| OutOfFuel.

Section Req.
Context {E : Type} (B : backend E) (sk : list N).

Definition with_parser (w : world E) (p : parser) : world E :=
  mkWorld (mkSrv p (sreg (wsrv w)) (sretries (wsrv w)) (sdelay (wsrv w))) (wenv w) (wnow w) (wtrace w) (wtie w).
Definition with_reg (w : world E) (r : registry) : world E :=
  mkWorld (mkSrv (sparser (wsrv w)) r (sretries (wsrv w)) (sdelay (wsrv w))) (wenv w) (wnow w) (wtrace w) (wtie w).
Definition log (w : world E) (e' : E) (now' : N) (ev : event) : world E :=
  mkWorld (wsrv w) e' now' (wtrace w ++ [ev]) (wtie w).

Definition is_crc_marker (x : pkt) : bool :=
  match x with CrcErr => true | Pkt c i _ => cid_eqb (c, i) CID_CRC_ERROR end.

(* `if data:` — None and b'' are falsy *)
Definition nonempty (d : option bytes) : option bytes :=
  match d with Some [] => None | x => x end.

(* _wait(time_end): returns Some frame, None on timeout; fuel counts loop iterations *)
Fixpoint wait (fuel : nat) (deadline : N) (w : world E) : option (option rframe) * world E :=
  match fuel with
  | O => (None, w)                       (* out of fuel: reported by the callers as OutOfFuel *)
  | S k =>
      let w := mkWorld (wsrv w) (wenv w) (wnow w) (wtrace w) (wtie w || (wnow w =? deadline)) in
      if wnow w <? deadline then
        let '(data, dt, e') := receive B (wenv w) in
        let w := log w e' (wnow w + dt) (Rx data dt) in
        let p := match nonempty data with
                 | Some d => process (sparser (wsrv w)) d
                 | None => sparser (wsrv w)
                 end in
        let (x, p') := packet p in
        let w := with_parser w p' in
        match x with
        | Some (Pkt c i payload) =>
            if is_crc_marker (Pkt c i payload) then wait k deadline w
            else match reg_lookup (sreg (wsrv w)) (c, i) with
                 | None => wait k deadline w                         (* KeyError: not registered *)
                 | Some (name, rk) =>
                     match build_with_data sk rk payload with
                     | Ok d => (Some (Some (mkRFrame name (c, i) payload d)), w)
                     | Raise _ => wait k deadline w                  (* undecodable: skipped (F9) *)
                     end
                 end
        | Some CrcErr => wait k deadline w
        | None => wait k deadline w
        end
      else (Some None, w)                                            (* timeout *)
  end.

(* _send(): to_bytes() of class/id + current payload, then _transmit *)
Definition send (w : world E) (c : cid) (payload : bytes) : bool * world E :=
  let msg := fst (to_bytes (new_frame (fst c) (snd c) payload)) in
  let (ok, e') := transmit B (wenv w) msg in
  (ok, log w e' (wnow w) (Tx msg ok)).

Definition do_flush (w : world E) : world E := log w (flush B (wenv w)) (wnow w) Flush.
Definition do_recover (w : world E) : world E := log w (recover B (wenv w)) (wnow w) Recover.
Definition purge (w : world E) : world E := with_parser w (restart (empty_queue (sparser (wsrv w)))).

(* _check_ack_nak *)
Inductive acknak := IsAck | IsNak | IsOther.
Definition check_ack_nak (req : cid) (f : rframe) : acknak :=
  if cid_eqb (rf_cid f) CID_ACK then
    match dec_getf (rf_dec f) "clsId", dec_getf (rf_dec f) "msgId" with
    | Some (VInt c), Some (VInt i) =>
        if ((c =? Z.of_N (fst req)) && (i =? Z.of_N (snd req)))%Z then IsAck else IsOther
    | _, _ => IsOther
    end
  else if cid_eqb (rf_cid f) CID_NAK then IsNak
  else IsOther.

Definition check_mga (f : rframe) : bool :=
  cid_eqb (rf_cid f) CID_MGA_ACK &&
  match dec_getf (rf_dec f) "type" with Some (VInt t) => (t =? 1)%Z | _ => false end.

(* poll(): inner loop of one attempt. phase false = wait-response, true = wait-ack *)
Inductive attempt_end := AOk (f : rframe) | ATimeout | AFuel.
Fixpoint poll_phase (fuel : nat) (req : cid) (ack_phase : bool) (resp : option rframe)
         (deadline : N) (w : world E) : attempt_end * world E :=
  match fuel with
  | O => (AFuel, w)
  | S k =>
      match wait (S k) deadline w with
      | (None, w') => (AFuel, w')
      | (Some None, w') => (ATimeout, w')
      | (Some (Some f), w') =>
          if negb ack_phase then
            if cid_eqb (rf_cid f) req then
              if fst req =? CLASS_CFG
              then poll_phase k req true (Some f) (wnow w' + sdelay (wsrv w')) w'   (* the ACK gets its own period *)
              else (AOk f, w')
            else poll_phase k req false resp deadline w'
          else
            match check_ack_nak req f with
            | IsAck => match resp with Some r => (AOk r, w') | None => (ATimeout, w') end
            | _ => poll_phase k req true resp deadline w'
            end
      end
  end.

Fixpoint poll_attempts (fuel : nat) (n : nat) (req : cid) (payload : bytes) (w : world E)
  : outcome * world E :=
  match n with
  | O => (Return None, w)
  | S n' =>
      let w := do_flush w in
      let (ok, w) := send w req payload in
      if ok then
        let w := purge w in
        match poll_phase fuel req false None (wnow w + sdelay (wsrv w)) w with
        | (AOk f, w') => (Return (Some f), w')
        | (ATimeout, w') => poll_attempts fuel n' req payload (do_recover w')
        | (AFuel, w') => (OutOfFuel, w')
        end
      else poll_attempts fuel n' req payload w
  end.

Definition poll (fuel : nat) (rq : request) (w : world E) : outcome * world E :=
  let w := with_reg w (reg_register (sreg (wsrv w)) (rq_cid rq) (rq_resp rq)) in
  let filt := if fst (rq_cid rq) =? CLASS_CFG then [rq_cid rq; CID_ACK; CID_NAK] else [rq_cid rq] in
  let w := with_parser w (set_filters (sparser (wsrv w)) filt) in
  match pack_body (rq_body rq) with
  | Raise e => (Raised e, w)
  | Ok payload => poll_attempts fuel (S (sretries (wsrv w))) (rq_cid rq) payload w
  end.

(* set() / set_mga(): one _wait() per attempt *)
Fixpoint set_attempts (fuel : nat) (n : nat) (mga : bool) (req : cid) (payload : bytes) (w : world E)
  : outcome * world E :=
  match n with
  | O => (Return None, w)
  | S n' =>
      let w := do_flush w in
      let (ok, w) := send w req payload in
      if ok then
        let w := purge w in
        match wait fuel (wnow w + sdelay (wsrv w)) w with
        | (None, w') => (OutOfFuel, w')
        | (Some None, w') => set_attempts fuel n' mga req payload (do_recover w')
        | (Some (Some f), w') =>
            let accept := if mga then check_mga f
                          else match check_ack_nak req f with IsAck | IsNak => true | IsOther => false end in
            if accept then (Return (Some f), w')
            else set_attempts fuel n' mga req payload w'            (* next attempt, no recovery *)
        end
      else set_attempts fuel n' mga req payload w
  end.

Definition set (fuel : nat) (rq : request) (w : world E) : outcome * world E :=
  let w := with_parser w (set_filters (sparser (wsrv w)) [CID_ACK; CID_NAK]) in
  match pack_body (rq_body rq) with
  | Raise e => (Raised e, w)
  | Ok payload => set_attempts fuel (S (sretries (wsrv w))) false (rq_cid rq) payload w
  end.

Definition set_mga (fuel : nat) (rq : request) (w : world E) : outcome * world E :=
  let w := with_parser w (set_filter (sparser (wsrv w)) CID_MGA_ACK) in
  match pack_body (rq_body rq) with
  | Raise e => (Raised e, w)
  | Ok payload => set_attempts fuel (S (sretries (wsrv w))) true (rq_cid rq) payload w
  end.

Definition fire_and_forget (rq : request) (w : world E) : outcome * world E :=
  match pack_body (rq_body rq) with
  | Raise e => (Raised e, w)
  | Ok payload => let (_, w') := send w (rq_cid rq) payload in (Return None, w')
  end.

Inductive rop := RPoll | RSet | RSetMga | RFire.
Definition do_request (fuel : nat) (o : rop) (rq : request) (w : world E) : outcome * world E :=
  match o with
  | RPoll => poll fuel rq w
  | RSet => set fuel rq w
  | RSetMga => set_mga fuel rq w
  | RFire => fire_and_forget rq w
  end.

End Req.

(* setup(): the three base registrations *)
Definition ack_kind : rkind := RK (KFixed [("clsId"%string, TU 1); ("msgId"%string, TU 1)]).
Definition mga_kind : rkind :=
  RK (KFixed [("type"%string, TU 1); ("version"%string, TU 1); ("infoCode"%string, TU 1);
              ("msgId"%string, TU 1); ("msgPayloadStart"%string, TX 4)]).
Definition base_registry : registry :=
  [(CID_MGA_ACK, ("UbxMgaAckData0"%string, mga_kind));
   (CID_NAK, ("UbxAckNak"%string, ack_kind));
   (CID_ACK, ("UbxAckAck"%string, ack_kind))].
Definition new_srv (retries : nat) (delay : N) : srv :=
  mkSrv (fresh None) base_registry retries delay.
