(* Specifications for the UBX parser properties (C02, C03, C09, C11), written against the
   stream only. Definitions only; proofs live in proofs/. *)
From Ubx Require Import Base Checksum Frame ParserUbx.

(* ------------------------------------------------------------------ C02: stream grammar *)
Inductive seg :=
| SFrame (c i : N) (p : bytes)              (* a well-formed frame *)
| SBad (c i : N) (p : bytes) (k1 k2 : N)    (* sync pair and length intact, checksum does not match *)
| SOver (c i lo hi : N)                     (* header declaring a length above 1000 *)
| SJunk (g : bytes).                        (* filler free of the pair B5 62 (NMEA, noise, a lone B5) *)

Definition seg_bytes (s : seg) : bytes :=
  match s with
  | SFrame c i p => wire c i p
  | SBad c i p k1 k2 => [181; 98] ++ wire_hdr c i p ++ p ++ [k1; k2]
  | SOver c i lo hi => [181; 98; c; i; lo; hi]
  | SJunk g => g
  end.

(* no adjacent pair B5 62 inside g *)
Fixpoint nosync (g : bytes) : bool :=
  match g with
  | a :: t => match t with
              | b :: _ => negb ((a =? 181) && (b =? 98)) && nosync t
              | [] => true
              end
  | [] => true
  end.

Definition seg_ok (s : seg) : Prop :=
  match s with
  | SFrame c i p => (length p <= 1000)%nat
  | SBad c i p k1 k2 => (length p <= 1000)%nat /\ (k1, k2) <> fletcher (wire_hdr c i p ++ p)
  | SOver c i lo hi => 1000 < lo + 256 * hi
  | SJunk g => nosync g = true
  end.

Definition is_junk (s : seg) : bool := match s with SJunk _ => true | _ => false end.
(* two junk segments never touch (their concatenation could form a sync pair) *)
Fixpoint no_adj_junk (l : list seg) : bool :=
  match l with
  | a :: t => match t with
              | b :: _ => negb (is_junk a && is_junk b) && no_adj_junk t
              | [] => true
              end
  | [] => true
  end.

Definition expected (f : option (list cid)) (s : seg) : list pkt :=
  match s with
  | SFrame c i p => if in_filter f (c, i) then [Pkt c i p] else []
  | SBad _ _ _ _ _ => [CrcErr]
  | _ => []
  end.
Definition count_frames (l : list seg) : nat :=
  length (filter (fun s => match s with SFrame _ _ _ => true | _ => false end) l).

(* ------------------------------------------------------------------ C03: occurrences *)
Record occ := mkOcc { oc : N; oi : N; opl : bytes; ok1 : N; ok2 : N }.
Definition render (o : occ) : bytes :=
  [181; 98] ++ wire_hdr (oc o) (oi o) (opl o) ++ opl o ++ [ok1 o; ok2 o].
Definition valid_b (o : occ) : bool :=
  let k := fletcher (wire_hdr (oc o) (oi o) (opl o) ++ opl o) in
  (fst k =? ok1 o) && (snd k =? ok2 o).
Definition emit (f : option (list cid)) (o : occ) : list pkt :=
  if valid_b o then (if in_filter f (oc o, oi o) then [Pkt (oc o) (oi o) (opl o)] else [])
  else [CrcErr].

(* Dec s os: the stream s is, left to right, arbitrary gaps interleaved with the renderings
   of the occurrences os (distinct, non-overlapping, in stream order), each with a
   declared (= actual) payload length of at most 1000. *)
Inductive Dec : bytes -> list occ -> Prop :=
| Dec_nil : Dec [] []
| Dec_gap s os g : Dec s os -> Dec (s ++ g) os
| Dec_occ s os o : Dec s os -> (length (opl o) <= 1000)%nat -> Dec (s ++ render o) (os ++ [o]).

Definition count_valid (os : list occ) : nat := length (filter valid_b os).

(* ------------------------------------------------------------------ C09 / C11: observation *)
(* What a user can observe of a parser: the queued packets and the frame counter.
   (Registers and the control state are internal.) *)
Definition fresh_keeping (p : parser) : parser :=
  mkParser INIT regs0 (queue p) (rx p) (filt p).

Definition is_filter_op (o : op) : bool :=
  match o with OSetFilter _ | OSetFilters _ => true | _ => false end.
