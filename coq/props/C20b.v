(* C20 (setup() end to end) - the handshake loop reads chunks until the connection is ready and not one more; what it
   has selected is what parsing exactly the chunks read selects; it never raises on well-formed chunks; when it ends
   ready a device is selected and the command header addresses that device, otherwise all chunks were read. *)
From Ubx Require Import Fields Base Gpsd GpsdP GpsdLoopP.

Theorem C20b_enable_loop_reads_prefix : forall req cs s' rest,
  enable_loop (ginit req) cs = Ok (s', rest) ->
  exists used, cs = used ++ rest /\ parse_chunks (ginit req) used = Ok s'
    /\ (g_enabled s' = false -> rest = []).
Proof. exact enable_loop_reads_prefix. Qed.
Print Assumptions C20b_enable_loop_reads_prefix.

Theorem C20b_enable_loop_no_raise : forall req cs,
  forallb chunk_ok cs = true -> exists s' rest, enable_loop (ginit req) cs = Ok (s', rest).
Proof. exact enable_loop_no_raise. Qed.
Print Assumptions C20b_enable_loop_no_raise.

Theorem C20b_ready_addresses_selected : forall req cs s' rest,
  enable_loop (ginit req) cs = Ok (s', rest) -> g_enabled s' = true ->
  exists d, g_sel s' = Some d /\ cmd_header s' = Some (append "&" (append d "="))
            /\ (forall r, requested (ginit req) = Some r -> d = r).
Proof. exact ready_addresses_selected. Qed.
Print Assumptions C20b_ready_addresses_selected.

(* stops at the first chunk that makes the connection ready: a later DEVICES list is not read (non-vacuity and a
   concrete run: none requested, the first chunk lists /dev/a, the second /dev/b) *)
Example C20b_stops_at_first_ready :
  let dev p := JObj [("class"%string, JStr "DEVICE"); ("path"%string, JStr p)] in
  let c1 := Lines [devices_msg [dev "/dev/a"%string]] in
  let c2 := Lines [devices_msg [dev "/dev/b"%string]] in
  match enable_loop (ginit None) [c1; c2] with
  | Ok (s', rest) => g_sel s' = Some "/dev/a"%string /\ rest = [c2]
  | Raise _ => False
  end.
Proof. vm_compute. split; reflexivity. Qed.
