(* C07 — decoded fields carry the values prescribed by the u-blox layouts.
   This file is compiled on EVERY RUN against Tables.v regenerated from /repo (Tie B). *)
From Ubx Require Import Fields Base FieldsSpec UbloxSpec FieldsP UbloxSpecP.
From UbxGen Require Import Tables.

(* every message class the library defines matches the hand-written u-blox oracle: class/id, name,
   and every field's offset, width and signedness; count field, maximum and stride for the
   count-prefixed messages — and no message of the oracle is missing *)
Theorem C07_tables_match : forallb msg_matches g_messages = true /\ spec_covered g_messages = true.
Proof. split; vm_compute; reflexivity. Qed.
Print Assumptions C07_tables_match.

(* hence, for every fixed-layout message and EVERY payload of at least the prescribed length,
   decoding yields exactly the values at the oracle's offsets *)
Theorem C07_fixed_messages : forall n c nm l data,
  In (n, c, nm, KFixed l) g_messages ->
  (size l <= length data)%nat -> ch_valid l 0 data = true ->
  decode (KFixed l) data = Ok (spec_decode l 0 data)
  /\ exists c' nm' fs, lookup_spec n ublox = Some (c', nm', UFixed fs)
       /\ fspecs_eqb (layout_offsets l 0) fs = true /\ c = c' /\ nm = nm'.
Proof. exact (table_fixed_decodes g_messages (proj1 C07_tables_match)). Qed.
Print Assumptions C07_fixed_messages.

(* count-prefixed messages (CFG-GNSS, CFG-ESFLA, ESF-STATUS), every block count *)
Theorem C07_counted_messages : forall n c nm hdr cnt maxc blk data k,
  In (n, c, nm, KCounted hdr cnt maxc blk) g_messages ->
  getf (spec_decode hdr 0 data) cnt = Some (VInt (Z.of_nat k)) ->
  match maxc with Some m => (Z.of_nat k <= Z.of_N m)%Z | None => True end ->
  (size (counted_layout hdr blk k) <= length data)%nat ->
  ch_valid (counted_layout hdr blk k) 0 data = true ->
  decode (KCounted hdr cnt maxc blk) data = Ok (spec_decode (counted_layout hdr blk k) 0 data)
  /\ exists c' nm' uh umax stride ublk,
       lookup_spec n ublox = Some (c', nm', UCounted uh cnt umax stride ublk)
       /\ fspecs_eqb (layout_offsets hdr 0) uh = true
       /\ fspecs_eqb (layout_offsets blk 0) ublk = true
       /\ size blk = stride /\ optN_eqb maxc umax = true.
Proof. exact (table_counted_decodes g_messages (proj1 C07_tables_match)). Qed.
Print Assumptions C07_counted_messages.

Theorem C07_monver_message : forall n c nm data, In (n, c, nm, KMonVer) g_messages ->
  (40 <= length data)%nat -> ch_valid (monver_layout (length data)) 0 data = true ->
  decode KMonVer data = Ok (spec_decode (monver_layout (length data)) 0 data).
Proof. exact (table_monver_decodes g_messages). Qed.
Print Assumptions C07_monver_message.

(* non-vacuity: the table really contains the messages *)
Example C07_nonvacuous :
  existsb (fun g : string * (N * N) * string * mkind => let '(n, _, _, k) := g in
             String.eqb n "UbxCfgTp5" && match k with KFixed l => Nat.eqb (size l) 32 | _ => false end)
          g_messages = true
  /\ existsb (fun g : string * (N * N) * string * mkind => let '(n, _, _, k) := g in
             String.eqb n "UbxCfgGnss" && match k with KCounted _ _ _ _ => true | _ => false end)
          g_messages = true
  /\ Nat.leb 50 (length g_messages) = true.
Proof. repeat split; vm_compute; reflexivity. Qed.
