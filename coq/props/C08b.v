(* C08 (configuration key/value pairs) — decode then encode of a CFG-VALGET response. *)
From Ubx Require Import Fields Base FieldsSpec CfgKeys CfgKeysSpec ValgetP.

(* A VALGET response payload (4-byte header, then key/value pairs) is either rejected, or it tiles into
   header, pairs and a tail shorter than a key, and packing the decoded frame reproduces header and pairs
   byte for byte, with only the reserved key bits cleared (the tail fragment is not part of any field). *)
Theorem C08_valget_reencode : forall sk data,
  all_bytes data = true -> (4 <= length data)%nat ->
  valget_reencode sk data = Raise ValueError
  \/ exists chunks tail,
       data = firstn 4 data ++ concat chunks ++ tail /\ (length tail < 4)%nat
       /\ valget_reencode sk data = Ok (firstn 4 data ++ concat (map clear_reserved chunks)).
Proof. exact valget_reencode_spec. Qed.
Print Assumptions C08_valget_reencode.

Example C08b_nonvacuous :
  valget_reencode [] [0; 1; 0; 0; 33; 0; 17; 32; 4; 46; 0; 6; 48; 255; 255]
  = Ok [0; 1; 0; 0; 33; 0; 17; 32; 4; 46; 0; 6; 48; 255; 255].
Proof. vm_compute. reflexivity. Qed.
