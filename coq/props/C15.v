(* C15 — The checksum is the 8-bit Fletcher algorithm for every byte sequence. *)
From Ubx Require Import Base Checksum ChecksumP.

(* CK_A = sum of bytes mod 256, CK_B = sum of successive CK_A mod 256, from (0,0) *)
Theorem C15_fletcher_all : forall l : bytes, ck_adds ck_reset l = fletcher l.
Proof. exact fletcher_all. Qed.
Print Assumptions C15_fletcher_all.

(* both values stay within 0..255 *)
Theorem C15_range : forall l : bytes, ck_inrange (ck_adds ck_reset l).
Proof. exact range_all. Qed.
Print Assumptions C15_range.

Theorem C15_step_range : forall s x, fst (ck_add s x) < 256 /\ snd (ck_add s x) < 256.
Proof. exact ck_add_range. Qed.
Print Assumptions C15_step_range.

(* matches() is true for exactly that pair *)
Theorem C15_matches_iff : forall s a b, ck_matches s a b = true <-> ck_value s = (a, b).
Proof. exact matches_iff. Qed.
Print Assumptions C15_matches_iff.

(* the result depends only on the byte sequence since the last reset *)
Theorem C15_reset_any : forall (prior : ck) l, ck_value (ck_adds ck_reset l) = fletcher l.
Proof. exact reset_any. Qed.
Print Assumptions C15_reset_any.

(* every in-range state is reached by a two-byte prefix: a sweep of the step function over
   65536 x 256 pairs (the correspondence, thorough tier) speaks for all histories *)
Theorem C15_reach2 : forall a b, a < 256 -> b < 256 ->
  exists x y, x < 256 /\ y < 256 /\ ck_adds ck_reset [x; y] = (a, b).
Proof. exact reach2. Qed.
Print Assumptions C15_reach2.

Theorem C15_snoc : forall s l x, ck_adds s (l ++ [x]) = ck_add (ck_adds s l) x.
Proof. exact ck_adds_snoc. Qed.
Print Assumptions C15_snoc.
