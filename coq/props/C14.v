(* C14 — malformed configuration data is rejected with ValueError, never mis-decoded. *)
From Ubx Require Import Fields Base CfgKeys CfgKeysSpec CfgKeysP.

(* Dichotomy over all byte strings: ValueError, or a prefix that re-encodes to the same bytes
   (reserved key bits cleared). Holds for every signedness table. *)
Theorem C14_unpack_dichotomy : forall sk bs, all_bytes bs = true ->
  unpack_item_cfg sk bs = Raise ValueError
  \/ exists it n, unpack_item_cfg sk bs = Ok (it, n) /\ (n <= length bs)%nat
       /\ pack_item_cfg it = Ok (clear_reserved (firstn n bs)).
Proof. exact unpack_dichotomy. Qed.
Print Assumptions C14_unpack_dichotomy.

Theorem C14_unpack_only_value_error : forall sk bs e, unpack_item_cfg sk bs = Raise e -> e = ValueError.
Proof. exact unpack_only_value_error. Qed.
Print Assumptions C14_unpack_only_value_error.

Theorem C14_unpack_too_short : forall sk bs, (length bs < 4)%nat -> unpack_item_cfg sk bs = Raise ValueError.
Proof. exact unpack_too_short. Qed.
Print Assumptions C14_unpack_too_short.

(* size codes 0, 6, 7 *)
Theorem C14_unpack_bad_size : forall sk bs, (4 <= length bs)%nat ->
  (let s := key_size (le_dec (firstn 4 bs)) in s = 0 \/ s = 6 \/ s = 7) ->
  unpack_item_cfg sk bs = Raise ValueError.
Proof. exact unpack_bad_size. Qed.
Print Assumptions C14_unpack_bad_size.

(* 1-bit values other than 0 or 1 *)
Theorem C14_unpack_bad_bit : forall sk b0 b1 b2 b3 v rest,
  key_size (le_dec [b0; b1; b2; b3]) = 1 -> v <> 0 -> v <> 1 ->
  unpack_item_cfg sk (b0 :: b1 :: b2 :: b3 :: v :: rest) = Raise ValueError.
Proof. exact unpack_bad_bit. Qed.
Print Assumptions C14_unpack_bad_bit.

(* value shorter than the size code demands *)
Theorem C14_unpack_short_value : forall sk bs, (4 <= length bs)%nat ->
  (length bs < 4 + value_width (bits_from_key (le_dec (firstn 4 bs))))%nat ->
  unpack_item_cfg sk bs = Raise ValueError.
Proof. exact unpack_short_value. Qed.
Print Assumptions C14_unpack_short_value.

(* encoding: out-of-range group, item, size or value *)
Theorem C14_pack_rejects : forall it,
  ((it_group it < 0) \/ (255 < it_group it) \/ (it_item it < 0) \/ (4095 < it_item it)
   \/ valid_bits (it_bits it) = false
   \/ (exists v, it_value it = CInt v /\ it_bits it <> 1 /\ int_in_range (it_bits it) (it_signed it) v = false))%Z ->
  pack_item_cfg it = Raise ValueError.
Proof. exact pack_rejects. Qed.
Print Assumptions C14_pack_rejects.

Theorem C14_pack_only_value_error : forall it e, pack_item_cfg it = Raise e -> e = ValueError.
Proof. exact pack_only_value_error. Qed.
Print Assumptions C14_pack_only_value_error.

(* VALSET payload: 4-byte header (version 0, layer RAM, two reserved) then the items in order *)
Theorem C14_valset_payload : forall l bss,
  Forall2 (fun it b => pack_item_cfg it = Ok b) l bss ->
  valset_payload l = Ok ([0; 1; 0; 0] ++ concat bss).
Proof. exact valset_ok. Qed.
Print Assumptions C14_valset_payload.

Theorem C14_valset_rejects : forall l, Exists (fun it => exists e, pack_item_cfg it = Raise e) l ->
  valset_payload l = Raise ValueError.
Proof. exact valset_rejects. Qed.
Print Assumptions C14_valset_rejects.

(* VALGET poll: header then the requested keys, little-endian, in order *)
Theorem C14_valget_poll : forall keys, Forall (fun k => 0 <= k < 2 ^ 32)%Z keys ->
  valget_poll_payload keys = Ok ([0; 0; 0; 0] ++ concat (map (fun k => le_enc 4 (Z.to_N k)) keys)).
Proof. exact valget_poll_ok. Qed.
Print Assumptions C14_valget_poll.

(* VALGET response items: rejected with ValueError, or one entry per pair in payload order, the
   pairs tiling the payload up to a tail shorter than a key *)
Theorem C14_valget_items : forall sk work, all_bytes work = true ->
  valget_items sk (length work) work = Raise ValueError
  \/ exists its chunks tail,
       valget_items sk (length work) work = Ok its
       /\ work = concat chunks ++ tail /\ (length tail < 4)%nat
       /\ Forall2 (fun it ch => pack_item_cfg it = Ok (clear_reserved ch)
                                /\ unpack_item_cfg sk ch = Ok (it, length ch)) its chunks.
Proof. exact valget_items_ok. Qed.
Print Assumptions C14_valget_items.

(* the loop's fuel (= payload length) is never the reason it stops *)
Theorem C14_valget_fuel : forall sk work fuel, (length work <= fuel)%nat ->
  valget_items sk fuel work = valget_items sk (length work) work.
Proof. exact valget_fuel. Qed.
Print Assumptions C14_valget_fuel.

Example C14_nonvacuous :
  unpack_item_cfg [] [46; 0; 6; 48; 255; 255] = Ok (mkItem 6 46 16 false (CInt 65535), 6%nat)
  /\ unpack_item_cfg [805699630] [46; 0; 6; 48; 255; 255] = Ok (mkItem 6 46 16 true (CInt (-1)), 6%nat)
  /\ unpack_item_cfg [] [1; 0; 49; 16; 2] = Raise ValueError
  /\ unpack_item_cfg [] [1; 240; 49; 144; 1; 7] = Ok (mkItem 49 1 1 false (CBool true), 5%nat)
  /\ pack_item_cfg (mkItem 49 1 1 false (CBool true)) = Ok (clear_reserved [1; 240; 49; 144; 1]).
Proof. repeat split; vm_compute; reflexivity. Qed.
