(* C06c — a correct answer is returned also when corrupted frames are interleaved with it.
   C06.v states the theorems for traffic that queues nothing in front of the answer.  A checksum-failed frame queues an
   error marker, and _wait() dequeues one packet per receive call: with m markers ahead of the answer the answer is
   dequeued at most m receive calls after the one that completes it.  If those calls start before the deadline the answer
   is returned after exactly k transmissions - for every backend, chunking and earlier history.  (Configuration-class polls,
   which wait twice, are covered for corrupted frames by the correspondence only.) *)
From Coq Require Import String Lia.
From Ubx Require Import Fields Base Checksum Frame ParserUbx ParserUbxSpec CfgKeys Request RequestSpec ScriptBackend
  RequestGood RequestNoisy.

Theorem C06c_wait_delivers_noisy : forall E (B : backend E) sk fuel deadline w evs extra e' fl c i pl name rk d,
  rx_unfold B (wenv w) (length (evs ++ extra)) = (evs ++ extra, e') ->
  st (sparser (wsrv w)) = INIT -> queue (sparser (wsrv w)) = [] -> filt (sparser (wsrv w)) = Some fl ->
  In (c, i) fl -> (c, i) <> CID_CRC_ERROR ->
  delivers_noisy fl (wnow w) deadline evs extra c i pl ->
  reg_lookup (sreg (wsrv w)) (c, i) = Some (name, rk) -> build_with_data sk rk pl = Ok d ->
  (length (evs ++ extra) <= fuel)%nat ->
  exists w' used, wait B sk fuel deadline w = (Some (Some (mkRFrame name (c, i) pl d)), w')
    /\ kept w w' (evs ++ used) /\ exists rest, extra = used ++ rest.
Proof. exact wait_delivers_noisy. Qed.
Print Assumptions C06c_wait_delivers_noisy.

Theorem C06c_set_answer_after_k : forall E (B : backend E) sk fuel rq payload k w wk w1 evs extra e' i pa d,
  pack_body (rq_body rq) = Ok payload ->
  (k < S (sretries (wsrv w)))%nat ->
  let w0 := with_parser w (set_filters (sparser (wsrv w)) [CID_ACK; CID_NAK]) in
  failed_attempts B sk fuel RSet (rq_cid rq) payload k w0 wk ->
  send B (do_flush B wk) (rq_cid rq) payload = (true, w1) ->
  rx_unfold B (wenv w1) (length (evs ++ extra)) = (evs ++ extra, e') ->
  delivers_noisy [CID_ACK; CID_NAK] (wnow w1) (wnow w1 + sdelay (wsrv w1)) evs extra 5 i pa ->
  (i = 1 /\ ack_names pa (rq_cid rq) \/ i = 0) ->
  reg_lookup (sreg (wsrv w1)) (5, i) = Some ((if i =? 1 then "UbxAckAck"%string else "UbxAckNak"%string), ack_kind) ->
  build_with_data sk ack_kind pa = Ok d ->
  (length (evs ++ extra) <= fuel)%nat ->
  exists w', do_request B sk fuel RSet rq w
             = (Return (Some (mkRFrame (if i =? 1 then "UbxAckAck"%string else "UbxAckNak"%string) (5, i) pa d)), w')
    /\ count_tx (new_events w w') = S k.
Proof. exact set_answer_after_k_noisy. Qed.
Print Assumptions C06c_set_answer_after_k.

Theorem C06c_mga_answer_after_k : forall E (B : backend E) sk fuel rq payload k w wk w1 evs extra e' pa d,
  pack_body (rq_body rq) = Ok payload ->
  (k < S (sretries (wsrv w)))%nat ->
  let w0 := with_parser w (set_filter (sparser (wsrv w)) CID_MGA_ACK) in
  failed_attempts B sk fuel RSetMga (rq_cid rq) payload k w0 wk ->
  send B (do_flush B wk) (rq_cid rq) payload = (true, w1) ->
  rx_unfold B (wenv w1) (length (evs ++ extra)) = (evs ++ extra, e') ->
  delivers_noisy [CID_MGA_ACK] (wnow w1) (wnow w1 + sdelay (wsrv w1)) evs extra 19 96 pa ->
  reg_lookup (sreg (wsrv w1)) CID_MGA_ACK = Some ("UbxMgaAckData0"%string, mga_kind) ->
  build_with_data sk mga_kind pa = Ok d -> dec_getf d "type" = Some (VInt 1) ->
  (length (evs ++ extra) <= fuel)%nat ->
  exists w', do_request B sk fuel RSetMga rq w
             = (Return (Some (mkRFrame "UbxMgaAckData0"%string CID_MGA_ACK pa d)), w')
    /\ count_tx (new_events w w') = S k.
Proof. exact mga_answer_after_k_noisy. Qed.
Print Assumptions C06c_mga_answer_after_k.

Theorem C06c_poll_answer_after_k : forall E (B : backend E) sk fuel rq payload k w wk w1 evs extra e' pl d,
  pack_body (rq_body rq) = Ok payload ->
  (k < S (sretries (wsrv w)))%nat -> is_cfg (rq_cid rq) = false -> rq_cid rq <> CID_CRC_ERROR ->
  let w0 := with_parser (with_reg w (reg_register (sreg (wsrv w)) (rq_cid rq) (rq_resp rq)))
                        (set_filters (sparser (wsrv w)) (poll_filter (rq_cid rq))) in
  failed_attempts B sk fuel RPoll (rq_cid rq) payload k w0 wk ->
  send B (do_flush B wk) (rq_cid rq) payload = (true, w1) ->
  rx_unfold B (wenv w1) (length (evs ++ extra)) = (evs ++ extra, e') ->
  delivers_noisy (poll_filter (rq_cid rq)) (wnow w1) (wnow w1 + sdelay (wsrv w1)) evs extra
           (fst (rq_cid rq)) (snd (rq_cid rq)) pl ->
  build_with_data sk (snd (rq_resp rq)) pl = Ok d ->
  (2 * length (evs ++ extra) + 4 <= fuel)%nat ->
  exists w', do_request B sk fuel RPoll rq w
             = (Return (Some (mkRFrame (fst (rq_resp rq)) (rq_cid rq) pl d)), w')
    /\ count_tx (new_events w w') = S k.
Proof. exact poll_answer_after_k_noisy. Qed.
Print Assumptions C06c_poll_answer_after_k.

(* the statement of C06.v is the special case without markers *)
Theorem C06c_generalises_C06 : forall fl now deadline evs c i pl,
  delivers fl now deadline evs c i pl -> delivers_noisy fl now deadline evs [] c i pl.
Proof. exact delivers_is_noisy. Qed.
Print Assumptions C06c_generalises_C06.

(* Non-vacuity and an evaluated run: two corrupted frames and the ACK-ACK for CFG-MSG (06 01) arrive in ONE read; the
   two markers are dequeued by that read and the next, the answer by the third: set() returns it after 1 transmission
   and 3 receive calls. *)
Definition c06c_bad1 : seg := SBad 5 1 [6; 1] 0 0.
Definition c06c_bad2 : seg := SBad 1 7 [1; 2; 3] 9 9.
Definition c06c_evs : list (option bytes * N) :=
  [(Some (seg_bytes c06c_bad1 ++ seg_bytes c06c_bad2 ++ wire 5 1 [6; 1]), 1)].
Definition c06c_extra : list (option bytes * N) := [(None, 13); (None, 13)].

Example C06c_hypothesis_satisfiable :
  delivers_noisy [CID_ACK; CID_NAK] 0 100 c06c_evs c06c_extra 5 1 [6; 1].
Proof.
  exists [c06c_bad1; c06c_bad2]. repeat split; try reflexivity.
  - repeat constructor; cbn; try lia; discriminate.
  - repeat constructor.
  - cbn; lia.
  - discriminate.
  - eexists. split; [reflexivity | discriminate].
Qed.

Definition c06c_rq : request := mkRequest (6, 1) (BFields []) ("-"%string, RK (KFixed [])).
Definition c06c_script : script := mkScript [] [(true, c06c_evs)] 13.

Example C06c_evaluated_run :
  let r := do_request script_backend [] 20 RSet c06c_rq (mkWorld (new_srv 2 100) c06c_script 0 [] false) in
  (match fst r with Return (Some f) => rf_cid f = (5, 1) /\ rf_payload f = [6; 1] | _ => False end)
  /\ count_tx (wtrace (snd r)) = 1%nat
  /\ length (filter is_rx (wtrace (snd r))) = 3%nat.
Proof. vm_compute. repeat split. Qed.
