(* C07 (generic part) — decoded fields carry the values found at the prescribed offsets. *)
From Ubx Require Import Fields Base FieldsSpec FieldsP.

(* Fixed messages: every named field = the value at its offset/width/signedness, little endian;
   text = the characters with trailing NULs removed; surplus bytes are ignored. *)
Theorem C07_decode_fixed : forall l data,
  widths_ok l = true -> (size l <= length data)%nat -> ch_valid l 0 data = true ->
  decode (KFixed l) data = Ok (spec_decode l 0 data).
Proof. exact decode_fixed. Qed.
Print Assumptions C07_decode_fixed.

(* Count-prefixed messages, for every block count c (not only those a receiver sends) *)
Theorem C07_decode_counted : forall hdr cnt maxc blk data c,
  widths_ok hdr = true -> widths_ok blk = true ->
  getf (spec_decode hdr 0 data) cnt = Some (VInt (Z.of_nat c)) ->
  match maxc with Some m => (Z.of_nat c <= Z.of_N m)%Z | None => True end ->
  (size (counted_layout hdr blk c) <= length data)%nat ->
  ch_valid (counted_layout hdr blk c) 0 data = true ->
  decode (KCounted hdr cnt maxc blk) data = Ok (spec_decode (counted_layout hdr blk c) 0 data).
Proof. exact decode_counted. Qed.
Print Assumptions C07_decode_counted.

(* blocks are laid out in payload order: block i starts at off + i * size blk *)
Theorem C07_blocks_offsets : forall blk c off,
  layout_offsets (blocks blk c) off
  = concat (map (fun i => layout_offsets (suffixed blk i) (off + i * size blk)) (seq 0 c)).
Proof. exact blocks_offsets. Qed.
Print Assumptions C07_blocks_offsets.

Theorem C07_size_counted : forall hdr blk c, size (counted_layout hdr blk c) = (size hdr + c * size blk)%nat.
Proof. exact size_counted. Qed.
Print Assumptions C07_size_counted.

(* MON-VER: 30 + 10 characters, then one 30-character extension per further 30 bytes *)
Theorem C07_decode_monver : forall data,
  (40 <= length data)%nat -> ch_valid (monver_layout (length data)) 0 data = true ->
  decode KMonVer data = Ok (spec_decode (monver_layout (length data)) 0 data).
Proof. exact decode_monver. Qed.
Print Assumptions C07_decode_monver.

Theorem C07_monver_offsets : forall len,
  layout_offsets (monver_layout len) 0
  = [("swVersion"%string, 0, 30, KCh); ("hwVersion"%string, 30, 10, KCh)]%nat
    ++ map (fun i => (append "extension_" (dec i), 40 + 30 * i, 30, KCh)%nat) (seq 0 ((len - 40) / 30)).
Proof. exact monver_offsets. Qed.
Print Assumptions C07_monver_offsets.

(* the value at an offset, spelled out: little-endian, two's complement for I types *)
Theorem C07_spec_value_le : forall w b0 b1 b2 b3,
  spec_value (TU 4) [b0; b1; b2; b3] = VInt (Z.of_N (b0 + 256 * (b1 + 256 * (b2 + 256 * (b3 + 256 * 0)))))
  /\ spec_value (TU w) [b0] = VInt (Z.of_N (b0 + 256 * 0)).
Proof. exact spec_value_le. Qed.
Print Assumptions C07_spec_value_le.

(* malformed payloads: too short -> an exception, never a silently wrong frame *)
Theorem C07_decode_short : forall l data,
  widths_ok l = true -> (length data < size l)%nat ->
  (forall n t, In (n, t) l -> match t with TPad _ => False | _ => True end) ->
  exists e, decode (KFixed l) data = Raise e.
Proof. exact decode_short. Qed.
Print Assumptions C07_decode_short.
