(* C13 — per-run obligations over the key tables regenerated from /repo (Tie B). *)
From Ubx Require Import Fields Base CfgKeys CfgKeysSpec CfgKeysP.
From UbxGen Require Import Tables.

(* The keys the u-blox documentation gives a signed type (independent two-entry oracle):
   CFG-SFIMU-IMU_MNTALG_PITCH (I2) and CFG-SFIMU-IMU_MNTALG_ROLL (I2). YAW (U4) and all
   SIGNAL/NMEA/UART/NAVSPG/RATE/SFCORE/TP keys the library publishes are unsigned or boolean. *)
Definition documented_signed : list N := [805699630; 805699631].

Definition key_ok (kv : string * N) : bool :=
  let k := snd kv in
  reserved_zero k && (1 <=? key_size k) && (key_size k <=? 5)
  && Bool.eqb (sign_of g_signed_keys k) (existsb (N.eqb k) documented_signed).

Theorem C13_published_keys_ok :
  forallb key_ok g_published_keys = true
  /\ forallb (fun k => existsb (N.eqb k) documented_signed) g_signed_keys = true
  /\ forallb (fun k => existsb (fun kv => N.eqb k (snd kv)) g_published_keys) documented_signed = true.
Proof. repeat split; vm_compute; reflexivity. Qed.
Print Assumptions C13_published_keys_ok.

(* The 32-bit key ids of the u-blox interface description for the constants the library publishes (hand-kept oracle,
   independent of the source: a published constant must denote the documented key). Constants published beyond
   this list are not judged. *)
Definition documented_keys : list (string * N) :=
  [("CFG_NAVSPG_DYNMODEL"%string, 537985057);
   ("CFG_NAVSPG_FIXMODE"%string, 537985041);
   ("CFG_NMEA_PROTVER"%string, 546504705);
   ("CFG_RATE_MEAS"%string, 807469057);
   ("CFG_RATE_NAV"%string, 807469058);
   ("CFG_RATE_NAV_PRIO"%string, 539033604);
   ("CFG_SFCORE_USE_SF"%string, 268959745);
   ("CFG_SFIMU_IMU_MNTALG_PITCH"%string, 805699630);
   ("CFG_SFIMU_IMU_MNTALG_ROLL"%string, 805699631);
   ("CFG_SFIMU_IMU_MNTALG_YAW"%string, 1074135085);
   ("CFG_SIGNAL_BDS_B1_ENA"%string, 271646733);
   ("CFG_SIGNAL_BDS_ENA"%string, 271646754);
   ("CFG_SIGNAL_GAL_E1_ENA"%string, 271646727);
   ("CFG_SIGNAL_GAL_ENA"%string, 271646753);
   ("CFG_SIGNAL_GLO_ENA"%string, 271646757);
   ("CFG_SIGNAL_GLO_L1_ENA"%string, 271646744);
   ("CFG_SIGNAL_GPS_ENA"%string, 271646751);
   ("CFG_SIGNAL_GPS_L1CA_ENA"%string, 271646721);
   ("CFG_SIGNAL_QZSS_ENA"%string, 271646756);
   ("CFG_SIGNAL_QZSS_L1CA_ENA"%string, 271646738);
   ("CFG_SIGNAL_QZSS_L1S_ENA"%string, 271646740);
   ("CFG_SIGNAL_SBAS_ENA"%string, 271646752);
   ("CFG_SIGNAL_SBAS_L1CA_ENA"%string, 271646725);
   ("CFG_TP_ALIGN_TO_TOW_TP2"%string, 268763157);
   ("CFG_TP_LEN_LOCK_TP2"%string, 1074069520);
   ("CFG_TP_LEN_TP2"%string, 1074069519);
   ("CFG_TP_PERIOD_LOCK_TP2"%string, 1074069518);
   ("CFG_TP_PERIOD_TP2"%string, 1074069517);
   ("CFG_TP_POL_TP2"%string, 268763158);
   ("CFG_TP_PULSE_DEF"%string, 537198627);
   ("CFG_TP_PULSE_LENGTH_DEF"%string, 537198640);
   ("CFG_TP_TIMEGRID_TP2"%string, 537198615);
   ("CFG_TP_TP2_ENA"%string, 268763154);
   ("CFG_TP_USE_LOCKED_TP2"%string, 268763156);
   ("CFG_UART1_BAUDRATE"%string, 1079115777)].

Theorem C13_published_ids_documented :
  forallb (fun d => existsb (fun kv => String.eqb (fst kv) (fst d) && N.eqb (snd kv) (snd d)) g_published_keys) documented_keys = true.
Proof. vm_compute; reflexivity. Qed.
Print Assumptions C13_published_ids_documented.

(* the size tables of the source are the ones the model uses *)
Theorem C13_size_tables :
  forallb (fun bs => match size_from_bits (fst bs) with Some s => N.eqb s (snd bs) | None => false end) g_size_from_bits = true
  /\ length g_size_from_bits = 5%nat
  /\ g_bits_from_size = map bits_from_size [0; 1; 2; 3; 4; 5; 6; 7]
  /\ forallb (fun bw => match bytes_from_bits (fst bw) with Some w => Nat.eqb w (snd bw) | None => false end) g_bytes_from_bits = true
  /\ length g_bytes_from_bits = 5%nat.
Proof. repeat split; vm_compute; reflexivity. Qed.
Print Assumptions C13_size_tables.

(* hence every published key constant: the item built from it carries the documented signedness and
   encodes to exactly that key id, little-endian, with the value width of its size code *)
Theorem C13_published_key_encodes : forall name key v,
  In (name, key) g_published_keys ->
  let it := from_key g_signed_keys key (CInt v) in
  it_signed it = existsb (N.eqb key) documented_signed
  /\ key_id (it_bits it) (it_group it) (it_item it) = key
  /\ (it_bits it <> 1%Z -> int_in_range (it_bits it) (it_signed it) v = true ->
      exists vb, pack_item_cfg it = Ok (le_enc 4 key ++ vb) /\ length vb = value_width (it_bits it))
  /\ (it_bits it = 1%Z -> pack_item_cfg it = Ok (le_enc 4 key ++ [if (v =? 0)%Z then 0 else 1])).
Proof.
  intros name key v Hin.
  pose proof (proj1 C13_published_keys_ok) as Hall.
  rewrite forallb_forall in Hall. specialize (Hall _ Hin). unfold key_ok in Hall. cbn [snd] in Hall.
  apply andb_true_iff in Hall. destruct Hall as [Hall Hs].
  apply andb_true_iff in Hall. destruct Hall as [Hall H5].
  apply andb_true_iff in Hall. destruct Hall as [Hr H1].
  apply N.leb_le in H1. apply N.leb_le in H5. apply Bool.eqb_prop in Hs.
  destruct (key_encodes g_signed_keys key v Hr (conj H1 H5)) as (A & B & C & D).
  split; [rewrite A; exact Hs | split; [exact B | split; [exact C | exact D]]].
Qed.
Print Assumptions C13_published_key_encodes.

Example C13_tables_nonvacuous :
  Nat.leb 30 (length g_published_keys) = true
  /\ existsb (fun kv => N.eqb (snd kv) 805699630) g_published_keys = true.
Proof. split; vm_compute; reflexivity. Qed.
