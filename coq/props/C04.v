(* C04 — requests return only fresh, matching and (for CFG) acknowledged answers. *)
From Ubx Require Import Fields Base Checksum Frame ParserUbx ParserUbxSpec CfgKeys Request RequestSpec RequestP RequestSafe.

(* What any returned frame is: decoded, as the class registered for its class/id, from a packet
   that a NEW parser with the request's filter delivers from the bytes read after the most recent
   successful transmission. *)
Theorem C04_returned_is_fresh : forall E (B : backend E) sk fuel o rq w f,
  fst (do_request B sk fuel o rq w) = Return (Some f) ->
  let w' := snd (do_request B sk fuel o rq w) in
  let filt := match o with RPoll => poll_filter (rq_cid rq) | RSet => [CID_ACK; CID_NAK]
                         | RSetMga => [CID_MGA_ACK] | RFire => [] end in
  exists stream name rk,
    rx_after_last_tx (new_events w w') = Some stream
    /\ In (Pkt (fst (rf_cid f)) (snd (rf_cid f)) (rf_payload f)) (queue (process (fresh (Some filt)) stream))
    /\ reg_lookup (sreg (wsrv w')) (rf_cid f) = Some (name, rk)
    /\ rf_name f = name /\ build_with_data sk rk (rf_payload f) = Ok (rf_dec f).
Proof. exact returned_is_fresh. Qed.
Print Assumptions C04_returned_is_fresh.

(* ... and such a packet is a checksum-valid frame occurring in those bytes (C03) *)
Theorem C04_packet_is_occurrence : forall filt s c i p,
  Forall (fun b => b < 256) s ->
  In (Pkt c i p) (queue (process (fresh (Some filt)) s)) ->
  (exists s1 s2, s = s1 ++ wire c i p ++ s2) /\ (length p <= 1000)%nat /\ In (c, i) filt.
Proof. exact packet_is_occurrence. Qed.
Print Assumptions C04_packet_is_occurrence.

(* poll(): the request's own class/id, decoded as its declared response type; for configuration
   class, an ACK-ACK naming the request was delivered after the response *)
(* (The ACK-ACK class must be the library's own: with a foreign class registered under the ACK
   class/id the last clause is false — RequestSafe.Counterexample.poll_safe_counterexample.) *)
Theorem C04_poll_safe : forall E (B : backend E) sk fuel rq w f nm,
  reg_lookup (sreg (wsrv w)) CID_ACK = Some (nm, ack_kind) ->
  fst (do_request B sk fuel RPoll rq w) = Return (Some f) ->
  let w' := snd (do_request B sk fuel RPoll rq w) in
  rf_cid f = rq_cid rq /\ rf_name f = fst (rq_resp rq)
  /\ build_with_data sk (snd (rq_resp rq)) (rf_payload f) = Ok (rf_dec f)
  /\ (is_cfg (rq_cid rq) = true ->
      exists stream q1 q2 q3 pa,
        rx_after_last_tx (new_events w w') = Some stream
        /\ queue (process (fresh (Some (poll_filter (rq_cid rq)))) stream)
           = q1 ++ [Pkt (fst (rq_cid rq)) (snd (rq_cid rq)) (rf_payload f)] ++ q2 ++ [Pkt 5 1 pa] ++ q3
        /\ ack_names pa (rq_cid rq)).
Proof. exact poll_safe_partial. Qed.
Print Assumptions C04_poll_safe.

(* set(): an ACK-ACK naming the request, or an ACK-NAK *)
Theorem C04_set_safe : forall E (B : backend E) sk fuel rq w f,
  fst (do_request B sk fuel RSet rq w) = Return (Some f) ->
  (rf_cid f = CID_ACK /\ dec_getf (rf_dec f) "clsId" = Some (VInt (Z.of_N (fst (rq_cid rq))))
                      /\ dec_getf (rf_dec f) "msgId" = Some (VInt (Z.of_N (snd (rq_cid rq)))))
  \/ rf_cid f = CID_NAK.
Proof. exact set_safe. Qed.
Print Assumptions C04_set_safe.

(* set_mga(): an MGA-ACK reporting acceptance *)
Theorem C04_mga_safe : forall E (B : backend E) sk fuel rq w f,
  fst (do_request B sk fuel RSetMga rq w) = Return (Some f) ->
  rf_cid f = CID_MGA_ACK /\ dec_getf (rf_dec f) "type" = Some (VInt 1).
Proof. exact mga_safe. Qed.
Print Assumptions C04_mga_safe.

(* fire_and_forget() never returns a frame *)
Theorem C04_fire_none : forall E (B : backend E) sk fuel rq w f,
  fst (do_request B sk fuel RFire rq w) <> Return (Some f).
Proof. exact fire_none. Qed.
Print Assumptions C04_fire_none.
