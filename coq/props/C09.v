(* C09 — parsing is independent of chunking; restart() drops exactly the partial frame. *)
From Ubx Require Import Base Checksum ParserUbx ParserUbxSpec ParserNmea ParserUbxP ParserNmeaP.

Theorem C09_chunk_indep_ubx : forall p a b, process (process p a) b = process p (a ++ b).
Proof. exact chunk_indep_ubx. Qed.
Print Assumptions C09_chunk_indep_ubx.

(* every partition, empty and 1-byte chunks included *)
Theorem C09_chunks_indep_ubx : forall chunks p, fold_left process chunks p = process p (concat chunks).
Proof. exact chunks_indep_ubx. Qed.
Print Assumptions C09_chunks_indep_ubx.

(* After restart() at any point (any parser state whatsoever, not only reachable ones), every
   further schedule of API calls gives the same outputs, queue, counter and filter as on a
   newly created parser that keeps the queue and the count. *)
Theorem C09_restart_fresh_ubx : forall p ops,
  let a := run (restart p) ops in
  let b := run (fresh_keeping p) ops in
  snd a = snd b /\ queue (fst a) = queue (fst b) /\ rx (fst a) = rx (fst b) /\ filt (fst a) = filt (fst b).
Proof. exact restart_fresh_ubx. Qed.
Print Assumptions C09_restart_fresh_ubx.

(* the same, relative to a really new parser: old queue and count are kept in front *)
Theorem C09_restart_offset_ubx : forall p s,
  queue (process (restart p) s) = queue p ++ queue (process (fresh (filt p)) s)
  /\ rx (process (restart p) s) = rx p + rx (process (fresh (filt p)) s).
Proof. exact restart_offset_ubx. Qed.
Print Assumptions C09_restart_offset_ubx.

Theorem C09_chunk_indep_nmea : forall p a b, nprocess (nprocess p a) b = nprocess p (a ++ b).
Proof. exact chunk_indep_nmea. Qed.
Print Assumptions C09_chunk_indep_nmea.

Theorem C09_chunks_indep_nmea : forall chunks p, fold_left nprocess chunks p = nprocess p (concat chunks).
Proof. exact chunks_indep_nmea. Qed.
Print Assumptions C09_chunks_indep_nmea.

Theorem C09_restart_fresh_nmea : forall p s,
  nrx (nprocess (nrestart p) s) = nrx p + nrx (nprocess nfresh s).
Proof. exact restart_fresh_nmea. Qed.
Print Assumptions C09_restart_fresh_nmea.
