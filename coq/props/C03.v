(* C03 — the parser never delivers anything but checksum-valid frames of the input. *)
From Ubx Require Import Base Checksum Frame ParserUbx ParserUbxSpec ParserUbxSound.

(* For every byte stream and every filter: what is queued is exactly the emission of a
   left-to-right decomposition of the stream into gaps and non-overlapping frame-shaped
   occurrences (length <= 1000): one data packet per checksum-valid occurrence whose class/id
   is in the filter, one error marker per occurrence whose checksum does not match, nothing else;
   the counter counts the valid occurrences. *)
Theorem C03_sound_all_streams : forall f s,
  Forall (fun b => b < 256) s ->
  exists os, Dec s os
    /\ queue (process (fresh f) s) = flat_map (emit f) os
    /\ rx (process (fresh f) s) = N.of_nat (count_valid os).
Proof. exact sound_all_streams. Qed.
Print Assumptions C03_sound_all_streams.

(* ... under every chunking (process keeps no per-call state) *)
Theorem C03_sound_chunked : forall f chunks,
  Forall (fun b => b < 256) (concat chunks) ->
  exists os, Dec (concat chunks) os
    /\ queue (fold_left process chunks (fresh f)) = flat_map (emit f) os
    /\ rx (fold_left process chunks (fresh f)) = N.of_nat (count_valid os).
Proof. exact sound_chunked. Qed.
Print Assumptions C03_sound_chunked.

(* A header declaring a length above 1000 yields nothing and hides nothing that starts after
   its 6 bytes: the parser continues exactly as a restarted parser would on the rest. *)
Theorem C03_overlength_transparent : forall p c i lo hi r,
  (st p = INIT \/ st p = SYNC) -> 1000 < lo + 256 * hi ->
  let a := process p ([181; 98; c; i; lo; hi] ++ r) in
  let b := process (restart p) r in
  queue a = queue b /\ rx a = rx b /\ filt a = filt b /\ st a = st b.
Proof. exact overlength_transparent. Qed.
Print Assumptions C03_overlength_transparent.

(* A frame-shaped sequence whose checksum does not match yields exactly one marker, no data. *)
Theorem C03_one_marker : forall p c i pl k1 k2,
  (st p = INIT \/ st p = SYNC) -> (length pl <= 1000)%nat ->
  (k1, k2) <> fletcher (wire_hdr c i pl ++ pl) ->
  let a := process p ([181; 98] ++ wire_hdr c i pl ++ pl ++ [k1; k2]) in
  queue a = queue p ++ [CrcErr] /\ rx a = rx p /\ st a = INIT.
Proof. exact one_marker. Qed.
Print Assumptions C03_one_marker.

Example C03_nonvacuous :
  exists os, os <> [] /\ Dec ([0; 181] ++ wire 6 1 [7] ++ [181; 98; 5; 1; 0; 0; 9; 9]) os
   /\ queue (process (fresh (Some [(6, 1)])) ([0; 181] ++ wire 6 1 [7] ++ [181; 98; 5; 1; 0; 0; 9; 9]))
      = flat_map (emit (Some [(6, 1)])) os
   /\ flat_map (emit (Some [(6, 1)])) os = [Pkt 6 1 [7]; CrcErr].
Proof. exact sound_nonvacuous. Qed.
