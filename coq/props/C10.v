(* C10 — a request's outcome does not depend on earlier requests or traffic. *)
From Ubx Require Import Fields Base Checksum Frame ParserUbx CfgKeys Request RequestSpec RequestIndep.

(* Two server objects with the same retry configuration and the same base registrations, in ANY
   parser state (queued packets, half-received frame, previous filter) and with any further
   registrations, facing the same receiver state at the same time: same result, same
   transmissions and reads, same receiver state afterwards — and they stay equivalent. *)
Theorem C10_request_state_indep : forall E (B : backend E) sk fuel o rq w1 w2,
  srv_equiv (wsrv w1) (wsrv w2) -> wenv w1 = wenv w2 -> wnow w1 = wnow w2 ->
  let r1 := do_request B sk fuel o rq w1 in
  let r2 := do_request B sk fuel o rq w2 in
  fst r1 = fst r2
  /\ new_events w1 (snd r1) = new_events w2 (snd r2)
  /\ wenv (snd r1) = wenv (snd r2) /\ wnow (snd r1) = wnow (snd r2)
  /\ srv_equiv (wsrv (snd r1)) (wsrv (snd r2)).
Proof. exact request_state_indep. Qed.
Print Assumptions C10_request_state_indep.

(* Hence, in any sequence of requests on one server, the i-th request behaves exactly as the same
   request alone on a freshly set-up server facing the receiver state it meets. *)
Theorem C10_sequence_indep : forall E (B : backend E) sk fuel rs o rq retries delay e now,
  Forall keeps_base rs ->
  let w0 := mkWorld (new_srv retries delay) e now [] false in
  let wi := run_seq B sk fuel rs w0 in
  let alone := mkWorld (new_srv retries delay) (wenv wi) (wnow wi) [] false in
  let r1 := do_request B sk fuel o rq wi in
  let r2 := do_request B sk fuel o rq alone in
  fst r1 = fst r2 /\ new_events wi (snd r1) = new_events alone (snd r2)
  /\ wenv (snd r1) = wenv (snd r2) /\ wnow (snd r1) = wnow (snd r2).
Proof. exact sequence_indep. Qed.
Print Assumptions C10_sequence_indep.
