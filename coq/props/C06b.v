(* C06 on the gpsd backend (known finding F11): the backend's _flush_input() is the base class's no-op, so input
   still unread at a transmission is parsed after it. The same receiver behaviour - attempt 1 answered, after its
   waiting period, by the first 10 bytes of a 44-byte frame; attempt 2 answered correctly and in time - yields the
   answer after 2 sends on a backend that discards unread input (script_backend: flush = drop what is pending) and
   nothing on gpsd_script_backend (flush = identity). Evaluated runs. *)
From Ubx Require Import Fields Base Checksum Frame ParserUbx CfgKeys Request ScriptBackend Backends LineBackend C06bP.

Theorem C06b_unread_input_hides_answer :
  exists sk fuel rq srv0 s f,
    sretries srv0 = 1%nat
    /\ fst (do_request script_backend sk fuel RPoll rq (mkWorld srv0 s 0 [] false)) = Return (Some f)
    /\ rf_cid f = rq_cid rq
    /\ List.length (tx_ok_frames (wtrace (snd (do_request script_backend sk fuel RPoll rq (mkWorld srv0 s 0 [] false))))) = 2%nat
    /\ fst (do_request gpsd_script_backend sk fuel RPoll rq (mkWorld srv0 s 0 [] false)) = Return None
    /\ List.length (tx_ok_frames (wtrace (snd (do_request gpsd_script_backend sk fuel RPoll rq (mkWorld srv0 s 0 [] false))))) = 2%nat.
Proof. exact unread_input_hides_answer. Qed.
Print Assumptions C06b_unread_input_hides_answer.
