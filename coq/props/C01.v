(* C01 — Serialised frames are exact UBX wire format for every payload length 0..65535. *)
From Ubx Require Import Base Checksum Frame FrameP.

Theorem C01_to_bytes_wire : forall f,
  N.of_nat (length (fr_data f)) <= 65535 ->
  fst (to_bytes f) = wire (fr_cls f) (fr_id f) (fr_data f).
Proof. exact to_bytes_wire. Qed.
Print Assumptions C01_to_bytes_wire.

Theorem C01_to_bytes_frame : forall f,
  fr_cls (snd (to_bytes f)) = fr_cls f /\ fr_id (snd (to_bytes f)) = fr_id f
  /\ fr_data (snd (to_bytes f)) = fr_data f.
Proof. exact to_bytes_frame. Qed.
Print Assumptions C01_to_bytes_frame.

Theorem C01_to_bytes_idem : forall f,
  to_bytes (snd (to_bytes f)) = (fst (to_bytes f), snd (to_bytes f)).
Proof. exact to_bytes_idem. Qed.
Print Assumptions C01_to_bytes_idem.

Theorem C01_twice_wire : forall f,
  N.of_nat (length (fr_data f)) <= 65535 ->
  fst (to_bytes (snd (to_bytes f))) = wire (fr_cls f) (fr_id f) (fr_data f).
Proof. exact to_bytes_twice_wire. Qed.
Print Assumptions C01_twice_wire.

Theorem C01_len_field : forall c i p,
  N.of_nat (length p) <= 65535 ->
  le_dec [nth 4 (wire c i p) 0; nth 5 (wire c i p) 0] = N.of_nat (length p).
Proof. exact wire_len_field. Qed.
Print Assumptions C01_len_field.
