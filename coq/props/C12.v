(* C12 — all (re)transmissions carry the same canonical bytes. *)
From Ubx Require Import Fields Base Checksum Frame ParserUbx CfgKeys Request RequestSpec RequestP.

(* Every transmission made for a request — first attempt and all retries, whatever the receiver
   does and whether transmissions succeed — carries exactly the wire encoding of the request's
   class/id and of its body packed once at call time. *)
Theorem C12_all_tx_canonical : forall E (B : backend E) sk fuel o rq w payload,
  pack_body (rq_body rq) = Ok payload -> (length payload <= 65535)%nat ->
  Forall (fun ev => match ev with
                    | Tx d _ => d = wire (fst (rq_cid rq)) (snd (rq_cid rq)) payload
                    | _ => True
                    end)
         (new_events w (snd (do_request B sk fuel o rq w))).
Proof. exact all_tx_canonical. Qed.
Print Assumptions C12_all_tx_canonical.

(* nothing is transmitted when the frame cannot be packed *)
Theorem C12_no_tx_if_unpackable : forall E (B : backend E) sk fuel o rq w e,
  pack_body (rq_body rq) = Raise e ->
  new_events w (snd (do_request B sk fuel o rq w)) = [].
Proof. exact no_tx_if_unpackable. Qed.
Print Assumptions C12_no_tx_if_unpackable.
