(* C06 — a correct answer to the k-th transmission is returned after exactly k sends. *)
From Ubx Require Import Fields Base Checksum Frame ParserUbx ParserUbxSpec CfgKeys Request RequestSpec RequestGood.

(* Core: when the receive calls deliver inert traffic followed by a frame of the filter whose
   last byte arrives in a call that starts before the deadline, _wait() returns that frame,
   decoded, with its payload intact, having made exactly those receive calls — whatever the
   chunking, for every backend. *)
Theorem C06_wait_delivers : forall E (B : backend E) sk fuel deadline w evs e' fl c i pl name rk d,
  rx_unfold B (wenv w) (length evs) = (evs, e') ->
  st (sparser (wsrv w)) = INIT -> queue (sparser (wsrv w)) = [] -> filt (sparser (wsrv w)) = Some fl ->
  In (c, i) fl -> (c, i) <> CID_CRC_ERROR ->
  delivers fl (wnow w) deadline evs c i pl ->
  reg_lookup (sreg (wsrv w)) (c, i) = Some (name, rk) -> build_with_data sk rk pl = Ok d ->
  (length evs <= fuel)%nat ->
  exists w', wait B sk fuel deadline w = (Some (Some (mkRFrame name (c, i) pl d)), w')
    /\ wtrace w' = wtrace w ++ map (fun ev => Rx (fst ev) (snd ev)) evs
    /\ wenv w' = e' /\ wnow w' = wnow w + time_of evs
    /\ st (sparser (wsrv w')) = INIT /\ queue (sparser (wsrv w')) = []
    /\ filt (sparser (wsrv w')) = Some fl /\ sreg (wsrv w') = sreg (wsrv w)
    /\ sretries (wsrv w') = sretries (wsrv w) /\ sdelay (wsrv w') = sdelay (wsrv w).
Proof. exact wait_delivers. Qed.
Print Assumptions C06_wait_delivers.

(* Unfolding k-1 failed attempts: whatever happened in them, the request continues from the
   world they leave behind, with k-1 transmissions made. *)
Theorem C06_skip_failed_set : forall E (B : backend E) sk fuel (mga : bool) req payload n k w wk,
  failed_attempts B sk fuel (if mga then RSetMga else RSet) req payload k w wk ->
  set_attempts B sk fuel (k + n) mga req payload w = set_attempts B sk fuel n mga req payload wk
  /\ exists tr, wtrace wk = wtrace w ++ tr /\ count_tx tr = k.
Proof. exact skip_failed_set. Qed.
Print Assumptions C06_skip_failed_set.

Theorem C06_skip_failed_poll : forall E (B : backend E) sk fuel req payload n k w wk,
  failed_attempts B sk fuel RPoll req payload k w wk ->
  poll_attempts B sk fuel (k + n) req payload w = poll_attempts B sk fuel n req payload wk
  /\ exists tr, wtrace wk = wtrace w ++ tr /\ count_tx tr = k.
Proof. exact skip_failed_poll. Qed.
Print Assumptions C06_skip_failed_poll.

(* set(): k-1 failed attempts, then the k-th transmission is answered in time by an ACK-ACK naming
   the request (or by any ACK-NAK): that frame is returned after exactly k transmissions. *)
Theorem C06_set_answer_after_k : forall E (B : backend E) sk fuel rq payload k w wk w1 evs e' i pa d,
  pack_body (rq_body rq) = Ok payload ->
  (k < S (sretries (wsrv w)))%nat ->
  let w0 := with_parser w (set_filters (sparser (wsrv w)) [CID_ACK; CID_NAK]) in
  failed_attempts B sk fuel RSet (rq_cid rq) payload k w0 wk ->
  send B (do_flush B wk) (rq_cid rq) payload = (true, w1) ->
  rx_unfold B (wenv w1) (length evs) = (evs, e') ->
  delivers [CID_ACK; CID_NAK] (wnow w1) (wnow w1 + sdelay (wsrv w1)) evs 5 i pa ->
  (i = 1 /\ ack_names pa (rq_cid rq) \/ i = 0) ->
  reg_lookup (sreg (wsrv w1)) (5, i) = Some ((if i =? 1 then "UbxAckAck"%string else "UbxAckNak"%string), ack_kind) ->
  build_with_data sk ack_kind pa = Ok d ->
  (length evs <= fuel)%nat ->
  exists w', do_request B sk fuel RSet rq w
             = (Return (Some (mkRFrame (if i =? 1 then "UbxAckAck"%string else "UbxAckNak"%string) (5, i) pa d)), w')
    /\ count_tx (new_events w w') = S k.
Proof. exact set_answer_after_k. Qed.
Print Assumptions C06_set_answer_after_k.

(* set_mga(): an accepting MGA-ACK *)
Theorem C06_mga_answer_after_k : forall E (B : backend E) sk fuel rq payload k w wk w1 evs e' pa d,
  pack_body (rq_body rq) = Ok payload ->
  (k < S (sretries (wsrv w)))%nat ->
  let w0 := with_parser w (set_filter (sparser (wsrv w)) CID_MGA_ACK) in
  failed_attempts B sk fuel RSetMga (rq_cid rq) payload k w0 wk ->
  send B (do_flush B wk) (rq_cid rq) payload = (true, w1) ->
  rx_unfold B (wenv w1) (length evs) = (evs, e') ->
  delivers [CID_MGA_ACK] (wnow w1) (wnow w1 + sdelay (wsrv w1)) evs 19 96 pa ->
  reg_lookup (sreg (wsrv w1)) CID_MGA_ACK = Some ("UbxMgaAckData0"%string, mga_kind) ->
  build_with_data sk mga_kind pa = Ok d -> dec_getf d "type" = Some (VInt 1) ->
  (length evs <= fuel)%nat ->
  exists w', do_request B sk fuel RSetMga rq w
             = (Return (Some (mkRFrame "UbxMgaAckData0"%string CID_MGA_ACK pa d)), w')
    /\ count_tx (new_events w w') = S k.
Proof. exact mga_answer_after_k. Qed.
Print Assumptions C06_mga_answer_after_k.

(* poll(), non-configuration class: the response alone *)
Theorem C06_poll_answer_after_k : forall E (B : backend E) sk fuel rq payload k w wk w1 evs e' pl d,
  pack_body (rq_body rq) = Ok payload ->
  (k < S (sretries (wsrv w)))%nat -> is_cfg (rq_cid rq) = false -> rq_cid rq <> CID_CRC_ERROR ->
  let w0 := with_parser (with_reg w (reg_register (sreg (wsrv w)) (rq_cid rq) (rq_resp rq)))
                        (set_filters (sparser (wsrv w)) (poll_filter (rq_cid rq))) in
  failed_attempts B sk fuel RPoll (rq_cid rq) payload k w0 wk ->
  send B (do_flush B wk) (rq_cid rq) payload = (true, w1) ->
  rx_unfold B (wenv w1) (length evs) = (evs, e') ->
  delivers (poll_filter (rq_cid rq)) (wnow w1) (wnow w1 + sdelay (wsrv w1)) evs
           (fst (rq_cid rq)) (snd (rq_cid rq)) pl ->
  build_with_data sk (snd (rq_resp rq)) pl = Ok d ->
  (2 * length evs + 4 <= fuel)%nat ->
  exists w', do_request B sk fuel RPoll rq w
             = (Return (Some (mkRFrame (fst (rq_resp rq)) (rq_cid rq) pl d)), w')
    /\ count_tx (new_events w w') = S k.
Proof. exact poll_answer_after_k. Qed.
Print Assumptions C06_poll_answer_after_k.

(* poll(), configuration class: the response in time for the first waiting period, then the
   matching ACK-ACK in time for the second, each possibly preceded by inert traffic *)
Theorem C06_cfg_poll_answer_after_k : forall E (B : backend E) sk fuel rq payload k w wk w1
    evs1 e1 evs2 e2 pl d pa da,
  pack_body (rq_body rq) = Ok payload ->
  (k < S (sretries (wsrv w)))%nat -> is_cfg (rq_cid rq) = true ->
  let w0 := with_parser (with_reg w (reg_register (sreg (wsrv w)) (rq_cid rq) (rq_resp rq)))
                        (set_filters (sparser (wsrv w)) (poll_filter (rq_cid rq))) in
  failed_attempts B sk fuel RPoll (rq_cid rq) payload k w0 wk ->
  send B (do_flush B wk) (rq_cid rq) payload = (true, w1) ->
  rx_unfold B (wenv w1) (length evs1) = (evs1, e1) ->
  delivers (poll_filter (rq_cid rq)) (wnow w1) (wnow w1 + sdelay (wsrv w1)) evs1
           (fst (rq_cid rq)) (snd (rq_cid rq)) pl ->
  build_with_data sk (snd (rq_resp rq)) pl = Ok d ->
  rx_unfold B e1 (length evs2) = (evs2, e2) ->
  delivers (poll_filter (rq_cid rq)) (wnow w1 + time_of evs1)
           (wnow w1 + time_of evs1 + sdelay (wsrv w1)) evs2 5 1 pa ->
  ack_names pa (rq_cid rq) ->
  reg_lookup (sreg (wsrv w1)) CID_ACK = Some ("UbxAckAck"%string, ack_kind) ->
  build_with_data sk ack_kind pa = Ok da ->
  (2 * (length evs1 + length evs2) + 4 <= fuel)%nat ->
  exists w', do_request B sk fuel RPoll rq w
             = (Return (Some (mkRFrame (fst (rq_resp rq)) (rq_cid rq) pl d)), w')
    /\ count_tx (new_events w w') = S k.
Proof. exact cfg_poll_answer_after_k. Qed.
Print Assumptions C06_cfg_poll_answer_after_k.
