(* C13 (generic part) — configuration items round-trip and keep their 32-bit key id. *)
From Ubx Require Import Fields Base CfgKeys CfgKeysSpec CfgKeysP.

(* integer items: every group, item, width, signedness and in-range value *)
Theorem C13_item_roundtrip : forall sk g i bits signed v,
  (0 <= g <= 255)%Z -> (0 <= i <= 4095)%Z ->
  (bits = 8 \/ bits = 16 \/ bits = 32 \/ bits = 64)%Z ->
  int_in_range bits signed v = true ->
  let s' := sign_of sk (key_id bits g i) in
  exists bs, pack_item_cfg (mkItem g i bits signed (CInt v)) = Ok bs
    /\ length bs = (4 + value_width bits)%nat
    /\ firstn 4 bs = le_enc 4 (key_id bits g i)
    /\ unpack_item_cfg sk bs = Ok (mkItem g i bits s' (CInt (reinterp s' bits v)), length bs).
Proof. exact item_roundtrip. Qed.
Print Assumptions C13_item_roundtrip.

(* ... and the value comes back unchanged whenever the key's documented signedness is the one
   used for packing, or the value is non-negative and below the sign bit *)
Theorem C13_reinterp_id : forall s' signed bits v,
  (bits = 8 \/ bits = 16 \/ bits = 32 \/ bits = 64)%Z -> int_in_range bits signed v = true ->
  (s' = signed \/ (0 <= v < 2 ^ (bits - 1))%Z) -> reinterp s' bits v = v.
Proof. exact reinterp_id. Qed.
Print Assumptions C13_reinterp_id.

(* 1-bit items: one value byte *)
Theorem C13_bit_roundtrip : forall sk g i b,
  (0 <= g <= 255)%Z -> (0 <= i <= 4095)%Z ->
  exists bs, pack_item_cfg (mkItem g i 1 false (CBool b)) = Ok bs
    /\ length bs = 5%nat /\ firstn 4 bs = le_enc 4 (key_id 1 g i)
    /\ unpack_item_cfg sk bs = Ok (mkItem g i 1 (sign_of sk (key_id 1 g i)) (CBool b), 5%nat).
Proof. exact bit_roundtrip. Qed.
Print Assumptions C13_bit_roundtrip.

(* every key id with zero reserved bits and a valid size code: the item built from the key encodes
   to exactly that key id, little-endian, value width by size code, signedness from the table *)
Theorem C13_key_encodes : forall sk key v,
  reserved_zero key = true -> 1 <= key_size key <= 5 ->
  let it := from_key sk key (CInt v) in
  it_signed it = sign_of sk key
  /\ key_id (it_bits it) (it_group it) (it_item it) = key
  /\ (it_bits it <> 1%Z -> int_in_range (it_bits it) (it_signed it) v = true ->
      exists vb, pack_item_cfg it = Ok (le_enc 4 key ++ vb) /\ length vb = value_width (it_bits it))
  /\ (it_bits it = 1%Z -> pack_item_cfg it = Ok (le_enc 4 key ++ [if (v =? 0)%Z then 0 else 1])).
Proof. exact key_encodes. Qed.
Print Assumptions C13_key_encodes.

(* the key id bit fields *)
Theorem C13_key_fields : forall bits g i,
  valid_bits bits = true -> (0 <= g <= 255)%Z -> (0 <= i <= 4095)%Z ->
  bits_from_key (key_id bits g i) = bits /\ group_from_key (key_id bits g i) = g
  /\ item_from_key (key_id bits g i) = i /\ reserved_zero (key_id bits g i) = true.
Proof. exact key_fields. Qed.
Print Assumptions C13_key_fields.

Example C13_nonvacuous :
  pack_item_cfg (mkItem 6 46 16 true (CInt (-1))) = Ok [46; 0; 6; 48; 255; 255]
  /\ key_id 16 6 46 = 805699630
  /\ pack_item_cfg (mkItem 255 4095 64 false (CInt 18446744073709551615))
     = Ok [255; 15; 255; 80; 255; 255; 255; 255; 255; 255; 255; 255].
Proof. repeat split; vm_compute; reflexivity. Qed.
