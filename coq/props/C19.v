(* C19 — frames can always be rendered; the log level never changes behaviour.
   Compiled on every run against the renderer tables regenerated from /repo (Tie B). *)
From Ubx Require Import Fields Base CfgKeys CfgKeysSpec Render RenderP.
From UbxGen Require Import Tables.

(* every lookup table in the source is at least as long as the largest index its bit mask yields *)
Theorem C19_tables_in_bounds : tables_ok g_render_tables = true.
Proof. vm_compute. reflexivity. Qed.
Print Assumptions C19_tables_in_bounds.

(* str(frame) for any field list of values of the right Python type (fresh, decoded from any
   payload, or after in-range assignment), whatever byte the table-driven renderers cached at the
   last decode: returns text with the message name and the name of every non-reserved field *)
Theorem C19_render_total : forall name fs,
  forallb rfield_ok fs = true ->
  exists toks, render_frame g_render_tables name fs = Ok toks /\ In (TName name) toks
    /\ forall n ty c v k, In (n, ty, c, v, k) fs -> is_pad ty = false -> In (TField n) toks.
Proof. exact (fun name fs => render_frame_total g_render_tables name fs C19_tables_in_bounds). Qed.
Print Assumptions C19_render_total.

Theorem C19_render_cfg_total : forall it,
  valid_bits (it_bits it) = true -> (it_bits it = 1%Z \/ it_value it <> CNone) ->
  exists toks, render_cfg it = Ok toks.
Proof. exact render_cfg_total. Qed.
Print Assumptions C19_render_cfg_total.

(* The DEBUG code paths of the request layer and the parser only add a str() of a frame that was
   packed or decoded, i.e. of a field list satisfying the hypothesis above: they cannot raise, so
   they cannot change results, transmissions or exceptions. *)
Definition tok_eqb (a b : token) : bool :=
  match a, b with
  | TName x, TName y | TField x, TField y => String.eqb x y
  | TEntry t i, TEntry u j => String.eqb t u && Nat.eqb i j
  | TText, TText => true
  | _, _ => false
  end.
Example C19_nonvacuous :
  match render_frame g_render_tables "UBX-CFG-PRT"
     [("PortId"%string, TU 1, RPlain, VInt 1, 0); ("res1"%string, TPad 1, RPlain, VInt 0, 0);
      ("mode"%string, TX 4, RMode, VInt 2240, 0); ("inProtoMask"%string, TX 2, RProto, VInt 7, 0)] with
  | Ok toks => existsb (tok_eqb (TField "inProtoMask")) toks && negb (existsb (tok_eqb (TField "res1")) toks)
               && existsb (tok_eqb (TEntry "parity_str" 4)) toks
  | Raise _ => false
  end = true.
Proof. vm_compute. reflexivity. Qed.
