(* C08 — encoding inverts decoding; read-modify-write changes only the edited field. *)
From Ubx Require Import Fields Base FieldsSpec FieldsP.

(* decode then encode reproduces the payload, reserved bytes zeroed (any layout: fixed
   messages, and count-prefixed / MON-VER messages through their expanded layout) *)
Theorem C08_enc_dec : forall l data,
  widths_ok l = true -> length data = size l -> all_bytes data = true -> ch_valid l 0 data = true ->
  encode (spec_decode l 0 data) = Ok (zero_reserved l data).
Proof. exact enc_dec. Qed.
Print Assumptions C08_enc_dec.

(* encode then decode returns the assigned values, for every in-range assignment *)
Theorem C08_dec_enc : forall fs,
  fields_ok fs = true -> widths_ok (layout_of fs) = true ->
  exists data, encode fs = Ok data /\ length data = size (layout_of fs)
               /\ decode (KFixed (layout_of fs)) data = Ok fs.
Proof. exact dec_enc. Qed.
Print Assumptions C08_dec_enc.

(* read-modify-write: after f.<name> = v on a decoded frame the re-encoded payload differs from
   the (reserved-zeroed) original only inside that field's bytes *)
Theorem C08_edit_local : forall l data name v off w,
  widths_ok l = true -> length data = size l -> all_bytes data = true -> ch_valid l 0 data = true ->
  names_unique (map fst l) = true ->
  field_pos l name 0 = Some (off, w) ->
  (exists t, In (name, t) l /\ val_ok t v = true) ->
  exists data', encode (setf (spec_decode l 0 data) name v) = Ok data'
    /\ length data' = length data
    /\ firstn off data' = firstn off (zero_reserved l data)
    /\ skipn (off + w) data' = skipn (off + w) (zero_reserved l data).
Proof. exact edit_local. Qed.
Print Assumptions C08_edit_local.

(* zero_reserved only touches reserved bytes *)
Theorem C08_zero_reserved_pos : forall l data name off w t,
  length data = size l -> names_unique (map fst l) = true ->
  field_pos l name 0 = Some (off, w) -> In (name, t) l ->
  match t with TPad _ => True | _ => slice (zero_reserved l data) off w = slice data off w end.
Proof. exact zero_reserved_pos. Qed.
Print Assumptions C08_zero_reserved_pos.

(* integer codecs invert each other *)
Theorem C08_int_roundtrip : forall (signed : bool) w z,
  (w = 1 \/ w = 2 \/ w = 4 \/ w = 8)%nat ->
  (if signed then (- (Z.of_N (pow256 w) / 2) <= z < Z.of_N (pow256 w) / 2)%Z
   else (0 <= z < Z.of_N (pow256 w))%Z) ->
  exists bs, pack_int signed w (VInt z) = Ok bs /\ length bs = w /\ all_bytes bs = true
             /\ unpack_int signed w bs = Ok z.
Proof. exact int_roundtrip. Qed.
Print Assumptions C08_int_roundtrip.

Example C08_nonvacuous :
  let l := [("a"%string, TU 2); ("r"%string, TPad 1); ("s"%string, TCh 3); ("b"%string, TI 1)] in
  let data := [1; 2; 9; 65; 0; 0; 255] in
  decode (KFixed l) data = Ok (spec_decode l 0 data)
  /\ encode (spec_decode l 0 data) = Ok [1; 2; 0; 65; 0; 0; 255]
  /\ encode (setf (spec_decode l 0 data) "b" (VInt (-2))) = Ok [1; 2; 0; 65; 0; 0; 254].
Proof. repeat split; vm_compute; reflexivity. Qed.
