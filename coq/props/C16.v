(* C16 — the NMEA parser counts exactly the sentences with a valid checksum. *)
From Ubx Require Import Base ParserNmea ParserNmeaP.

Theorem C16_count_exact : forall s, nrx (nprocess nfresh s) = count_sentences s.
Proof. exact nmea_count_exact. Qed.
Print Assumptions C16_count_exact.

(* from any state reached earlier: the counter grows by what the remaining stream holds, once the
   parser is at a sentence boundary (restart, or start) *)
Theorem C16_count_from_idle : forall p s, nst p = WAIT_SYNC ->
  nrx (nprocess p s) = nrx p + count_sentences s.
Proof. exact nmea_count_from_idle. Qed.
Print Assumptions C16_count_from_idle.

(* under every chunking *)
Theorem C16_count_chunked : forall chunks,
  nrx (fold_left nprocess chunks nfresh) = count_sentences (concat chunks).
Proof. exact nmea_count_chunked. Qed.
Print Assumptions C16_count_chunked.

(* the spec counts what the property describes: '$' body '*' h1 h2 with 16*h1+h2 = xor body *)
Theorem C16_sentence_at_spec : forall body h1 h2 rest a b,
  Forall (fun d => d <> DOLLAR /\ d <> STAR) body ->
  to_bin h1 = Some a -> to_bin h2 = Some b ->
  sentence_at (body ++ STAR :: h1 :: h2 :: rest) = (16 * a + b =? fold_left N.lxor body 0).
Proof. exact sentence_at_spec. Qed.
Print Assumptions C16_sentence_at_spec.

Theorem C16_to_bin_spec : forall d v, to_bin d = Some v <->
  (48 <= d <= 57 /\ v = d - 48) \/ (97 <= d <= 102 /\ v = d - 87) \/ (65 <= d <= 70 /\ v = d - 55).
Proof. exact to_bin_spec. Qed.
Print Assumptions C16_to_bin_spec.

Example C16_nonvacuous :
  (* "$A*41" junk "$A*40" "$B*42\n" *)
  count_sentences [36; 65; 42; 52; 49; 200; 36; 65; 42; 52; 48; 36; 66; 42; 52; 50; 10] = 2
  /\ nrx (nprocess nfresh [36; 65; 42; 52; 49; 200; 36; 65; 42; 52; 48; 36; 66; 42; 52; 50; 10]) = 2.
Proof. split; vm_compute; reflexivity. Qed.
