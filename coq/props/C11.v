(* C11 — only frames matching the current filter are queued; queued packets never change. *)
From Ubx Require Import Base Checksum ParserUbx ParserUbxSpec ParserUbxP ParserUbxQ.

(* At the last byte of a checksum-valid frame: counted always, queued iff in the filter in force *)
Theorem C11_crc2_valid : forall p d,
  st p = CRC2 -> ck_matches (cks (rg p)) (mcka (rg p)) d = true ->
  rx (step p d) = rx p + 1
  /\ queue (step p d) = queue p ++
       (if in_filter (filt p) (mcls (rg p), mid (rg p))
        then [Pkt (mcls (rg p)) (mid (rg p)) (mdata (rg p))] else []).
Proof. exact crc2_valid. Qed.
Print Assumptions C11_crc2_valid.

Theorem C11_in_filter_spec : forall l c, in_filter (Some l) c = true <-> In c l.
Proof. exact in_filter_spec. Qed.
Print Assumptions C11_in_filter_spec.

Theorem C11_no_filter_no_packets : forall c, in_filter None c = false /\ in_filter (Some []) c = false.
Proof. exact no_filter_no_packets. Qed.
Print Assumptions C11_no_filter_no_packets.

(* the counter ignores the filter: dropping all filter calls from a schedule leaves it unchanged *)
Theorem C11_rx_filter_indep : forall ops p,
  rx (fst (run p ops)) = rx (fst (run p (filter (fun o => negb (is_filter_op o)) ops))).
Proof. exact rx_filter_indep. Qed.
Print Assumptions C11_rx_filter_indep.

(* FIFO, sentinel, purge *)
Theorem C11_packet_fifo : forall p x q,
  queue p = x :: q -> fst (packet p) = Some x /\ queue (snd (packet p)) = q.
Proof. exact packet_fifo. Qed.
Print Assumptions C11_packet_fifo.

Theorem C11_packet_empty : forall p, queue p = [] -> packet p = (None, p).
Proof. exact packet_empty. Qed.
Print Assumptions C11_packet_empty.

Theorem C11_empty_queue : forall p, queue (empty_queue p) = [].
Proof. exact empty_queue_clears. Qed.
Print Assumptions C11_empty_queue.

(* Queued packets are never altered: parsing only appends; filter changes and restart leave the
   queue as it is; packet() only removes the head. *)
Theorem C11_process_appends : forall d p, exists app, queue (process p d) = queue p ++ app.
Proof. exact process_appends. Qed.
Print Assumptions C11_process_appends.

Theorem C11_queue_kept : forall p l c,
  queue (set_filters p l) = queue p /\ queue (set_filter p c) = queue p /\ queue (restart p) = queue p.
Proof. exact queue_kept. Qed.
Print Assumptions C11_queue_kept.

(* every schedule without packet()/empty_queue(): what was queued at the start is still there,
   unchanged and in order, in front of whatever was appended since *)
Theorem C11_queue_prefix_kept : forall ops p,
  forallb (fun o => negb (is_pop_op o)) ops = true ->
  exists app, queue (fst (run p ops)) = queue p ++ app.
Proof. exact queue_prefix_kept. Qed.
Print Assumptions C11_queue_prefix_kept.

Theorem C11_packet_then_rest : forall p x q,
  queue p = x :: q -> run_op p OPacket = (mkParser (st p) (rg p) q (rx p) (filt p), OPkt (Some x)).
Proof. exact packet_then_rest. Qed.
Print Assumptions C11_packet_then_rest.
