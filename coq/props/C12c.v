(* C12 / C06 / C10 (serial backend under the request loop) — the request loop sees a backend only through
   its four hooks, and the serial backend over a line whose receiver runs at the port's bit rate behaves
   exactly like the scripted receiver; link recovery keeps it that way. *)
From Ubx Require Import Fields Base Checksum Frame ParserUbx CfgKeys Request ScriptBackend Backends LineBackend LineBackendP.

(* 1. Backend simulation: two backends whose hooks give equal outputs on related states give equal request
      results, equal traces, equal clocks, and related states afterwards. *)
Theorem C12c_backend_simulation :
  forall (E1 E2 : Type) (B1 : backend E1) (B2 : backend E2) (R : E1 -> E2 -> Prop),
  (forall e1 e2, R e1 e2 ->
     fst (fst (receive B1 e1)) = fst (fst (receive B2 e2))
     /\ snd (fst (receive B1 e1)) = snd (fst (receive B2 e2))
     /\ R (snd (receive B1 e1)) (snd (receive B2 e2))) ->
  (forall e1 e2 d, R e1 e2 ->
     fst (transmit B1 e1 d) = fst (transmit B2 e2 d) /\ R (snd (transmit B1 e1 d)) (snd (transmit B2 e2 d))) ->
  (forall e1 e2, R e1 e2 -> R (flush B1 e1) (flush B2 e2)) ->
  (forall e1 e2, R e1 e2 -> R (recover B1 e1) (recover B2 e2)) ->
  forall sk fuel o rq (w1 : world E1) (w2 : world E2),
  wsrv w1 = wsrv w2 -> wnow w1 = wnow w2 -> wtrace w1 = wtrace w2 -> wtie w1 = wtie w2 ->
  R (wenv w1) (wenv w2) ->
  let r1 := do_request B1 sk fuel o rq w1 in
  let r2 := do_request B2 sk fuel o rq w2 in
  fst r1 = fst r2
  /\ wsrv (snd r1) = wsrv (snd r2) /\ wnow (snd r1) = wnow (snd r2)
  /\ wtrace (snd r1) = wtrace (snd r2) /\ wtie (snd r1) = wtie (snd r2)
  /\ R (wenv (snd r1)) (wenv (snd r2)).
Proof. exact backend_simulation. Qed.
Print Assumptions C12c_backend_simulation.

(* 2. The serial line in step with the script: every hook agrees with the scripted backend and keeps the line
      in step - in particular the port is still open at the receiver's bit rate after link recovery. *)
Theorem C12c_line_hooks : forall l s, line_ok l s ->
  (fst (fst (l_receive l)) = fst (fst (s_receive s)) /\ snd (fst (l_receive l)) = snd (fst (s_receive s))
   /\ line_ok (snd (l_receive l)) (snd (s_receive s)))
  /\ (forall d, fst (l_transmit l d) = fst (s_transmit s d) /\ line_ok (snd (l_transmit l d)) (snd (s_transmit s d)))
  /\ line_ok (l_flush l) (s_flush s)
  /\ line_ok (l_recover l) (s_recover s).
Proof. exact line_hooks. Qed.
Print Assumptions C12c_line_hooks.

(* 3. Hence every request on the serial backend over such a line = the same request on the scripted backend:
      same result, same transmissions and reads (trace), same elapsed time; and the line stays in step, for
      whole sequences of requests. *)
Theorem C12c_line_refines_script : forall sk fuel o rq srv0 now tr tie l s,
  line_ok l s ->
  let r1 := do_request line_backend sk fuel o rq (mkWorld srv0 l now tr tie) in
  let r2 := do_request script_backend sk fuel o rq (mkWorld srv0 s now tr tie) in
  fst r1 = fst r2
  /\ wsrv (snd r1) = wsrv (snd r2) /\ wnow (snd r1) = wnow (snd r2)
  /\ wtrace (snd r1) = wtrace (snd r2) /\ wtie (snd r1) = wtie (snd r2)
  /\ line_ok (wenv (snd r1)) (wenv (snd r2)).
Proof. exact line_refines_script. Qed.
Print Assumptions C12c_line_refines_script.

(* 4. Why recovery must restore the bit rate it found: with a recovery that comes back at another rate, a
      receiver that answers the second transmission correctly is never heard (a concrete run, evaluated). *)
Theorem C12c_recover_elsewhere_refuted :
  exists sk fuel rq srv0 l,
    line_ok l (l_script l)
    /\ (exists f, fst (do_request line_backend sk fuel RPoll rq (mkWorld srv0 l 0 [] false)) = Return (Some f))
    /\ fst (do_request (bad_line_backend 9600) sk fuel RPoll rq (mkWorld srv0 l 0 [] false)) = Return None.
Proof. exact recover_elsewhere_refuted. Qed.
Print Assumptions C12c_recover_elsewhere_refuted.

(* 5. Every frame whose transmission succeeded reaches the receiver, in order: after any request on the serial
      backend, what has left the port plus what sits in its output buffer is what was there before plus the frames
      of the request's successful transmissions. *)
Theorem C12c_line_delivers_all : forall sk fuel o rq srv0 now tie l,
  let r := do_request line_backend sk fuel o rq (mkWorld srv0 l now [] tie) in
  l_sent (wenv (snd r)) = l_sent l ++ tx_ok_frames (wtrace (snd r)).
Proof. exact line_delivers_all. Qed.
Print Assumptions C12c_line_delivers_all.

(* 6. With an input flush that also resets the output buffer this fails: a fire_and_forget immediately followed by
      another request loses its frame (a concrete run, evaluated). *)
Theorem C12c_flush_both_refuted :
  exists sk fuel rq1 rq2 srv0 l,
    let r1 := do_request flush_both_backend sk fuel RFire rq1 (mkWorld srv0 l 0 [] false) in
    let r2 := do_request flush_both_backend sk fuel RSet rq2 (mkWorld (wsrv (snd r1)) (wenv (snd r1)) (wnow (snd r1)) [] false) in
    l_sent (wenv (snd r2)) <> l_sent l ++ tx_ok_frames (wtrace (snd r1)) ++ tx_ok_frames (wtrace (snd r2)).
Proof. exact flush_both_refuted. Qed.
Print Assumptions C12c_flush_both_refuted.

(* non-vacuity: a line in step exists *)
Example C12c_line_ok_example :
  line_ok (mkSLine (mkPort true 115200%Z []) 115200%Z (mkScript [] [] 100) [] []) (mkScript [] [] 100).
Proof. repeat split. Qed.
