(* C17 — convenience setters change exactly the documented fields of the right block. *)
From Ubx Require Import Fields Base FieldsSpec Helpers HelpersP.

(* enable/disable: on the field list of ANY decoded CFG-GNSS frame (any block list: every order,
   subset, duplicates, any flag words), for every system 0..7, the result is the frame whose block
   list is the specification's: bit 0 of flags of the FIRST block with that gnssId set/cleared,
   every other bit, block and header field unchanged, nothing at all if the system is absent. *)
Theorem C17_enable_refines : forall on ver hw use_ bs sys,
  (0 <= sys <= 7)%Z ->
  set_enable_bit on (gnss_fields ver hw use_ bs) sys = Ok (gnss_fields ver hw use_ (spec_enable on sys bs)).
Proof. exact enable_refines. Qed.
Print Assumptions C17_enable_refines.

Theorem C17_spec_enable_absent : forall on sys bs,
  Forall (fun b => g_id b <> sys) bs -> spec_enable on sys bs = bs.
Proof. exact spec_enable_absent. Qed.
Print Assumptions C17_spec_enable_absent.

(* the specification itself: only the first matching block, only bit 0 *)
Theorem C17_spec_enable_first : forall on sys pre b post,
  Forall (fun x => g_id x <> sys) pre -> g_id b = sys ->
  spec_enable on sys (pre ++ b :: post)
  = pre ++ mkG (g_id b) (g_res b) (g_max b) (if on then Z.lor (g_flags b) 1 else Z.land (g_flags b) (-2)) :: post.
Proof. exact spec_enable_first. Qed.
Print Assumptions C17_spec_enable_first.

Theorem C17_bit0_only : forall v k, (0 < k)%Z ->
  Z.testbit (Z.lor v 1) k = Z.testbit v k /\ Z.testbit (Z.land v (-2)) k = Z.testbit v k
  /\ Z.testbit (Z.lor v 1) 0 = true /\ Z.testbit (Z.land v (-2)) 0 = false.
Proof. exact bit0_only. Qed.
Print Assumptions C17_bit0_only.

(* presets are the documented compositions (IRNSS untouched in both) *)
Theorem C17_gps_glonass : forall ver hw use_ bs,
  gps_glonass (gnss_fields ver hw use_ bs) = Ok (gnss_fields ver hw use_ (spec_gps_glonass bs)).
Proof. exact gps_glonass_refines. Qed.
Print Assumptions C17_gps_glonass.

Theorem C17_gps_galileo_beidou : forall ver hw use_ bs,
  gps_galileo_beidou (gnss_fields ver hw use_ bs) = Ok (gnss_fields ver hw use_ (spec_gps_galileo_beidou bs)).
Proof. exact gps_galileo_beidou_refines. Qed.
Print Assumptions C17_gps_galileo_beidou.

(* out-of-range system: rejected *)
Theorem C17_enable_rejects : forall on fs sys, (sys < 0 \/ 7 < sys)%Z ->
  set_enable_bit on fs sys = Raise AssertionError.
Proof. exact enable_rejects. Qed.
Print Assumptions C17_enable_rejects.

(* navigation rate: measRate = floor(1000 / rate) ms, navRate = 1, timeRef untouched *)
Theorem C17_rate : forall fs rate, (1 <= rate <= 10)%Z ->
  names_unique (map (fun x => fst (fst x)) fs) = true ->
  (exists t1 v1, In ("measRate"%string, t1, v1) fs) -> (exists t2 v2, In ("navRate"%string, t2, v2) fs) ->
  exists fs', set_rate_in_hz fs rate = Ok fs'
    /\ getf fs' "measRate" = Some (VInt (1000 / rate)) /\ getf fs' "navRate" = Some (VInt 1)
    /\ (forall n, n <> "measRate"%string -> n <> "navRate"%string -> getf fs' n = getf fs n)
    /\ layout_of fs' = layout_of fs.
Proof. exact rate_ok. Qed.
Print Assumptions C17_rate.

(* generic frame condition of attribute assignment, used by all remaining helpers:
   the named field gets the value, every other field and the layout stay *)
Theorem C17_setf_frame : forall fs name v,
  (exists t x, In (name, t, x) fs) ->
  getf (setf fs name v) name = Some v
  /\ (forall n, n <> name -> getf (setf fs name v) n = getf fs n)
  /\ layout_of (setf fs name v) = layout_of fs.
Proof. exact setf_frame. Qed.
Print Assumptions C17_setf_frame.

(* save/reset configuration masks *)
Theorem C17_cfg_masks : forall fs m,
  (exists t x, In ("clearMask"%string, t, x) fs) -> (exists t x, In ("saveMask"%string, t, x) fs) ->
  (exists t x, In ("loadMask"%string, t, x) fs) ->
  (getf (cfg_save fs m) "clearMask" = Some (VInt 0) /\ getf (cfg_save fs m) "saveMask" = Some (VInt m)
   /\ getf (cfg_save fs m) "loadMask" = Some (VInt 0))
  /\ (getf (cfg_reset fs m) "clearMask" = Some (VInt m) /\ getf (cfg_reset fs m) "saveMask" = Some (VInt 0)
      /\ getf (cfg_reset fs m) "loadMask" = Some (VInt m)).
Proof. exact cfg_masks_ok. Qed.
Print Assumptions C17_cfg_masks.

(* receiver reset / start / stop: (navBbrMask, resetMode) *)
Theorem C17_rst : forall fs,
  (exists t x, In ("navBbrMask"%string, t, x) fs) -> (exists t x, In ("resetMode"%string, t, x) fs) ->
  let pair f := (getf f "navBbrMask", getf f "resetMode") in
  pair (warm_start fs) = (Some (VInt 1), Some (VInt 1))
  /\ pair (cold_start fs) = (Some (VInt 65535), Some (VInt 1))
  /\ pair (rst_start fs) = (Some (VInt 0), Some (VInt 9))
  /\ pair (rst_stop fs) = (Some (VInt 0), Some (VInt 8)).
Proof. exact rst_ok. Qed.
Print Assumptions C17_rst.

(* lever arm query: first block of the requested type, or nothing *)
Theorem C17_lever_first : forall ver l t,
  lever_arm (esfla_fields ver l) t = Ok (spec_lever t l).
Proof. exact lever_first. Qed.
Print Assumptions C17_lever_first.

(* lever arm set: type <= 1, offsets within +-1000 *)
Theorem C17_esfla_set : forall fs t x y z,
  (t <= 1)%Z -> (-1000 <= x <= 1000)%Z -> (-1000 <= y <= 1000)%Z -> (-1000 <= z <= 1000)%Z ->
  esfla_set fs t x y z
  = Ok (setf (setf (setf (setf fs "leverArmType" (VInt t)) "leverArmX" (VInt x)) "leverArmY" (VInt y)) "leverArmZ" (VInt z)).
Proof. exact esfla_set_ok. Qed.
Print Assumptions C17_esfla_set.

Example C17_nonvacuous :
  set_enable_bit true (gnss_fields 0 32 32 [mkG 6 8 14 65536; mkG 0 8 16 16842752; mkG 0 1 1 0]) 0
  = Ok (gnss_fields 0 32 32 [mkG 6 8 14 65536; mkG 0 8 16 16842753; mkG 0 1 1 0])
  /\ gps_glonass (gnss_fields 0 32 32 [mkG 2 4 8 1; mkG 6 8 14 0; mkG 7 1 1 1; mkG 0 8 16 0])
     = Ok (gnss_fields 0 32 32 [mkG 2 4 8 0; mkG 6 8 14 1; mkG 7 1 1 1; mkG 0 8 16 1]).
Proof. split; vm_compute; reflexivity. Qed.
