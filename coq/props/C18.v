(* C18 — bit-rate scan says yes only on real frames, and always when two arrive. *)
From Ubx Require Import Fields Base Checksum Frame ParserUbx ParserUbxSpec ParserNmea Request RequestSpec Scan ScanP.

(* yes only if the bytes received during the scan contain at least two checksum-valid UBX frames
   (as counted by a new parser: C03 ties that to occurrences) or at least two valid NMEA sentences *)
Theorem C18_scan_true_sound : forall E (B : backend E) fuel interval e now w,
  scan B fuel interval e now = (ScanTrue, w) ->
  2 <= rx (process (fresh None) (scan_stream w)) \/ 2 <= count_sentences (scan_stream w).
Proof. exact scan_true_sound. Qed.
Print Assumptions C18_scan_true_sound.

(* what the UBX counter counts (C03): valid frame occurrences in the stream *)
Theorem C18_rx_counts_occurrences : forall s, Forall (fun b => b < 256) s ->
  exists os, Dec s os /\ rx (process (fresh None) s) = N.of_nat (count_valid os).
Proof. exact rx_counts_occurrences. Qed.
Print Assumptions C18_rx_counts_occurrences.

(* yes whenever two well-formed UBX frames separated by filler that does not imitate a sync pair
   arrive in receive calls that start before the end of the interval *)
Theorem C18_scan_two_frames : forall E (B : backend E) fuel interval e now evs e' segs,
  rx_unfold B (flush B e) (length evs) = (evs, e') ->
  chunks_of evs = flat_map seg_bytes segs ->
  Forall seg_ok segs -> no_adj_junk segs = true -> (2 <= count_frames segs)%nat ->
  evs <> [] -> now + time_of (removelast evs) < now + interval ->
  (length evs <= fuel)%nat ->
  exists w, scan B fuel interval e now = (ScanTrue, w).
Proof. exact scan_two_frames. Qed.
Print Assumptions C18_scan_two_frames.

(* ... or two valid NMEA sentences *)
Theorem C18_scan_two_sentences : forall E (B : backend E) fuel interval e now evs e',
  rx_unfold B (flush B e) (length evs) = (evs, e') ->
  2 <= count_sentences (chunks_of evs) ->
  evs <> [] -> now + time_of (removelast evs) < now + interval ->
  (length evs <= fuel)%nat ->
  exists w, scan B fuel interval e now = (ScanTrue, w).
Proof. exact scan_two_sentences. Qed.
Print Assumptions C18_scan_two_sentences.

(* otherwise a false value no later than the interval plus one read timeout *)
Theorem C18_scan_time : forall E (B : backend E) fuel interval e now T r w,
  dt_le B T -> scan B fuel interval e now = (r, w) -> r <> ScanFuel ->
  sc_now w <= now + interval + T.
Proof. exact scan_time. Qed.
Print Assumptions C18_scan_time.

Theorem C18_scan_terminates : forall E (B : backend E) fuel interval e now,
  dt_pos B -> (N.to_nat interval + 1 <= fuel)%nat ->
  fst (scan B fuel interval e now) <> ScanFuel.
Proof. exact scan_terminates. Qed.
Print Assumptions C18_scan_terminates.

(* one UBX frame plus one NMEA sentence is not enough *)
Example C18_mixed_not_enough :
  let s := wire 6 1 [1] ++ [36; 65; 42; 52; 49; 13; 10] in
  rx (process (fresh None) s) = 1 /\ count_sentences s = 1.
Proof. split; vm_compute; reflexivity. Qed.
