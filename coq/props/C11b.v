(* C11 (aliasing) — the payload OBJECT of a queued or handed-out packet is never altered. *)
From Ubx Require Import Base Checksum ParserUbx HeapParser HeapParserP.

(* With allocation in _reset(), for every schedule of API calls: every buffer that is queued or was handed out
   keeps its contents, forever. *)
Theorem C11_payload_immutable : forall ops p b,
  hinv p -> In b (exposed p) ->
  hget (h_heap (hrun false p ops)) b = hget (h_heap p) b.
Proof. exact payload_immutable. Qed.
Print Assumptions C11_payload_immutable.

Theorem C11_hinv_fresh : forall f, hinv (hfresh f).
Proof. exact hinv_fresh. Qed.
Print Assumptions C11_hinv_fresh.

Theorem C11_hinv_kept : forall ops p, hinv p -> hinv (hrun false p ops).
Proof. exact hinv_run. Qed.
Print Assumptions C11_hinv_kept.

(* The heap model refines the value model the other theorems are about (so they apply to it). *)
Theorem C11_heap_refines : forall p d, hinv p -> habs (hstep false p d) = step (habs p) d.
Proof. exact heap_refines. Qed.
Print Assumptions C11_heap_refines.

(* Reusing the buffer (`msg_data.clear()` instead of a new bytearray) breaks it: *)
Theorem C11_reuse_refuted : exists ops b,
  In b (exposed (hrun true (hfresh (Some [(6, 1)])) ops))
  /\ exists ops', hget (h_heap (hrun true (hrun true (hfresh (Some [(6, 1)])) ops) ops')) b
                  <> hget (h_heap (hrun true (hfresh (Some [(6, 1)])) ops)) b.
Proof. exact reuse_refuted. Qed.
Print Assumptions C11_reuse_refuted.
