(* C12 (backends) — the serial and gpsd backends frame the transmitted bytes right. *)
From Ubx Require Import Fields Base Backends BackendsP.

(* serial: exactly the bytes are handed to write(); success iff all of them were written *)
Theorem C12_tty_tx_bytes : forall written data, fst (tty_transmit written data) = data.
Proof. exact tty_tx_bytes. Qed.
Print Assumptions C12_tty_tx_bytes.

Theorem C12_tty_tx_ok : forall written data,
  snd (tty_transmit written data) = true <-> written = Z.of_nat (length data).
Proof. exact tty_tx_ok. Qed.
Print Assumptions C12_tty_tx_ok.

(* serial link recovery: port stays open at the previous bit rate (9600 is written in between) *)
Theorem C12_tty_recover : forall p, p_open p = true ->
  exists p', tty_recover p = Ok p' /\ p_open p' = true /\ p_baud p' = p_baud p
             /\ p_baud_log p' = p_baud_log p ++ [9600%Z; p_baud p].
Proof. exact tty_recover_ok. Qed.
Print Assumptions C12_tty_recover.

(* gpsd: '&' device '=' hex(data); the hex form is lower-case and decodes back to the data *)
Theorem C12_gpsd_cmd : forall device data reply,
  fst (gpsd_transmit device data reply) = [38] ++ device ++ [61] ++ hexlify data.
Proof. exact gpsd_cmd. Qed.
Print Assumptions C12_gpsd_cmd.

Theorem C12_unhex_hex : forall d, Forall (fun b => b < 256) d -> unhexlify (hexlify d) = d.
Proof. exact unhex_hex. Qed.
Print Assumptions C12_unhex_hex.

Theorem C12_hex_lowercase : forall d, Forall (fun b => b < 256) d ->
  Forall (fun c => (48 <= c <= 57) \/ (97 <= c <= 102)) (hexlify d).
Proof. exact hex_lowercase. Qed.
Print Assumptions C12_hex_lowercase.

(* success only if gpsd answers OK or ACK; any socket error is a failure *)
Theorem C12_gpsd_ok_only : forall device data reply,
  snd (gpsd_transmit device data reply) = Ok true ->
  exists r, reply = GReply r /\ (contains OK_ r = true \/ contains ACK_ r = true).
Proof. exact gpsd_ok_only. Qed.
Print Assumptions C12_gpsd_ok_only.

Theorem C12_gpsd_sockerror : forall device data, snd (gpsd_transmit device data GSockError) = Ok false.
Proof. exact gpsd_sockerror. Qed.
Print Assumptions C12_gpsd_sockerror.

Theorem C12_contains_spec : forall needle hay,
  contains needle hay = true <-> exists a b, hay = a ++ needle ++ b.
Proof. exact contains_spec. Qed.
Print Assumptions C12_contains_spec.
