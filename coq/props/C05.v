(* C05 — every request terminates: bounded retransmissions and bounded time. *)
From Ubx Require Import Fields Base Checksum Frame ParserUbx CfgKeys Request RequestSpec RequestP.

(* The trace only grows, and a request transmits at most retries+1 times — for EVERY backend,
   every server state, every fuel. *)
Theorem C05_tx_bound : forall E (B : backend E) sk fuel o rq w,
  exists tr, wtrace (snd (do_request B sk fuel o rq w)) = wtrace w ++ tr
    /\ (count_tx tr <= S (sretries (wsrv w)))%nat.
Proof. exact tx_bound. Qed.
Print Assumptions C05_tx_bound.

(* fire_and_forget: exactly one transmission, no read *)
Theorem C05_fire_once : forall E (B : backend E) sk fuel rq w payload,
  pack_body (rq_body rq) = Ok payload ->
  exists d ok, wtrace (snd (do_request B sk fuel RFire rq w)) = wtrace w ++ [Tx d ok]
    /\ fst (do_request B sk fuel RFire rq w) = Return None.
Proof. exact fire_once. Qed.
Print Assumptions C05_fire_once.

(* Termination: if every receive call takes some time, the request returns — the fuel of the
   model (an artefact) is never what stops it, for any delay and any retry count. *)
Theorem C05_terminates : forall E (B : backend E) sk fuel o rq w,
  dt_pos B -> (2 * N.to_nat (sdelay (wsrv w)) + 4 <= fuel)%nat ->
  fst (do_request B sk fuel o rq w) <> OutOfFuel.
Proof. exact terminates. Qed.
Print Assumptions C05_terminates.

(* ... and it returns a value: the only exception a request can raise is the one of packing an
   invalid request frame, before anything is sent *)
Theorem C05_only_pack_raises : forall E (B : backend E) sk fuel o rq w e,
  fst (do_request B sk fuel o rq w) = Raised e -> pack_body (rq_body rq) = Raise e.
Proof. exact only_pack_raises. Qed.
Print Assumptions C05_only_pack_raises.

(* Time: at most retries+1 waiting periods of delay plus one receive timeout each; two such
   periods per attempt for configuration-class polls; none for fire_and_forget. *)
Theorem C05_time_bound : forall E (B : backend E) sk fuel o rq w T,
  dt_le B T ->
  wnow (snd (do_request B sk fuel o rq w))
  <= wnow w + N.of_nat (S (sretries (wsrv w))) * periods o (rq_cid rq) * (sdelay (wsrv w) + T).
Proof. exact time_bound. Qed.
Print Assumptions C05_time_bound.

(* the configuration is not changed by a request *)
Theorem C05_config_kept : forall E (B : backend E) sk fuel o rq w,
  sretries (wsrv (snd (do_request B sk fuel o rq w))) = sretries (wsrv w)
  /\ sdelay (wsrv (snd (do_request B sk fuel o rq w))) = sdelay (wsrv w).
Proof. exact config_kept. Qed.
Print Assumptions C05_config_kept.
