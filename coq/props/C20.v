(* C20 — the gpsd handshake picks the right device and tolerates any interleaved data. *)
From Ubx Require Import Fields Base Gpsd GpsdP.

(* Processing never raises, whatever arrives (binary chunks, non-JSON lines, JSON values of any
   shape), as long as VERSION and DEVICES objects are well-formed. *)
Theorem C20_no_raise : forall cs s, forallb chunk_ok cs = true -> exists s', parse_chunks s cs = Ok s'.
Proof. exact no_raise. Qed.
Print Assumptions C20_no_raise.

(* one DEVICES list, from any state: *)
(* requested and listed -> selected = requested, ready *)
Theorem C20_requested_listed : forall s devs r,
  forallb device_ok devs = true -> requested s = Some r -> In r (paths devs) ->
  exists s', parse_line s (devices_msg devs) = Ok s' /\ g_sel s' = Some r /\ g_enabled s' = true.
Proof. exact requested_listed. Qed.
Print Assumptions C20_requested_listed.

(* requested and absent -> nothing changes (from the initial state: nothing selected, not ready) *)
Theorem C20_requested_absent : forall s devs r,
  forallb device_ok devs = true -> requested s = Some r -> ~ In r (paths devs) ->
  parse_line s (devices_msg devs) = Ok s.
Proof. exact requested_absent. Qed.
Print Assumptions C20_requested_absent.

(* none requested and list non-empty -> the first listed device, ready *)
Theorem C20_none_requested_first : forall s devs p rest,
  forallb device_ok devs = true -> requested s = None -> paths devs = p :: rest ->
  exists s', parse_line s (devices_msg devs) = Ok s' /\ g_sel s' = Some p /\ g_enabled s' = true.
Proof. exact none_requested_first. Qed.
Print Assumptions C20_none_requested_first.

Theorem C20_empty_list : forall s, parse_line s (devices_msg []) = Ok s.
Proof. exact empty_list. Qed.
Print Assumptions C20_empty_list.

(* Over any history: readiness and selection go together; with a requested device only that device
   is ever selected; a selected device was listed in some DEVICES message received. *)
Theorem C20_invariant : forall cs req s',
  parse_chunks (ginit req) cs = Ok s' ->
  (g_enabled s' = true <-> g_sel s' <> None)
  /\ (forall r, requested (ginit req) = Some r -> g_sel s' = None \/ g_sel s' = Some r)
  /\ g_req s' = req.
Proof. exact handshake_invariant. Qed.
Print Assumptions C20_invariant.

(* a selected device was listed in some DEVICES object received earlier *)
Theorem C20_selected_listed : forall cs req s' p,
  parse_chunks (ginit req) cs = Ok s' -> g_sel s' = Some p -> history_lists cs p.
Proof. exact handshake_selected_listed. Qed.
Print Assumptions C20_selected_listed.

(* commands are addressed to the selected device only *)
Theorem C20_cmd_header : forall s d, g_sel s = Some d -> cmd_header s = Some (append "&" (append d "=")).
Proof. exact cmd_header_ok. Qed.
Print Assumptions C20_cmd_header.

(* data that is not a well-formed handshake object changes nothing *)
Theorem C20_inert_lines : forall s v,
  match v with JObj _ => False | _ => True end ->
  parse_line s (J v) = Ok s /\ parse_line s NotJson = Ok s /\ parse_chunk s Undecodable = Ok s.
Proof. exact inert_lines. Qed.
Print Assumptions C20_inert_lines.

(* the pre-repair code evaluated `'class' in data_map` on whatever json.loads returned: for a bare
   number, true/false or null that raises TypeError (recorded as refuted behaviour) *)
Example C20_nonvacuous :
  parse_chunks (ginit (Some "/dev/b"%string))
    [Undecodable; Lines [NotJson; J JNum; J (JStr "class"); J (JArr [JStr "class"]);
       J (JObj [("class"%string, JStr "VERSION"); ("release"%string, JStr "3.25")]);
       devices_msg [JObj [("path"%string, JStr "/dev/a")]; JObj [("path"%string, JStr "/dev/b")]]]]
  = Ok (mkG (Some "/dev/b"%string) (Some "/dev/b"%string) true (Some (JStr "3.25"))).
Proof. vm_compute. reflexivity. Qed.
