(* Behaviour of the PINNED tree (before the fix: commits), kept as refuted statements: each is a
   faithful model of the old code fragment together with a concrete witness on which the property fails.
   The witnesses were replayed on the real implementation (they are the replays of DESIGN.md §12). *)
From Ubx Require Import Fields Base Checksum Frame ParserUbx ParserUbxSpec ParserNmea FieldsSpec UbloxSpec Helpers Gpsd
     Request ScriptBackend RequestSpec.
Open Scope N_scope.

(* ---- F2 (C02): _state_sync fell back to INIT on ANY byte other than 0x62 --------------------------- *)
Definition step_pinned (p : parser) (d : N) : parser :=
  match st p with
  | SYNC => if d =? 98 then with_rg p CLASS regs0 else with_st p INIT
  | _ => step p d
  end.
Definition process_pinned (p : parser) (data : bytes) : parser := fold_left step_pinned data p.

Theorem sync_b5_refuted :
  exists segs, Forall seg_ok segs /\ no_adj_junk segs = true
    /\ queue (process_pinned (fresh (Some [(6, 1)])) (flat_map seg_bytes segs))
       <> flat_map (expected (Some [(6, 1)])) segs.
Proof.
  exists [SJunk [181]; SFrame 6 1 [7]]. split; [|split].
  - repeat constructor.
  - reflexivity.
  - vm_compute. discriminate.
Qed.

(* ---- F4 (C07): CFG-TP5 declared four unsigned fields as I4 ----------------------------------------- *)
Definition tp5_pinned : layout :=
  [("tpIdx"%string, TU 1); ("version"%string, TU 1); ("res1"%string, TPad 2); ("antCableDelay"%string, TI 2);
   ("rfGroupDelay"%string, TI 2); ("freqPeriod"%string, TI 4); ("freqPeriodLock"%string, TI 4);
   ("pulseLenRatio"%string, TI 4); ("pulseLenRatioLock"%string, TI 4); ("userConfigDelay"%string, TI 4);
   ("flags"%string, TX 4)].
Theorem tp5_signed_refuted :
  msg_matches ("UbxCfgTp5"%string, (6, 49), "UBX-CFG-TP5"%string, KFixed tp5_pinned) = false
  /\ exists data, getf (spec_decode tp5_pinned 0 data) "freqPeriod" = Some (VInt (-1))
       /\ (match oracle_decode "UbxCfgTp5" data with
           | Some fs => getf fs "freqPeriod"
           | None => None
           end) = Some (VInt 4294967295).
Proof.
  split; [vm_compute; reflexivity|].
  exists (List.app (repeat 0 8) (List.app [255; 255; 255; 255] (repeat 0 20))). split; vm_compute; reflexivity.
Qed.

(* ---- F6 (C17): `if pos:` skipped block 0 and the flags field was addressed by system number --------- *)
Definition set_enable_bit_pinned (on : bool) (fs : fields) (sys : Z) : res fields :=
  let* pos := find_entry fs sys in
  match pos with
  | None | Some O => Ok fs                                (* `if pos:` - index 0 is falsy *)
  | Some _ =>
      let name := fname "flags" (Z.to_nat sys) in         (* f'flags_{system}' *)
      match getf fs name with
      | Some (VInt v) => Ok (setf fs name (VInt (if on then Z.lor v 1 else Z.land v (-2))))
      | _ => Raise KeyError
      end
  end.
Theorem enable_pinned_refuted :
  (* GPS in block 0: nothing happens *)
  set_enable_bit_pinned true (gnss_fields 0 32 32 [Helpers.mkG 0 8 16 0]) 0
    <> Ok (gnss_fields 0 32 32 (spec_enable true 0 [Helpers.mkG 0 8 16 0]))
  (* blocks [GLONASS; GPS]: enabling GPS (system 0, found at position 1) sets block 0's bit *)
  /\ set_enable_bit_pinned true (gnss_fields 0 32 32 [Helpers.mkG 6 8 14 0; Helpers.mkG 0 8 16 0]) 0
     = Ok (gnss_fields 0 32 32 [Helpers.mkG 6 8 14 1; Helpers.mkG 0 8 16 0]).
Proof. split; [vm_compute; discriminate | vm_compute; reflexivity]. Qed.

(* ---- F8 (C20): `'class' in data_map` on whatever json.loads returned ---------------------------------- *)
Definition parse_line_pinned (s : gstate) (l : line) : res gstate :=
  match l with
  | J JNum | J (JBool _) | J JNull => Raise TypeError        (* argument of type 'int' is not iterable *)
  | J (JStr c) => if String.eqb c "class" then Raise TypeError else Ok s    (* substring test, then str['class'] *)
  | J (JArr items) =>
      if existsb (fun v => match v with JStr c => String.eqb c "class" | _ => false end) items
      then Raise TypeError else Ok s                         (* list['class'] *)
  | other => parse_line s other
  end.
Theorem handshake_pinned_refuted :
  exists l, line_ok l = true /\ parse_line_pinned (ginit None) l = Raise TypeError.
Proof. exists (J JNum). split; reflexivity. Qed.

(* ---- F5 (C09): NmeaParser.restart() named a state that does not exist ------------------------------ *)
Definition nrestart_pinned (p : nparser) : res nparser := Raise AttributeError.
Theorem nmea_restart_pinned_refuted : forall p, nrestart_pinned p <> Ok (nrestart p).
Proof. intros p. discriminate. Qed.
