(* Proofs for C18: the bit-rate scan (model/Scan.v).
   Soundness of a yes, completeness on two frames / two sentences, time bound, termination. *)
From Coq Require Import Lia ZifyBool ZifyN ZifyNat.
From Ubx Require Import Fields Base Checksum Frame ParserUbx ParserUbxSpec ParserNmea Request RequestSpec Scan.
From Ubx Require Import ParserUbxP ParserUbxComplete ParserUbxSound ParserNmeaP.
Open Scope N_scope.

(* ------------------------------------------------------------------ vocabulary *)
(* the bytes of one receive result *)
Definition sc_chunk (d : option bytes) : bytes := match d with Some x => x | None => [] end.

Lemma nonempty_none d : nonempty d = None -> sc_chunk d = [].
Proof. destruct d as [[|a t]|]; cbn [nonempty sc_chunk]; intros H; [reflexivity | discriminate H | reflexivity]. Qed.

Lemma nonempty_some d x : nonempty d = Some x -> sc_chunk d = x.
Proof.
  destruct d as [[|a t]|]; cbn [nonempty sc_chunk]; intros H;
    [discriminate H | inversion H; reflexivity | discriminate H].
Qed.

Lemma sc_chunks_of_cons d dt evs : chunks_of ((d, dt) :: evs) = sc_chunk d ++ chunks_of evs.
Proof. reflexivity. Qed.

Lemma sc_time_of_cons d dt evs : time_of ((d, dt) :: evs) = dt + time_of evs.
Proof. reflexivity. Qed.

Lemma scan_stream_snoc {E} (u : parser) (n : nparser) (e1 : E) (t : N) rxs d dt :
  scan_stream (mkScan u n e1 t (rxs ++ [(d, dt)]))
  = flat_map (fun ev => match fst ev with Some x => x | None => [] end) rxs ++ sc_chunk d.
Proof.
  unfold scan_stream. cbn [sc_rx]. rewrite flat_map_app. cbn [flat_map fst].
  rewrite app_nil_r. destruct d; reflexivity.
Qed.

(* ------------------------------------------------------------------ C03 corollary *)
Lemma rx_counts_occurrences : forall s, Forall (fun b => b < 256) s ->
  exists os, Dec s os /\ rx (process (fresh None) s) = N.of_nat (count_valid os).
Proof.
  intros s Hb. destruct (sound_all_streams None s Hb) as (os & HD & _ & Hrx).
  exists os. split; [exact HD | exact Hrx].
Qed.

Section ScanProofs.
Context {E : Type} (B : backend E).

(* one unfolding of the loop, with the receive result named *)
Lemma scan_step k deadline (w : scan_world E) data dt e1 :
  receive B (sc_env w) = (data, dt, e1) ->
  scan_loop B (S k) deadline w =
  if sc_now w <? deadline then
    match nonempty data with
    | None => scan_loop B k deadline
                (mkScan (sc_ubx w) (sc_nmea w) e1 (sc_now w + dt) (sc_rx w ++ [(data, dt)]))
    | Some d =>
        if 2 <=? rx (process (sc_ubx w) d)
        then (ScanTrue, mkScan (process (sc_ubx w) d) (sc_nmea w) e1 (sc_now w + dt)
                               (sc_rx w ++ [(data, dt)]))
        else if 2 <=? nrx (nprocess (sc_nmea w) d)
        then (ScanTrue, mkScan (process (sc_ubx w) d) (nprocess (sc_nmea w) d) e1 (sc_now w + dt)
                               (sc_rx w ++ [(data, dt)]))
        else scan_loop B k deadline
               (mkScan (process (sc_ubx w) d) (nprocess (sc_nmea w) d) e1 (sc_now w + dt)
                       (sc_rx w ++ [(data, dt)]))
    end
  else (ScanNone, w).
Proof. intros Hrx. cbn [scan_loop]. rewrite Hrx. reflexivity. Qed.

(* ------------------------------------------------------------------ soundness of a yes *)
(* at the loop head both parsers have seen exactly the bytes received so far *)
Definition scan_inv (w : scan_world E) : Prop :=
  sc_ubx w = process (fresh None) (scan_stream w)
  /\ sc_nmea w = nprocess nfresh (scan_stream w).

Lemma scan_loop_sound : forall fuel deadline (w w' : scan_world E),
  scan_inv w -> scan_loop B fuel deadline w = (ScanTrue, w') ->
  2 <= rx (process (fresh None) (scan_stream w')) \/ 2 <= count_sentences (scan_stream w').
Proof.
  induction fuel as [|k IH]; intros deadline w w' [Hu Hn] Hrun.
  - cbn [scan_loop] in Hrun. discriminate Hrun.
  - destruct (receive B (sc_env w)) as [[data dt] e1] eqn:Hrx.
    rewrite (scan_step k deadline w data dt e1 Hrx) in Hrun.
    destruct (sc_now w <? deadline) eqn:Hlt; [|discriminate Hrun].
    destruct (nonempty data) as [d|] eqn:Hne.
    + apply nonempty_some in Hne.
      destruct (2 <=? rx (process (sc_ubx w) d)) eqn:Hux.
      * inversion Hrun as [Hw']. left.
        rewrite scan_stream_snoc, Hne. fold (scan_stream w).
        rewrite process_app, <- Hu. lia.
      * destruct (2 <=? nrx (nprocess (sc_nmea w) d)) eqn:Hnx.
        -- inversion Hrun as [Hw']. right.
           rewrite <- nmea_count_exact, scan_stream_snoc, Hne. fold (scan_stream w).
           rewrite <- chunk_indep_nmea, <- Hn. lia.
        -- refine (IH deadline _ w' _ Hrun).
           unfold scan_inv. cbn [sc_ubx sc_nmea].
           rewrite scan_stream_snoc, Hne. fold (scan_stream w).
           rewrite process_app, <- chunk_indep_nmea, <- Hu, <- Hn. split; reflexivity.
    + apply nonempty_none in Hne.
      refine (IH deadline _ w' _ Hrun).
      unfold scan_inv. cbn [sc_ubx sc_nmea].
      rewrite scan_stream_snoc, Hne, app_nil_r. fold (scan_stream w).
      split; [exact Hu | exact Hn].
Qed.

(* ------------------------------------------------------------------ completeness *)
(* If, from a loop head where neither counter has reached 2, the receive events evs all start
   before the deadline and feeding all their bytes brings one of the counters to 2, the loop
   says yes (possibly before the last of them). *)
Lemma scan_loop_complete deadline : forall evs fuel (w : scan_world E) e',
  rx_unfold B (sc_env w) (length evs) = (evs, e') ->
  evs <> [] -> sc_now w + time_of (removelast evs) < deadline ->
  (length evs <= fuel)%nat ->
  rx (sc_ubx w) < 2 -> nrx (sc_nmea w) < 2 ->
  2 <= rx (process (sc_ubx w) (chunks_of evs)) \/ 2 <= nrx (nprocess (sc_nmea w) (chunks_of evs)) ->
  exists w', scan_loop B fuel deadline w = (ScanTrue, w').
Proof.
  induction evs as [|[data dt] evs' IH]; intros fuel w e' Hun Hnil Htime Hfuel Hu0 Hn0 Hfin.
  - contradiction Hnil; reflexivity.
  - destruct fuel as [|k]; [cbn [length] in Hfuel; lia|].
    cbn [length rx_unfold] in Hun.
    destruct (receive B (sc_env w)) as [[data' dt'] e1] eqn:Hrx.
    destruct (rx_unfold B e1 (length evs')) as [evs'' e''] eqn:Hun'.
    inversion Hun; subst data' dt' evs'' e''. clear Hun.
    rewrite (scan_step k deadline w data dt e1 Hrx).
    rewrite sc_chunks_of_cons, process_app, <- chunk_indep_nmea in Hfin.
    destruct evs' as [|ev2 t].
    + (* the last event *)
      cbn [removelast time_of fold_right] in Htime.
      cbn [chunks_of flat_map] in Hfin. rewrite !process_nil in Hfin.
      change (nprocess (nprocess (sc_nmea w) (sc_chunk data)) [])
        with (nprocess (sc_nmea w) (sc_chunk data)) in Hfin.
      destruct (sc_now w <? deadline) eqn:Hlt; [|lia].
      destruct (nonempty data) as [d|] eqn:Hne.
      * apply nonempty_some in Hne. rewrite Hne in Hfin.
        destruct (2 <=? rx (process (sc_ubx w) d)) eqn:Hux; [eexists; reflexivity|].
        destruct (2 <=? nrx (nprocess (sc_nmea w) d)) eqn:Hnx; [eexists; reflexivity|].
        lia.
      * apply nonempty_none in Hne. rewrite Hne in Hfin.
        rewrite process_nil in Hfin.
        change (nprocess (sc_nmea w) []) with (sc_nmea w) in Hfin. lia.
    + (* an earlier event *)
      set (evs' := ev2 :: t) in *.
      assert (Hne' : evs' <> []) by (subst evs'; discriminate).
      assert (Hrl : removelast ((data, dt) :: evs') = (data, dt) :: removelast evs') by reflexivity.
      rewrite Hrl, sc_time_of_cons in Htime.
      destruct (sc_now w <? deadline) eqn:Hlt; [|lia].
      cbn [length] in Hfuel.
      destruct (nonempty data) as [d|] eqn:Hne.
      * apply nonempty_some in Hne. rewrite Hne in Hfin.
        destruct (2 <=? rx (process (sc_ubx w) d)) eqn:Hux; [eexists; reflexivity|].
        destruct (2 <=? nrx (nprocess (sc_nmea w) d)) eqn:Hnx; [eexists; reflexivity|].
        apply (IH k _ e'); cbn [sc_env sc_now sc_ubx sc_nmea]; try assumption; lia.
      * apply nonempty_none in Hne. rewrite Hne in Hfin.
        rewrite process_nil in Hfin.
        change (nprocess (sc_nmea w) []) with (sc_nmea w) in Hfin.
        apply (IH k _ e'); cbn [sc_env sc_now sc_ubx sc_nmea]; try assumption; lia.
Qed.

Lemma scan_complete fuel interval e now evs e' :
  rx_unfold B (flush B e) (length evs) = (evs, e') ->
  evs <> [] -> now + time_of (removelast evs) < now + interval ->
  (length evs <= fuel)%nat ->
  2 <= rx (process (fresh None) (chunks_of evs)) \/ 2 <= nrx (nprocess nfresh (chunks_of evs)) ->
  exists w, scan B fuel interval e now = (ScanTrue, w).
Proof.
  intros Hun Hnil Htime Hfuel Hfin. unfold scan.
  apply (scan_loop_complete (now + interval) evs fuel _ e');
    cbn [sc_env sc_now sc_ubx sc_nmea fresh nfresh rx nrx]; try assumption; lia.
Qed.

(* ------------------------------------------------------------------ time *)
Lemma scan_loop_time deadline T : dt_le B T -> forall fuel (w : scan_world E) r w',
  scan_loop B fuel deadline w = (r, w') -> r <> ScanFuel ->
  sc_now w <= deadline + T -> sc_now w' <= deadline + T.
Proof.
  intros HT. induction fuel as [|k IH]; intros w r w' Hrun Hr Hnow.
  - cbn [scan_loop] in Hrun. inversion Hrun as [[Hr' Hw']]. subst r. contradiction Hr; reflexivity.
  - destruct (receive B (sc_env w)) as [[data dt] e1] eqn:Hrx.
    rewrite (scan_step k deadline w data dt e1 Hrx) in Hrun.
    assert (Hdt : dt <= T).
    { pose proof (HT (sc_env w)) as H. unfold rx_dt in H. rewrite Hrx in H. exact H. }
    destruct (sc_now w <? deadline) eqn:Hlt.
    + destruct (nonempty data) as [d|] eqn:Hne.
      * destruct (2 <=? rx (process (sc_ubx w) d)) eqn:Hux.
        -- inversion Hrun as [[Hr' Hw']]. cbn [sc_now]. lia.
        -- destruct (2 <=? nrx (nprocess (sc_nmea w) d)) eqn:Hnx.
           ++ inversion Hrun as [[Hr' Hw']]. cbn [sc_now]. lia.
           ++ apply (IH _ r w' Hrun Hr). cbn [sc_now]. lia.
      * apply (IH _ r w' Hrun Hr). cbn [sc_now]. lia.
    + inversion Hrun as [[Hr' Hw']]. subst w'. exact Hnow.
Qed.

(* ------------------------------------------------------------------ termination *)
Lemma scan_loop_terminates deadline : dt_pos B -> forall fuel (w : scan_world E),
  (N.to_nat (deadline - sc_now w) + 1 <= fuel)%nat ->
  fst (scan_loop B fuel deadline w) <> ScanFuel.
Proof.
  intros Hpos. induction fuel as [|k IH]; intros w Hfuel.
  - lia.
  - destruct (receive B (sc_env w)) as [[data dt] e1] eqn:Hrx.
    rewrite (scan_step k deadline w data dt e1 Hrx).
    assert (Hdt : 0 < dt).
    { pose proof (Hpos (sc_env w)) as H. unfold rx_dt in H. rewrite Hrx in H. exact H. }
    destruct (sc_now w <? deadline) eqn:Hlt.
    + destruct (nonempty data) as [d|] eqn:Hne.
      * destruct (2 <=? rx (process (sc_ubx w) d)) eqn:Hux; [cbn [fst]; discriminate|].
        destruct (2 <=? nrx (nprocess (sc_nmea w) d)) eqn:Hnx; [cbn [fst]; discriminate|].
        apply IH. cbn [sc_now]. lia.
      * apply IH. cbn [sc_now]. lia.
    + cbn [fst]. discriminate.
Qed.

End ScanProofs.

(* ------------------------------------------------------------------ the C18 statements *)
Theorem scan_true_sound : forall E (B : backend E) fuel interval e now w,
  scan B fuel interval e now = (ScanTrue, w) ->
  2 <= rx (process (fresh None) (scan_stream w)) \/ 2 <= count_sentences (scan_stream w).
Proof.
  intros E B fuel interval e now w Hrun. unfold scan in Hrun.
  refine (scan_loop_sound B fuel (now + interval) _ w _ Hrun).
  split; reflexivity.
Qed.

Theorem scan_two_frames : forall E (B : backend E) fuel interval e now evs e' segs,
  rx_unfold B (flush B e) (length evs) = (evs, e') ->
  chunks_of evs = flat_map seg_bytes segs ->
  Forall seg_ok segs -> no_adj_junk segs = true -> (2 <= count_frames segs)%nat ->
  evs <> [] -> now + time_of (removelast evs) < now + interval ->
  (length evs <= fuel)%nat ->
  exists w, scan B fuel interval e now = (ScanTrue, w).
Proof.
  intros E B fuel interval e now evs e' segs Hun Hch Hok Hadj Hcnt Hnil Htime Hfuel.
  apply (scan_complete B fuel interval e now evs e' Hun Hnil Htime Hfuel).
  left. rewrite Hch.
  destruct (complete_segs segs (fresh None) eq_refl Hok Hadj) as (_ & Hrx & _).
  rewrite Hrx. cbn [fresh rx]. lia.
Qed.

Theorem scan_two_sentences : forall E (B : backend E) fuel interval e now evs e',
  rx_unfold B (flush B e) (length evs) = (evs, e') ->
  2 <= count_sentences (chunks_of evs) ->
  evs <> [] -> now + time_of (removelast evs) < now + interval ->
  (length evs <= fuel)%nat ->
  exists w, scan B fuel interval e now = (ScanTrue, w).
Proof.
  intros E B fuel interval e now evs e' Hun Hcnt Hnil Htime Hfuel.
  apply (scan_complete B fuel interval e now evs e' Hun Hnil Htime Hfuel).
  right. rewrite nmea_count_exact. exact Hcnt.
Qed.

Theorem scan_time : forall E (B : backend E) fuel interval e now T r w,
  dt_le B T -> scan B fuel interval e now = (r, w) -> r <> ScanFuel ->
  sc_now w <= now + interval + T.
Proof.
  intros E B fuel interval e now T r w HT Hrun Hr. unfold scan in Hrun.
  apply (scan_loop_time B (now + interval) T HT fuel _ r w Hrun Hr). cbn [sc_now]. lia.
Qed.

Theorem scan_terminates : forall E (B : backend E) fuel interval e now,
  dt_pos B -> (N.to_nat interval + 1 <= fuel)%nat ->
  fst (scan B fuel interval e now) <> ScanFuel.
Proof.
  intros E B fuel interval e now Hpos Hfuel. unfold scan.
  apply (scan_loop_terminates B (now + interval) Hpos). cbn [sc_now]. lia.
Qed.
