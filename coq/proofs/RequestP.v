(* Request layer (model/Request.v): bounded retransmission, termination, time bound,
   unchanged configuration (C05) and canonical transmissions (C12). *)
From Coq Require Import Lia ZifyBool ZifyN ZifyNat.
From Ubx Require Import Fields Base Checksum Frame ParserUbx CfgKeys Request RequestSpec FrameP.
#[local] Ltac Zify.zify_post_hook ::= Z.to_euclidean_division_equations.
Open Scope N_scope.

(* ---- lists ------------------------------------------------------------------------- *)
Lemma count_tx_app (a b : list event) : count_tx (a ++ b) = (count_tx a + count_tx b)%nat.
Proof. unfold count_tx. rewrite filter_app, app_length. reflexivity. Qed.

Lemma skipn_len_app {A} (l t : list A) : skipn (List.length l) (l ++ t) = t.
Proof. induction l as [|x l IH]; cbn [List.length app skipn]; [reflexivity|exact IH]. Qed.

Section ReqP.
Context {E : Type} (B : backend E) (sk : list N).

(* ---- one iteration of _wait() ------------------------------------------------------- *)
Definition wtied (D : N) (w : world E) : world E :=
  mkWorld (wsrv w) (wenv w) (wnow w) (wtrace w) (wtie w || (wnow w =? D)).

Definition wrecv (D : N) (w : world E) : option pkt * world E :=
  let '(data, dt, e') := receive B (wenv w) in
  let w2 := log (wtied D w) e' (wnow w + dt) (Rx data dt) in
  let p := match nonempty data with
           | Some d => process (sparser (wsrv w)) d
           | None => sparser (wsrv w)
           end in
  let (x, p') := packet p in
  (x, with_parser w2 p').

Definition wframe (r : registry) (x : option pkt) : option rframe :=
  match x with
  | Some (Pkt c i payload) =>
      if is_crc_marker (Pkt c i payload) then None
      else match reg_lookup r (c, i) with
           | None => None
           | Some (name, rk) =>
               match build_with_data sk rk payload with
               | Ok d => Some (mkRFrame name (c, i) payload d)
               | Raise _ => None
               end
           end
  | Some CrcErr => None
  | None => None
  end.

Lemma wait_S k D w :
  wait B sk (S k) D w =
  if wnow w <? D then
    match wframe (sreg (wsrv (snd (wrecv D w)))) (fst (wrecv D w)) with
    | Some f => (Some (Some f), snd (wrecv D w))
    | None => wait B sk k D (snd (wrecv D w))
    end
  else (Some None, wtied D w).
Proof.
  unfold wrecv, wtied, wframe. cbn [wait wnow wenv wsrv].
  destruct (wnow w <? D); [|reflexivity].
  destruct (receive B (wenv w)) as [[data dt] e'].
  destruct (packet _) as [x p'].
  cbn [fst snd].
  destruct x as [[c i payload|]|]; try reflexivity.
  destruct (is_crc_marker (Pkt c i payload)); [reflexivity|].
  cbn [with_parser log wsrv sreg].
  destruct (reg_lookup _ _) as [[name rk]|]; [|reflexivity].
  destruct (build_with_data sk rk payload); reflexivity.
Qed.

Lemma wrecv_props D w :
  wtrace (snd (wrecv D w)) = wtrace w ++ [Rx (rx_data B (wenv w)) (rx_dt B (wenv w))]
  /\ wnow (snd (wrecv D w)) = wnow w + rx_dt B (wenv w)
  /\ sretries (wsrv (snd (wrecv D w))) = sretries (wsrv w)
  /\ sdelay (wsrv (snd (wrecv D w))) = sdelay (wsrv w).
Proof.
  unfold wrecv, rx_data, rx_dt.
  destruct (receive B (wenv w)) as [[data dt] e'].
  destruct (packet _) as [x p'].
  cbn. repeat split; reflexivity.
Qed.

(* ---- footprint ---------------------------------------------------------------------- *)
Definition canon (m : bytes) (ev : event) : Prop :=
  match ev with Tx d _ => d = m | _ => True end.

(* from w to w': the trace grows by at most n transmissions, all of them of m; the
   configuration is kept; the clock does not go back *)
Definition grows (m : bytes) (n : nat) (w w' : world E) : Prop :=
  (exists tr, wtrace w' = wtrace w ++ tr /\ (count_tx tr <= n)%nat /\ Forall (canon m) tr)
  /\ sretries (wsrv w') = sretries (wsrv w)
  /\ sdelay (wsrv w') = sdelay (wsrv w)
  /\ wnow w <= wnow w'.

Lemma grows_refl m w : grows m 0 w w.
Proof.
  split; [|repeat split; lia].
  exists []. rewrite app_nil_r. repeat split; [cbn; lia|constructor].
Qed.

Lemma grows_trans m a b w1 w2 w3 :
  grows m a w1 w2 -> grows m b w2 w3 -> grows m (a + b) w1 w3.
Proof.
  intros [(t1 & H1 & C1 & F1) (R1 & D1 & N1)] [(t2 & H2 & C2 & F2) (R2 & D2 & N2)].
  split; [|repeat split; [congruence|congruence|lia]].
  exists (t1 ++ t2). rewrite H2, H1, app_assoc, count_tx_app.
  repeat split; [lia|apply Forall_app; split; assumption].
Qed.

Lemma grows_le m a b w w' : (a <= b)%nat -> grows m a w w' -> grows m b w w'.
Proof.
  intros Hab [(t & H & C & F) R]. split; [|exact R].
  exists t. repeat split; [exact H|lia|exact F].
Qed.

Lemma grows_one m n w w' ev :
  wtrace w' = wtrace w ++ [ev] -> (count_tx [ev] <= n)%nat -> canon m ev ->
  sretries (wsrv w') = sretries (wsrv w) -> sdelay (wsrv w') = sdelay (wsrv w) ->
  wnow w <= wnow w' -> grows m n w w'.
Proof.
  intros H C F R D N. split; [|repeat split; assumption].
  exists [ev]. repeat split; [exact H|exact C|constructor; [exact F|constructor]].
Qed.

Lemma wrecv_grows m D w : grows m 0 w (snd (wrecv D w)).
Proof.
  destruct (wrecv_props D w) as (Ht & Hn & Hr & Hd).
  eapply grows_one; [exact Ht|cbn; lia|exact I|exact Hr|exact Hd|lia].
Qed.

Lemma wtied_grows m D w : grows m 0 w (wtied D w).
Proof.
  split; [|cbn; repeat split; lia].
  exists []. cbn [wtied wtrace]. rewrite app_nil_r. repeat split; [cbn; lia|constructor].
Qed.

Lemma wait_grows m : forall fuel D w, grows m 0 w (snd (wait B sk fuel D w)).
Proof.
  induction fuel as [|k IH]; intros D w.
  - cbn [wait snd]. apply grows_refl.
  - rewrite wait_S. destruct (wnow w <? D).
    + destruct (wframe _ _); cbn [snd].
      * apply wrecv_grows.
      * apply (grows_trans m 0 0 _ _ _ (wrecv_grows m D w)). apply IH.
    + cbn [snd]. apply wtied_grows.
Qed.

Definition msg_of (c : cid) (payload : bytes) : bytes :=
  fst (to_bytes (new_frame (fst c) (snd c) payload)).

Lemma send_props w c payload ok w' :
  send B w c payload = (ok, w') ->
  wtrace w' = wtrace w ++ [Tx (msg_of c payload) ok]
  /\ wsrv w' = wsrv w /\ wnow w' = wnow w.
Proof.
  unfold send, msg_of. destruct (transmit B (wenv w) _) as [ok0 e'].
  intros H. inversion H; subst. cbn. repeat split; reflexivity.
Qed.

Lemma send_grows w c payload ok w' :
  send B w c payload = (ok, w') -> grows (msg_of c payload) 1 w w'.
Proof.
  intros H. destruct (send_props _ _ _ _ _ H) as (Ht & Hs & Hn).
  eapply grows_one; [exact Ht|cbn; lia|reflexivity|rewrite Hs; reflexivity|rewrite Hs; reflexivity|lia].
Qed.

Lemma flush_grows m w : grows m 0 w (do_flush B w).
Proof. eapply grows_one; [reflexivity|cbn; lia|exact I|reflexivity|reflexivity|cbn; lia]. Qed.

Lemma recover_grows m w : grows m 0 w (do_recover B w).
Proof. eapply grows_one; [reflexivity|cbn; lia|exact I|reflexivity|reflexivity|cbn; lia]. Qed.

Lemma with_parser_grows m w p : grows m 0 w (with_parser w p).
Proof.
  split; [|cbn; repeat split; lia].
  exists []. cbn [with_parser wtrace]. rewrite app_nil_r. repeat split; [cbn; lia|constructor].
Qed.

Lemma with_reg_grows m w r : grows m 0 w (with_reg w r).
Proof.
  split; [|cbn; repeat split; lia].
  exists []. cbn [with_reg wtrace]. rewrite app_nil_r. repeat split; [cbn; lia|constructor].
Qed.

Lemma purge_grows m w : grows m 0 w (purge w).
Proof. apply with_parser_grows. Qed.

Lemma poll_phase_grows m : forall fuel req ph resp D w,
  grows m 0 w (snd (poll_phase B sk fuel req ph resp D w)).
Proof.
  induction fuel as [|k IH]; intros req ph resp D w.
  - cbn [poll_phase snd]. apply grows_refl.
  - cbn [poll_phase].
    pose proof (wait_grows m (S k) D w) as Hw.
    destruct (wait B sk (S k) D w) as [[[f|]|] w']; cbn [snd] in Hw; try exact Hw.
    destruct (negb ph).
    + destruct (cid_eqb (rf_cid f) req).
      * destruct (fst req =? CLASS_CFG); [|exact Hw].
        apply (grows_trans m 0 0 _ _ _ Hw). apply IH.
      * apply (grows_trans m 0 0 _ _ _ Hw). apply IH.
    + destruct (check_ack_nak req f).
      * destruct resp; exact Hw.
      * apply (grows_trans m 0 0 _ _ _ Hw). apply IH.
      * apply (grows_trans m 0 0 _ _ _ Hw). apply IH.
Qed.

Lemma grows_seq m a b n w1 w2 w3 :
  grows m a w1 w2 -> grows m b w2 w3 -> (a + b <= n)%nat -> grows m n w1 w3.
Proof. intros H1 H2 Hn. apply (grows_le m (a + b)); [exact Hn|]. eapply grows_trans; eassumption. Qed.

Lemma poll_attempts_grows fuel req payload : forall n w,
  grows (msg_of req payload) n w (snd (poll_attempts B sk fuel n req payload w)).
Proof.
  set (m := msg_of req payload).
  induction n as [|n IH]; intros w.
  - cbn [poll_attempts snd]. apply grows_refl.
  - cbn [poll_attempts].
    destruct (send B (do_flush B w) req payload) as [ok w1] eqn:Hs.
    assert (H1 : grows m 1 w w1).
    { apply (grows_seq m 0 1 1 _ _ _ (flush_grows m w) (send_grows _ _ _ _ _ Hs)). lia. }
    destruct ok.
    + pose proof (poll_phase_grows m fuel req false None
                    (wnow (purge w1) + sdelay (wsrv (purge w1))) (purge w1)) as Hp.
      destruct (poll_phase B sk fuel req false None _ (purge w1)) as [[f| |] w'];
        cbn [snd] in Hp.
      * cbn [snd]. apply (grows_seq m 1 0 _ _ _ _ H1); [|lia].
        apply (grows_seq m 0 0 _ _ _ _ (purge_grows m w1) Hp). lia.
      * apply (grows_seq m 1 n _ _ (do_recover B w')); [|apply IH|lia].
        apply (grows_seq m 1 0 _ _ _ _ H1); [|lia].
        apply (grows_seq m 0 0 _ _ _ _ (purge_grows m w1)); [|lia].
        apply (grows_seq m 0 0 _ _ _ _ Hp (recover_grows m w')). lia.
      * cbn [snd]. apply (grows_seq m 1 0 _ _ _ _ H1); [|lia].
        apply (grows_seq m 0 0 _ _ _ _ (purge_grows m w1) Hp). lia.
    + apply (grows_seq m 1 n _ _ _ _ H1); [apply IH|lia].
Qed.

Lemma set_attempts_grows fuel mga req payload : forall n w,
  grows (msg_of req payload) n w (snd (set_attempts B sk fuel n mga req payload w)).
Proof.
  set (m := msg_of req payload).
  induction n as [|n IH]; intros w.
  - cbn [set_attempts snd]. apply grows_refl.
  - cbn [set_attempts].
    destruct (send B (do_flush B w) req payload) as [ok w1] eqn:Hs.
    assert (H1 : grows m 1 w w1).
    { apply (grows_seq m 0 1 1 _ _ _ (flush_grows m w) (send_grows _ _ _ _ _ Hs)). lia. }
    destruct ok.
    + pose proof (wait_grows m fuel (wnow (purge w1) + sdelay (wsrv (purge w1))) (purge w1)) as Hp.
      destruct (wait B sk fuel _ (purge w1)) as [[[f|]|] w']; cbn [snd] in Hp.
      * assert (H2 : grows m 1 w w').
        { apply (grows_seq m 1 0 _ _ _ _ H1); [|lia].
          apply (grows_seq m 0 0 _ _ _ _ (purge_grows m w1) Hp). lia. }
        match goal with |- context [if ?c then _ else _] => destruct c end.
        -- cbn [snd]. apply (grows_le m 1); [lia|exact H2].
        -- apply (grows_seq m 1 n _ _ _ _ H2); [apply IH|lia].
      * apply (grows_seq m 1 n _ _ (do_recover B w')); [|apply IH|lia].
        apply (grows_seq m 1 0 _ _ _ _ H1); [|lia].
        apply (grows_seq m 0 0 _ _ _ _ (purge_grows m w1)); [|lia].
        apply (grows_seq m 0 0 _ _ _ _ Hp (recover_grows m w')). lia.
      * cbn [snd]. apply (grows_seq m 1 0 _ _ _ _ H1); [|lia].
        apply (grows_seq m 0 0 _ _ _ _ (purge_grows m w1) Hp). lia.
    + apply (grows_seq m 1 n _ _ _ _ H1); [apply IH|lia].
Qed.

(* the whole request, when the body packs *)
Lemma do_request_grows fuel o rq w payload :
  pack_body (rq_body rq) = Ok payload ->
  grows (msg_of (rq_cid rq) payload) (S (sretries (wsrv w))) w
        (snd (do_request B sk fuel o rq w)).
Proof.
  intros Hp. set (m := msg_of (rq_cid rq) payload).
  destruct o; cbn [do_request].
  - unfold poll. rewrite Hp.
    match goal with |- context [poll_attempts B sk fuel ?n _ _ ?w0] =>
      pose proof (poll_attempts_grows fuel (rq_cid rq) payload n w0) as H end.
    cbn [with_parser with_reg wsrv sretries] in H |- *.
    eapply grows_seq; [|exact H|].
    + eapply grows_seq; [apply with_reg_grows|apply with_parser_grows|].
      instantiate (1 := O). lia.
    + lia.
  - unfold set. rewrite Hp.
    match goal with |- context [set_attempts B sk fuel ?n _ _ _ ?w0] =>
      pose proof (set_attempts_grows fuel false (rq_cid rq) payload n w0) as H end.
    cbn [with_parser wsrv sretries] in H |- *.
    eapply grows_seq; [apply with_parser_grows|exact H|lia].
  - unfold set_mga. rewrite Hp.
    match goal with |- context [set_attempts B sk fuel ?n _ _ _ ?w0] =>
      pose proof (set_attempts_grows fuel true (rq_cid rq) payload n w0) as H end.
    cbn [with_parser wsrv sretries] in H |- *.
    eapply grows_seq; [apply with_parser_grows|exact H|lia].
  - unfold fire_and_forget. rewrite Hp.
    destruct (send B w (rq_cid rq) payload) as [ok w'] eqn:Hs. cbn [snd].
    apply (grows_le m 1); [lia|]. apply (send_grows _ _ _ _ _ Hs).
Qed.

(* ... and when it does not: nothing happens but the filter/registry update *)
Lemma do_request_raise fuel o rq w e :
  pack_body (rq_body rq) = Raise e ->
  fst (do_request B sk fuel o rq w) = Raised e
  /\ wtrace (snd (do_request B sk fuel o rq w)) = wtrace w
  /\ sretries (wsrv (snd (do_request B sk fuel o rq w))) = sretries (wsrv w)
  /\ sdelay (wsrv (snd (do_request B sk fuel o rq w))) = sdelay (wsrv w)
  /\ wnow (snd (do_request B sk fuel o rq w)) = wnow w.
Proof.
  intros Hp.
  destruct o; cbn [do_request]; unfold poll, set, set_mga, fire_and_forget; rewrite Hp;
    cbn; repeat split; reflexivity.
Qed.

(* ---- no exception but the one of packing -------------------------------------------- *)
Lemma poll_attempts_noraise fuel req payload e : forall n w,
  fst (poll_attempts B sk fuel n req payload w) <> Raised e.
Proof.
  induction n as [|n IH]; intros w.
  - cbn [poll_attempts fst]. discriminate.
  - cbn [poll_attempts].
    destruct (send B (do_flush B w) req payload) as [[|] w1]; [|apply IH].
    destruct (poll_phase B sk fuel req false None _ (purge w1)) as [[f| |] w'];
      [cbn [fst]; discriminate|apply IH|cbn [fst]; discriminate].
Qed.

Lemma set_attempts_noraise fuel mga req payload e : forall n w,
  fst (set_attempts B sk fuel n mga req payload w) <> Raised e.
Proof.
  induction n as [|n IH]; intros w.
  - cbn [set_attempts fst]. discriminate.
  - cbn [set_attempts].
    destruct (send B (do_flush B w) req payload) as [[|] w1]; [|apply IH].
    destruct (wait B sk fuel _ (purge w1)) as [[[f|]|] w'];
      [|apply IH|cbn [fst]; discriminate].
    match goal with |- context [if ?c then _ else _] => destruct c end;
      [cbn [fst]; discriminate|apply IH].
Qed.

(* ---- time --------------------------------------------------------------------------- *)
Section Time.
Variable T : N.
Hypothesis HT : dt_le B T.

Lemma wait_time : forall fuel D w,
  wnow (snd (wait B sk fuel D w)) <= N.max (wnow w) (D + T).
Proof.
  induction fuel as [|k IH]; intros D w.
  - cbn [wait snd]. lia.
  - rewrite wait_S. destruct (wnow w <? D) eqn:Hlt.
    + destruct (wrecv_props D w) as (_ & Hn & _).
      pose proof (HT (wenv w)) as Hdt.
      destruct (wframe _ _); cbn [snd].
      * lia.
      * specialize (IH D (snd (wrecv D w))). lia.
    + cbn [snd wtied wnow]. lia.
Qed.

Definition extra (req : cid) (ph : bool) (d : N) : N :=
  if ph then 0 else if fst req =? CLASS_CFG then d + T else 0.

Lemma poll_phase_time : forall fuel req ph resp D w,
  wnow (snd (poll_phase B sk fuel req ph resp D w))
  <= N.max (wnow w) (D + T) + extra req ph (sdelay (wsrv w)).
Proof.
  induction fuel as [|k IH]; intros req ph resp D w.
  - cbn [poll_phase snd]. lia.
  - cbn [poll_phase].
    pose proof (wait_time (S k) D w) as Ht.
    pose proof (wait_grows [] (S k) D w) as (_ & _ & Hd & _).
    destruct (wait B sk (S k) D w) as [[[f|]|] w']; cbn [snd] in Ht, Hd |- *; try lia.
    unfold extra in *.
    destruct ph; cbn [negb].
    + destruct (check_ack_nak req f).
      * destruct resp; cbn [snd]; lia.
      * specialize (IH req true resp D w'). cbn beta iota in IH. lia.
      * specialize (IH req true resp D w'). cbn beta iota in IH. lia.
    + destruct (cid_eqb (rf_cid f) req).
      * destruct (fst req =? CLASS_CFG) eqn:Hc.
        -- specialize (IH req true (Some f) (wnow w' + sdelay (wsrv w')) w').
           cbn beta iota in IH. lia.
        -- cbn [snd]. lia.
      * specialize (IH req false resp D w'). cbn beta iota in IH.
        destruct (fst req =? CLASS_CFG); lia.
Qed.

Lemma poll_attempts_time fuel req payload : forall n w,
  wnow (snd (poll_attempts B sk fuel n req payload w))
  <= wnow w + N.of_nat n * ((if fst req =? CLASS_CFG then 2 else 1) * (sdelay (wsrv w) + T)).
Proof.
  induction n as [|n IH]; intros w.
  - cbn [poll_attempts snd]. lia.
  - cbn [poll_attempts].
    destruct (send B (do_flush B w) req payload) as [ok w1] eqn:Hs.
    destruct (send_props _ _ _ _ _ Hs) as (_ & Hsrv & Hnow).
    cbn [do_flush log wsrv wnow] in Hsrv, Hnow.
    set (P := (if fst req =? CLASS_CFG then 2 else 1) * (sdelay (wsrv w) + T)) in *.
    destruct ok.
    + pose proof (poll_phase_time fuel req false None
                    (wnow (purge w1) + sdelay (wsrv (purge w1))) (purge w1)) as Hp.
      pose proof (poll_phase_grows [] fuel req false None
                    (wnow (purge w1) + sdelay (wsrv (purge w1))) (purge w1)) as (_ & _ & Hd & _).
      cbn [purge with_parser wsrv wnow sdelay] in Hp, Hd.
      rewrite Hsrv, Hnow in Hp, Hd. unfold extra in Hp.
      assert (Hle : wnow (snd (poll_phase B sk fuel req false None
                      (wnow w + sdelay (wsrv w)) (purge w1))) <= wnow w + P).
      { subst P. cbn [purge with_parser]. destruct (fst req =? CLASS_CFG); lia. }
      cbn [purge with_parser wsrv wnow sdelay]. rewrite Hsrv, Hnow.
      cbn [purge with_parser] in Hle.
      destruct (poll_phase B sk fuel req false None _ _) as [[f| |] w'];
        cbn [snd] in Hle, Hd |- *.
      * lia.
      * specialize (IH (do_recover B w')). cbn [do_recover log wsrv wnow] in IH.
        rewrite Hd in IH. fold P in IH. lia.
      * lia.
    + specialize (IH w1). rewrite Hsrv, Hnow in IH. fold P in IH. lia.
Qed.

Lemma set_attempts_time fuel mga req payload : forall n w,
  wnow (snd (set_attempts B sk fuel n mga req payload w))
  <= wnow w + N.of_nat n * (sdelay (wsrv w) + T).
Proof.
  induction n as [|n IH]; intros w.
  - cbn [set_attempts snd]. lia.
  - cbn [set_attempts].
    destruct (send B (do_flush B w) req payload) as [ok w1] eqn:Hs.
    destruct (send_props _ _ _ _ _ Hs) as (_ & Hsrv & Hnow).
    cbn [do_flush log wsrv wnow] in Hsrv, Hnow.
    set (P := sdelay (wsrv w) + T) in *.
    destruct ok.
    + pose proof (wait_time fuel (wnow (purge w1) + sdelay (wsrv (purge w1))) (purge w1)) as Hp.
      pose proof (wait_grows [] fuel (wnow (purge w1) + sdelay (wsrv (purge w1))) (purge w1))
        as (_ & _ & Hd & _).
      cbn [purge with_parser wsrv wnow sdelay] in Hp, Hd |- *.
      rewrite Hsrv, Hnow in Hp, Hd |- *.
      destruct (wait B sk fuel _ _) as [[[f|]|] w']; cbn [snd] in Hp, Hd |- *.
      * match goal with |- context [if ?c then _ else _] => destruct c end.
        -- cbn [snd]. lia.
        -- specialize (IH w'). rewrite Hd in IH. fold P in IH. lia.
      * specialize (IH (do_recover B w')). cbn [do_recover log wsrv wnow] in IH.
        rewrite Hd in IH. fold P in IH. lia.
      * lia.
    + specialize (IH w1). rewrite Hsrv, Hnow in IH. fold P in IH. lia.
Qed.

End Time.

(* ---- fuel --------------------------------------------------------------------------- *)
Section Fuel.
Hypothesis Hpos : dt_pos B.

Lemma wait_fuel_ok : forall fuel D w,
  (N.to_nat (D - wnow w) + 1 <= fuel)%nat -> fst (wait B sk fuel D w) <> None.
Proof.
  induction fuel as [|k IH]; intros D w Hf; [lia|].
  rewrite wait_S. destruct (wnow w <? D) eqn:Hlt.
  - destruct (wrecv_props D w) as (_ & Hn & _).
    pose proof (Hpos (wenv w)) as Hdt.
    destruct (wframe _ _); [cbn [fst]; discriminate|].
    apply IH. lia.
  - cbn [fst]. discriminate.
Qed.

Lemma wait_progress : forall fuel D w f w',
  wait B sk fuel D w = (Some (Some f), w') -> wnow w < D /\ wnow w + 1 <= wnow w'.
Proof.
  induction fuel as [|k IH]; intros D w f w' H.
  - cbn [wait] in H. discriminate.
  - rewrite wait_S in H. destruct (wnow w <? D) eqn:Hlt; [|discriminate].
    destruct (wrecv_props D w) as (_ & Hn & _).
    pose proof (Hpos (wenv w)) as Hdt.
    destruct (wframe _ _).
    + inversion H; subst. lia.
    + apply IH in H. lia.
Qed.

Lemma poll_phase_fuel_ok : forall fuel req (ph : bool) resp D (w : world E),
  (N.to_nat (D - wnow w) + (if ph then 0 else N.to_nat (sdelay (wsrv w))) + 1 <= fuel)%nat ->
  fst (poll_phase B sk fuel req ph resp D w) <> AFuel.
Proof.
  induction fuel as [|k IH]; intros req ph resp D w Hf; [lia|].
  cbn [poll_phase].
  pose proof (wait_fuel_ok (S k) D w) as Hw.
  pose proof (wait_grows [] (S k) D w) as (_ & _ & Hd & _).
  destruct (wait B sk (S k) D w) as [[[f|]|] w'] eqn:Hwait; cbn [fst snd] in Hw, Hd |- *.
  - apply wait_progress in Hwait. destruct Hwait as [Hlt Hstep].
    destruct ph; cbn [negb].
    + destruct (check_ack_nak req f).
      * destruct resp; cbn [fst]; discriminate.
      * apply IH. lia.
      * apply IH. lia.
    + destruct (cid_eqb (rf_cid f) req).
      * destruct (fst req =? CLASS_CFG); [|cbn [fst]; discriminate].
        apply IH. lia.
      * apply IH. lia.
  - discriminate.
  - exfalso. apply Hw; [|reflexivity]. destruct ph; lia.
Qed.

Lemma poll_attempts_fuel_ok fuel req payload : forall n w,
  (2 * N.to_nat (sdelay (wsrv w)) + 1 <= fuel)%nat ->
  fst (poll_attempts B sk fuel n req payload w) <> OutOfFuel.
Proof.
  induction n as [|n IH]; intros w Hf.
  - cbn [poll_attempts fst]. discriminate.
  - cbn [poll_attempts].
    destruct (send B (do_flush B w) req payload) as [ok w1] eqn:Hs.
    destruct (send_props _ _ _ _ _ Hs) as (_ & Hsrv & Hnow).
    cbn [do_flush log wsrv wnow] in Hsrv, Hnow.
    destruct ok; [|apply IH; rewrite Hsrv; exact Hf].
    pose proof (poll_phase_fuel_ok fuel req false None
                  (wnow (purge w1) + sdelay (wsrv (purge w1))) (purge w1)) as Hp.
    pose proof (poll_phase_grows [] fuel req false None
                  (wnow (purge w1) + sdelay (wsrv (purge w1))) (purge w1)) as (_ & _ & Hd & _).
    destruct (poll_phase B sk fuel req false None _ (purge w1)) as [[f| |] w'];
      cbn [fst snd] in Hp, Hd |- *.
    + discriminate.
    + apply IH. cbn [do_recover log wsrv]. rewrite Hd. cbn [purge with_parser wsrv sdelay].
      rewrite Hsrv. exact Hf.
    + exfalso. apply Hp; [|reflexivity].
      cbn [purge with_parser wsrv sdelay wnow]. rewrite Hsrv. lia.
Qed.

Lemma set_attempts_fuel_ok fuel mga req payload : forall n w,
  (N.to_nat (sdelay (wsrv w)) + 1 <= fuel)%nat ->
  fst (set_attempts B sk fuel n mga req payload w) <> OutOfFuel.
Proof.
  induction n as [|n IH]; intros w Hf.
  - cbn [set_attempts fst]. discriminate.
  - cbn [set_attempts].
    destruct (send B (do_flush B w) req payload) as [ok w1] eqn:Hs.
    destruct (send_props _ _ _ _ _ Hs) as (_ & Hsrv & Hnow).
    cbn [do_flush log wsrv wnow] in Hsrv, Hnow.
    destruct ok; [|apply IH; rewrite Hsrv; exact Hf].
    pose proof (wait_fuel_ok fuel (wnow (purge w1) + sdelay (wsrv (purge w1))) (purge w1)) as Hp.
    pose proof (wait_grows [] fuel (wnow (purge w1) + sdelay (wsrv (purge w1))) (purge w1))
      as (_ & _ & Hd & _).
    assert (Hd0 : sdelay (wsrv (purge w1)) = sdelay (wsrv w)).
    { cbn [purge with_parser wsrv sdelay]. rewrite Hsrv. reflexivity. }
    destruct (wait B sk fuel _ (purge w1)) as [[[f|]|] w']; cbn [fst snd] in Hp, Hd |- *.
    + match goal with |- context [if ?c then _ else _] => destruct c end.
      * cbn [fst]. discriminate.
      * apply IH. rewrite Hd, Hd0. exact Hf.
    + apply IH. cbn [do_recover log wsrv]. rewrite Hd, Hd0. exact Hf.
    + exfalso. apply Hp; [|reflexivity]. rewrite Hd0. lia.
Qed.

End Fuel.

End ReqP.

(* ==== the statements used by props/C05.v and props/C12.v ============================== *)

Theorem config_kept : forall E (B : backend E) sk fuel o rq w,
  sretries (wsrv (snd (do_request B sk fuel o rq w))) = sretries (wsrv w)
  /\ sdelay (wsrv (snd (do_request B sk fuel o rq w))) = sdelay (wsrv w).
Proof.
  intros E B sk fuel o rq w.
  destruct (pack_body (rq_body rq)) as [payload|e] eqn:Hp.
  - destruct (do_request_grows B sk fuel o rq w payload Hp) as (_ & Hr & Hd & _). split; assumption.
  - destruct (do_request_raise B sk fuel o rq w e Hp) as (_ & _ & Hr & Hd & _). split; assumption.
Qed.

Theorem tx_bound : forall E (B : backend E) sk fuel o rq w,
  exists tr, wtrace (snd (do_request B sk fuel o rq w)) = wtrace w ++ tr
    /\ (count_tx tr <= S (sretries (wsrv w)))%nat.
Proof.
  intros E B sk fuel o rq w.
  destruct (pack_body (rq_body rq)) as [payload|e] eqn:Hp.
  - destruct (do_request_grows B sk fuel o rq w payload Hp) as ((tr & Ht & Hc & _) & _).
    exists tr. split; assumption.
  - destruct (do_request_raise B sk fuel o rq w e Hp) as (_ & Ht & _).
    exists []. rewrite Ht, app_nil_r. split; [reflexivity|cbn; lia].
Qed.

Theorem fire_once : forall E (B : backend E) sk fuel rq w payload,
  pack_body (rq_body rq) = Ok payload ->
  exists d ok, wtrace (snd (do_request B sk fuel RFire rq w)) = wtrace w ++ [Tx d ok]
    /\ fst (do_request B sk fuel RFire rq w) = Return None.
Proof.
  intros E B sk fuel rq w payload Hp.
  cbn [do_request]. unfold fire_and_forget. rewrite Hp.
  destruct (send B w (rq_cid rq) payload) as [ok w'] eqn:Hs.
  destruct (send_props B _ _ _ _ _ Hs) as (Ht & _).
  exists (msg_of (rq_cid rq) payload), ok. cbn [fst snd]. split; [exact Ht|reflexivity].
Qed.

Theorem only_pack_raises : forall E (B : backend E) sk fuel o rq w e,
  fst (do_request B sk fuel o rq w) = Raised e -> pack_body (rq_body rq) = Raise e.
Proof.
  intros E B sk fuel o rq w e H.
  destruct (pack_body (rq_body rq)) as [payload|e'] eqn:Hp.
  - exfalso. revert H.
    destruct o; cbn [do_request]; unfold poll, set, set_mga, fire_and_forget; rewrite Hp.
    + apply poll_attempts_noraise.
    + apply set_attempts_noraise.
    + apply set_attempts_noraise.
    + destruct (send B w (rq_cid rq) payload). cbn [fst]. discriminate.
  - destruct (do_request_raise B sk fuel o rq w e' Hp) as (Hf & _).
    rewrite Hf in H. inversion H. reflexivity.
Qed.

Theorem terminates : forall E (B : backend E) sk fuel o rq w,
  dt_pos B -> (2 * N.to_nat (sdelay (wsrv w)) + 4 <= fuel)%nat ->
  fst (do_request B sk fuel o rq w) <> OutOfFuel.
Proof.
  intros E B sk fuel o rq w Hpos Hf.
  destruct (pack_body (rq_body rq)) as [payload|e] eqn:Hp.
  - destruct o; cbn [do_request]; unfold poll, set, set_mga, fire_and_forget; rewrite Hp.
    + apply poll_attempts_fuel_ok; [exact Hpos|]. cbn [with_parser with_reg wsrv sdelay]. lia.
    + apply set_attempts_fuel_ok; [exact Hpos|]. cbn [with_parser wsrv sdelay]. lia.
    + apply set_attempts_fuel_ok; [exact Hpos|]. cbn [with_parser wsrv sdelay]. lia.
    + destruct (send B w (rq_cid rq) payload). cbn [fst]. discriminate.
  - destruct (do_request_raise B sk fuel o rq w e Hp) as (Hr & _). rewrite Hr. discriminate.
Qed.

Theorem time_bound : forall E (B : backend E) sk fuel o rq w T,
  dt_le B T ->
  wnow (snd (do_request B sk fuel o rq w))
  <= wnow w + N.of_nat (S (sretries (wsrv w))) * periods o (rq_cid rq) * (sdelay (wsrv w) + T).
Proof.
  intros E B sk fuel o rq w T HT.
  destruct (pack_body (rq_body rq)) as [payload|e] eqn:Hp.
  - rewrite <- N.mul_assoc.
    destruct o; cbn [do_request periods]; unfold poll, set, set_mga, fire_and_forget, is_cfg;
      rewrite Hp.
    + match goal with |- context [poll_attempts B sk fuel ?n _ _ ?w0] =>
        pose proof (poll_attempts_time B sk T HT fuel (rq_cid rq) payload n w0) as H end.
      cbn [with_parser with_reg wsrv sretries sdelay wnow] in H |- *. exact H.
    + match goal with |- context [set_attempts B sk fuel ?n _ _ _ ?w0] =>
        pose proof (set_attempts_time B sk T HT fuel false (rq_cid rq) payload n w0) as H end.
      cbn [with_parser wsrv sretries sdelay wnow] in H |- *. lia.
    + match goal with |- context [set_attempts B sk fuel ?n _ _ _ ?w0] =>
        pose proof (set_attempts_time B sk T HT fuel true (rq_cid rq) payload n w0) as H end.
      cbn [with_parser wsrv sretries sdelay wnow] in H |- *. lia.
    + destruct (send B w (rq_cid rq) payload) as [ok w'] eqn:Hs.
      destruct (send_props B _ _ _ _ _ Hs) as (_ & _ & Hn). cbn [snd]. lia.
  - destruct (do_request_raise B sk fuel o rq w e Hp) as (_ & _ & _ & _ & Hn). rewrite Hn. lia.
Qed.

Lemma new_events_app {E} (w w' : world E) tr : wtrace w' = wtrace w ++ tr -> new_events w w' = tr.
Proof. intros H. unfold new_events. rewrite H. apply skipn_len_app. Qed.

Theorem all_tx_canonical : forall E (B : backend E) sk fuel o rq w payload,
  pack_body (rq_body rq) = Ok payload -> (List.length payload <= 65535)%nat ->
  Forall (fun ev => match ev with
                    | Tx d _ => d = wire (fst (rq_cid rq)) (snd (rq_cid rq)) payload
                    | _ => True
                    end)
         (new_events w (snd (do_request B sk fuel o rq w))).
Proof.
  intros E B sk fuel o rq w payload Hp Hlen.
  destruct (do_request_grows B sk fuel o rq w payload Hp) as ((tr & Ht & _ & Hc) & _).
  rewrite (new_events_app _ _ _ Ht).
  assert (Hm : msg_of (rq_cid rq) payload = wire (fst (rq_cid rq)) (snd (rq_cid rq)) payload).
  { unfold msg_of. rewrite to_bytes_wire; [reflexivity|]. cbn [new_frame fr_data]. unfold max_len.
    cbv [Nat.of_num_uint Nat.of_uint Nat.of_uint_acc] in Hlen.
    rewrite !PeanoNat.Nat.tail_mul_spec in Hlen. lia. }
  rewrite Hm in Hc. exact Hc.
Qed.

Theorem no_tx_if_unpackable : forall E (B : backend E) sk fuel o rq w e,
  pack_body (rq_body rq) = Raise e ->
  new_events w (snd (do_request B sk fuel o rq w)) = [].
Proof.
  intros E B sk fuel o rq w e Hp.
  destruct (do_request_raise B sk fuel o rq w e Hp) as (_ & Ht & _).
  apply new_events_app. rewrite Ht, app_nil_r. reflexivity.
Qed.
