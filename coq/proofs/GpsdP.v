(* GpsdP.v — proofs about the gpsd handshake model (model/Gpsd.v); closes props/C20.v. *)
From Ubx Require Import Fields Base Gpsd.

(* ------------------------------------------------------------------ *)
(* 1. The match on the "class" literals, once, generically             *)
(* ------------------------------------------------------------------ *)

Inductive cls := CVersion | CDevices | COther.

Definition classify (o : option json) : cls :=
  match o with
  | Some (JStr c) =>
      if String.eqb c "VERSION" then CVersion
      else if String.eqb c "DEVICES" then CDevices else COther
  | _ => COther
  end.

(* The pattern-match on the two literals agrees with the String.eqb classification. *)
Lemma match_class : forall (A : Type) (o : option json) (a b d : A),
  match o with
  | Some (JStr "VERSION") => a
  | Some (JStr "DEVICES") => b
  | _ => d
  end
  = match classify o with CVersion => a | CDevices => b | COther => d end.
Proof.
  intros A o a b d. unfold classify.
  destruct o as [[ms|its|c|  |bb| ]|]; try reflexivity.
  repeat (destruct c as [|[[] [] [] [] [] [] [] []] c]; try reflexivity).
Qed.

Lemma classify_version : forall o, classify o = CVersion -> o = Some (JStr "VERSION").
Proof.
  intros o H. unfold classify in H.
  destruct o as [[ms|its|c|  |bb| ]|]; try discriminate H.
  destruct (String.eqb_spec c "VERSION") as [E|E].
  - subst c. reflexivity.
  - destruct (String.eqb c "DEVICES"); discriminate H.
Qed.

Lemma classify_devices : forall o, classify o = CDevices -> o = Some (JStr "DEVICES").
Proof.
  intros o H. unfold classify in H.
  destruct o as [[ms|its|c|  |bb| ]|]; try discriminate H.
  destruct (String.eqb c "VERSION"); [discriminate H|].
  destruct (String.eqb_spec c "DEVICES") as [E|E].
  - subst c. reflexivity.
  - discriminate H.
Qed.

Lemma parse_line_obj : forall s m,
  parse_line s (J (JObj m)) =
  match classify (jget m "class") with
  | CVersion =>
      match jget m "release" with
      | Some r => Ok (mkG (g_req s) (g_sel s) (g_enabled s) (Some r))
      | None => Raise KeyError
      end
  | CDevices =>
      match jget m "devices" with
      | Some (JArr devs) => pick_device s devs
      | Some _ => Raise TypeError
      | None => Raise KeyError
      end
  | COther => Ok s
  end.
Proof. intros s m. unfold parse_line. apply match_class. Qed.

Lemma line_ok_obj : forall m,
  line_ok (J (JObj m)) =
  match classify (jget m "class") with
  | CVersion => match jget m "release" with Some _ => true | None => false end
  | CDevices => match jget m "devices" with Some (JArr ds) => forallb device_ok ds | _ => false end
  | COther => true
  end.
Proof. intros m. unfold line_ok. apply match_class. Qed.

Lemma parse_line_devices_msg : forall s devs, parse_line s (devices_msg devs) = pick_device s devs.
Proof. intros s devs. reflexivity. Qed.

(* ------------------------------------------------------------------ *)
(* 2. pick_device                                                      *)
(* ------------------------------------------------------------------ *)

Lemma device_ok_inv : forall d, device_ok d = true ->
  exists m ps, d = JObj m /\ jget m "path" = Some (JStr ps).
Proof.
  intros d H. unfold device_ok in H.
  destruct d as [m|its|c|  |bb| ]; try discriminate H.
  destruct (jget m "path") as [p|] eqn:Ep; [|discriminate H].
  destruct p as [ms|its|ps|  |bb| ]; try discriminate H.
  exists m, ps. split; [reflexivity | exact Ep].
Qed.

Lemma paths_cons_ok : forall m ps t, jget m "path" = Some (JStr ps) ->
  paths (JObj m :: t) = ps :: paths t.
Proof. intros m ps t Ep. unfold paths. cbn [flat_map]. rewrite Ep. reflexivity. Qed.

Lemma pick_cons_requested : forall s m ps t r,
  jget m "path" = Some (JStr ps) -> requested s = Some r ->
  pick_device s (JObj m :: t) =
  if String.eqb r ps then Ok (mkG (g_req s) (Some r) true (g_release s)) else pick_device s t.
Proof. intros s m ps t r Ep Er. cbn [pick_device]. rewrite Ep, Er. reflexivity. Qed.

Lemma pick_cons_none : forall s m ps t,
  jget m "path" = Some (JStr ps) -> requested s = None ->
  pick_device s (JObj m :: t) = Ok (mkG (g_req s) (Some ps) true (g_release s)).
Proof. intros s m ps t Ep Er. cbn [pick_device]. rewrite Ep, Er. reflexivity. Qed.

Lemma pick_requested_listed : forall devs s r,
  forallb device_ok devs = true -> requested s = Some r -> In r (paths devs) ->
  pick_device s devs = Ok (mkG (g_req s) (Some r) true (g_release s)).
Proof.
  induction devs as [|d t IH]; intros s r Hok Hreq Hin.
  - destruct Hin.
  - cbn [forallb] in Hok. apply andb_prop in Hok. destruct Hok as [Hd Ht].
    destruct (device_ok_inv d Hd) as [m [ps [Ed Ep]]]. subst d.
    rewrite (pick_cons_requested s m ps t r Ep Hreq).
    rewrite (paths_cons_ok m ps t Ep) in Hin.
    destruct (String.eqb_spec r ps) as [E|E].
    + reflexivity.
    + destruct Hin as [Hin|Hin].
      * exfalso. apply E. symmetry. exact Hin.
      * apply IH; assumption.
Qed.

Lemma pick_requested_absent : forall devs s r,
  forallb device_ok devs = true -> requested s = Some r -> ~ In r (paths devs) ->
  pick_device s devs = Ok s.
Proof.
  induction devs as [|d t IH]; intros s r Hok Hreq Hnin.
  - reflexivity.
  - cbn [forallb] in Hok. apply andb_prop in Hok. destruct Hok as [Hd Ht].
    destruct (device_ok_inv d Hd) as [m [ps [Ed Ep]]]. subst d.
    rewrite (pick_cons_requested s m ps t r Ep Hreq).
    rewrite (paths_cons_ok m ps t Ep) in Hnin.
    destruct (String.eqb_spec r ps) as [E|E].
    + exfalso. apply Hnin. left. symmetry. exact E.
    + apply IH with (r := r); try assumption.
      intro Hin. apply Hnin. right. exact Hin.
Qed.

Lemma pick_none_first : forall devs s p rest,
  forallb device_ok devs = true -> requested s = None -> paths devs = p :: rest ->
  pick_device s devs = Ok (mkG (g_req s) (Some p) true (g_release s)).
Proof.
  intros devs s p rest Hok Hreq Hp.
  destruct devs as [|d t].
  - discriminate Hp.
  - cbn [forallb] in Hok. apply andb_prop in Hok. destruct Hok as [Hd Ht].
    destruct (device_ok_inv d Hd) as [m [ps [Ed Ep]]]. subst d.
    rewrite (paths_cons_ok m ps t Ep) in Hp. injection Hp as Eps Erest. subst ps.
    apply pick_cons_none; assumption.
Qed.

Lemma pick_no_raise : forall devs s,
  forallb device_ok devs = true -> exists s', pick_device s devs = Ok s'.
Proof.
  induction devs as [|d t IH]; intros s Hok.
  - exists s. reflexivity.
  - cbn [forallb] in Hok. apply andb_prop in Hok. destruct Hok as [Hd Ht].
    destruct (device_ok_inv d Hd) as [m [ps [Ed Ep]]]. subst d.
    destruct (requested s) as [r|] eqn:Hreq.
    + rewrite (pick_cons_requested s m ps t r Ep Hreq).
      destruct (String.eqb r ps).
      * eexists. reflexivity.
      * apply IH. exact Ht.
    + rewrite (pick_cons_none s m ps t Ep Hreq). eexists. reflexivity.
Qed.

(* ------------------------------------------------------------------ *)
(* 3. Single-message properties                                        *)
(* ------------------------------------------------------------------ *)

Lemma requested_listed : forall s devs r,
  forallb device_ok devs = true -> requested s = Some r -> In r (paths devs) ->
  exists s', parse_line s (devices_msg devs) = Ok s' /\ g_sel s' = Some r /\ g_enabled s' = true.
Proof.
  intros s devs r Hok Hreq Hin. rewrite parse_line_devices_msg.
  rewrite (pick_requested_listed devs s r Hok Hreq Hin).
  eexists. split; [reflexivity|]. split; reflexivity.
Qed.

Lemma requested_absent : forall s devs r,
  forallb device_ok devs = true -> requested s = Some r -> ~ In r (paths devs) ->
  parse_line s (devices_msg devs) = Ok s.
Proof.
  intros s devs r Hok Hreq Hnin. rewrite parse_line_devices_msg.
  exact (pick_requested_absent devs s r Hok Hreq Hnin).
Qed.

Lemma none_requested_first : forall s devs p rest,
  forallb device_ok devs = true -> requested s = None -> paths devs = p :: rest ->
  exists s', parse_line s (devices_msg devs) = Ok s' /\ g_sel s' = Some p /\ g_enabled s' = true.
Proof.
  intros s devs p rest Hok Hreq Hp. rewrite parse_line_devices_msg.
  rewrite (pick_none_first devs s p rest Hok Hreq Hp).
  eexists. split; [reflexivity|]. split; reflexivity.
Qed.

Lemma empty_list : forall s, parse_line s (devices_msg []) = Ok s.
Proof. intros s. reflexivity. Qed.

Lemma cmd_header_ok : forall s d,
  g_sel s = Some d -> cmd_header s = Some (append "&" (append d "=")).
Proof. intros s d H. unfold cmd_header. rewrite H. reflexivity. Qed.

Lemma inert_lines : forall s v,
  match v with JObj _ => False | _ => True end ->
  parse_line s (J v) = Ok s /\ parse_line s NotJson = Ok s /\ parse_chunk s Undecodable = Ok s.
Proof.
  intros s v Hv.
  destruct v as [m|its|c|  |bb| ]; [destruct Hv| | | | |];
    (split; [reflexivity|]; split; reflexivity).
Qed.

(* ------------------------------------------------------------------ *)
(* 4. No exception on well-formed input                                *)
(* ------------------------------------------------------------------ *)

Lemma line_no_raise : forall l s, line_ok l = true -> exists s', parse_line s l = Ok s'.
Proof.
  intros l s Hok.
  destruct l as [|v]; [exists s; reflexivity|].
  destruct v as [m|its|c|  |bb| ]; try (exists s; reflexivity).
  rewrite line_ok_obj in Hok. rewrite parse_line_obj.
  destruct (classify (jget m "class")) eqn:Ec.
  - destruct (jget m "release") as [r|] eqn:Er; [|discriminate Hok].
    eexists. reflexivity.
  - destruct (jget m "devices") as [dv|] eqn:Ed; [|discriminate Hok].
    destruct dv as [ms|devs|c|  |bb| ]; try discriminate Hok.
    apply pick_no_raise. exact Hok.
  - exists s. reflexivity.
Qed.

Lemma lines_no_raise : forall ls s, forallb line_ok ls = true -> exists s', parse_lines s ls = Ok s'.
Proof.
  induction ls as [|l t IH]; intros s Hok.
  - exists s. reflexivity.
  - cbn [forallb] in Hok. apply andb_prop in Hok. destruct Hok as [Hl Ht].
    destruct (line_no_raise l s Hl) as [s1 E1].
    cbn [parse_lines]. rewrite E1. cbn [bind]. apply IH. exact Ht.
Qed.

Lemma chunk_no_raise : forall c s, chunk_ok c = true -> exists s', parse_chunk s c = Ok s'.
Proof.
  intros c s Hok. destruct c as [|ls].
  - exists s. reflexivity.
  - cbn [parse_chunk]. apply lines_no_raise. exact Hok.
Qed.

Lemma no_raise : forall cs s, forallb chunk_ok cs = true -> exists s', parse_chunks s cs = Ok s'.
Proof.
  induction cs as [|c t IH]; intros s Hok.
  - exists s. reflexivity.
  - cbn [forallb] in Hok. apply andb_prop in Hok. destruct Hok as [Hc Ht].
    destruct (chunk_no_raise c s Hc) as [s1 E1].
    cbn [parse_chunks]. rewrite E1. cbn [bind]. apply IH. exact Ht.
Qed.

(* ------------------------------------------------------------------ *)
(* 5. The invariant over any history (no well-formedness proviso)      *)
(* ------------------------------------------------------------------ *)

Definition ginv (s : gstate) : Prop :=
  (g_enabled s = true <-> g_sel s <> None)
  /\ (forall r, requested s = Some r -> g_sel s = None \/ g_sel s = Some r).

Lemma ginv_selected : forall s p,
  (forall r, requested s = Some r -> p = r) ->
  ginv (mkG (g_req s) (Some p) true (g_release s)).
Proof.
  intros s p Hp. split.
  - cbn [g_enabled g_sel]. split; [intros _ C; discriminate C | intros _; reflexivity].
  - intros r Hr. cbn [g_sel]. right. f_equal. apply Hp. exact Hr.
Qed.

Lemma pick_inv : forall devs s s',
  pick_device s devs = Ok s' -> ginv s -> ginv s' /\ g_req s' = g_req s.
Proof.
  induction devs as [|d t IH]; intros s s' Hp Hinv.
  - cbn [pick_device] in Hp. injection Hp as E. subst s'. split; [exact Hinv|reflexivity].
  - cbn [pick_device] in Hp.
    destruct d as [m|its|c|  |bb| ]; try discriminate Hp.
    destruct (jget m "path") as [p|] eqn:Ep; [|discriminate Hp].
    destruct (requested s) as [r|] eqn:Hreq.
    + destruct p as [ms|its|ps|  |bb| ]; try (apply IH; assumption).
      destruct (String.eqb r ps) eqn:Eb; [|apply IH; assumption].
      injection Hp as E. subst s'. split; [|reflexivity].
      apply ginv_selected. intros r0 Hr0. rewrite Hreq in Hr0. injection Hr0 as E0. exact E0.
    + destruct p as [ms|its|ps|  |bb| ]; try discriminate Hp.
      injection Hp as E. subst s'. split; [|reflexivity].
      apply ginv_selected. intros r0 Hr0. rewrite Hreq in Hr0. discriminate Hr0.
Qed.

Lemma line_inv : forall l s s',
  parse_line s l = Ok s' -> ginv s -> ginv s' /\ g_req s' = g_req s.
Proof.
  intros l s s' Hp Hinv.
  destruct l as [|v].
  - cbn [parse_line] in Hp. injection Hp as E. subst s'. split; [exact Hinv|reflexivity].
  - destruct v as [m|its|c|  |bb| ];
      try (cbn [parse_line] in Hp; injection Hp as E; subst s'; split; [exact Hinv|reflexivity]).
    rewrite parse_line_obj in Hp.
    destruct (classify (jget m "class")) eqn:Ec.
    + destruct (jget m "release") as [r|] eqn:Er; [|discriminate Hp].
      injection Hp as E. subst s'. split; [|reflexivity].
      exact Hinv.
    + destruct (jget m "devices") as [dv|] eqn:Ed; [|discriminate Hp].
      destruct dv as [ms|devs|c|  |bb| ]; try discriminate Hp.
      apply (pick_inv devs); assumption.
    + injection Hp as E. subst s'. split; [exact Hinv|reflexivity].
Qed.

Lemma lines_inv : forall ls s s',
  parse_lines s ls = Ok s' -> ginv s -> ginv s' /\ g_req s' = g_req s.
Proof.
  induction ls as [|l t IH]; intros s s' Hp Hinv.
  - cbn [parse_lines] in Hp. injection Hp as E. subst s'. split; [exact Hinv|reflexivity].
  - cbn [parse_lines] in Hp.
    destruct (parse_line s l) as [s1|e] eqn:E1; cbn [bind] in Hp; [|discriminate Hp].
    destruct (line_inv l s s1 E1 Hinv) as [Hinv1 Hreq1].
    destruct (IH s1 s' Hp Hinv1) as [Hinv' Hreq'].
    split; [exact Hinv'|]. rewrite Hreq'. exact Hreq1.
Qed.

Lemma chunk_inv : forall c s s',
  parse_chunk s c = Ok s' -> ginv s -> ginv s' /\ g_req s' = g_req s.
Proof.
  intros c s s' Hp Hinv. destruct c as [|ls].
  - cbn [parse_chunk] in Hp. injection Hp as E. subst s'. split; [exact Hinv|reflexivity].
  - cbn [parse_chunk] in Hp. apply (lines_inv ls); assumption.
Qed.

Lemma chunks_inv : forall cs s s',
  parse_chunks s cs = Ok s' -> ginv s -> ginv s' /\ g_req s' = g_req s.
Proof.
  induction cs as [|c t IH]; intros s s' Hp Hinv.
  - cbn [parse_chunks] in Hp. injection Hp as E. subst s'. split; [exact Hinv|reflexivity].
  - cbn [parse_chunks] in Hp.
    destruct (parse_chunk s c) as [s1|e] eqn:E1; cbn [bind] in Hp; [|discriminate Hp].
    destruct (chunk_inv c s s1 E1 Hinv) as [Hinv1 Hreq1].
    destruct (IH s1 s' Hp Hinv1) as [Hinv' Hreq'].
    split; [exact Hinv'|]. rewrite Hreq'. exact Hreq1.
Qed.

Lemma ginv_init : forall req, ginv (ginit req).
Proof.
  intros req. split.
  - cbn [ginit g_enabled g_sel]. split; [intros C; discriminate C | intros C; exfalso; apply C; reflexivity].
  - intros r _. left. reflexivity.
Qed.

Lemma requested_req : forall s1 s2, g_req s1 = g_req s2 -> requested s1 = requested s2.
Proof. intros s1 s2 E. unfold requested. rewrite E. reflexivity. Qed.

Lemma handshake_invariant : forall cs req s',
  parse_chunks (ginit req) cs = Ok s' ->
  (g_enabled s' = true <-> g_sel s' <> None)
  /\ (forall r, requested (ginit req) = Some r -> g_sel s' = None \/ g_sel s' = Some r)
  /\ g_req s' = req.
Proof.
  intros cs req s' Hp.
  destruct (chunks_inv cs (ginit req) s' Hp (ginv_init req)) as [[Hen Hsel] Hreq].
  split; [exact Hen|]. split; [|exact Hreq].
  intros r Hr. apply Hsel. rewrite (requested_req s' (ginit req) Hreq). exact Hr.
Qed.

(* ------------------------------------------------------------------ *)
(* 6. Extra (claimed in the comment of C20_invariant, not in its       *)
(*    statement): a selected device was listed in some DEVICES message *)
(*    of the history.                                                  *)
(* ------------------------------------------------------------------ *)

Definition line_lists (l : line) (p : string) : Prop :=
  exists m devs, l = J (JObj m) /\ jget m "class" = Some (JStr "DEVICES")
                 /\ jget m "devices" = Some (JArr devs) /\ In p (paths devs).
Definition history_lists (cs : list chunk) (p : string) : Prop :=
  exists ls l, In (Lines ls) cs /\ In l ls /\ line_lists l p.

Lemma pick_sel : forall devs s s',
  pick_device s devs = Ok s' ->
  g_sel s' = g_sel s \/ exists p, g_sel s' = Some p /\ In p (paths devs).
Proof.
  induction devs as [|d t IH]; intros s s' Hp.
  - cbn [pick_device] in Hp. injection Hp as E. subst s'. left. reflexivity.
  - cbn [pick_device] in Hp.
    destruct d as [m|its|c|  |bb| ]; try discriminate Hp.
    destruct (jget m "path") as [p|] eqn:Ep; [|discriminate Hp].
    assert (Htail : pick_device s t = Ok s' ->
                    g_sel s' = g_sel s \/ exists q, g_sel s' = Some q /\ In q (paths (JObj m :: t))).
    { intros Ht. destruct (IH s s' Ht) as [E|[q [Eq Hq]]]; [left; exact E|].
      right. exists q. split; [exact Eq|].
      unfold paths. cbn [flat_map]. apply in_or_app. right. exact Hq. }
    destruct (requested s) as [r|] eqn:Hreq.
    + destruct p as [ms|its|ps|  |bb| ]; try (apply Htail; assumption).
      destruct (String.eqb_spec r ps) as [Eb|Eb]; [|apply Htail; assumption].
      injection Hp as E. subst s' ps. right. exists r. split; [reflexivity|].
      rewrite (paths_cons_ok m r t Ep). left. reflexivity.
    + destruct p as [ms|its|ps|  |bb| ]; try discriminate Hp.
      injection Hp as E. subst s'. right. exists ps. split; [reflexivity|].
      rewrite (paths_cons_ok m ps t Ep). left. reflexivity.
Qed.

Lemma line_sel : forall l s s',
  parse_line s l = Ok s' ->
  g_sel s' = g_sel s \/ exists p, g_sel s' = Some p /\ line_lists l p.
Proof.
  intros l s s' Hp.
  destruct l as [|v].
  - cbn [parse_line] in Hp. injection Hp as E. subst s'. left. reflexivity.
  - destruct v as [m|its|c|  |bb| ];
      try (cbn [parse_line] in Hp; injection Hp as E; subst s'; left; reflexivity).
    rewrite parse_line_obj in Hp.
    destruct (classify (jget m "class")) eqn:Ec.
    + destruct (jget m "release") as [r|] eqn:Er; [|discriminate Hp].
      injection Hp as E. subst s'. left. reflexivity.
    + destruct (jget m "devices") as [dv|] eqn:Ed; [|discriminate Hp].
      destruct dv as [ms|devs|c|  |bb| ]; try discriminate Hp.
      destruct (pick_sel devs s s' Hp) as [E|[p [Esel Hin]]]; [left; exact E|].
      right. exists p. split; [exact Esel|].
      exists m, devs. split; [reflexivity|]. split; [apply classify_devices; exact Ec|].
      split; [exact Ed|exact Hin].
    + injection Hp as E. subst s'. left. reflexivity.
Qed.

Lemma lines_sel : forall ls s s',
  parse_lines s ls = Ok s' ->
  g_sel s' = g_sel s \/ exists p l, g_sel s' = Some p /\ In l ls /\ line_lists l p.
Proof.
  induction ls as [|l t IH]; intros s s' Hp.
  - cbn [parse_lines] in Hp. injection Hp as E. subst s'. left. reflexivity.
  - cbn [parse_lines] in Hp.
    destruct (parse_line s l) as [s1|e] eqn:E1; cbn [bind] in Hp; [|discriminate Hp].
    destruct (IH s1 s' Hp) as [E|[p [l' [Esel [Hin Hl]]]]].
    + destruct (line_sel l s s1 E1) as [E0|[p [Esel Hl]]].
      * left. rewrite E. exact E0.
      * right. exists p, l. split; [rewrite E; exact Esel|]. split; [left; reflexivity|exact Hl].
    + right. exists p, l'. split; [exact Esel|]. split; [right; exact Hin|exact Hl].
Qed.

Lemma chunks_sel : forall cs s s',
  parse_chunks s cs = Ok s' ->
  g_sel s' = g_sel s \/ exists p, g_sel s' = Some p /\ history_lists cs p.
Proof.
  induction cs as [|c t IH]; intros s s' Hp.
  - cbn [parse_chunks] in Hp. injection Hp as E. subst s'. left. reflexivity.
  - cbn [parse_chunks] in Hp.
    destruct (parse_chunk s c) as [s1|e] eqn:E1; cbn [bind] in Hp; [|discriminate Hp].
    destruct (IH s1 s' Hp) as [E|[p [Esel [ls [l [Hc [Hin Hl]]]]]]].
    + destruct c as [|ls].
      * cbn [parse_chunk] in E1. injection E1 as E0. subst s1. left. exact E.
      * cbn [parse_chunk] in E1.
        destruct (lines_sel ls s s1 E1) as [E0|[p [l [Esel [Hin Hl]]]]].
        -- left. rewrite E. exact E0.
        -- right. exists p. split; [rewrite E; exact Esel|].
           exists ls, l. split; [left; reflexivity|]. split; [exact Hin|exact Hl].
    + right. exists p. split; [exact Esel|].
      exists ls, l. split; [right; exact Hc|]. split; [exact Hin|exact Hl].
Qed.

Lemma handshake_selected_listed : forall cs req s' p,
  parse_chunks (ginit req) cs = Ok s' -> g_sel s' = Some p -> history_lists cs p.
Proof.
  intros cs req s' p Hp Hsel.
  destruct (chunks_sel cs (ginit req) s' Hp) as [E|[q [Eq Hq]]].
  - rewrite Hsel in E. cbn [ginit g_sel] in E. discriminate E.
  - rewrite Hsel in Eq. injection Eq as E. subst q. exact Hq.
Qed.
