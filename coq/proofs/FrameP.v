(* to_bytes() produces exactly the wire format, for every payload of length <= 65535. *)
From Coq Require Import Lia ZifyBool ZifyN ZifyNat.
From Ubx Require Import Base Checksum Frame ChecksumP.
Ltac Zify.zify_post_hook ::= Z.to_euclidean_division_equations.

Lemma lo_byte n : N.land (N.shiftr n 0) 255 = n mod 256.
Proof. rewrite N.shiftr_0_r. apply land255. Qed.

Lemma hi_byte n : n < 65536 -> N.land (N.shiftr n 8) 255 = n / 256.
Proof.
  intros H. rewrite land255, N.shiftr_div_pow2. change (2 ^ 8) with 256.
  apply N.mod_small. lia.
Qed.

Lemma ck_adds_app s l1 l2 : ck_adds s (l1 ++ l2) = ck_adds (ck_adds s l1) l2.
Proof. unfold ck_adds. apply fold_left_app. Qed.

Definition max_len : N := 65535.

Theorem to_bytes_wire f :
  N.of_nat (length (fr_data f)) <= max_len ->
  fst (to_bytes f) = wire (fr_cls f) (fr_id f) (fr_data f).
Proof.
  intros Hlen. unfold max_len in Hlen.
  unfold to_bytes, calc_checksum, wire, wire_hdr. cbn [fst fr_data fr_cls fr_id fr_cka fr_ckb opt_get ck_value].
  set (n := N.of_nat (length (fr_data f))) in *.
  rewrite lo_byte, (hi_byte n) by lia.
  rewrite <- fletcher_all.
  change ([fr_cls f; fr_id f; n mod 256; n / 256] ++ fr_data f)
    with ([fr_cls f] ++ [fr_id f] ++ [n mod 256] ++ [n / 256] ++ fr_data f).
  rewrite !ck_adds_app. reflexivity.
Qed.

(* Serialising leaves class, id and payload untouched ... *)
Theorem to_bytes_frame f :
  fr_cls (snd (to_bytes f)) = fr_cls f /\ fr_id (snd (to_bytes f)) = fr_id f
  /\ fr_data (snd (to_bytes f)) = fr_data f.
Proof. unfold to_bytes, calc_checksum; cbn. auto. Qed.

(* ... and serialising again gives the same bytes and the same frame (whatever the
   checksum attributes held before: None or stale values). *)
Theorem to_bytes_idem f :
  to_bytes (snd (to_bytes f)) = (fst (to_bytes f), snd (to_bytes f)).
Proof. unfold to_bytes, calc_checksum; cbn. reflexivity. Qed.

Corollary to_bytes_twice_wire f :
  N.of_nat (length (fr_data f)) <= max_len ->
  fst (to_bytes (snd (to_bytes f))) = wire (fr_cls f) (fr_id f) (fr_data f).
Proof. intros H. rewrite to_bytes_idem. cbn [fst]. apply to_bytes_wire; exact H. Qed.

(* The length field really is the 16-bit little-endian length *)
Lemma wire_len_field c i p :
  N.of_nat (length p) <= max_len ->
  le_dec [nth 4 (wire c i p) 0; nth 5 (wire c i p) 0] = N.of_nat (length p).
Proof.
  unfold max_len; intros H. unfold wire, wire_hdr. cbn [app nth le_dec]. lia.
Qed.

Example wire_nonvacuous :
  fst (to_bytes (new_frame 6 1 [1; 2])) = [181; 98; 6; 1; 2; 0; 1; 2; 12; 53]
  /\ N.of_nat (length (fr_data (new_frame 6 1 [1; 2]))) <= max_len.
Proof. split; vm_compute; [reflexivity | discriminate]. Qed.

(* The pre-repair code wrote the length bytes with `% 0xFF`; that is not the wire format. *)
Definition to_bytes_pinned_hdr (len : N) : list N := [(N.shiftr len 0) mod 255; (N.shiftr len 8) mod 255].
Example pinned_len_refuted :
  exists len, len <= max_len /\ to_bytes_pinned_hdr len <> [len mod 256; len / 256].
Proof. exists 255. split; [vm_compute; discriminate | vm_compute; discriminate]. Qed.
