(* Good answers among corrupted frames (props/C06c.v).  RequestGood.v proves that _wait() returns the answer when the
   traffic around it is inert (queues nothing).  Here the traffic may also contain checksum-failed frames: each of them
   queues an error marker, _wait() dequeues ONE packet per receive call, so the answer is dequeued up to m receive calls
   after the one in which its last byte arrives, m = number of markers ahead of it.  Provided those calls start before
   the deadline the answer is returned, whatever the chunking, for every backend. *)
From Coq Require Import Lia ZifyBool ZifyN ZifyNat.
From Ubx Require Import Fields Base Checksum Frame ParserUbx ParserUbxSpec CfgKeys Request RequestSpec.
From Ubx Require Import ChecksumP FrameP ParserUbxP ParserUbxComplete RequestGood.
Open Scope N_scope.

Definition all_markers (q : list pkt) : Prop := Forall (fun x => x = CrcErr) q.

(* traffic that queues nothing but error markers: inert segments and checksum-failed frames *)
Definition noisy (fl : list cid) (segs : list seg) : Prop :=
  Forall seg_ok segs /\ Forall (fun s => all_markers (expected (Some fl) s)) segs.
Definition markers_of (fl : list cid) (segs : list seg) : list pkt := flat_map (expected (Some fl)) segs.

Lemma markers_of_all fl : forall segs, Forall (fun s => all_markers (expected (Some fl) s)) segs -> all_markers (markers_of fl segs).
Proof.
  induction segs as [|a t IH]; intros H; [constructor|].
  inversion H as [|a' t' Ha Ht]; subst. unfold markers_of. cbn [flat_map].
  apply Forall_app. split; [exact Ha | apply IH; exact Ht].
Qed.

(* inert traffic is noisy traffic without markers *)
Lemma inert_noisy fl segs : inert fl segs -> noisy fl segs /\ markers_of fl segs = [].
Proof.
  intros [Hok Hin]. split; [split; [exact Hok|]|].
  - eapply Forall_impl; [|exact Hin]. intros s Hs. cbv beta in Hs. rewrite Hs. constructor.
  - apply inert_expected. exact Hin.
Qed.

Lemma queue_prefix p P X : exists app, queue (process p (P ++ X)) = queue (process p P) ++ app.
Proof. rewrite process_app. apply process_appends. Qed.

Lemma all_markers_prefix a b : all_markers (a ++ b) -> all_markers a.
Proof. intros H. apply Forall_app in H. exact (proj1 H). Qed.

(* Noisy traffic followed by one frame of the filter: the queue holds the markers and then the frame, which is queued
   by the very last byte; before that byte the queue holds markers only. *)
Lemma stream_parse_noisy p fl segs c i pl :
  st p = INIT -> queue p = [] -> filt p = Some fl -> In (c, i) fl ->
  noisy fl segs -> no_adj_junk (segs ++ [SFrame c i pl]) = true -> (length pl <= 1000)%nat ->
  let S := flat_map seg_bytes segs ++ wire c i pl in
  queue (process p S) = markers_of fl segs ++ [Pkt c i pl]
  /\ (forall P X, P ++ X = S -> X <> [] -> all_markers (queue (process p P))).
Proof.
  intros Hst Hq Hf Hin [Hok Hm] Hadj Hlen S. subst S.
  assert (Hadj1 : no_adj_junk segs = true) by (eapply no_adj_junk_front; exact Hadj).
  destruct (complete_segs segs p Hst Hok Hadj1) as (Hq1 & _ & Hf1 & Hs1).
  set (p1 := process p (flat_map seg_bytes segs)) in *.
  rewrite Hq, Hf in Hq1. cbn [app] in Hq1. fold (markers_of fl segs) in Hq1.
  rewrite Hf in Hf1.
  pose proof (markers_of_all fl segs Hm) as HM.
  split.
  - rewrite process_app. fold p1.
    assert (Hst1 : st p1 = INIT \/ (st p1 = SYNC /\ is_junk (SFrame c i pl) = false)).
    { destruct Hs1 as [H | H]; [left; exact H | right; split; [exact H | reflexivity]]. }
    destruct (seg_step (SFrame c i pl) p1 Hlen Hst1) as (Hq2 & _ & _ & _).
    cbn [seg_bytes expected] in Hq2.
    rewrite Hq1, Hf1 in Hq2.
    assert (Hif : in_filter (Some fl) (c, i) = true) by (apply in_filter_spec; exact Hin).
    rewrite Hif in Hq2. exact Hq2.
  - intros P X HPX HX.
    destruct (exists_last HX) as (X' & x & ->).
    rewrite wire_split, (app_assoc P), (app_assoc (flat_map seg_bytes segs)) in HPX.
    apply app_inj_tail in HPX. destruct HPX as [HPX _].
    destruct (queue_prefix p P X') as [a Ha]. rewrite HPX in Ha.
    rewrite process_app in Ha. fold p1 in Ha.
    destruct p1 as [s1 r1 q1 n1 f1] eqn:Ep1. cbn [st queue filt] in Hq1, Hs1. subst q1.
    rewrite (frame_phase s1 r1 _ n1 f1 c i pl _ Hs1 Hlen) in Ha.
    assert (Hqq : queue (process (mkParser CRC1
             (mkRegs c i (N.of_nat (length pl)) pl 0 0 (N.of_nat (length pl)) (fletcher (wire_hdr c i pl ++ pl)))
             (markers_of fl segs) n1 f1) [fst (fletcher (wire_hdr c i pl ++ pl))]) = markers_of fl segs) by reflexivity.
    rewrite Hqq in Ha. rewrite Ha in HM. eapply all_markers_prefix. exact HM.
Qed.

(* M ++ [frame] = popped ++ q with popped all markers: popped is a prefix of M *)
Lemma marker_split c i pl : forall popped M q,
  all_markers popped -> M ++ [Pkt c i pl] = popped ++ q ->
  exists M2, M = popped ++ M2 /\ q = M2 ++ [Pkt c i pl].
Proof.
  induction popped as [|x t IH]; intros M q Hp H.
  - exists M. split; [reflexivity | symmetry; exact H].
  - inversion Hp as [|x' t' Hx Ht]; subst x' t'. subst x.
    destruct M as [|m M'].
    + cbn [app] in H. inversion H.
    + cbn [app] in H. inversion H as [[Hm Hrest]]. subst m.
      destruct (IH M' q Ht Hrest) as (M2 & -> & ->).
      exists M2. split; reflexivity.
Qed.

(* ---- receive events ---------------------------------------------------------------------------------------- *)
Lemma rx_unfold_app {E} (B : backend E) : forall a b e e',
  rx_unfold B e (length (a ++ b)) = (a ++ b, e') ->
  exists e1, rx_unfold B e (length a) = (a, e1) /\ rx_unfold B e1 (length b) = (b, e').
Proof.
  induction a as [|[d dt] t IH]; intros b e e' H.
  - exists e. split; [reflexivity | exact H].
  - cbn [app length rx_unfold] in H |- *.
    destruct (receive B e) as [[d' dt'] e1] eqn:Hrx.
    destruct (rx_unfold B e1 (length (t ++ b))) as [evs e2] eqn:Hun.
    inversion H; subst d' dt' evs e2.
    destruct (IH b e1 e' Hun) as (e3 & H1 & H2).
    exists e3. rewrite H1. split; [reflexivity | exact H2].
Qed.

Lemma time_of_app a b : time_of (a ++ b) = time_of a + time_of b.
Proof.
  induction a as [|x t IH]; [reflexivity|].
  cbn [app]. destruct x as [d dt]. rewrite !time_of_cons, IH. lia.
Qed.

Lemma removelast_time a : time_of (removelast a) <= time_of a.
Proof.
  induction a as [|[d dt] t IH]; [cbn; lia|].
  destruct t as [|y t']; [cbn [removelast time_of fold_right snd]; lia|].
  change (removelast ((d, dt) :: y :: t')) with ((d, dt) :: removelast (y :: t')).
  rewrite !time_of_cons. lia.
Qed.

(* the calls that start before the deadline when all of a ++ b do *)
Lemma removelast_prefix_time a b : time_of (removelast a) <= time_of (removelast (a ++ b)).
Proof.
  destruct b as [|y b']; [rewrite app_nil_r; lia|].
  rewrite removelast_app by discriminate. rewrite time_of_app.
  pose proof (removelast_time a). lia.
Qed.

Section Noisy.
Context {E : Type} (B : backend E) (sk : list N).

Definition setq (p : parser) (q : list pkt) : parser := mkParser (st p) (rg p) q (rx p) (filt p).

(* one loop iteration that pops an error marker *)
Lemma wait_iter_marker k deadline (w : world E) data dt e1 rest :
  wnow w < deadline -> receive B (wenv w) = (data, dt, e1) ->
  queue (process (sparser (wsrv w)) (chunk data)) = CrcErr :: rest ->
  wait B sk (S k) deadline w =
  wait B sk k deadline (with_parser (iter_world deadline w data dt e1) (setq (process (sparser (wsrv w)) (chunk data)) rest)).
Proof.
  intros Hlt Hrx Hq. cbn [wait]. cbn [wnow wenv wsrv wtrace wtie].
  destruct (wnow w <? deadline) eqn:Elt; [|lia].
  rewrite Hrx. unfold log. cbn [wnow wenv wsrv wtrace wtie].
  rewrite nonempty_chunk. unfold packet. rewrite Hq. reflexivity.
Qed.

(* one loop iteration that pops the answer, whatever is queued behind it *)
Lemma wait_iter_answer k deadline (w : world E) data dt e1 c i pl rest name rk d :
  wnow w < deadline -> receive B (wenv w) = (data, dt, e1) ->
  queue (process (sparser (wsrv w)) (chunk data)) = Pkt c i pl :: rest ->
  (c, i) <> CID_CRC_ERROR -> reg_lookup (sreg (wsrv w)) (c, i) = Some (name, rk) ->
  build_with_data sk rk pl = Ok d ->
  wait B sk (S k) deadline w =
  (Some (Some (mkRFrame name (c, i) pl d)),
   with_parser (iter_world deadline w data dt e1) (setq (process (sparser (wsrv w)) (chunk data)) rest)).
Proof.
  intros Hlt Hrx Hq Hcrc Hreg Hb. cbn [wait]. cbn [wnow wenv wsrv wtrace wtie].
  destruct (wnow w <? deadline) eqn:Elt; [|lia].
  rewrite Hrx. unfold log. cbn [wnow wenv wsrv wtrace wtie].
  rewrite nonempty_chunk. unfold packet. rewrite Hq.
  cbn [is_crc_marker].
  destruct (cid_eqb (c, i) CID_CRC_ERROR) eqn:Ecrc.
  { apply cid_eqb_eq in Ecrc. contradiction. }
  unfold with_parser. cbn [wnow wenv wsrv wtrace wtie sreg]. rewrite Hreg, Hb. reflexivity.
Qed.

(* what the conclusion keeps of the world *)
Definition kept (w w' : world E) (evs : list (option bytes * N)) : Prop :=
  wtrace w' = wtrace w ++ map (fun ev => Rx (fst ev) (snd ev)) evs
  /\ wnow w' = wnow w + time_of evs
  /\ filt (sparser (wsrv w')) = filt (sparser (wsrv w)) /\ sreg (wsrv w') = sreg (wsrv w)
  /\ sretries (wsrv w') = sretries (wsrv w) /\ sdelay (wsrv w') = sdelay (wsrv w).

(* Phase 2: the answer is queued behind r markers; r + 1 further receive calls that start before the deadline
   dequeue them and return it (whatever those calls deliver is queued behind the answer) *)
Lemma drain deadline c i pl name rk d :
  (c, i) <> CID_CRC_ERROR -> build_with_data sk rk pl = Ok d ->
  forall Rm extra fuel (w : world E) T e',
  all_markers Rm -> queue (sparser (wsrv w)) = Rm ++ Pkt c i pl :: T ->
  length extra = S (length Rm) ->
  rx_unfold B (wenv w) (length extra) = (extra, e') ->
  wnow w + time_of (removelast extra) < deadline ->
  reg_lookup (sreg (wsrv w)) (c, i) = Some (name, rk) ->
  (length extra <= fuel)%nat ->
  exists w', wait B sk fuel deadline w = (Some (Some (mkRFrame name (c, i) pl d)), w') /\ kept w w' extra.
Proof.
  intros Hcrc Hb.
  induction Rm as [|m Rm' IH]; intros extra fuel w T e' HRm Hq Hlen Hun Htime Hreg Hfuel.
  - destruct extra as [|[data dt] [|x t]]; cbn [length] in Hlen; try discriminate Hlen.
    destruct fuel as [|k]; [cbn [length] in Hfuel; lia|].
    cbn [length rx_unfold] in Hun.
    destruct (receive B (wenv w)) as [[data' dt'] e1] eqn:Hrx. inversion Hun; subst data' dt' e1.
    cbn [removelast time_of fold_right] in Htime.
    destruct (process_appends (chunk data) (sparser (wsrv w))) as [a Ha]. rewrite Hq in Ha. cbn [app] in Ha.
    rewrite (wait_iter_answer k deadline w data dt e' c i pl (T ++ a) name rk d); try assumption; [|lia].
    eexists. split; [reflexivity|].
    unfold kept, with_parser, iter_world, setq.
    cbn [wtrace wnow wsrv sparser sreg sretries sdelay filt map fst snd time_of fold_right].
    rewrite process_filt. repeat split; try reflexivity. lia.
  - inversion HRm as [|m' R' Hm HR']; subst m' R'. subst m.
    destruct extra as [|[data dt] extra']; [discriminate Hlen|].
    assert (Hne : extra' <> []) by (destruct extra'; [cbn [length] in Hlen; discriminate Hlen | discriminate]).
    destruct fuel as [|k]; [cbn [length] in Hfuel; lia|].
    cbn [length rx_unfold] in Hun.
    destruct (receive B (wenv w)) as [[data' dt'] e1] eqn:Hrx.
    destruct (rx_unfold B e1 (length extra')) as [evs'' e''] eqn:Hun'.
    inversion Hun; subst data' dt' evs'' e''. clear Hun.
    assert (Hrl : removelast ((data, dt) :: extra') = (data, dt) :: removelast extra').
    { destruct extra'; [contradiction Hne; reflexivity | reflexivity]. }
    rewrite Hrl, time_of_cons in Htime.
    destruct (process_appends (chunk data) (sparser (wsrv w))) as [a Ha]. rewrite Hq in Ha.
    cbn [app] in Ha. rewrite <- app_assoc in Ha. cbn [app] in Ha.
    rewrite (wait_iter_marker k deadline w data dt e1 _ ltac:(lia) Hrx Ha).
    set (w1 := with_parser _ _).
    destruct (IH extra' k w1 (T ++ a) e') as (w' & Hw & Htr & Hnow & Hfl & Hsr & Hre & Hde).
    + exact HR'.
    + reflexivity.
    + cbn [length] in Hlen. lia.
    + exact Hun'.
    + subst w1. cbn [with_parser iter_world wnow]. lia.
    + exact Hreg.
    + cbn [length] in Hfuel. lia.
    + exists w'. split; [exact Hw|].
      subst w1. unfold kept, with_parser, iter_world, setq in *.
      cbn [wtrace wnow wsrv sparser sreg sretries sdelay filt] in Htr, Hnow, Hfl, Hsr, Hre, Hde.
      rewrite Htr, Hnow, Hfl, Hsr, Hre, Hde, time_of_cons, process_filt.
      cbn [map fst snd]. rewrite <- app_assoc. cbn [app].
      repeat split; try reflexivity. lia.
Qed.

(* Phase 1: until the answer's last byte arrives only markers are dequeued.  R is the parser that has processed the same
   bytes without anything ever being dequeued (off popped 0 R p). *)
Lemma noisy_loop deadline c i pl name rk d M :
  (c, i) <> CID_CRC_ERROR -> build_with_data sk rk pl = Ok d -> all_markers M ->
  forall evs fuel (w : world E) R popped extra e',
  off popped 0 R (sparser (wsrv w)) ->
  rx_unfold B (wenv w) (length (evs ++ extra)) = (evs ++ extra, e') ->
  (forall P X, P ++ X = chunks_of evs -> X <> [] -> all_markers (queue (process R P))) ->
  queue (process R (chunks_of evs)) = M ++ [Pkt c i pl] ->
  evs <> [] -> (exists d0, fst (last evs (None, 0)) = Some d0 /\ d0 <> []) ->
  (length M - length popped <= length extra)%nat ->
  wnow w + time_of (removelast (evs ++ extra)) < deadline ->
  reg_lookup (sreg (wsrv w)) (c, i) = Some (name, rk) ->
  (length (evs ++ extra) <= fuel)%nat ->
  exists w' used, wait B sk fuel deadline w = (Some (Some (mkRFrame name (c, i) pl d)), w')
    /\ kept w w' (evs ++ used) /\ exists rest, extra = used ++ rest.
Proof.
  intros Hcrc Hb HM.
  induction evs as [|[data dt] evs' IH]; intros fuel w R popped extra e' Hoff Hun Hpre Hfin Hne Hlast Hbud Htime Hreg Hfuel.
  - contradiction Hne; reflexivity.
  - destruct fuel as [|k]; [cbn [length app] in Hfuel; lia|].
    cbn [app length rx_unfold] in Hun.
    destruct (receive B (wenv w)) as [[data' dt'] e1] eqn:Hrx.
    destruct (rx_unfold B e1 (length (evs' ++ extra))) as [evs'' e''] eqn:Hun'.
    inversion Hun; subst data' dt' evs'' e''. clear Hun.
    pose proof (off_process popped 0 (chunk data) R (sparser (wsrv w)) Hoff) as Hoff1.
    set (R1 := process R (chunk data)) in *.
    set (p1 := process (sparser (wsrv w)) (chunk data)) in *.
    assert (Hq1 : queue R1 = popped ++ queue p1) by (destruct Hoff1 as (_ & H & _); exact H).
    assert (Hpop : all_markers popped).
    { destruct Hoff as (_ & H & _).
      assert (Hx : chunks_of ((data, dt) :: evs') <> []).
      { destruct Hlast as (d0 & Hd0 & Hd0ne).
        assert (Hne2 : (data, dt) :: evs' <> []) by discriminate.
        destruct (exists_last Hne2) as (l0 & [dl dtl] & El). rewrite El in Hd0 |- *.
        rewrite last_last in Hd0. cbn [fst] in Hd0. subst dl.
        unfold chunks_of. rewrite flat_map_app. cbn [flat_map fst]. rewrite app_nil_r.
        intros Hnil. apply app_eq_nil in Hnil. destruct Hnil as [_ Hnil]. contradiction. }
      pose proof (Hpre [] _ eq_refl Hx) as H0. rewrite process_nil, H in H0.
      eapply all_markers_prefix. exact H0. }
    destruct evs' as [|ev2 t].
    + (* the event that completes the answer *)
      destruct Hlast as (d0 & Hd0 & Hd0ne). cbn [last fst] in Hd0. subst data.
      rewrite chunks_of_cons in Hfin. cbn [chunks_of flat_map] in Hfin. rewrite app_nil_r in Hfin.
      fold R1 in Hfin. rewrite Hq1 in Hfin.
      destruct (marker_split c i pl popped M (queue p1) Hpop (eq_sym Hfin)) as (M2 & HM2 & Hqp1).
      assert (HM2m : all_markers M2) by (rewrite HM2 in HM; apply Forall_app in HM; exact (proj2 HM)).
      cbn [app] in Htime, Hun', Hfuel.
      destruct M2 as [|m2 M2'].
      * (* nothing ahead of it *)
        assert (Hnow : wnow w < deadline) by lia.
        rewrite (wait_iter_answer k deadline w (Some d0) dt e1 c i pl [] name rk d Hnow Hrx Hqp1 Hcrc Hreg Hb).
        eexists. exists []. split; [reflexivity|]. split; [|exists extra; reflexivity].
        unfold kept, with_parser, iter_world, setq. rewrite app_nil_r.
        cbn [wtrace wnow wsrv sparser sreg sretries sdelay filt map fst snd time_of fold_right].
        fold p1. unfold p1. rewrite process_filt. repeat split; try reflexivity. lia.
      * (* markers ahead: pop one, then drain *)
        inversion HM2m as [|m' R' Hm HR']; subst m' R'. subst m2.
        assert (Hlen : (S (length M2') <= length extra)%nat).
        { rewrite HM2, app_length in Hbud. cbn [length] in Hbud. lia. }
        set (used := firstn (S (length M2')) extra).
        assert (Hsplit : extra = used ++ skipn (S (length M2')) extra) by (symmetry; apply firstn_skipn).
        assert (Hul : length used = S (length M2')) by (unfold used; rewrite firstn_length; lia).
        assert (Hnow : wnow w < deadline).
        { destruct extra; [cbn [length] in Hlen; lia|].
          change (removelast ((Some d0, dt) :: p :: extra)) with ((Some d0, dt) :: removelast (p :: extra)) in Htime.
          rewrite time_of_cons in Htime. lia. }
        rewrite (wait_iter_marker k deadline w (Some d0) dt e1 (M2' ++ [Pkt c i pl]) Hnow Hrx Hqp1).
        set (w1 := with_parser _ _).
        rewrite Hsplit in Hun'.
        destruct (rx_unfold_app B used _ e1 e' Hun') as (e2 & Hun1 & _).
        destruct (drain deadline c i pl name rk d Hcrc Hb M2' used k w1 [] e2) as (w' & Hw & Htr & Hnow' & Hfl & Hsr & Hre & Hde).
        -- exact HR'.
        -- reflexivity.
        -- exact Hul.
        -- exact Hun1.
        -- subst w1. cbn [with_parser iter_world wnow].
           assert (Hrl : removelast ((Some d0, dt) :: extra) = (Some d0, dt) :: removelast extra).
           { destruct extra; [cbn [length] in Hlen; lia | reflexivity]. }
           rewrite Hrl, time_of_cons in Htime.
           pose proof (removelast_prefix_time used (skipn (S (length M2')) extra)) as Hle.
           rewrite <- Hsplit in Hle. lia.
        -- exact Hreg.
        -- rewrite Hul. cbn [length] in Hfuel. lia.
        -- exists w', used. split; [exact Hw|]. split; [|exists (skipn (S (length M2')) extra); exact Hsplit].
           subst w1. unfold kept, with_parser, iter_world, setq in *.
           cbn [wtrace wnow wsrv sparser sreg sretries sdelay filt] in Htr, Hnow', Hfl, Hsr, Hre, Hde.
           rewrite Htr, Hnow', Hfl, Hsr, Hre, Hde. cbn [app]. rewrite time_of_cons. fold p1. unfold p1. rewrite process_filt.
           cbn [map fst snd]. rewrite <- app_assoc. cbn [app].
           repeat split; try reflexivity. lia.
    + (* an earlier event: nothing or a marker is dequeued *)
      set (evs' := ev2 :: t) in *.
      assert (Hne' : evs' <> []) by (subst evs'; discriminate).
      assert (Hlast' : exists d0, fst (last evs' (None, 0)) = Some d0 /\ d0 <> []) by exact Hlast.
      assert (Htail : chunks_of evs' <> []).
      { destruct Hlast' as (d0 & Hd0 & Hd0ne).
        destruct (exists_last Hne') as (l0 & [dl dtl] & El). rewrite El in Hd0 |- *.
        rewrite last_last in Hd0. cbn [fst] in Hd0. subst dl.
        unfold chunks_of. rewrite flat_map_app. cbn [flat_map fst]. rewrite app_nil_r.
        intros Hnil. apply app_eq_nil in Hnil. destruct Hnil as [_ Hnil]. contradiction. }
      rewrite chunks_of_cons in Hfin, Hpre.
      assert (HR1 : all_markers (queue R1)) by (apply (Hpre (chunk data) (chunks_of evs')); [reflexivity | exact Htail]).
      assert (Hp1 : all_markers (queue p1)) by (rewrite Hq1 in HR1; apply Forall_app in HR1; exact (proj2 HR1)).
      assert (Hrl : removelast (((data, dt) :: evs') ++ extra) = (data, dt) :: removelast (evs' ++ extra)).
      { cbn [app]. destruct (evs' ++ extra) eqn:Ee; [|reflexivity].
        apply app_eq_nil in Ee. destruct Ee as [Ee _]. contradiction. }
      rewrite Hrl, time_of_cons in Htime.
      assert (Hnow : wnow w < deadline) by lia.
      assert (Hpre' : forall (R' : parser), R' = R1 -> forall P X, P ++ X = chunks_of evs' -> X <> [] -> all_markers (queue (process R' P))).
      { intros R' -> P X HPX HX. unfold R1. rewrite <- process_app. apply (Hpre (chunk data ++ P) X); [|exact HX].
        rewrite <- app_assoc, HPX. reflexivity. }
      assert (Hfin' : queue (process R1 (chunks_of evs')) = M ++ [Pkt c i pl]) by (unfold R1; rewrite <- process_app; exact Hfin).
      destruct (queue p1) as [|x rest] eqn:Eq1.
      * (* nothing queued *)
        rewrite (wait_iter_none B sk k deadline w data dt e1 Hnow Hrx Eq1).
        destruct (IH k (iter_world deadline w data dt e1) R1 popped extra e') as (w' & used & Hw & (Htr & Hnow' & Hfl & Hsr & Hre & Hde) & Hrest).
        -- exact Hoff1.
        -- exact Hun'.
        -- exact (Hpre' R1 eq_refl).
        -- exact Hfin'.
        -- exact Hne'.
        -- exact Hlast'.
        -- exact Hbud.
        -- cbn [iter_world wnow]. lia.
        -- exact Hreg.
        -- cbn [app length] in Hfuel. lia.
        -- exists w', used. split; [exact Hw|]. split; [|exact Hrest].
           unfold kept in *. cbn [iter_world wtrace wnow wsrv sparser sreg sretries sdelay] in Htr, Hnow', Hfl, Hsr, Hre, Hde.
           rewrite Htr, Hnow', Hfl, Hsr, Hre, Hde. cbn [app]. rewrite time_of_cons, process_filt.
           cbn [map fst snd]. rewrite <- app_assoc. cbn [app].
           repeat split; try reflexivity. lia.
      * (* a marker is dequeued *)
        inversion Hp1 as [|x' r' Hx Hr]; subst x' r'. subst x.
        assert (Eq1' : queue (process (sparser (wsrv w)) (chunk data)) = CrcErr :: rest) by exact Eq1.
        rewrite (wait_iter_marker k deadline w data dt e1 rest Hnow Hrx Eq1').
        set (w1 := with_parser _ _).
        assert (Hoff2 : off (popped ++ [CrcErr]) 0 R1 (sparser (wsrv w1))).
        { subst w1. cbn [with_parser wsrv sparser]. fold p1.
          destruct Hoff1 as (H1 & H2 & H3 & H4 & H5). unfold off, setq. cbn [st queue rx filt rg].
          rewrite Eq1 in H2. repeat split; try assumption.
          rewrite H2, <- app_assoc. reflexivity. }
        destruct (IH k w1 R1 (popped ++ [CrcErr]) extra e') as (w' & used & Hw & (Htr & Hnow' & Hfl & Hsr & Hre & Hde) & Hrest).
        -- exact Hoff2.
        -- exact Hun'.
        -- exact (Hpre' R1 eq_refl).
        -- exact Hfin'.
        -- exact Hne'.
        -- exact Hlast'.
        -- rewrite app_length. cbn [length]. lia.
        -- subst w1. cbn [with_parser iter_world wnow]. lia.
        -- exact Hreg.
        -- cbn [app length] in Hfuel. lia.
        -- exists w', used. split; [exact Hw|]. split; [|exact Hrest].
           subst w1. unfold kept, with_parser, iter_world, setq in *.
           cbn [wtrace wnow wsrv sparser sreg sretries sdelay filt] in Htr, Hnow', Hfl, Hsr, Hre, Hde.
           rewrite Htr, Hnow', Hfl, Hsr, Hre, Hde. cbn [app]. rewrite time_of_cons. fold p1. unfold p1. rewrite process_filt.
           cbn [map fst snd]. rewrite <- app_assoc. cbn [app].
           repeat split; try reflexivity. lia.
Qed.

(* The receive events evs deliver noisy traffic followed by the frame (c, i, pl), whose last byte arrives in the last
   event of evs; extra are the receive calls after it, as many as there are error markers; all of them start before
   the deadline. *)
Definition delivers_noisy (fl : list cid) (now deadline : N) (evs extra : list (option bytes * N)) (c i : N) (pl : bytes) : Prop :=
  exists segs,
    noisy fl segs /\ no_adj_junk (segs ++ [SFrame c i pl]) = true
    /\ chunks_of evs = flat_map seg_bytes segs ++ wire c i pl
    /\ (length pl <= 1000)%nat
    /\ evs <> []
    /\ (exists d, fst (last evs (None, 0)) = Some d /\ d <> [])
    /\ length extra = length (markers_of fl segs)
    /\ now + time_of (removelast (evs ++ extra)) < deadline.

Theorem wait_delivers_noisy_in : forall fuel deadline (w : world E) evs extra e' fl c i pl name rk d,
  rx_unfold B (wenv w) (length (evs ++ extra)) = (evs ++ extra, e') ->
  st (sparser (wsrv w)) = INIT -> queue (sparser (wsrv w)) = [] -> filt (sparser (wsrv w)) = Some fl ->
  In (c, i) fl -> (c, i) <> CID_CRC_ERROR ->
  delivers_noisy fl (wnow w) deadline evs extra c i pl ->
  reg_lookup (sreg (wsrv w)) (c, i) = Some (name, rk) -> build_with_data sk rk pl = Ok d ->
  (length (evs ++ extra) <= fuel)%nat ->
  exists w' used, wait B sk fuel deadline w = (Some (Some (mkRFrame name (c, i) pl d)), w')
    /\ kept w w' (evs ++ used) /\ exists rest, extra = used ++ rest.
Proof.
  intros fuel deadline w evs extra e' fl c i pl name rk d Hun Hst Hq Hf Hin Hcrc Hdel Hreg Hb Hfuel.
  destruct Hdel as (segs & Hnoisy & Hadj & Hch & Hlen & Hne & Hlast & Hex & Htime).
  destruct (stream_parse_noisy (sparser (wsrv w)) fl segs c i pl Hst Hq Hf Hin Hnoisy Hadj Hlen) as [Hfq Hpre].
  rewrite <- Hch in Hfq, Hpre.
  apply (noisy_loop deadline c i pl name rk d (markers_of fl segs) Hcrc Hb (markers_of_all fl segs (proj2 Hnoisy))
           evs fuel w (sparser (wsrv w)) [] extra e'); try assumption.
  - unfold off. cbn [app]. rewrite N.add_0_l. repeat split; try reflexivity. left. exact Hst.
  - cbn [length]. lia.
Qed.

(* ---- one attempt of set / set_mga / a non-configuration poll answered among corrupted frames ------------------- *)
Lemma set_attempt_answer_noisy fuel (mga : bool) req payload (w0 : world E) k wk w1 evs extra e' fl c i pl name rk d n :
  failed_attempts B sk fuel (if mga then RSetMga else RSet) req payload k w0 wk ->
  send B (do_flush B wk) req payload = (true, w1) ->
  rx_unfold B (wenv w1) (length (evs ++ extra)) = (evs ++ extra, e') ->
  filt (sparser (wsrv w0)) = Some fl -> In (c, i) fl -> (c, i) <> CID_CRC_ERROR ->
  delivers_noisy fl (wnow w1) (wnow w1 + sdelay (wsrv w1)) evs extra c i pl ->
  reg_lookup (sreg (wsrv w1)) (c, i) = Some (name, rk) -> build_with_data sk rk pl = Ok d ->
  (length (evs ++ extra) <= fuel)%nat ->
  (if mga then check_mga (mkRFrame name (c, i) pl d)
   else match check_ack_nak req (mkRFrame name (c, i) pl d) with IsOther => false | _ => true end) = true ->
  exists w', set_attempts B sk fuel (k + S n)%nat mga req payload w0
             = (Return (Some (mkRFrame name (c, i) pl d)), w')
    /\ evolves (S k) w0 w'.
Proof.
  intros Hfa Hs Hun Hf Hin Hcrc Hdel Hreg Hb Hfuel Hacc.
  rewrite (skip_failed_set_in B sk fuel mga req payload (S n) k w0 wk Hfa).
  cbn [set_attempts]. rewrite Hs.
  pose proof (attempt_start_evolves B sk fuel _ req payload w0 k wk w1 Hfa Hs) as Hev.
  destruct (wait_delivers_noisy_in fuel (wnow (purge w1) + sdelay (wsrv (purge w1))) (purge w1)
              evs extra e' fl c i pl name rk d) as (w' & used & Hw & _); try assumption; try reflexivity.
  { destruct Hev as (Hfl & _). rewrite Hfl. exact Hf. }
  rewrite Hw. cbv zeta. rewrite Hacc.
  exists w'. split; [reflexivity|].
  exact (evolves_trans0 (S k) w0 _ w' Hev (wait_evolves_eq B sk _ _ _ _ _ Hw)).
Qed.

Lemma poll_phase_plain_noisy fuel (req : cid) deadline (w : world E) evs extra e' pl name rk d :
  is_cfg req = false -> req <> CID_CRC_ERROR ->
  rx_unfold B (wenv w) (length (evs ++ extra)) = (evs ++ extra, e') ->
  st (sparser (wsrv w)) = INIT -> queue (sparser (wsrv w)) = [] ->
  filt (sparser (wsrv w)) = Some (poll_filter req) ->
  delivers_noisy (poll_filter req) (wnow w) deadline evs extra (fst req) (snd req) pl ->
  reg_lookup (sreg (wsrv w)) req = Some (name, rk) -> build_with_data sk rk pl = Ok d ->
  (1 <= fuel)%nat -> (length (evs ++ extra) <= fuel)%nat ->
  exists w', poll_phase B sk fuel req false None deadline w = (AOk (mkRFrame name req pl d), w').
Proof.
  destruct req as [c i]. unfold is_cfg. cbn [fst snd].
  intros Hcfg Hcrc Hun Hst Hq Hf Hdel Hreg Hb Hf1 Hfuel.
  destruct fuel as [|k]; [lia|].
  destruct (wait_delivers_noisy_in (S k) deadline w evs extra e' (poll_filter (c, i)) c i pl name rk d)
    as (w' & used & Hw & _); try assumption.
  { apply poll_filter_self. }
  cbn [poll_phase]. rewrite Hw. cbn [negb rf_cid fst].
  rewrite cid_eqb_refl, Hcfg. exists w'. reflexivity.
Qed.

End Noisy.

(* ---- the requests ----------------------------------------------------------------------------------------------- *)
Theorem set_answer_after_k_noisy : forall E (B : backend E) sk fuel rq payload k w wk w1 evs extra e' i pa d,
  pack_body (rq_body rq) = Ok payload ->
  (k < S (sretries (wsrv w)))%nat ->
  let w0 := with_parser w (set_filters (sparser (wsrv w)) [CID_ACK; CID_NAK]) in
  failed_attempts B sk fuel RSet (rq_cid rq) payload k w0 wk ->
  send B (do_flush B wk) (rq_cid rq) payload = (true, w1) ->
  rx_unfold B (wenv w1) (length (evs ++ extra)) = (evs ++ extra, e') ->
  delivers_noisy [CID_ACK; CID_NAK] (wnow w1) (wnow w1 + sdelay (wsrv w1)) evs extra 5 i pa ->
  (i = 1 /\ ack_names pa (rq_cid rq) \/ i = 0) ->
  reg_lookup (sreg (wsrv w1)) (5, i) = Some ((if i =? 1 then "UbxAckAck"%string else "UbxAckNak"%string), ack_kind) ->
  build_with_data sk ack_kind pa = Ok d ->
  (length (evs ++ extra) <= fuel)%nat ->
  exists w', do_request B sk fuel RSet rq w
             = (Return (Some (mkRFrame (if i =? 1 then "UbxAckAck"%string else "UbxAckNak"%string) (5, i) pa d)), w')
    /\ count_tx (new_events w w') = S k.
Proof.
  intros E B sk fuel rq payload k w wk w1 evs extra e' i pa d Hpack Hk w0 Hfa Hs Hun Hdel Hi Hreg Hb Hfuel.
  cbn [do_request]. unfold Request.set. cbv zeta. fold w0. rewrite Hpack.
  change (sretries (wsrv w0)) with (sretries (wsrv w)).
  rewrite (retries_split k _ Hk).
  destruct (set_attempt_answer_noisy B sk fuel false (rq_cid rq) payload w0 k wk w1 evs extra e' [CID_ACK; CID_NAK]
              5 i pa (if i =? 1 then "UbxAckAck"%string else "UbxAckNak"%string) ack_kind d
              (sretries (wsrv w) - k)) as (w' & Hw & Hev); try assumption; try reflexivity.
  - destruct Hi as [[-> _] | ->]; [left | right; left]; reflexivity.
  - discriminate.
  - destruct Hi as [[-> Hn] | ->].
    + change (5, 1) with CID_ACK. rewrite (ack_check sk (rq_cid rq) pa d _ Hn Hb). reflexivity.
    + reflexivity.
  - exists w'. split; [exact Hw|].
    apply (new_events_evolves (S k) w0 w w'); [reflexivity | exact Hev].
Qed.

Theorem mga_answer_after_k_noisy : forall E (B : backend E) sk fuel rq payload k w wk w1 evs extra e' pa d,
  pack_body (rq_body rq) = Ok payload ->
  (k < S (sretries (wsrv w)))%nat ->
  let w0 := with_parser w (set_filter (sparser (wsrv w)) CID_MGA_ACK) in
  failed_attempts B sk fuel RSetMga (rq_cid rq) payload k w0 wk ->
  send B (do_flush B wk) (rq_cid rq) payload = (true, w1) ->
  rx_unfold B (wenv w1) (length (evs ++ extra)) = (evs ++ extra, e') ->
  delivers_noisy [CID_MGA_ACK] (wnow w1) (wnow w1 + sdelay (wsrv w1)) evs extra 19 96 pa ->
  reg_lookup (sreg (wsrv w1)) CID_MGA_ACK = Some ("UbxMgaAckData0"%string, mga_kind) ->
  build_with_data sk mga_kind pa = Ok d -> dec_getf d "type" = Some (VInt 1) ->
  (length (evs ++ extra) <= fuel)%nat ->
  exists w', do_request B sk fuel RSetMga rq w
             = (Return (Some (mkRFrame "UbxMgaAckData0"%string CID_MGA_ACK pa d)), w')
    /\ count_tx (new_events w w') = S k.
Proof.
  intros E B sk fuel rq payload k w wk w1 evs extra e' pa d Hpack Hk w0 Hfa Hs Hun Hdel Hreg Hb Hty Hfuel.
  cbn [do_request]. unfold set_mga. cbv zeta. fold w0. rewrite Hpack.
  change (sretries (wsrv w0)) with (sretries (wsrv w)).
  rewrite (retries_split k _ Hk).
  destruct (set_attempt_answer_noisy B sk fuel true (rq_cid rq) payload w0 k wk w1 evs extra e' [CID_MGA_ACK]
              19 96 pa "UbxMgaAckData0"%string mga_kind d
              (sretries (wsrv w) - k)) as (w' & Hw & Hev); try assumption; try reflexivity.
  - left; reflexivity.
  - discriminate.
  - unfold check_mga. cbn [rf_cid rf_dec]. rewrite Hty. reflexivity.
  - exists w'. split; [exact Hw|].
    apply (new_events_evolves (S k) w0 w w'); [reflexivity | exact Hev].
Qed.

Theorem poll_answer_after_k_noisy : forall E (B : backend E) sk fuel rq payload k w wk w1 evs extra e' pl d,
  pack_body (rq_body rq) = Ok payload ->
  (k < S (sretries (wsrv w)))%nat -> is_cfg (rq_cid rq) = false -> rq_cid rq <> CID_CRC_ERROR ->
  let w0 := with_parser (with_reg w (reg_register (sreg (wsrv w)) (rq_cid rq) (rq_resp rq)))
                        (set_filters (sparser (wsrv w)) (poll_filter (rq_cid rq))) in
  failed_attempts B sk fuel RPoll (rq_cid rq) payload k w0 wk ->
  send B (do_flush B wk) (rq_cid rq) payload = (true, w1) ->
  rx_unfold B (wenv w1) (length (evs ++ extra)) = (evs ++ extra, e') ->
  delivers_noisy (poll_filter (rq_cid rq)) (wnow w1) (wnow w1 + sdelay (wsrv w1)) evs extra
           (fst (rq_cid rq)) (snd (rq_cid rq)) pl ->
  build_with_data sk (snd (rq_resp rq)) pl = Ok d ->
  (2 * length (evs ++ extra) + 4 <= fuel)%nat ->
  exists w', do_request B sk fuel RPoll rq w
             = (Return (Some (mkRFrame (fst (rq_resp rq)) (rq_cid rq) pl d)), w')
    /\ count_tx (new_events w w') = S k.
Proof.
  intros E B sk fuel rq payload k w wk w1 evs extra e' pl d Hpack Hk Hcfg Hcrc w0 Hfa Hs Hun Hdel Hb Hfuel.
  cbn [do_request].
  change (poll B sk fuel rq w)
    with (match pack_body (rq_body rq) with
          | Raise e => (Raised e, w0)
          | Ok payload => poll_attempts B sk fuel (S (sretries (wsrv w))) (rq_cid rq) payload w0
          end).
  rewrite Hpack, (retries_split k _ Hk).
  destruct (attempt_start_evolves B sk fuel RPoll (rq_cid rq) payload w0 k wk w1 Hfa Hs)
    as (Hfl & Hsr & _).
  assert (Hfilt : filt (sparser (wsrv (purge w1))) = Some (poll_filter (rq_cid rq))).
  { rewrite Hfl. reflexivity. }
  assert (Hreg : reg_lookup (sreg (wsrv (purge w1))) (rq_cid rq) = Some (fst (rq_resp rq), snd (rq_resp rq))).
  { rewrite Hsr. apply reg_lookup_registered. }
  destruct (poll_phase_plain_noisy B sk fuel (rq_cid rq) (wnow (purge w1) + sdelay (wsrv (purge w1)))
              (purge w1) evs extra e' pl (fst (rq_resp rq)) (snd (rq_resp rq)) d
              Hcfg Hcrc Hun eq_refl eq_refl Hfilt Hdel Hreg Hb) as (w2 & Hp); [lia | lia |].
  destruct (poll_attempt_answer B sk fuel (rq_cid rq) payload w0 k wk w1 _ w2
              (sretries (wsrv w) - k) Hfa Hs Hp) as (w' & Hw & Hev).
  exists w'. split; [exact Hw|].
  apply (new_events_evolves (S k) w0 w w'); [reflexivity | exact Hev].
Qed.

Theorem wait_delivers_noisy : forall E (B : backend E) sk fuel deadline w evs extra e' fl c i pl name rk d,
  rx_unfold B (wenv w) (length (evs ++ extra)) = (evs ++ extra, e') ->
  st (sparser (wsrv w)) = INIT -> queue (sparser (wsrv w)) = [] -> filt (sparser (wsrv w)) = Some fl ->
  In (c, i) fl -> (c, i) <> CID_CRC_ERROR ->
  delivers_noisy fl (wnow w) deadline evs extra c i pl ->
  reg_lookup (sreg (wsrv w)) (c, i) = Some (name, rk) -> build_with_data sk rk pl = Ok d ->
  (length (evs ++ extra) <= fuel)%nat ->
  exists w' used, wait B sk fuel deadline w = (Some (Some (mkRFrame name (c, i) pl d)), w')
    /\ kept w w' (evs ++ used) /\ exists rest, extra = used ++ rest.
Proof. intros E B sk. exact (wait_delivers_noisy_in B sk). Qed.

(* the inert case of RequestGood.v is the case without markers and without further receive calls *)
Lemma delivers_is_noisy fl now deadline evs c i pl :
  delivers fl now deadline evs c i pl -> delivers_noisy fl now deadline evs [] c i pl.
Proof.
  intros (segs & Hin & Hadj & Hch & Hlen & Hne & Hlast & Htime).
  destruct (inert_noisy fl segs Hin) as [Hn Hm].
  exists segs. rewrite Hm, app_nil_r. repeat split; try assumption; try reflexivity; apply Hn.
Qed.
