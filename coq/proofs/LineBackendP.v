(* C12c: the request loop sees a backend only through its four hooks (backend_simulation); the serial
   backend over a line in step with its script is the scripted backend (line_hooks,
   line_refines_script); a recovery that comes back at another bit rate breaks that
   (recover_elsewhere_refuted); every frame whose transmission succeeded is in what the receiver gets
   (line_delivers_all: the invariant [inv] below, kept by every building block); a flush that also resets
   the output buffer breaks that (flush_both_refuted).

   Method: two worlds over two backends are related ([wrel]) when server state, clock, trace and tie flag
   are equal and the environments are related by R.  Every building block of the request loop maps
   related worlds to equal results and related worlds. *)
From Coq Require Import Lia.
From Ubx Require Import Fields Base Checksum Frame ParserUbx CfgKeys Request ScriptBackend Backends LineBackend.
Open Scope N_scope.

Section Sim.
Context {E1 E2 : Type} (B1 : backend E1) (B2 : backend E2) (R : E1 -> E2 -> Prop).
Hypothesis Hrx : forall e1 e2, R e1 e2 ->
  fst (fst (receive B1 e1)) = fst (fst (receive B2 e2))
  /\ snd (fst (receive B1 e1)) = snd (fst (receive B2 e2))
  /\ R (snd (receive B1 e1)) (snd (receive B2 e2)).
Hypothesis Htx : forall e1 e2 d, R e1 e2 ->
  fst (transmit B1 e1 d) = fst (transmit B2 e2 d) /\ R (snd (transmit B1 e1 d)) (snd (transmit B2 e2 d)).
Hypothesis Hfl : forall e1 e2, R e1 e2 -> R (flush B1 e1) (flush B2 e2).
Hypothesis Hrc : forall e1 e2, R e1 e2 -> R (recover B1 e1) (recover B2 e2).
Variable sk : list N.

Inductive wrel : world E1 -> world E2 -> Prop :=
| wrel_intro s e1 e2 n t tie : R e1 e2 -> wrel (mkWorld s e1 n t tie) (mkWorld s e2 n t tie).

Definition rrel {A : Type} (r1 : A * world E1) (r2 : A * world E2) : Prop :=
  fst r1 = fst r2 /\ wrel (snd r1) (snd r2).

Lemma wrel_proj w1 w2 : wrel w1 w2 ->
  wsrv w1 = wsrv w2 /\ wnow w1 = wnow w2 /\ wtrace w1 = wtrace w2 /\ wtie w1 = wtie w2
  /\ R (wenv w1) (wenv w2).
Proof.
  intros Hw. destruct Hw as [s e1 e2 n t tie He]. cbn [wsrv wnow wtrace wtie wenv].
  repeat split; try reflexivity. exact He.
Qed.

Lemma wrel_build (w1 : world E1) (w2 : world E2) :
  wsrv w1 = wsrv w2 -> wnow w1 = wnow w2 -> wtrace w1 = wtrace w2 -> wtie w1 = wtie w2 ->
  R (wenv w1) (wenv w2) -> wrel w1 w2.
Proof.
  destruct w1 as [s1 e1 n1 t1 b1], w2 as [s2 e2 n2 t2 b2]. cbn [wsrv wnow wtrace wtie wenv].
  intros Hs Hn Ht Hb He. subst s2 n2 t2 b2. constructor. exact He.
Qed.

Lemma with_parser_rel w1 w2 p : wrel w1 w2 -> wrel (with_parser w1 p) (with_parser w2 p).
Proof.
  intros Hw. destruct Hw as [s e1 e2 n t tie He]. unfold with_parser.
  cbn [wsrv wnow wtrace wtie wenv]. constructor. exact He.
Qed.

Lemma with_reg_rel w1 w2 r : wrel w1 w2 -> wrel (with_reg w1 r) (with_reg w2 r).
Proof.
  intros Hw. destruct Hw as [s e1 e2 n t tie He]. unfold with_reg.
  cbn [wsrv wnow wtrace wtie wenv]. constructor. exact He.
Qed.

Lemma do_flush_rel w1 w2 : wrel w1 w2 -> wrel (do_flush B1 w1) (do_flush B2 w2).
Proof.
  intros Hw. destruct Hw as [s e1 e2 n t tie He]. unfold do_flush, log.
  cbn [wsrv wnow wtrace wtie wenv]. constructor. apply Hfl, He.
Qed.

Lemma do_recover_rel w1 w2 : wrel w1 w2 -> wrel (do_recover B1 w1) (do_recover B2 w2).
Proof.
  intros Hw. destruct Hw as [s e1 e2 n t tie He]. unfold do_recover, log.
  cbn [wsrv wnow wtrace wtie wenv]. constructor. apply Hrc, He.
Qed.

Lemma purge_rel w1 w2 : wrel w1 w2 -> wrel (purge w1) (purge w2).
Proof.
  intros Hw. destruct Hw as [s e1 e2 n t tie He]. unfold purge, with_parser.
  cbn [wsrv wnow wtrace wtie wenv]. constructor. exact He.
Qed.

Lemma send_rel w1 w2 c pl : wrel w1 w2 -> rrel (send B1 w1 c pl) (send B2 w2 c pl).
Proof.
  intros Hw. destruct Hw as [s e1 e2 n t tie He]. unfold send, log.
  cbn [wsrv wnow wtrace wtie wenv].
  pose proof (Htx e1 e2 (fst (to_bytes (new_frame (fst c) (snd c) pl))) He) as [Hok He'].
  destruct (transmit B1 e1 (fst (to_bytes (new_frame (fst c) (snd c) pl)))) as [ok1 e1'].
  destruct (transmit B2 e2 (fst (to_bytes (new_frame (fst c) (snd c) pl)))) as [ok2 e2'].
  cbn [fst snd] in Hok, He'. subst ok2.
  split; cbn [fst snd]; [reflexivity | constructor; exact He'].
Qed.

Lemma wait_rel : forall fuel dl w1 w2, wrel w1 w2 ->
  rrel (wait B1 sk fuel dl w1) (wait B2 sk fuel dl w2).
Proof.
  induction fuel as [|k IH]; intros dl w1 w2 Hw.
  - split; [reflexivity | exact Hw].
  - destruct Hw as [s e1 e2 n t tie He].
    cbn [wait wsrv wnow wtrace wtie wenv].
    destruct (n <? dl).
    + pose proof (Hrx e1 e2 He) as (Hd & Hdt & He').
      destruct (receive B1 e1) as [[d1 dt1] e1'].
      destruct (receive B2 e2) as [[d2 dt2] e2'].
      cbn [fst snd] in Hd, Hdt, He'. subst d2 dt2.
      unfold log, with_parser.
      cbn [wsrv wnow wtrace wtie wenv sparser sreg sretries sdelay].
      destruct (packet (match nonempty d1 with
                        | Some d => process (sparser s) d
                        | None => sparser s
                        end)) as [x p'].
      assert (Hw' : wrel
        (mkWorld (mkSrv p' (sreg s) (sretries s) (sdelay s)) e1' (n + dt1)
                 (t ++ [Rx d1 dt1]) (tie || (n =? dl)))
        (mkWorld (mkSrv p' (sreg s) (sretries s) (sdelay s)) e2' (n + dt1)
                 (t ++ [Rx d1 dt1]) (tie || (n =? dl)))) by (constructor; exact He').
      destruct x as [[c i payload|]|].
      * destruct (is_crc_marker (Pkt c i payload)); [apply IH, Hw'|].
        destruct (reg_lookup (sreg s) (c, i)) as [[name rk]|]; [|apply IH, Hw'].
        destruct (build_with_data sk rk payload) as [dd|ex]; [|apply IH, Hw'].
        split; cbn [fst snd]; [reflexivity | exact Hw'].
      * apply IH, Hw'.
      * apply IH, Hw'.
    + split; cbn [fst snd]; [reflexivity | constructor; exact He].
Qed.

Lemma poll_phase_rel : forall fuel req ack resp dl w1 w2, wrel w1 w2 ->
  rrel (poll_phase B1 sk fuel req ack resp dl w1) (poll_phase B2 sk fuel req ack resp dl w2).
Proof.
  induction fuel as [|k IH]; intros req ack resp dl w1 w2 Hw.
  - split; [reflexivity | exact Hw].
  - cbn [poll_phase].
    pose proof (wait_rel (S k) dl w1 w2 Hw) as [Hf Hw'].
    destruct (wait B1 sk (S k) dl w1) as [r1 w1'].
    destruct (wait B2 sk (S k) dl w2) as [r2 w2'].
    cbn [fst snd] in Hf, Hw'. subst r2.
    destruct r1 as [[f|]|].
    + destruct (wrel_proj _ _ Hw') as (Hs & Hn & _).
      destruct (negb ack).
      * destruct (cid_eqb (rf_cid f) req).
        -- destruct (fst req =? CLASS_CFG).
           ++ rewrite Hs, Hn. apply IH, Hw'.
           ++ split; cbn [fst snd]; [reflexivity | exact Hw'].
        -- apply IH, Hw'.
      * destruct (check_ack_nak req f).
        -- destruct resp as [r|]; (split; cbn [fst snd]; [reflexivity | exact Hw']).
        -- apply IH, Hw'.
        -- apply IH, Hw'.
    + split; cbn [fst snd]; [reflexivity | exact Hw'].
    + split; cbn [fst snd]; [reflexivity | exact Hw'].
Qed.

Lemma poll_attempts_rel : forall n fuel req payload w1 w2, wrel w1 w2 ->
  rrel (poll_attempts B1 sk fuel n req payload w1) (poll_attempts B2 sk fuel n req payload w2).
Proof.
  induction n as [|n' IH]; intros fuel req payload w1 w2 Hw.
  - split; [reflexivity | exact Hw].
  - cbn [poll_attempts].
    pose proof (send_rel _ _ req payload (do_flush_rel _ _ Hw)) as [Hok Hws].
    destruct (send B1 (do_flush B1 w1) req payload) as [ok1 ws1].
    destruct (send B2 (do_flush B2 w2) req payload) as [ok2 ws2].
    cbn [fst snd] in Hok, Hws. subst ok2.
    destruct ok1; [|apply IH, Hws].
    pose proof (purge_rel _ _ Hws) as Hwp.
    destruct (wrel_proj _ _ Hwp) as (Hs & Hn & _).
    rewrite Hs, Hn.
    pose proof (poll_phase_rel fuel req false None (wnow (purge ws2) + sdelay (wsrv (purge ws2)))
                  _ _ Hwp) as [Ha Hwa].
    destruct (poll_phase B1 sk fuel req false None
                (wnow (purge ws2) + sdelay (wsrv (purge ws2))) (purge ws1)) as [a1 wa1].
    destruct (poll_phase B2 sk fuel req false None
                (wnow (purge ws2) + sdelay (wsrv (purge ws2))) (purge ws2)) as [a2 wa2].
    cbn [fst snd] in Ha, Hwa. subst a2.
    destruct a1 as [f| |].
    + split; cbn [fst snd]; [reflexivity | exact Hwa].
    + apply IH, do_recover_rel, Hwa.
    + split; cbn [fst snd]; [reflexivity | exact Hwa].
Qed.

Lemma set_attempts_rel : forall n fuel mga req payload w1 w2, wrel w1 w2 ->
  rrel (set_attempts B1 sk fuel n mga req payload w1) (set_attempts B2 sk fuel n mga req payload w2).
Proof.
  induction n as [|n' IH]; intros fuel mga req payload w1 w2 Hw.
  - split; [reflexivity | exact Hw].
  - cbn [set_attempts].
    pose proof (send_rel _ _ req payload (do_flush_rel _ _ Hw)) as [Hok Hws].
    destruct (send B1 (do_flush B1 w1) req payload) as [ok1 ws1].
    destruct (send B2 (do_flush B2 w2) req payload) as [ok2 ws2].
    cbn [fst snd] in Hok, Hws. subst ok2.
    destruct ok1; [|apply IH, Hws].
    pose proof (purge_rel _ _ Hws) as Hwp.
    destruct (wrel_proj _ _ Hwp) as (Hs & Hn & _).
    rewrite Hs, Hn.
    pose proof (wait_rel fuel (wnow (purge ws2) + sdelay (wsrv (purge ws2))) _ _ Hwp) as [Ha Hwa].
    destruct (wait B1 sk fuel (wnow (purge ws2) + sdelay (wsrv (purge ws2))) (purge ws1)) as [a1 wa1].
    destruct (wait B2 sk fuel (wnow (purge ws2) + sdelay (wsrv (purge ws2))) (purge ws2)) as [a2 wa2].
    cbn [fst snd] in Ha, Hwa. subst a2.
    destruct a1 as [[f|]|].
    + destruct (if mga then check_mga f
                else match check_ack_nak req f with IsAck | IsNak => true | IsOther => false end).
      * split; cbn [fst snd]; [reflexivity | exact Hwa].
      * apply IH, Hwa.
    + apply IH, do_recover_rel, Hwa.
    + split; cbn [fst snd]; [reflexivity | exact Hwa].
Qed.

Lemma poll_rel fuel rq w1 w2 : wrel w1 w2 -> rrel (poll B1 sk fuel rq w1) (poll B2 sk fuel rq w2).
Proof.
  intros Hw. unfold poll.
  destruct (wrel_proj _ _ Hw) as (Hs & _).
  rewrite Hs.
  pose proof (with_reg_rel _ _ (reg_register (sreg (wsrv w2)) (rq_cid rq) (rq_resp rq)) Hw) as Hw1.
  destruct (wrel_proj _ _ Hw1) as (Hs1 & _).
  rewrite Hs1.
  match goal with
  | |- context [with_parser (with_reg w2 ?r) ?p] =>
      pose proof (with_parser_rel _ _ p Hw1) as Hw2
  end.
  destruct (pack_body (rq_body rq)) as [payload|ex].
  - destruct (wrel_proj _ _ Hw2) as (Hs2 & _). rewrite Hs2.
    apply poll_attempts_rel, Hw2.
  - split; cbn [fst snd]; [reflexivity | exact Hw2].
Qed.

Lemma set_rel fuel rq w1 w2 : wrel w1 w2 -> rrel (set B1 sk fuel rq w1) (set B2 sk fuel rq w2).
Proof.
  intros Hw. unfold set.
  destruct (wrel_proj _ _ Hw) as (Hs & _).
  rewrite Hs.
  pose proof (with_parser_rel _ _ (set_filters (sparser (wsrv w2)) [CID_ACK; CID_NAK]) Hw) as Hw2.
  destruct (pack_body (rq_body rq)) as [payload|ex].
  - destruct (wrel_proj _ _ Hw2) as (Hs2 & _). rewrite Hs2.
    apply set_attempts_rel, Hw2.
  - split; cbn [fst snd]; [reflexivity | exact Hw2].
Qed.

Lemma set_mga_rel fuel rq w1 w2 : wrel w1 w2 ->
  rrel (set_mga B1 sk fuel rq w1) (set_mga B2 sk fuel rq w2).
Proof.
  intros Hw. unfold set_mga.
  destruct (wrel_proj _ _ Hw) as (Hs & _).
  rewrite Hs.
  pose proof (with_parser_rel _ _ (set_filter (sparser (wsrv w2)) CID_MGA_ACK) Hw) as Hw2.
  destruct (pack_body (rq_body rq)) as [payload|ex].
  - destruct (wrel_proj _ _ Hw2) as (Hs2 & _). rewrite Hs2.
    apply set_attempts_rel, Hw2.
  - split; cbn [fst snd]; [reflexivity | exact Hw2].
Qed.

Lemma fire_rel rq w1 w2 : wrel w1 w2 ->
  rrel (fire_and_forget B1 rq w1) (fire_and_forget B2 rq w2).
Proof.
  intros Hw. unfold fire_and_forget.
  destruct (pack_body (rq_body rq)) as [payload|ex].
  - pose proof (send_rel _ _ (rq_cid rq) payload Hw) as [Hok Hws].
    destruct (send B1 w1 (rq_cid rq) payload) as [ok1 ws1].
    destruct (send B2 w2 (rq_cid rq) payload) as [ok2 ws2].
    cbn [fst snd] in Hws.
    split; cbn [fst snd]; [reflexivity | exact Hws].
  - split; cbn [fst snd]; [reflexivity | exact Hw].
Qed.

Lemma do_request_rel fuel o rq w1 w2 : wrel w1 w2 ->
  rrel (do_request B1 sk fuel o rq w1) (do_request B2 sk fuel o rq w2).
Proof.
  intros Hw. destruct o; cbn [do_request].
  - apply poll_rel, Hw.
  - apply set_rel, Hw.
  - apply set_mga_rel, Hw.
  - apply fire_rel, Hw.
Qed.

End Sim.

(* ------------------------------------------------------------------ 1. backend simulation *)
Theorem backend_simulation :
  forall (E1 E2 : Type) (B1 : backend E1) (B2 : backend E2) (R : E1 -> E2 -> Prop),
  (forall e1 e2, R e1 e2 ->
     fst (fst (receive B1 e1)) = fst (fst (receive B2 e2))
     /\ snd (fst (receive B1 e1)) = snd (fst (receive B2 e2))
     /\ R (snd (receive B1 e1)) (snd (receive B2 e2))) ->
  (forall e1 e2 d, R e1 e2 ->
     fst (transmit B1 e1 d) = fst (transmit B2 e2 d) /\ R (snd (transmit B1 e1 d)) (snd (transmit B2 e2 d))) ->
  (forall e1 e2, R e1 e2 -> R (flush B1 e1) (flush B2 e2)) ->
  (forall e1 e2, R e1 e2 -> R (recover B1 e1) (recover B2 e2)) ->
  forall sk fuel o rq (w1 : world E1) (w2 : world E2),
  wsrv w1 = wsrv w2 -> wnow w1 = wnow w2 -> wtrace w1 = wtrace w2 -> wtie w1 = wtie w2 ->
  R (wenv w1) (wenv w2) ->
  let r1 := do_request B1 sk fuel o rq w1 in
  let r2 := do_request B2 sk fuel o rq w2 in
  fst r1 = fst r2
  /\ wsrv (snd r1) = wsrv (snd r2) /\ wnow (snd r1) = wnow (snd r2)
  /\ wtrace (snd r1) = wtrace (snd r2) /\ wtie (snd r1) = wtie (snd r2)
  /\ R (wenv (snd r1)) (wenv (snd r2)).
Proof.
  intros E1 E2 B1 B2 R Hrx Htx Hfl Hrc sk fuel o rq w1 w2 Hs Hn Ht Hb He r1 r2.
  pose proof (do_request_rel B1 B2 R Hrx Htx Hfl Hrc sk fuel o rq w1 w2
                (wrel_build R w1 w2 Hs Hn Ht Hb He)) as [Hf Hw].
  fold r1 in Hf, Hw. fold r2 in Hf, Hw.
  split; [exact Hf|]. apply (wrel_proj R), Hw.
Qed.

(* ------------------------------------------------------------------ 2. the line in step with the script *)
Lemma tty_flag_all (data : bytes) :
  snd (tty_transmit (Z.of_nat (length data)) data) = true.
Proof. unfold tty_transmit. cbn [snd]. apply Z.eqb_refl. Qed.

Lemma tty_flag_short (data : bytes) :
  snd (tty_transmit (Z.of_nat (length data) - 1)%Z data) = false.
Proof. unfold tty_transmit. cbn [snd]. apply Z.eqb_neq. lia. Qed.

Theorem line_hooks : forall l s, line_ok l s ->
  (fst (fst (l_receive l)) = fst (fst (s_receive s)) /\ snd (fst (l_receive l)) = snd (fst (s_receive s))
   /\ line_ok (snd (l_receive l)) (snd (s_receive s)))
  /\ (forall d, fst (l_transmit l d) = fst (s_transmit s d) /\ line_ok (snd (l_transmit l d)) (snd (s_transmit s d)))
  /\ line_ok (l_flush l) (s_flush s)
  /\ line_ok (l_recover l) (s_recover s).
Proof.
  intros l s (Hscr & Hheard & Hopen).
  destruct l as [p rb sc lo lg]. cbn [l_script l_port] in Hscr, Hopen. subst sc.
  split; [|split; [|split]].
  - unfold l_receive. cbn [l_script l_port l_rxbaud]. rewrite Hheard.
    destruct (s_receive s) as [[d dt] s'] eqn:Es. cbn [fst snd].
    split; [reflexivity|]. split; [reflexivity|].
    unfold line_ok. cbn [l_script l_port]. split; [reflexivity|]. split; [exact Hheard | exact Hopen].
  - intros d. unfold l_transmit, s_transmit. cbn [l_script l_port l_rxbaud]. rewrite Hheard.
    destruct (future s) as [|[ok evs] t].
    + cbn [fst snd]. split; [apply tty_flag_all|].
      unfold line_ok. cbn [l_script l_port]. split; [reflexivity|]. split; [exact Hheard | exact Hopen].
    + cbn [fst snd]. split.
      * destruct ok; [apply tty_flag_all | apply tty_flag_short].
      * unfold line_ok. cbn [l_script l_port]. split; [reflexivity|]. split; [exact Hheard | exact Hopen].
  - unfold l_flush, line_ok. cbn [l_script l_port l_rxbaud].
    split; [reflexivity|]. split; [exact Hheard | exact Hopen].
  - unfold l_recover, tty_recover, s_recover. cbn [l_script l_port l_rxbaud]. rewrite Hopen.
    unfold line_ok. cbn [l_script l_port p_open]. split; [reflexivity|]. split; [|reflexivity].
    unfold heard in *. cbn [l_port l_rxbaud p_baud] in *. exact Hheard.
Qed.

(* ------------------------------------------------------------------ 3. line backend = script backend *)
Theorem line_refines_script : forall sk fuel o rq srv0 now tr tie l s,
  line_ok l s ->
  let r1 := do_request line_backend sk fuel o rq (mkWorld srv0 l now tr tie) in
  let r2 := do_request script_backend sk fuel o rq (mkWorld srv0 s now tr tie) in
  fst r1 = fst r2
  /\ wsrv (snd r1) = wsrv (snd r2) /\ wnow (snd r1) = wnow (snd r2)
  /\ wtrace (snd r1) = wtrace (snd r2) /\ wtie (snd r1) = wtie (snd r2)
  /\ line_ok (wenv (snd r1)) (wenv (snd r2)).
Proof.
  intros sk fuel o rq srv0 now tr tie l s Hok.
  apply (backend_simulation sline script line_backend script_backend line_ok).
  - intros e1 e2 He. exact (proj1 (line_hooks e1 e2 He)).
  - intros e1 e2 d He. exact (proj1 (proj2 (line_hooks e1 e2 He)) d).
  - intros e1 e2 He. exact (proj1 (proj2 (proj2 (line_hooks e1 e2 He)))).
  - intros e1 e2 He. exact (proj2 (proj2 (proj2 (line_hooks e1 e2 He)))).
  - reflexivity.
  - reflexivity.
  - reflexivity.
  - reflexivity.
  - exact Hok.
Qed.

(* ------------------------------------------------------------------ 4. recovery at another bit rate *)
Definition rx_rq : request := mkRequest (10, 4) (BFields []) ("Resp"%string, RK (KFixed [])).
Definition rx_answer : bytes := fst (to_bytes (new_frame 10 4 [])).
Definition rx_line : sline :=
  mkSLine (mkPort true 115200%Z []) 115200%Z
          (mkScript [] [(true, []); (true, [(Some rx_answer, 1)])] 50) [] [].

Theorem recover_elsewhere_refuted :
  exists sk fuel rq srv0 l,
    line_ok l (l_script l)
    /\ (exists f, fst (do_request line_backend sk fuel RPoll rq (mkWorld srv0 l 0 [] false)) = Return (Some f))
    /\ fst (do_request (bad_line_backend 9600) sk fuel RPoll rq (mkWorld srv0 l 0 [] false)) = Return None.
Proof.
  exists [], 20%nat, rx_rq, (new_srv 1 100), rx_line.
  split; [|split].
  - repeat split.
  - exists (mkRFrame "Resp" (10, 4) [] (DFields [])). vm_compute. reflexivity.
  - vm_compute. reflexivity.
Qed.

(* ------------------------------------------------------------------ 5. successful transmissions are delivered *)
Lemma tx_ok_frames_app a b : tx_ok_frames (a ++ b) = tx_ok_frames a ++ tx_ok_frames b.
Proof.
  induction a as [|ev a IH]; [reflexivity|].
  destruct ev as [d [|]|d dt| |]; cbn [app tx_ok_frames]; rewrite IH; reflexivity.
Qed.

(* A backend with a ghost "sent" list: reads, flushes and recoveries keep it, a transmission appends its frame
   exactly when it reports success.  Then [sent env = base ++ successful transmissions of the trace] is kept
   by every building block of the request loop. *)
Section Inv.
Context {E : Type} (B : backend E) (sent : E -> list bytes) (base : list bytes).
Hypothesis Hrx : forall e, sent (snd (receive B e)) = sent e.
Hypothesis Htx : forall e d,
  sent (snd (transmit B e d)) = sent e ++ (if fst (transmit B e d) then [d] else []).
Hypothesis Hfl : forall e, sent (flush B e) = sent e.
Hypothesis Hrc : forall e, sent (recover B e) = sent e.
Variable sk : list N.

Definition inv (w : world E) : Prop := sent (wenv w) = base ++ tx_ok_frames (wtrace w).

Lemma inv_log_quiet w e' now' ev :
  inv w -> sent e' = sent (wenv w) -> tx_ok_frames [ev] = [] -> inv (log w e' now' ev).
Proof.
  unfold inv, log. cbn [wenv wtrace]. intros Hi He Hev.
  rewrite tx_ok_frames_app, Hev, app_nil_r, He. exact Hi.
Qed.

Lemma with_parser_inv w p : inv w -> inv (with_parser w p).
Proof. intros Hi. exact Hi. Qed.

Lemma with_reg_inv w r : inv w -> inv (with_reg w r).
Proof. intros Hi. exact Hi. Qed.

Lemma purge_inv w : inv w -> inv (purge w).
Proof. intros Hi. exact Hi. Qed.

Lemma do_flush_inv w : inv w -> inv (do_flush B w).
Proof. intros Hi. unfold do_flush. apply inv_log_quiet; [exact Hi | apply Hfl | reflexivity]. Qed.

Lemma do_recover_inv w : inv w -> inv (do_recover B w).
Proof. intros Hi. unfold do_recover. apply inv_log_quiet; [exact Hi | apply Hrc | reflexivity]. Qed.

Lemma send_inv w c pl : inv w -> inv (snd (send B w c pl)).
Proof.
  intros Hi. unfold send.
  pose proof (Htx (wenv w) (fst (to_bytes (new_frame (fst c) (snd c) pl)))) as Ht.
  destruct (transmit B (wenv w) (fst (to_bytes (new_frame (fst c) (snd c) pl)))) as [ok e'].
  cbn [fst snd] in Ht |- *. unfold inv in Hi |- *. unfold log. cbn [wenv wtrace].
  rewrite tx_ok_frames_app, Ht, Hi, <- app_assoc.
  reflexivity.
Qed.

Lemma wait_inv : forall fuel dl w, inv w -> inv (snd (wait B sk fuel dl w)).
Proof.
  induction fuel as [|k IH]; intros dl w Hi.
  - exact Hi.
  - destruct w as [s e n t tie].
    cbn [wait wsrv wnow wtrace wtie wenv].
    destruct (n <? dl).
    + pose proof (Hrx e) as He'.
      destruct (receive B e) as [[d dt] e']. cbn [snd] in He'.
      unfold log, with_parser.
      cbn [wsrv wnow wtrace wtie wenv sparser sreg sretries sdelay].
      destruct (packet (match nonempty d with
                        | Some d0 => process (sparser s) d0
                        | None => sparser s
                        end)) as [x p'].
      assert (Hw' : inv
        (mkWorld (mkSrv p' (sreg s) (sretries s) (sdelay s)) e' (n + dt)
                 (t ++ [Rx d dt]) (tie || (n =? dl)))).
      { unfold inv in Hi |- *. cbn [wenv wtrace] in Hi |- *.
        rewrite tx_ok_frames_app, app_nil_r, He'. exact Hi. }
      destruct x as [[c i payload|]|].
      * destruct (is_crc_marker (Pkt c i payload)); [apply IH, Hw'|].
        destruct (reg_lookup (sreg s) (c, i)) as [[name rk]|]; [|apply IH, Hw'].
        destruct (build_with_data sk rk payload) as [dd|ex]; [|apply IH, Hw'].
        cbn [snd]. exact Hw'.
      * apply IH, Hw'.
      * apply IH, Hw'.
    + cbn [snd]. exact Hi.
Qed.

Lemma poll_phase_inv : forall fuel req ack resp dl w, inv w ->
  inv (snd (poll_phase B sk fuel req ack resp dl w)).
Proof.
  induction fuel as [|k IH]; intros req ack resp dl w Hi.
  - exact Hi.
  - cbn [poll_phase].
    pose proof (wait_inv (S k) dl w Hi) as Hw'.
    destruct (wait B sk (S k) dl w) as [r w']. cbn [snd] in Hw'.
    destruct r as [[f|]|].
    + destruct (negb ack).
      * destruct (cid_eqb (rf_cid f) req).
        -- destruct (fst req =? CLASS_CFG).
           ++ apply IH, Hw'.
           ++ cbn [snd]. exact Hw'.
        -- apply IH, Hw'.
      * destruct (check_ack_nak req f).
        -- destruct resp as [r|]; (cbn [snd]; exact Hw').
        -- apply IH, Hw'.
        -- apply IH, Hw'.
    + cbn [snd]. exact Hw'.
    + cbn [snd]. exact Hw'.
Qed.

Lemma poll_attempts_inv : forall n fuel req payload w, inv w ->
  inv (snd (poll_attempts B sk fuel n req payload w)).
Proof.
  induction n as [|n' IH]; intros fuel req payload w Hi.
  - exact Hi.
  - cbn [poll_attempts].
    pose proof (send_inv _ req payload (do_flush_inv _ Hi)) as Hws.
    destruct (send B (do_flush B w) req payload) as [ok ws]. cbn [snd] in Hws.
    destruct ok; [|apply IH, Hws].
    pose proof (poll_phase_inv fuel req false None (wnow (purge ws) + sdelay (wsrv (purge ws)))
                  _ (purge_inv _ Hws)) as Hwa.
    destruct (poll_phase B sk fuel req false None
                (wnow (purge ws) + sdelay (wsrv (purge ws))) (purge ws)) as [a wa].
    cbn [snd] in Hwa.
    destruct a as [f| |].
    + cbn [snd]. exact Hwa.
    + apply IH, do_recover_inv, Hwa.
    + cbn [snd]. exact Hwa.
Qed.

Lemma set_attempts_inv : forall n fuel mga req payload w, inv w ->
  inv (snd (set_attempts B sk fuel n mga req payload w)).
Proof.
  induction n as [|n' IH]; intros fuel mga req payload w Hi.
  - exact Hi.
  - cbn [set_attempts].
    pose proof (send_inv _ req payload (do_flush_inv _ Hi)) as Hws.
    destruct (send B (do_flush B w) req payload) as [ok ws]. cbn [snd] in Hws.
    destruct ok; [|apply IH, Hws].
    pose proof (wait_inv fuel (wnow (purge ws) + sdelay (wsrv (purge ws))) _ (purge_inv _ Hws)) as Hwa.
    destruct (wait B sk fuel (wnow (purge ws) + sdelay (wsrv (purge ws))) (purge ws)) as [a wa].
    cbn [snd] in Hwa.
    destruct a as [[f|]|].
    + destruct (if mga then check_mga f
                else match check_ack_nak req f with IsAck | IsNak => true | IsOther => false end).
      * cbn [snd]. exact Hwa.
      * apply IH, Hwa.
    + apply IH, do_recover_inv, Hwa.
    + cbn [snd]. exact Hwa.
Qed.

Lemma poll_inv fuel rq w : inv w -> inv (snd (poll B sk fuel rq w)).
Proof.
  intros Hi. unfold poll.
  destruct (pack_body (rq_body rq)) as [payload|ex].
  - apply poll_attempts_inv, with_parser_inv, with_reg_inv, Hi.
  - cbn [snd]. apply with_parser_inv, with_reg_inv, Hi.
Qed.

Lemma set_inv fuel rq w : inv w -> inv (snd (set B sk fuel rq w)).
Proof.
  intros Hi. unfold set.
  destruct (pack_body (rq_body rq)) as [payload|ex].
  - apply set_attempts_inv, with_parser_inv, Hi.
  - cbn [snd]. apply with_parser_inv, Hi.
Qed.

Lemma set_mga_inv fuel rq w : inv w -> inv (snd (set_mga B sk fuel rq w)).
Proof.
  intros Hi. unfold set_mga.
  destruct (pack_body (rq_body rq)) as [payload|ex].
  - apply set_attempts_inv, with_parser_inv, Hi.
  - cbn [snd]. apply with_parser_inv, Hi.
Qed.

Lemma fire_inv rq w : inv w -> inv (snd (fire_and_forget B rq w)).
Proof.
  intros Hi. unfold fire_and_forget.
  destruct (pack_body (rq_body rq)) as [payload|ex].
  - pose proof (send_inv _ (rq_cid rq) payload Hi) as Hws.
    destruct (send B w (rq_cid rq) payload) as [ok ws]. cbn [snd] in Hws |- *. exact Hws.
  - cbn [snd]. exact Hi.
Qed.

Lemma do_request_inv fuel o rq w : inv w -> inv (snd (do_request B sk fuel o rq w)).
Proof.
  intros Hi. destruct o; cbn [do_request].
  - apply poll_inv, Hi.
  - apply set_inv, Hi.
  - apply set_mga_inv, Hi.
  - apply fire_inv, Hi.
Qed.

End Inv.

Lemma l_receive_sent l : l_sent (snd (l_receive l)) = l_sent l.
Proof.
  unfold l_receive. destruct (s_receive (l_script l)) as [[d dt] s']. cbn [snd].
  unfold l_sent. cbn [l_got l_out]. apply app_nil_r.
Qed.

Lemma l_transmit_sent l d :
  l_sent (snd (l_transmit l d)) = l_sent l ++ (if fst (l_transmit l d) then [d] else []).
Proof.
  unfold l_transmit. cbv zeta.
  destruct (future (l_script l)) as [|[ok evs] t]; cbn [fst snd].
  - rewrite tty_flag_all. unfold l_sent. cbn [l_got l_out]. apply app_assoc.
  - destruct ok.
    + rewrite tty_flag_all. unfold l_sent. cbn [l_got l_out]. apply app_assoc.
    + rewrite tty_flag_short. unfold l_sent. cbn [l_got l_out]. symmetry. apply app_nil_r.
Qed.

Lemma l_flush_sent l : l_sent (l_flush l) = l_sent l.
Proof. reflexivity. Qed.

Lemma l_recover_sent l : l_sent (l_recover l) = l_sent l.
Proof. unfold l_recover, tty_recover. destruct (p_open (l_port l)); reflexivity. Qed.

Theorem line_delivers_all : forall sk fuel o rq srv0 now tie l,
  let r := do_request line_backend sk fuel o rq (mkWorld srv0 l now [] tie) in
  l_sent (wenv (snd r)) = l_sent l ++ tx_ok_frames (wtrace (snd r)).
Proof.
  intros sk fuel o rq srv0 now tie l r. subst r.
  apply (do_request_inv line_backend l_sent (l_sent l)
           l_receive_sent l_transmit_sent l_flush_sent l_recover_sent sk fuel o rq
           (mkWorld srv0 l now [] tie)).
  unfold inv. cbn [wenv wtrace tx_ok_frames]. symmetry. apply app_nil_r.
Qed.

(* ------------------------------------------------------------------ 6. a flush that resets the output buffer *)
Definition fb_rq1 : request := mkRequest (6, 4) (BFields []) ("Resp"%string, RK (KFixed [])).
Definition fb_rq2 : request := mkRequest (6, 9) (BFields []) ("Resp"%string, RK (KFixed [])).
Definition fb_line : sline :=
  mkSLine (mkPort true 115200%Z []) 115200%Z (mkScript [] [] 50) [] [].

Theorem flush_both_refuted :
  exists sk fuel rq1 rq2 srv0 l,
    let r1 := do_request flush_both_backend sk fuel RFire rq1 (mkWorld srv0 l 0 [] false) in
    let r2 := do_request flush_both_backend sk fuel RSet rq2 (mkWorld (wsrv (snd r1)) (wenv (snd r1)) (wnow (snd r1)) [] false) in
    l_sent (wenv (snd r2)) <> l_sent l ++ tx_ok_frames (wtrace (snd r1)) ++ tx_ok_frames (wtrace (snd r2)).
Proof.
  exists [], 20%nat, fb_rq1, fb_rq2, (new_srv 0 100), fb_line.
  vm_compute. intro H. discriminate H.
Qed.
