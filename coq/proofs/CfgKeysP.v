(* CfgKeysP.v — proofs about the configuration key/value codec model (CfgKeys.v) against its
   specification side (CfgKeysSpec.v).  Closes props/C13gen.v and props/C14.v. *)
From Coq Require Import Lia ZifyBool ZifyN ZifyNat.
From Ubx Require Import Fields Base CfgKeys CfgKeysSpec.
#[local] Ltac Zify.zify_post_hook ::= Z.to_euclidean_division_equations.
Open Scope N_scope.

(* ------------------------------------------------------------------------- *)
(* 1. Bytes, little-endian codec                                              *)
(* ------------------------------------------------------------------------- *)

Lemma all_bytes_cons b l : all_bytes (b :: l) = true <-> b < 256 /\ all_bytes l = true.
Proof.
  unfold all_bytes. cbn [forallb]. unfold is_byte. rewrite andb_true_iff, N.ltb_lt. tauto.
Qed.

Lemma all_bytes_firstn n : forall l, all_bytes l = true -> all_bytes (firstn n l) = true.
Proof.
  induction n as [|n IH]; intros [|b l] H; cbn [firstn]; try reflexivity.
  apply all_bytes_cons in H as [Hb Hl]. apply all_bytes_cons. split; auto.
Qed.

Lemma all_bytes_skipn n : forall l, all_bytes l = true -> all_bytes (skipn n l) = true.
Proof.
  induction n as [|n IH]; intros [|b l] H; cbn [skipn]; auto.
  apply all_bytes_cons in H as [Hb Hl]. auto.
Qed.

Lemma pow256_S w : pow256 (S w) = 256 * pow256 w.
Proof.
  unfold pow256. rewrite Nat2N.inj_succ, N.mul_succ_r, N.pow_add_r.
  change (2 ^ 8) with 256. lia.
Qed.

Lemma le_enc_length w : forall v, length (le_enc w v) = w.
Proof. induction w as [|w IH]; intros v; cbn [le_enc length]; auto. Qed.

Lemma le_dec_enc w : forall v, v < pow256 w -> le_dec (le_enc w v) = v.
Proof.
  induction w as [|w IH]; intros v Hv.
  - change (pow256 0) with 1 in Hv. cbn [le_enc le_dec]. lia.
  - rewrite pow256_S in Hv. cbn [le_enc le_dec]. rewrite IH by lia. lia.
Qed.

Lemma le_dec_bound l : all_bytes l = true -> le_dec l < pow256 (length l).
Proof.
  induction l as [|b l IH]; intros H.
  - reflexivity.
  - apply all_bytes_cons in H as [Hb Hl]. specialize (IH Hl).
    cbn [length le_dec]. rewrite pow256_S. lia.
Qed.

Lemma le_enc_dec l : all_bytes l = true -> le_enc (length l) (le_dec l) = l.
Proof.
  induction l as [|b l IH]; intros H.
  - reflexivity.
  - apply all_bytes_cons in H as [Hb Hl]. specialize (IH Hl).
    cbn [length le_dec le_enc].
    replace ((b + 256 * le_dec l) mod 256) with b by lia.
    replace ((b + 256 * le_dec l) / 256) with (le_dec l) by lia.
    rewrite IH. reflexivity.
Qed.

(* ------------------------------------------------------------------------- *)
(* 2. Integer codec on the four widths                                        *)
(* ------------------------------------------------------------------------- *)

Definition okw (w : nat) : Prop := (w = 1 \/ w = 2 \/ w = 4 \/ w = 8)%nat.

Lemma pow256_1 : pow256 1 = 256. Proof. reflexivity. Qed.
Lemma pow256_2 : pow256 2 = 65536. Proof. reflexivity. Qed.
Lemma pow256_4 : pow256 4 = 4294967296. Proof. reflexivity. Qed.
Lemma pow256_8 : pow256 8 = 18446744073709551616. Proof. reflexivity. Qed.

Lemma unpack_int_enc s w U : U < pow256 w ->
  unpack_int s w (le_enc w U)
  = Ok (if s && (pow256 w / 2 <=? U) then (Z.of_N U - Z.of_N (pow256 w))%Z else Z.of_N U).
Proof.
  intros HU. unfold unpack_int. rewrite le_enc_length, Nat.eqb_refl, (le_dec_enc w U HU).
  cbn [negb]. destruct (s && (pow256 w / 2 <=? U)); reflexivity.
Qed.

Lemma unpack_int_raise s w bs e : unpack_int s w bs = Raise e -> e = StructError.
Proof.
  unfold unpack_int. destruct (negb (Nat.eqb (length bs) w)).
  - intros H; inversion H; reflexivity.
  - destruct (s && (pow256 w / 2 <=? le_dec bs)); discriminate.
Qed.

Lemma pack_int_raise s w v e : pack_int s w v = Raise e -> e = StructError.
Proof.
  unfold pack_int. destruct v as [z|str].
  - cbv zeta. match goal with |- context [if ?c then _ else _] => destruct c end.
    + discriminate.
    + intros H; inversion H; reflexivity.
  - intros H; inversion H; reflexivity.
Qed.

(* decoding w bytes and re-encoding the integer gives the bytes back *)
Lemma int_reencode sg w s : okw w -> all_bytes s = true -> length s = w ->
  exists z, unpack_int sg w s = Ok z /\ pack_int sg w (VInt z) = Ok s.
Proof.
  intros Hw Hb Hl.
  pose proof (le_dec_bound s Hb) as Hbound. pose proof (le_enc_dec s Hb) as Hre.
  rewrite Hl in Hbound, Hre.
  unfold unpack_int. rewrite Hl, Nat.eqb_refl. cbn [negb].
  remember (le_dec s) as u eqn:Hu. clear Hu Hb Hl.
  destruct (sg && (pow256 w / 2 <=? u)) eqn:E; eexists; (split; [reflexivity|]);
    unfold pack_int; cbv zeta;
    destruct Hw as [-> | [-> | [-> | ->]]];
    rewrite ?pow256_1, ?pow256_2, ?pow256_4, ?pow256_8 in *;
    destruct sg; cbn [andb] in E;
    match goal with
    | |- (if ?c then _ else _) = _ => replace c with true by lia
    end;
    match goal with
    | |- Ok (le_enc _ ?x) = _ => replace x with u by lia
    end; rewrite Hre; reflexivity.
Qed.

(* ------------------------------------------------------------------------- *)
(* 3. Bit-field arithmetic of the 32-bit key id                               *)
(* ------------------------------------------------------------------------- *)

Lemma land_shiftl_low a b n : a < 2 ^ n -> N.land (N.shiftl b n) a = 0.
Proof.
  intros Ha. apply N.bits_inj_0. intros m. rewrite N.land_spec.
  destruct (N.lt_ge_cases m n) as [Hm|Hm].
  - rewrite N.shiftl_spec_low by assumption. reflexivity.
  - rewrite <- (N.mod_small a (2 ^ n)) by assumption.
    rewrite N.mod_pow2_bits_high by assumption. apply andb_false_r.
Qed.

Lemma lor_shiftl_add a b n : a < 2 ^ n -> N.lor (N.shiftl b n) a = b * 2 ^ n + a.
Proof.
  intros Ha. pose proof (land_shiftl_low a b n Ha) as H0.
  rewrite <- (N.lxor_lor _ _ H0), <- (N.add_nocarry_lxor _ _ H0), N.shiftl_mul_pow2.
  reflexivity.
Qed.

Lemma land_shiftl_mask b m n : N.land b (N.shiftl m n) = N.shiftl (N.land (N.shiftr b n) m) n.
Proof.
  apply N.bits_inj. intros j. rewrite N.land_spec.
  destruct (N.lt_ge_cases j n) as [Hj|Hj].
  - rewrite !N.shiftl_spec_low by assumption. apply andb_false_r.
  - rewrite !N.shiftl_spec_high by lia. rewrite N.land_spec, N.shiftr_spec by lia.
    replace (j - n + n) with j by lia. reflexivity.
Qed.

Ltac pow_lits :=
  change (2 ^ 1) with 2 in *; change (2 ^ 3) with 8 in *; change (2 ^ 4) with 16 in *;
  change (2 ^ 8) with 256 in *;
  change (2 ^ 12) with 4096 in *; change (2 ^ 16) with 65536 in *;
  change (2 ^ 24) with 16777216 in *; change (2 ^ 28) with 268435456 in *;
  change (2 ^ 31) with 2147483648 in *; change (2 ^ 32) with 4294967296 in *.

Lemma key_size_arith key : key_size key = (key / 268435456) mod 8.
Proof.
  unfold key_size. change 7 with (N.ones 3). rewrite N.land_ones, N.shiftr_div_pow2.
  reflexivity.
Qed.

Lemma bits_from_key_size key : bits_from_key key = bits_from_size (key_size key).
Proof. reflexivity. Qed.

Lemma group_arith key : group_from_key key = Z.of_N ((key / 65536) mod 256).
Proof.
  unfold group_from_key. change 255 with (N.ones 8). rewrite N.land_ones, N.shiftr_div_pow2.
  reflexivity.
Qed.

Lemma item_arith key : item_from_key key = Z.of_N (key mod 4096).
Proof.
  unfold item_from_key. change 4095 with (N.ones 12). rewrite N.land_ones. reflexivity.
Qed.

Lemma group_range key : (0 <= group_from_key key <= 255)%Z.
Proof. rewrite group_arith. lia. Qed.
Lemma item_range key : (0 <= item_from_key key <= 4095)%Z.
Proof. rewrite item_arith. lia. Qed.

(* the reserved-bit mask, field by field *)
Lemma land_mask key :
  N.land key (2 ^ 31 + 15 * 2 ^ 24 + 15 * 2 ^ 12) = 0
  <-> (key / 2147483648) mod 2 = 0 /\ (key / 16777216) mod 16 = 0 /\ (key / 4096) mod 16 = 0.
Proof.
  change (2 ^ 31 + 15 * 2 ^ 24 + 15 * 2 ^ 12)
    with (N.lor (N.shiftl (N.ones 1) 31) (N.lor (N.shiftl (N.ones 4) 24) (N.shiftl (N.ones 4) 12))).
  rewrite !N.land_lor_distr_r, !land_shiftl_mask, !N.lor_eq_0_iff, !N.shiftl_eq_0_iff.
  rewrite !N.land_ones, !N.shiftr_div_pow2. pow_lits. reflexivity.
Qed.

(* size codes *)
Lemma valid_bits_cases bits : valid_bits bits = true ->
  (bits = 1 \/ bits = 8 \/ bits = 16 \/ bits = 32 \/ bits = 64)%Z.
Proof. unfold valid_bits. lia. Qed.

Lemma size_code_valid bits : valid_bits bits = true ->
  size_from_bits bits = Some (size_code bits) /\ 1 <= size_code bits <= 5.
Proof.
  intros H. apply valid_bits_cases in H.
  destruct H as [-> | [-> | [-> | [-> | ->]]]]; (split; [reflexivity | cbv; intuition discriminate]).
Qed.

Lemma size_code_invalid bits : valid_bits bits = false -> size_from_bits bits = None.
Proof.
  unfold valid_bits, size_from_bits.
  destruct (bits =? 1)%Z; [discriminate|]. destruct (bits =? 8)%Z; [discriminate|].
  destruct (bits =? 16)%Z; [discriminate|]. destruct (bits =? 32)%Z; [discriminate|].
  destruct (bits =? 64)%Z; [discriminate|]. reflexivity.
Qed.

Lemma bits_from_size_code s : 1 <= s <= 5 ->
  size_code (bits_from_size s) = s /\ valid_bits (bits_from_size s) = true.
Proof.
  intros H. assert (Hs : s = 1 \/ s = 2 \/ s = 3 \/ s = 4 \/ s = 5) by lia.
  destruct Hs as [-> | [-> | [-> | [-> | ->]]]]; split; reflexivity.
Qed.

Lemma bits_from_size_nz s : bits_from_size s <> 0%Z -> 1 <= s <= 5.
Proof.
  destruct s as [|[[[p|p|]|[p|p|]|]|[[p|p|]|[p|p|]|]|]]; cbn [bits_from_size];
    intros H; try (exfalso; apply H; reflexivity); lia.
Qed.

Lemma bits_from_size_cases s :
  (bits_from_size s = 0 \/ bits_from_size s = 1
   \/ (bits_from_size s = 8 \/ bits_from_size s = 16 \/ bits_from_size s = 32 \/ bits_from_size s = 64))%Z.
Proof.
  destruct s as [|[[[p|p|]|[p|p|]|]|[[p|p|]|[p|p|]|]|]]; cbn [bits_from_size]; auto 10.
Qed.

Lemma size_code_bits_from_key key : bits_from_key key <> 0%Z ->
  size_code (bits_from_key key) = key_size key /\ valid_bits (bits_from_key key) = true.
Proof.
  rewrite bits_from_key_size. intros H. apply bits_from_size_code, bits_from_size_nz, H.
Qed.

(* build_header computes the specified key id *)
Lemma header_arith s g i : s < 8 -> (0 <= g <= 255)%Z -> (0 <= i <= 4095)%Z ->
  N.lor (N.lor (N.shiftl (N.land s 7) 28) (N.shiftl (Z.to_N (Z.land g 255)) 16))
        (Z.to_N (Z.land i 4095))
  = s * 2 ^ 28 + Z.to_N g * 2 ^ 16 + Z.to_N i.
Proof.
  intros Hs Hg Hi.
  change 255%Z with (Z.ones 8). change 4095%Z with (Z.ones 12). change 7 with (N.ones 3).
  rewrite !Z.land_ones by lia. rewrite N.land_ones.
  change (2 ^ 8)%Z with 256%Z. change (2 ^ 12)%Z with 4096%Z.
  rewrite (Z.mod_small g) by lia. rewrite (Z.mod_small i) by lia.
  rewrite (N.mod_small s) by (pow_lits; lia).
  rewrite <- N.lor_assoc.
  rewrite (lor_shiftl_add (Z.to_N i) (Z.to_N g) 16) by (pow_lits; lia).
  rewrite lor_shiftl_add by (pow_lits; lia).
  lia.
Qed.

Lemma build_header_ok bits g i : valid_bits bits = true ->
  (0 <= g <= 255)%Z -> (0 <= i <= 4095)%Z -> build_header g i bits = Ok (key_id bits g i).
Proof.
  intros Hb Hg Hi. destruct (size_code_valid bits Hb) as [Hsz Hr].
  unfold build_header, key_id. rewrite Hsz, header_arith by (assumption || lia). reflexivity.
Qed.

Lemma key_id_lt bits g i : valid_bits bits = true -> (0 <= g <= 255)%Z -> (0 <= i <= 4095)%Z ->
  key_id bits g i < 2147483648.
Proof.
  intros Hb Hg Hi. destruct (size_code_valid bits Hb) as [_ Hr].
  unfold key_id. pow_lits. lia.
Qed.

Lemma key_fields : forall bits g i,
  valid_bits bits = true -> (0 <= g <= 255)%Z -> (0 <= i <= 4095)%Z ->
  bits_from_key (key_id bits g i) = bits /\ group_from_key (key_id bits g i) = g
  /\ item_from_key (key_id bits g i) = i /\ reserved_zero (key_id bits g i) = true.
Proof.
  intros bits g i Hb Hg Hi.
  pose proof (key_id_lt bits g i Hb Hg Hi) as Hlt.
  destruct (size_code_valid bits Hb) as [_ Hr].
  assert (Hks : key_size (key_id bits g i) = size_code bits).
  { rewrite key_size_arith. unfold key_id. pow_lits. lia. }
  repeat split.
  - rewrite bits_from_key_size, Hks.
    apply valid_bits_cases in Hb. destruct Hb as [-> | [-> | [-> | [-> | ->]]]]; reflexivity.
  - rewrite group_arith. unfold key_id. pow_lits. lia.
  - rewrite item_arith. unfold key_id. pow_lits. lia.
  - unfold reserved_zero. apply andb_true_iff. split.
    + apply N.eqb_eq, land_mask. unfold key_id in *. pow_lits. lia.
    + apply N.ltb_lt. pow_lits. lia.
Qed.

(* every key with zero reserved bits and a valid size code is the id of its own fields *)
Lemma key_id_of_key key : reserved_zero key = true -> 1 <= key_size key <= 5 ->
  key_id (bits_from_key key) (group_from_key key) (item_from_key key) = key.
Proof.
  intros Hrz Hks. unfold reserved_zero in Hrz. apply andb_true_iff in Hrz as [Hm Hlt].
  apply N.eqb_eq, land_mask in Hm. apply N.ltb_lt in Hlt.
  destruct (bits_from_size_code _ Hks) as [Hsc _].
  unfold key_id. rewrite bits_from_key_size, Hsc, group_arith, item_arith, !N2Z.id, key_size_arith.
  pow_lits. lia.
Qed.

(* the four key bytes of a decoded item re-encode with the reserved bits cleared *)
Lemma key_hdr_bytes b0 b1 b2 b3 : b0 < 256 -> b1 < 256 -> b2 < 256 -> b3 < 256 ->
  let key := le_dec [b0; b1; b2; b3] in
  bits_from_key key <> 0%Z ->
  le_enc 4 (key_id (bits_from_key key) (group_from_key key) (item_from_key key))
  = [b0; N.land b1 15; b2; N.land b3 112].
Proof.
  intros H0 H1 H2 H3 key Hnz.
  destruct (size_code_bits_from_key key Hnz) as [Hsc _].
  unfold key_id. rewrite Hsc, group_arith, item_arith, !N2Z.id, key_size_arith.
  change 112 with (N.shiftl (N.ones 3) 4). rewrite land_shiftl_mask.
  change 15 with (N.ones 4). rewrite !N.land_ones, N.shiftl_mul_pow2, N.shiftr_div_pow2.
  pow_lits.
  assert (Hkey : key = b0 + 256 * b1 + 65536 * b2 + 16777216 * b3).
  { unfold key. cbn [le_dec]. lia. }
  clearbody key.
  assert (E1 : key mod 4096 = b0 + 256 * (b1 mod 16)) by lia.
  assert (E2 : (key / 65536) mod 256 = b2) by lia.
  assert (E3 : (key / 268435456) mod 8 = (b3 / 16) mod 8) by lia.
  rewrite E1, E2, E3.
  remember ((b3 / 16) mod 8) as c eqn:Hc. remember (b1 mod 16) as d eqn:Hd.
  assert (c < 8) by lia. assert (d < 16) by lia. clear Hc Hd E1 E2 E3 Hkey.
  set (k := c * 268435456 + b2 * 65536 + (b0 + 256 * d)).
  cbn [le_enc].
  replace (k mod 256) with b0 by (unfold k; lia).
  replace (k / 256 mod 256) with d by (unfold k; lia).
  replace (k / 256 / 256 mod 256) with b2 by (unfold k; lia).
  replace (k / 256 / 256 / 256 mod 256) with (c * 16) by (unfold k; lia).
  reflexivity.
Qed.

(* ------------------------------------------------------------------------- *)
(* 4. Values                                                                  *)
(* ------------------------------------------------------------------------- *)

Definition int_bits (bits : Z) : Prop := (bits = 8 \/ bits = 16 \/ bits = 32 \/ bits = 64)%Z.

Lemma int_bits_facts bits : int_bits bits ->
  (bits =? 1)%Z = false /\ bytes_from_bits bits = Some (value_width bits)
  /\ okw (value_width bits) /\ valid_bits bits = true
  /\ pow256 (value_width bits) = Z.to_N (2 ^ bits).
Proof.
  unfold okw. intros [-> | [-> | [-> | ->]]]; repeat split; cbv; auto.
Qed.

Lemma value_width_pos bits : (1 <= value_width bits)%nat.
Proof.
  unfold value_width.
  destruct (bits =? 16)%Z; [lia|]. destruct (bits =? 32)%Z; [lia|].
  destruct (bits =? 64)%Z; lia.
Qed.

Lemma uv_bad s t : unpack_value 0 s t = Raise ValueError.
Proof. reflexivity. Qed.

Lemma uv_bit s t : unpack_value 1 s t =
  (let* z := unpack_int false 1 (firstn 1 t) in
   if (z =? 0)%Z then Ok (CBool false, 1%nat)
   else if (z =? 1)%Z then Ok (CBool true, 1%nat) else Raise ValueError).
Proof. reflexivity. Qed.

Lemma uv_int bits s t : int_bits bits -> unpack_value bits s t =
  (let* z := unpack_int s (value_width bits) (firstn (value_width bits) t) in
   Ok (CInt z, value_width bits)).
Proof. intros [-> | [-> | [-> | ->]]]; reflexivity. Qed.

Lemma uv_invalid bits s t : valid_bits bits = false -> unpack_value bits s t = Raise ValueError.
Proof.
  unfold valid_bits, unpack_value, bytes_from_bits.
  destruct (bits =? 1)%Z; [discriminate|]. destruct (bits =? 8)%Z; [discriminate|].
  destruct (bits =? 16)%Z; [discriminate|]. destruct (bits =? 32)%Z; [discriminate|].
  destruct (bits =? 64)%Z; [discriminate|]. reflexivity.
Qed.

Lemma unpack_int_1 x : unpack_int false 1 [x] = Ok (Z.of_N x).
Proof.
  unfold unpack_int. cbn [length Nat.eqb negb andb le_dec].
  rewrite N.mul_0_r, N.add_0_r. reflexivity.
Qed.

Lemma unpack_value_raise bits s t e : unpack_value bits s t = Raise e ->
  e = ValueError \/ e = StructError.
Proof.
  unfold unpack_value. destruct (bytes_from_bits bits) as [w|].
  2:{ intros H; inversion H; auto. }
  destruct (bits =? 1)%Z.
  - destruct (unpack_int false 1 (firstn 1 t)) as [z|e'] eqn:E; cbn [bind].
    + destruct (z =? 0)%Z; [discriminate|]. destruct (z =? 1)%Z; [discriminate|].
      intros H; inversion H; auto.
    + intros H; inversion H; subst. right. eapply unpack_int_raise, E.
  - destruct (unpack_int s w (firstn w t)) as [z|e'] eqn:E; cbn [bind].
    + discriminate.
    + intros H; inversion H; subst. right. eapply unpack_int_raise, E.
Qed.

Lemma map_struct_raise {A} (r : res A) e :
  (forall e', r = Raise e' -> e' = ValueError \/ e' = StructError) ->
  map_struct r = Raise e -> e = ValueError.
Proof.
  intros Hr. destruct r as [a|e']; cbn [map_struct].
  - discriminate.
  - destruct (Hr e' eq_refl) as [-> | ->]; intros H; inversion H; reflexivity.
Qed.

Lemma map_struct_ok {A} (r : res A) a : map_struct r = Ok a -> r = Ok a.
Proof. destruct r as [x|[]]; cbn [map_struct]; intros H; inversion H; reflexivity. Qed.

(* a successful value decode: width, prefix-independence and re-encoding *)
Lemma unpack_value_ok bits s t v w g i : all_bytes t = true ->
  unpack_value bits s t = Ok (v, w) ->
  valid_bits bits = true /\ w = value_width bits /\ length (firstn w t) = w
  /\ pack_value (mkItem g i bits s v) = Ok (firstn w t)
  /\ unpack_value bits s (firstn w t) = Ok (v, w).
Proof.
  intros Hb H.
  destruct (valid_bits bits) eqn:Hvb.
  2:{ rewrite uv_invalid in H by assumption. discriminate. }
  apply valid_bits_cases in Hvb.
  destruct Hvb as [-> | Hint].
  - (* one bit *)
    rewrite uv_bit in H. destruct t as [|x t'].
    { cbn in H. discriminate. }
    cbn [firstn] in H. rewrite unpack_int_1 in H. cbn [bind] in H.
    apply all_bytes_cons in Hb as [Hx _].
    destruct (Z.eqb_spec (Z.of_N x) 0) as [E0|E0].
    { inversion H; subst v w. assert (x = 0) by lia. subst x. repeat split; reflexivity. }
    destruct (Z.eqb_spec (Z.of_N x) 1) as [E1|E1].
    { inversion H; subst v w. assert (x = 1) by lia. subst x. repeat split; reflexivity. }
    discriminate.
  - (* integers *)
    fold (int_bits bits) in Hint.
    destruct (int_bits_facts bits Hint) as (Hn1 & Hbfb & Hokw & Hvb & _).
    rewrite uv_int in H by assumption.
    remember (value_width bits) as W eqn:HW.
    destruct (Nat.eqb (length (firstn W t)) W) eqn:E.
    2:{ unfold unpack_int in H. rewrite E in H. cbn [negb bind] in H. discriminate. }
    apply Nat.eqb_eq in E.
    destruct (int_reencode s W (firstn W t) Hokw (all_bytes_firstn W t Hb) E) as (z & Hu & Hp).
    rewrite Hu in H. cbn [bind] in H. inversion H; subst v w.
    repeat split; try assumption.
    + unfold pack_value. cbn [it_bits it_value it_signed as_fval]. rewrite Hn1, Hbfb.
      exact Hp.
    + rewrite uv_int by assumption. rewrite <- HW, firstn_firstn, Nat.min_id, Hu.
      reflexivity.
Qed.

(* in-range integers encode as the two's complement residue *)
Lemma pack_int_ok bits signed v : int_bits bits -> int_in_range bits signed v = true ->
  pack_int signed (value_width bits) (VInt v)
  = Ok (le_enc (value_width bits) (Z.to_N (v mod 2 ^ bits))).
Proof.
  unfold int_in_range, pack_int. cbv zeta.
  intros [-> | [-> | [-> | ->]]] Hr;
    [ change (value_width 8) with 1%nat; rewrite pow256_1;
      change (2 ^ (8 - 1))%Z with 128%Z in Hr; change (2 ^ 8)%Z with 256%Z in *
    | change (value_width 16) with 2%nat; rewrite pow256_2;
      change (2 ^ (16 - 1))%Z with 32768%Z in Hr; change (2 ^ 16)%Z with 65536%Z in *
    | change (value_width 32) with 4%nat; rewrite pow256_4;
      change (2 ^ (32 - 1))%Z with 2147483648%Z in Hr; change (2 ^ 32)%Z with 4294967296%Z in *
    | change (value_width 64) with 8%nat; rewrite pow256_8;
      change (2 ^ (64 - 1))%Z with 9223372036854775808%Z in Hr;
      change (2 ^ 64)%Z with 18446744073709551616%Z in * ];
    destruct signed;
    match goal with
    | |- (if ?c then _ else _) = _ => replace c with true by lia
    end; reflexivity.
Qed.

Lemma pack_int_out_of_range bits signed v : int_bits bits -> int_in_range bits signed v = false ->
  pack_int signed (value_width bits) (VInt v) = Raise StructError.
Proof.
  unfold int_in_range, pack_int. cbv zeta.
  intros [-> | [-> | [-> | ->]]] Hr;
    [ change (value_width 8) with 1%nat; rewrite pow256_1;
      change (2 ^ (8 - 1))%Z with 128%Z in Hr; change (2 ^ 8)%Z with 256%Z in *
    | change (value_width 16) with 2%nat; rewrite pow256_2;
      change (2 ^ (16 - 1))%Z with 32768%Z in Hr; change (2 ^ 16)%Z with 65536%Z in *
    | change (value_width 32) with 4%nat; rewrite pow256_4;
      change (2 ^ (32 - 1))%Z with 2147483648%Z in Hr; change (2 ^ 32)%Z with 4294967296%Z in *
    | change (value_width 64) with 8%nat; rewrite pow256_8;
      change (2 ^ (64 - 1))%Z with 9223372036854775808%Z in Hr;
      change (2 ^ 64)%Z with 18446744073709551616%Z in * ];
    destruct signed;
    match goal with
    | |- (if ?c then _ else _) = _ => replace c with false by lia
    end; reflexivity.
Qed.

(* how the residue reads back under signedness s' *)
Lemma reinterp_eq bits s' v : int_bits bits ->
  let U := Z.to_N (v mod 2 ^ bits) in
  let W := value_width bits in
  U < pow256 W
  /\ (if s' && (pow256 W / 2 <=? U) then (Z.of_N U - Z.of_N (pow256 W))%Z else Z.of_N U)
     = reinterp s' bits v.
Proof.
  unfold reinterp. cbv zeta.
  intros [-> | [-> | [-> | ->]]];
    [ change (value_width 8) with 1%nat; rewrite pow256_1;
      change (2 ^ (8 - 1))%Z with 128%Z; change (2 ^ 8)%Z with 256%Z
    | change (value_width 16) with 2%nat; rewrite pow256_2;
      change (2 ^ (16 - 1))%Z with 32768%Z; change (2 ^ 16)%Z with 65536%Z
    | change (value_width 32) with 4%nat; rewrite pow256_4;
      change (2 ^ (32 - 1))%Z with 2147483648%Z; change (2 ^ 32)%Z with 4294967296%Z
    | change (value_width 64) with 8%nat; rewrite pow256_8;
      change (2 ^ (64 - 1))%Z with 9223372036854775808%Z;
      change (2 ^ 64)%Z with 18446744073709551616%Z ];
    (split; [lia|]); destruct s'; cbn [andb];
    match goal with
    | |- context [(?a <=? ?b)] => destruct (a <=? b) eqn:E1
    | _ => idtac
    end;
    match goal with
    | |- context [(?a <=? ?b)%Z] => destruct (a <=? b)%Z eqn:E2
    | _ => idtac
    end; lia.
Qed.

Lemma reinterp_id : forall s' signed bits v,
  (bits = 8 \/ bits = 16 \/ bits = 32 \/ bits = 64)%Z -> int_in_range bits signed v = true ->
  (s' = signed \/ (0 <= v < 2 ^ (bits - 1))%Z) -> reinterp s' bits v = v.
Proof.
  intros s' signed bits v Hb Hr Hs. unfold reinterp, int_in_range in *. cbv zeta.
  destruct Hb as [-> | [-> | [-> | ->]]];
    [ change (2 ^ (8 - 1))%Z with 128%Z in *; change (2 ^ 8)%Z with 256%Z in *
    | change (2 ^ (16 - 1))%Z with 32768%Z in *; change (2 ^ 16)%Z with 65536%Z in *
    | change (2 ^ (32 - 1))%Z with 2147483648%Z in *; change (2 ^ 32)%Z with 4294967296%Z in *
    | change (2 ^ (64 - 1))%Z with 9223372036854775808%Z in *;
      change (2 ^ 64)%Z with 18446744073709551616%Z in * ];
    destruct s', signed; cbn [andb];
    match goal with
    | |- context [(?a <=? ?b)%Z] => destruct (a <=? b)%Z eqn:E2
    | _ => idtac
    end; lia.
Qed.

(* ------------------------------------------------------------------------- *)
(* 5. Items                                                                   *)
(* ------------------------------------------------------------------------- *)

Lemma pack_item_in_range it :
  (0 <= it_group it <= 255)%Z -> (0 <= it_item it <= 4095)%Z ->
  pack_item_cfg it = map_struct (
    let* h := build_header (it_group it) (it_item it) (it_bits it) in
    let* v := pack_value it in
    Ok (le_enc 4 h ++ v)).
Proof.
  intros Hg Hi. unfold pack_item_cfg.
  destruct ((it_group it <? 0) || (255 <? it_group it))%Z eqn:E1; [lia|].
  destruct ((it_item it <? 0) || (4095 <? it_item it))%Z eqn:E2; [lia|].
  reflexivity.
Qed.

Lemma pack_item_ok g i bits sg v vb :
  (0 <= g <= 255)%Z -> (0 <= i <= 4095)%Z -> valid_bits bits = true ->
  pack_value (mkItem g i bits sg v) = Ok vb ->
  pack_item_cfg (mkItem g i bits sg v) = Ok (le_enc 4 (key_id bits g i) ++ vb).
Proof.
  intros Hg Hi Hb Hpv. rewrite pack_item_in_range by assumption.
  cbn [it_group it_item it_bits]. rewrite build_header_ok by assumption.
  cbn [bind]. rewrite Hpv. reflexivity.
Qed.

Lemma unpack_cons sk b0 b1 b2 b3 t :
  unpack_item_cfg sk (b0 :: b1 :: b2 :: b3 :: t) =
  (let key := le_dec [b0; b1; b2; b3] in
   let* (v, w) := map_struct (unpack_value (bits_from_key key) (sign_of sk key) t) in
   Ok (mkItem (group_from_key key) (item_from_key key) (bits_from_key key) (sign_of sk key) v,
       (4 + w)%nat)).
Proof. reflexivity. Qed.

Lemma unpack_too_short : forall sk bs, (length bs < 4)%nat -> unpack_item_cfg sk bs = Raise ValueError.
Proof.
  intros sk bs H. unfold unpack_item_cfg. apply Nat.ltb_lt in H. rewrite H. reflexivity.
Qed.

Lemma length_ge4 (bs : bytes) : (4 <= length bs)%nat ->
  exists b0 b1 b2 b3 t, bs = b0 :: b1 :: b2 :: b3 :: t.
Proof.
  destruct bs as [|b0 [|b1 [|b2 [|b3 t]]]]; cbn [length]; intros H; try lia.
  do 5 eexists. reflexivity.
Qed.

Lemma unpack_app sk K vb : K < 4294967296 ->
  unpack_item_cfg sk (le_enc 4 K ++ vb) =
  (let* (v, w) := map_struct (unpack_value (bits_from_key K) (sign_of sk K) vb) in
   Ok (mkItem (group_from_key K) (item_from_key K) (bits_from_key K) (sign_of sk K) v,
       (4 + w)%nat)).
Proof.
  intros HK. cbn [le_enc app]. rewrite unpack_cons. cbv zeta.
  change [K mod 256; K / 256 mod 256; K / 256 / 256 mod 256; K / 256 / 256 / 256 mod 256]
    with (le_enc 4 K).
  rewrite (le_dec_enc 4 K) by (rewrite pow256_4; exact HK). reflexivity.
Qed.

Lemma unpack_only_value_error : forall sk bs e, unpack_item_cfg sk bs = Raise e -> e = ValueError.
Proof.
  intros sk bs e. unfold unpack_item_cfg.
  destruct (Nat.ltb (length bs) 4).
  { intros H; inversion H; reflexivity. }
  cbv zeta.
  match goal with |- context [map_struct ?r] => destruct (map_struct r) as [[v w]|e'] eqn:E end;
    cbn [bind].
  - discriminate.
  - intros H; inversion H; subst e'. revert E. apply map_struct_raise.
    intros e'. apply unpack_value_raise.
Qed.

(* a successful item decode: length, re-encoding, dependence on the consumed prefix only *)
Lemma unpack_ok_full sk bs it n : all_bytes bs = true -> unpack_item_cfg sk bs = Ok (it, n) ->
  (5 <= n <= length bs)%nat
  /\ pack_item_cfg it = Ok (clear_reserved (firstn n bs))
  /\ unpack_item_cfg sk (firstn n bs) = Ok (it, n).
Proof.
  intros Hb H.
  destruct (Nat.ltb (length bs) 4) eqn:Hl.
  { apply Nat.ltb_lt in Hl. rewrite unpack_too_short in H by assumption. discriminate. }
  apply Nat.ltb_ge in Hl. destruct (length_ge4 bs Hl) as (b0 & b1 & b2 & b3 & t & ->).
  rewrite unpack_cons in H. cbv zeta in H.
  apply all_bytes_cons in Hb as [H0 Hb]. apply all_bytes_cons in Hb as [H1 Hb].
  apply all_bytes_cons in Hb as [H2 Hb]. apply all_bytes_cons in Hb as [H3 Hb].
  pose proof (key_hdr_bytes b0 b1 b2 b3 H0 H1 H2 H3) as Hhdr. cbv zeta in Hhdr.
  remember (le_dec [b0; b1; b2; b3]) as key eqn:Hkey.
  destruct (map_struct (unpack_value (bits_from_key key) (sign_of sk key) t)) as [[v w]|e] eqn:Hv;
    cbn [bind] in H; [|discriminate].
  inversion H; subst it n. clear H.
  apply map_struct_ok in Hv.
  apply (unpack_value_ok _ _ _ _ _ (group_from_key key) (item_from_key key) Hb) in Hv
    as (Hvb & HW & Hlen & Hpk & Hun).
  assert (Hnz : bits_from_key key <> 0%Z).
  { intros E. rewrite E in Hvb. discriminate. }
  specialize (Hhdr Hnz).
  pose proof (value_width_pos (bits_from_key key)) as Hwp. rewrite <- HW in Hwp.
  pose proof (firstn_length w t) as Hfl. rewrite Hlen in Hfl.
  cbn [firstn Nat.add].
  split; [|split].
  - cbn [length]. lia.
  - rewrite (pack_item_ok _ _ _ _ _ _ (group_range key) (item_range key) Hvb Hpk), Hhdr.
    reflexivity.
  - rewrite unpack_cons. cbv zeta. rewrite <- Hkey, Hun. reflexivity.
Qed.

Lemma unpack_dichotomy : forall sk bs, all_bytes bs = true ->
  unpack_item_cfg sk bs = Raise ValueError
  \/ exists it n, unpack_item_cfg sk bs = Ok (it, n) /\ (n <= length bs)%nat
       /\ pack_item_cfg it = Ok (clear_reserved (firstn n bs)).
Proof.
  intros sk bs Hb. destruct (unpack_item_cfg sk bs) as [[it n]|e] eqn:E.
  - right. destruct (unpack_ok_full sk bs it n Hb E) as (Hn & Hp & _).
    exists it, n. repeat split; [lia | exact Hp].
  - left. f_equal. eapply unpack_only_value_error, E.
Qed.

Lemma unpack_bad_size : forall sk bs, (4 <= length bs)%nat ->
  (let s := key_size (le_dec (firstn 4 bs)) in s = 0 \/ s = 6 \/ s = 7) ->
  unpack_item_cfg sk bs = Raise ValueError.
Proof.
  intros sk bs Hl Hs. cbv zeta in Hs.
  destruct (length_ge4 bs Hl) as (b0 & b1 & b2 & b3 & t & ->).
  cbn [firstn] in Hs. rewrite unpack_cons. cbv zeta.
  rewrite bits_from_key_size.
  destruct Hs as [-> | [-> | ->]]; reflexivity.
Qed.

Lemma unpack_bad_bit : forall sk b0 b1 b2 b3 v rest,
  key_size (le_dec [b0; b1; b2; b3]) = 1 -> v <> 0 -> v <> 1 ->
  unpack_item_cfg sk (b0 :: b1 :: b2 :: b3 :: v :: rest) = Raise ValueError.
Proof.
  intros sk b0 b1 b2 b3 v rest Hs Hv0 Hv1. rewrite unpack_cons. cbv zeta.
  rewrite bits_from_key_size, Hs. change (bits_from_size 1) with 1%Z.
  rewrite uv_bit. cbn [firstn]. rewrite unpack_int_1. cbn [bind].
  destruct (Z.eqb_spec (Z.of_N v) 0) as [E|E]; [lia|].
  destruct (Z.eqb_spec (Z.of_N v) 1) as [E'|E']; [lia|].
  reflexivity.
Qed.

Lemma unpack_short_value : forall sk bs, (4 <= length bs)%nat ->
  (length bs < 4 + value_width (bits_from_key (le_dec (firstn 4 bs))))%nat ->
  unpack_item_cfg sk bs = Raise ValueError.
Proof.
  intros sk bs Hl Hs.
  destruct (length_ge4 bs Hl) as (b0 & b1 & b2 & b3 & t & ->).
  cbn [firstn length] in Hs. rewrite unpack_cons. cbv zeta.
  remember (le_dec [b0; b1; b2; b3]) as key eqn:Hkey.
  destruct (unpack_value (bits_from_key key) (sign_of sk key) t) as [[v w]|e] eqn:E.
  - (* impossible: success needs value_width bytes *)
    exfalso.
    assert (Hw : exists W, (W <= length t)%nat /\ W = value_width (bits_from_key key)).
    { destruct (valid_bits (bits_from_key key)) eqn:Hvb.
      2:{ rewrite uv_invalid in E by assumption. discriminate. }
      apply valid_bits_cases in Hvb. destruct Hvb as [Hb1 | Hint].
      - rewrite Hb1 in E |- *. rewrite uv_bit in E. destruct t as [|x t'].
        + cbn in E. discriminate.
        + exists 1%nat. cbn [length]. split; [lia | reflexivity].
      - rewrite uv_int in E by exact Hint.
        exists (value_width (bits_from_key key)). split; [|reflexivity].
        remember (value_width (bits_from_key key)) as W.
        destruct (Nat.eqb (length (firstn W t)) W) eqn:EW.
        + apply Nat.eqb_eq in EW. rewrite firstn_length in EW. lia.
        + unfold unpack_int in E. rewrite EW in E. cbn [negb bind] in E. discriminate. }
    destruct Hw as (W & HW1 & HW2). lia.
  - cbn [map_struct]. destruct (unpack_value_raise _ _ _ _ E) as [-> | ->]; reflexivity.
Qed.

(* ------------------------------------------------------------------------- *)
(* 6. C13: round trips and key ids                                            *)
(* ------------------------------------------------------------------------- *)

Lemma item_roundtrip : forall sk g i bits signed v,
  (0 <= g <= 255)%Z -> (0 <= i <= 4095)%Z ->
  (bits = 8 \/ bits = 16 \/ bits = 32 \/ bits = 64)%Z ->
  int_in_range bits signed v = true ->
  let s' := sign_of sk (key_id bits g i) in
  exists bs, pack_item_cfg (mkItem g i bits signed (CInt v)) = Ok bs
    /\ length bs = (4 + value_width bits)%nat
    /\ firstn 4 bs = le_enc 4 (key_id bits g i)
    /\ unpack_item_cfg sk bs = Ok (mkItem g i bits s' (CInt (reinterp s' bits v)), length bs).
Proof.
  intros sk g i bits signed v Hg Hi Hbits Hr s'.
  fold (int_bits bits) in Hbits.
  destruct (int_bits_facts bits Hbits) as (Hn1 & Hbfb & Hokw & Hvb & _).
  destruct (key_fields bits g i Hvb Hg Hi) as (Kb & Kg & Ki & _).
  pose proof (key_id_lt bits g i Hvb Hg Hi) as Klt.
  destruct (reinterp_eq bits s' v Hbits) as [HU Hre]. cbv zeta in HU, Hre.
  remember (key_id bits g i) as K eqn:HK.
  remember (value_width bits) as W eqn:HW.
  remember (Z.to_N (v mod 2 ^ bits)) as U eqn:HUdef.
  assert (Hpv : pack_value (mkItem g i bits signed (CInt v)) = Ok (le_enc W U)).
  { unfold pack_value. cbn [it_bits it_value it_signed as_fval]. rewrite Hn1, Hbfb.
    subst W U. apply pack_int_ok; assumption. }
  exists (le_enc 4 K ++ le_enc W U).
  assert (Hlen : length (le_enc 4 K ++ le_enc W U) = (4 + W)%nat).
  { rewrite app_length, !le_enc_length. reflexivity. }
  split; [|split; [|split]].
  - rewrite HK. apply pack_item_ok; assumption.
  - exact Hlen.
  - reflexivity.
  - rewrite Hlen, unpack_app by lia. rewrite Kb, Kg, Ki.
    rewrite uv_int by assumption. rewrite <- HW.
    rewrite firstn_all2 by (rewrite le_enc_length; lia).
    rewrite unpack_int_enc by assumption. cbn [bind map_struct].
    fold s'. rewrite Hre. reflexivity.
Qed.

Lemma bit_roundtrip : forall sk g i b,
  (0 <= g <= 255)%Z -> (0 <= i <= 4095)%Z ->
  exists bs, pack_item_cfg (mkItem g i 1 false (CBool b)) = Ok bs
    /\ length bs = 5%nat /\ firstn 4 bs = le_enc 4 (key_id 1 g i)
    /\ unpack_item_cfg sk bs = Ok (mkItem g i 1 (sign_of sk (key_id 1 g i)) (CBool b), 5%nat).
Proof.
  intros sk g i b Hg Hi.
  assert (Hvb : valid_bits 1 = true) by reflexivity.
  destruct (key_fields 1 g i Hvb Hg Hi) as (Kb & Kg & Ki & _).
  pose proof (key_id_lt 1 g i Hvb Hg Hi) as Klt.
  remember (key_id 1 g i) as K eqn:HK.
  exists (le_enc 4 K ++ [if b then 1 else 0]).
  split; [|split; [|split]].
  - rewrite HK. apply pack_item_ok; try assumption. reflexivity.
  - reflexivity.
  - reflexivity.
  - rewrite unpack_app by lia. rewrite Kb, Kg, Ki. destruct b; reflexivity.
Qed.

Lemma key_encodes : forall sk key v,
  reserved_zero key = true -> 1 <= key_size key <= 5 ->
  let it := from_key sk key (CInt v) in
  it_signed it = sign_of sk key
  /\ key_id (it_bits it) (it_group it) (it_item it) = key
  /\ (it_bits it <> 1%Z -> int_in_range (it_bits it) (it_signed it) v = true ->
      exists vb, pack_item_cfg it = Ok (le_enc 4 key ++ vb) /\ length vb = value_width (it_bits it))
  /\ (it_bits it = 1%Z -> pack_item_cfg it = Ok (le_enc 4 key ++ [if (v =? 0)%Z then 0 else 1])).
Proof.
  intros sk key v Hrz Hks it. subst it. unfold from_key.
  cbn [it_signed it_bits it_group it_item].
  pose proof (key_id_of_key key Hrz Hks) as Hid.
  destruct (bits_from_size_code _ Hks) as [_ Hvb]. rewrite <- bits_from_key_size in Hvb.
  split; [reflexivity|]. split; [exact Hid|]. split.
  - intros Hn1 Hr.
    assert (Hint : int_bits (bits_from_key key)).
    { apply valid_bits_cases in Hvb. destruct Hvb as [E|E]; [contradiction | exact E]. }
    destruct (int_bits_facts _ Hint) as (Hn1' & Hbfb & _).
    assert (Hpv : pack_value (mkItem (group_from_key key) (item_from_key key) (bits_from_key key)
                                     (sign_of sk key) (CInt v))
                  = Ok (le_enc (value_width (bits_from_key key))
                               (Z.to_N (v mod 2 ^ bits_from_key key)))).
    { unfold pack_value. cbn [it_bits it_value it_signed as_fval]. rewrite Hn1', Hbfb.
      apply pack_int_ok; assumption. }
    eexists. split.
    + rewrite (pack_item_ok _ _ _ _ _ _ (group_range key) (item_range key) Hvb Hpv), Hid.
      reflexivity.
    + apply le_enc_length.
  - intros H1.
    assert (Hpv : pack_value (mkItem (group_from_key key) (item_from_key key) (bits_from_key key)
                                     (sign_of sk key) (CInt v))
                  = Ok [if (v =? 0)%Z then 0 else 1]).
    { unfold pack_value. cbn [it_bits it_value truthy]. rewrite H1. cbn [Z.eqb Pos.eqb].
      destruct (v =? 0)%Z; reflexivity. }
    rewrite (pack_item_ok _ _ _ _ _ _ (group_range key) (item_range key) Hvb Hpv), Hid.
    reflexivity.
Qed.

(* ------------------------------------------------------------------------- *)
(* 7. C14: rejections                                                         *)
(* ------------------------------------------------------------------------- *)

Lemma pack_value_raise it e : pack_value it = Raise e -> e = ValueError \/ e = StructError.
Proof.
  unfold pack_value. destruct (it_bits it =? 1)%Z; [discriminate|].
  destruct (bytes_from_bits (it_bits it)) as [w|].
  - destruct (as_fval (it_value it)) as [fv|].
    + intros H. right. eapply pack_int_raise, H.
    + intros H; inversion H; auto.
  - intros H; inversion H; auto.
Qed.

Lemma build_header_raise g i bits e : build_header g i bits = Raise e -> e = ValueError.
Proof.
  unfold build_header. destruct (size_from_bits bits); [discriminate|].
  intros H; inversion H; reflexivity.
Qed.

Lemma pack_only_value_error : forall it e, pack_item_cfg it = Raise e -> e = ValueError.
Proof.
  intros it e. unfold pack_item_cfg.
  destruct ((it_group it <? 0) || (255 <? it_group it))%Z.
  { intros H; inversion H; reflexivity. }
  destruct ((it_item it <? 0) || (4095 <? it_item it))%Z.
  { intros H; inversion H; reflexivity. }
  apply map_struct_raise. intros e'.
  destruct (build_header (it_group it) (it_item it) (it_bits it)) as [h|eh] eqn:Eh; cbn [bind].
  - destruct (pack_value it) as [vb|ev] eqn:Ev; cbn [bind].
    + discriminate.
    + intros H; inversion H; subst ev. eapply pack_value_raise, Ev.
  - intros H; inversion H; subst eh. left. eapply build_header_raise, Eh.
Qed.

Lemma pack_rejects : forall it,
  ((it_group it < 0) \/ (255 < it_group it) \/ (it_item it < 0) \/ (4095 < it_item it)
   \/ valid_bits (it_bits it) = false
   \/ (exists v, it_value it = CInt v /\ it_bits it <> 1 /\ int_in_range (it_bits it) (it_signed it) v = false))%Z ->
  pack_item_cfg it = Raise ValueError.
Proof.
  intros it H. unfold pack_item_cfg.
  destruct ((it_group it <? 0) || (255 <? it_group it))%Z eqn:E1; [reflexivity|].
  destruct ((it_item it <? 0) || (4095 <? it_item it))%Z eqn:E2; [reflexivity|].
  destruct H as [H | [H | [H | [H | H]]]]; try lia.
  destruct (valid_bits (it_bits it)) eqn:Hvb.
  - destruct H as [H | (v & Hv & Hn1 & Hr)]; [discriminate|].
    assert (Hint : int_bits (it_bits it)).
    { apply valid_bits_cases in Hvb. destruct Hvb as [E|E]; [contradiction | exact E]. }
    destruct (int_bits_facts _ Hint) as (Hn1' & Hbfb & _).
    rewrite build_header_ok by (assumption || lia). cbn [bind].
    unfold pack_value. rewrite Hn1', Hbfb, Hv. cbn [as_fval].
    rewrite pack_int_out_of_range by assumption. reflexivity.
  - unfold build_header. rewrite size_code_invalid by assumption. reflexivity.
Qed.

(* ------------------------------------------------------------------------- *)
(* 8. C14: VALSET / VALGET payloads                                           *)
(* ------------------------------------------------------------------------- *)

Lemma pack_items_ok l bss :
  Forall2 (fun it b => pack_item_cfg it = Ok b) l bss -> pack_items l = Ok (concat bss).
Proof.
  induction 1 as [|it b l bss Hit _ IH]; cbn [pack_items concat].
  - reflexivity.
  - rewrite Hit, IH. reflexivity.
Qed.

Lemma valset_ok : forall l bss,
  Forall2 (fun it b => pack_item_cfg it = Ok b) l bss ->
  valset_payload l = Ok ([0; 1; 0; 0] ++ concat bss).
Proof.
  intros l bss H. unfold valset_payload. rewrite (pack_items_ok l bss H). reflexivity.
Qed.

Lemma pack_items_rejects l : Exists (fun it => exists e, pack_item_cfg it = Raise e) l ->
  pack_items l = Raise ValueError.
Proof.
  induction 1 as [it l (e & He) | it l _ IH]; cbn [pack_items].
  - rewrite He. rewrite (pack_only_value_error it e He). reflexivity.
  - destruct (pack_item_cfg it) as [b|e] eqn:E; cbn [bind].
    + rewrite IH. reflexivity.
    + rewrite (pack_only_value_error it e E). reflexivity.
Qed.

Lemma valset_rejects : forall l, Exists (fun it => exists e, pack_item_cfg it = Raise e) l ->
  valset_payload l = Raise ValueError.
Proof.
  intros l H. unfold valset_payload. rewrite (pack_items_rejects l H). reflexivity.
Qed.

Lemma pack_key_ok k : (0 <= k < 2 ^ 32)%Z -> pack_int false 4 (VInt k) = Ok (le_enc 4 (Z.to_N k)).
Proof.
  change (2 ^ 32)%Z with 4294967296%Z. intros Hk. unfold pack_int. cbv zeta.
  rewrite pow256_4.
  match goal with
  | |- (if ?c then _ else _) = _ => replace c with true by lia
  end.
  rewrite Z.mod_small by lia. reflexivity.
Qed.

Lemma valget_poll_ok : forall keys, Forall (fun k => 0 <= k < 2 ^ 32)%Z keys ->
  valget_poll_payload keys = Ok ([0; 0; 0; 0] ++ concat (map (fun k => le_enc 4 (Z.to_N k)) keys)).
Proof.
  intros keys H. unfold valget_poll_payload.
  assert (Hk : pack_keys keys = Ok (concat (map (fun k => le_enc 4 (Z.to_N k)) keys))).
  { induction H as [|k keys Hk _ IH]; cbn [pack_keys map concat].
    - reflexivity.
    - rewrite (pack_key_ok k Hk), IH. reflexivity. }
  rewrite Hk. reflexivity.
Qed.

Lemma unpack_ok_consumes sk work it n : unpack_item_cfg sk work = Ok (it, n) -> (4 <= n)%nat.
Proof.
  unfold unpack_item_cfg. destruct (Nat.ltb (length work) 4); [discriminate|]. cbv zeta.
  match goal with |- context [map_struct ?r] => destruct (map_struct r) as [[v w]|e'] end;
    cbn [bind]; [|discriminate].
  intros H; inversion H. lia.
Qed.

Lemma valget_fuel_gen sk : forall f1 f2 work, (length work <= f1)%nat -> (length work <= f2)%nat ->
  valget_items sk f1 work = valget_items sk f2 work.
Proof.
  induction f1 as [|f1 IH]; intros f2 work H1 H2.
  - assert (work = []) by (destruct work; [reflexivity | cbn [length] in H1; lia]). subst work.
    destruct f2; reflexivity.
  - destruct f2 as [|f2].
    + assert (work = []) by (destruct work; [reflexivity | cbn [length] in H2; lia]). subst work.
      reflexivity.
    + cbn [valget_items]. destruct (Nat.ltb (length work) 4) eqn:Hl; [reflexivity|].
      apply Nat.ltb_ge in Hl.
      destruct (unpack_item_cfg sk work) as [[it n]|e] eqn:E; cbn [bind]; [|reflexivity].
      pose proof (unpack_ok_consumes sk work it n E) as Hn.
      rewrite (IH f2 (skipn n work)) by (rewrite skipn_length; lia). reflexivity.
Qed.

Lemma valget_fuel : forall sk work fuel, (length work <= fuel)%nat ->
  valget_items sk fuel work = valget_items sk (length work) work.
Proof. intros sk work fuel H. apply valget_fuel_gen; lia. Qed.

Lemma valget_items_gen sk : forall fuel work, all_bytes work = true -> (length work <= fuel)%nat ->
  valget_items sk fuel work = Raise ValueError
  \/ exists its chunks tail,
       valget_items sk fuel work = Ok its
       /\ work = concat chunks ++ tail /\ (length tail < 4)%nat
       /\ Forall2 (fun it ch => pack_item_cfg it = Ok (clear_reserved ch)
                                /\ unpack_item_cfg sk ch = Ok (it, length ch)) its chunks.
Proof.
  induction fuel as [|fuel IH]; intros work Hb Hl.
  - assert (work = []) by (destruct work; [reflexivity | cbn [length] in Hl; lia]). subst work.
    right. exists [], [], []. cbn. repeat split; try lia. constructor.
  - cbn [valget_items]. destruct (Nat.ltb (length work) 4) eqn:Hlt.
    { apply Nat.ltb_lt in Hlt. right. exists [], [], work. cbn [concat app].
      repeat split; try assumption. constructor. }
    apply Nat.ltb_ge in Hlt.
    destruct (unpack_item_cfg sk work) as [[it n]|e] eqn:E; cbn [bind].
    2:{ left. f_equal. eapply unpack_only_value_error, E. }
    destruct (unpack_ok_full sk work it n Hb E) as (Hn & Hp & Hu).
    destruct (IH (skipn n work) (all_bytes_skipn n work Hb)) as [Hr | (its & chunks & tail & Hr & Hw & Ht & Hf)].
    { rewrite skipn_length. lia. }
    + left. rewrite Hr. reflexivity.
    + right. exists (it :: its), (firstn n work :: chunks), tail. rewrite Hr. cbn [bind concat].
      split; [reflexivity|]. split; [|split; [exact Ht|]].
      * rewrite <- app_assoc, <- Hw, firstn_skipn. reflexivity.
      * constructor; [|exact Hf]. split; [exact Hp|].
        rewrite firstn_length, Nat.min_l by lia. exact Hu.
Qed.

Lemma valget_items_ok : forall sk work, all_bytes work = true ->
  valget_items sk (length work) work = Raise ValueError
  \/ exists its chunks tail,
       valget_items sk (length work) work = Ok its
       /\ work = concat chunks ++ tail /\ (length tail < 4)%nat
       /\ Forall2 (fun it ch => pack_item_cfg it = Ok (clear_reserved ch)
                                /\ unpack_item_cfg sk ch = Ok (it, length ch)) its chunks.
Proof. intros sk work Hb. apply valget_items_gen; [exact Hb | lia]. Qed.
