(* Safety of the request layer (C04): what poll / set / set_mga return is decoded from a packet
   that a fresh parser with the request's filter delivers from the bytes received after the most
   recent successful transmission; polls return their own class/id decoded as the declared
   response class, CFG polls only after a matching ACK-ACK; set returns ACK-ACK (naming the
   request) or ACK-NAK; set_mga an accepting MGA-ACK; fire_and_forget nothing.
   Self-contained: depends on the model files and the parser proofs only. *)
From Coq Require Import Lia.
From Ubx Require Import Fields Base Checksum Frame ParserUbx ParserUbxSpec CfgKeys Request RequestSpec.
From Ubx Require Import ParserUbxP.
From Ubx Require ParserUbxSound.
From Ubx Require ScriptBackend.

(* ------------------------------------------------------------------ traces *)
Definition rxb (evs : list event) : bytes :=
  flat_map (fun e => match e with Rx (Some d) _ => d | _ => [] end) evs.

Lemma rxb_app a b : rxb (a ++ b) = rxb a ++ rxb b.
Proof. unfold rxb. apply flat_map_app. Qed.

Lemma ralt_app : forall a b,
  rx_after_last_tx (a ++ b) =
  match rx_after_last_tx b with
  | Some s => Some s
  | None => match rx_after_last_tx a with
            | Some s => Some (s ++ rxb b)
            | None => None
            end
  end.
Proof.
  induction a as [|ev a IH]; intros b.
  - cbn [app rx_after_last_tx]. destruct (rx_after_last_tx b); reflexivity.
  - cbn [app rx_after_last_tx]. rewrite IH.
    destruct (rx_after_last_tx b) as [sb|]; [reflexivity|].
    destruct (rx_after_last_tx a) as [sa|]; [reflexivity|].
    destruct ev as [d [|]|d dt| |]; try reflexivity.
    fold (rxb (a ++ b)). fold (rxb a). rewrite rxb_app. reflexivity.
Qed.

Lemma ralt_none_app a b :
  rx_after_last_tx a = None -> rx_after_last_tx b = None -> rx_after_last_tx (a ++ b) = None.
Proof. intros Ha Hb. rewrite ralt_app, Ha, Hb. reflexivity. Qed.

Lemma ralt_keep a b s : rx_after_last_tx b = Some s -> rx_after_last_tx (a ++ b) = Some s.
Proof. intros Hb. rewrite ralt_app, Hb. reflexivity. Qed.

(* one attempt: Flush, successful Tx, then events without a successful Tx *)
Lemma ralt_attempt msg evs :
  rx_after_last_tx evs = None ->
  rx_after_last_tx ([Flush] ++ [Tx msg true] ++ evs) = Some (rxb evs).
Proof.
  intros He. rewrite !ralt_app, He. reflexivity.
Qed.

(* ------------------------------------------------------------------ parser: popping simulation *)
(* [rel pre p q]: p is q after the packets [pre] have been popped from the head of its queue
   (registers may differ where they are dead, the frame counter is free). *)
Definition rel (pre : list pkt) (p q : parser) : Prop :=
  st p = st q /\ pre ++ queue p = queue q /\ filt p = filt q
  /\ (st p = INIT \/ st p = SYNC \/ rg p = rg q).

Lemma rel_step pre p q d : rel pre p q -> rel pre (step p d) (step q d).
Proof.
  intros (Hst & Hq & Hf & Hr).
  destruct p as [s r qu n f], q as [s' r' qu' n' f'].
  cbn [st rg queue rx filt] in Hst, Hq, Hf, Hr. subst s qu' f.
  destruct s'; destruct Hr as [Hr|[Hr|Hr]]; try discriminate Hr; try subst r;
    step_cases; unfold rel; cbn [st rg queue rx filt];
    repeat split; try reflexivity; try solve_disj;
    try (rewrite app_assoc; reflexivity).
Qed.

Lemma rel_process pre d : forall p q, rel pre p q -> rel pre (process p d) (process q d).
Proof.
  induction d as [|x t IH]; intros p q H.
  - exact H.
  - rewrite !process_cons. apply IH, rel_step, H.
Qed.

Lemma filt_step p d : filt (step p d) = filt p.
Proof. destruct p as [s r q n f]. destruct s; step_cases; reflexivity. Qed.

Lemma filt_process d : forall p, filt (process p d) = filt p.
Proof.
  induction d as [|x t IH]; intros p.
  - reflexivity.
  - rewrite process_cons, IH. apply filt_step.
Qed.

Lemma rel_filt pre p F s : rel pre p (process (fresh F) s) -> filt p = F.
Proof. intros (_ & _ & Hf & _). rewrite Hf. apply filt_process. Qed.

Lemma rel_purge p : rel [] (restart (empty_queue p)) (process (fresh (filt p)) []).
Proof.
  unfold rel, restart, empty_queue, with_st, fresh, process.
  cbn [fold_left st rg queue rx filt app]. auto.
Qed.

Lemma rel_feed pre p F stream data dt :
  rel pre p (process (fresh F) stream) ->
  rel pre (match nonempty data with Some d => process p d | None => p end)
      (process (fresh F) (stream ++ rxb [Rx data dt])).
Proof.
  intros H. unfold rxb. cbn [flat_map]. rewrite app_nil_r.
  destruct data as [[|b d]|]; cbn [nonempty].
  - rewrite app_nil_r. exact H.
  - rewrite process_app. apply rel_process, H.
  - rewrite app_nil_r. exact H.
Qed.

Definition optl {A} (x : option A) : list A := match x with Some y => [y] | None => [] end.

Lemma rel_packet pre p q x p' :
  rel pre p q -> packet p = (x, p') -> rel (pre ++ optl x) p' q.
Proof.
  intros (Hst & Hq & Hf & Hr) Hp. unfold packet in Hp.
  destruct (queue p) as [|y t] eqn:Eq; inversion Hp; subst x p'; clear Hp; cbn [optl].
  - rewrite app_nil_r. unfold rel. rewrite Eq. auto.
  - unfold rel. cbn [st rg queue rx filt]. rewrite <- app_assoc. cbn [app]. auto.
Qed.

(* ------------------------------------------------------------------ _wait *)
Section Req.
Context {E : Type} (B : backend E) (sk : list N).

Definition pkt_of (f : rframe) : pkt := Pkt (fst (rf_cid f)) (snd (rf_cid f)) (rf_payload f).
(* f was built by the factory: class registered for its CID, decoded from its payload *)
Definition fr_ok (reg : registry) (f : rframe) : Prop :=
  exists rk, reg_lookup reg (rf_cid f) = Some (rf_name f, rk)
             /\ build_with_data sk rk (rf_payload f) = Ok (rf_dec f).

Lemma wait_inv F : forall fuel deadline w r w' stream popped,
  wait B sk fuel deadline w = (r, w') ->
  rel popped (sparser (wsrv w)) (process (fresh F) stream) ->
  exists evs pp,
    wtrace w' = wtrace w ++ evs
    /\ rx_after_last_tx evs = None
    /\ rel (popped ++ pp) (sparser (wsrv w')) (process (fresh F) (stream ++ rxb evs))
    /\ sreg (wsrv w') = sreg (wsrv w)
    /\ (forall f, r = Some (Some f) ->
          fr_ok (sreg (wsrv w)) f /\ exists pp0, pp = pp0 ++ [pkt_of f]).
Proof.
  induction fuel as [|k IH]; intros deadline w r w' stream popped H Hrel.
  - cbn [wait] in H. inversion H; subst r w'; clear H.
    exists [], []. rewrite !app_nil_r.
    split; [reflexivity|]. split; [reflexivity|]. split; [exact Hrel|]. split; [reflexivity|].
    intros f Hf; discriminate Hf.
  - cbn [wait wnow wsrv wenv wtrace wtie log with_parser sparser sreg sretries sdelay] in H.
    destruct (wnow w <? deadline) eqn:Hlt.
    + destruct (receive B (wenv w)) as [[data dt] e'] eqn:Hrecv.
      pose proof (rel_feed popped _ F stream data dt Hrel) as Hrel1.
      destruct (packet (match nonempty data with Some d => process (sparser (wsrv w)) d | None => sparser (wsrv w) end)) as [x p'] eqn:Hpk.
      pose proof (rel_packet _ _ _ _ _ Hrel1 Hpk) as Hrel2.
      match type of H with context [wait B sk k deadline ?W] =>
        remember W as w1 eqn:Hw1 end.
      assert (Ht1 : wtrace w1 = wtrace w ++ [Rx data dt]) by (subst w1; reflexivity).
      assert (Hs1 : sreg (wsrv w1) = sreg (wsrv w)) by (subst w1; reflexivity).
      assert (Hp1 : sparser (wsrv w1) = p') by (subst w1; reflexivity).
      clear Hw1. rewrite <- Hp1 in Hrel2.
      assert (Hrec : wait B sk k deadline w1 = (r, w') ->
        exists evs pp,
          wtrace w' = wtrace w ++ evs
          /\ rx_after_last_tx evs = None
          /\ rel (popped ++ pp) (sparser (wsrv w')) (process (fresh F) (stream ++ rxb evs))
          /\ sreg (wsrv w') = sreg (wsrv w)
          /\ (forall f, r = Some (Some f) ->
                fr_ok (sreg (wsrv w)) f /\ exists pp0, pp = pp0 ++ [pkt_of f])).
      { intros Hw.
        destruct (IH _ _ _ _ _ _ Hw Hrel2) as (evs & pp & Htr & Hno & Hrel' & Hreg & Hfr).
        exists (Rx data dt :: evs), (optl x ++ pp).
        split; [rewrite Htr, Ht1, <- app_assoc; reflexivity|].
        split; [apply (ralt_none_app [Rx data dt] evs); [reflexivity | exact Hno]|].
        split.
        { change (Rx data dt :: evs) with ([Rx data dt] ++ evs).
          rewrite rxb_app, !app_assoc. exact Hrel'. }
        split; [rewrite Hreg; exact Hs1|].
        intros f Hf. destruct (Hfr f Hf) as (Hok & pp0 & Hpp). rewrite Hs1 in Hok.
        split; [exact Hok|]. exists (optl x ++ pp0). rewrite Hpp, app_assoc. reflexivity. }
      destruct x as [[c i payload|]|]; [|apply Hrec, H|apply Hrec, H].
      destruct (is_crc_marker (Pkt c i payload)); [apply Hrec, H|].
      destruct (reg_lookup (sreg (wsrv w)) (c, i)) as [[name rk]|] eqn:Hlk; [|apply Hrec, H].
      destruct (build_with_data sk rk payload) as [d|ex] eqn:Hbd; [|apply Hrec, H].
      inversion H; subst r w'; clear H Hrec.
      exists [Rx data dt], (optl (Some (Pkt c i payload))).
      split; [exact Ht1|]. split; [reflexivity|]. split; [exact Hrel2|]. split; [exact Hs1|].
      intros f Hf. inversion Hf; subst f; clear Hf. split.
      * exists rk. cbn [rf_cid rf_name rf_payload rf_dec]. split; assumption.
      * exists []. reflexivity.
    + inversion H; subst r w'; clear H.
      exists [], []. cbn [wtrace wsrv]. rewrite !app_nil_r.
      split; [reflexivity|]. split; [reflexivity|]. split; [exact Hrel|]. split; [reflexivity|].
      intros f Hf; discriminate Hf.
Qed.


(* ------------------------------------------------------------------ world bookkeeping *)
Lemma send_facts (w : world E) c payload ok w1 :
  send B w c payload = (ok, w1) ->
  exists msg, wtrace w1 = wtrace w ++ [Tx msg ok] /\ wsrv w1 = wsrv w.
Proof.
  unfold send. intros H.
  destruct (transmit B (wenv w) (fst (to_bytes (new_frame (fst c) (snd c) payload)))) as [ok' e'].
  inversion H; subst ok w1; clear H. eexists. split; reflexivity.
Qed.

Lemma rel_after_purge (w : world E) F :
  filt (sparser (wsrv w)) = F ->
  rel [] (sparser (wsrv (purge w))) (process (fresh F) []).
Proof. intros <-. apply rel_purge. Qed.

(* ------------------------------------------------------------------ set / set_mga *)
Definition accept (mga : bool) (req : cid) (f : rframe) : bool :=
  if mga then check_mga f
  else match check_ack_nak req f with IsAck | IsNak => true | IsOther => false end.

Lemma set_attempts_inv F reg fuel mga req payload : forall n w f w',
  filt (sparser (wsrv w)) = F -> sreg (wsrv w) = reg ->
  set_attempts B sk fuel n mga req payload w = (Return (Some f), w') ->
  exists tr stream,
    wtrace w' = wtrace w ++ tr
    /\ rx_after_last_tx tr = Some stream
    /\ sreg (wsrv w') = reg
    /\ fr_ok reg f
    /\ In (pkt_of f) (queue (process (fresh F) stream))
    /\ accept mga req f = true.
Proof.
  induction n as [|n IH]; intros w f w' HF Hreg H.
  - cbn [set_attempts] in H. inversion H.
  - cbn [set_attempts] in H.
    destruct (send B (do_flush B w) req payload) as [ok w2] eqn:Hs.
    destruct (send_facts _ _ _ _ _ Hs) as (msg & Ht2 & Hsrv2).
    assert (Ht2' : wtrace w2 = wtrace w ++ [Flush] ++ [Tx msg ok]).
    { rewrite Ht2. cbn [do_flush log wtrace]. rewrite <- app_assoc. reflexivity. }
    assert (HF2 : filt (sparser (wsrv w2)) = F) by (rewrite Hsrv2; exact HF).
    assert (Hreg2 : sreg (wsrv w2) = reg) by (rewrite Hsrv2; exact Hreg).
    clear Hs Ht2 Hsrv2.
    destruct ok.
    + destruct (wait B sk fuel (wnow (purge w2) + sdelay (wsrv (purge w2))) (purge w2))
        as [r w3] eqn:Hw.
      destruct (wait_inv F _ _ _ _ _ [] [] Hw (rel_after_purge w2 F HF2))
        as (evs & pp & Htr & Hno & Hrel & Hreg3 & Hfr).
      cbn [app] in Hrel, Htr.
      change (wtrace (purge w2)) with (wtrace w2) in Htr.
      change (sreg (wsrv (purge w2))) with (sreg (wsrv w2)) in Hreg3, Hfr.
      rewrite Hreg2 in Hreg3, Hfr.
      assert (HF3 : filt (sparser (wsrv w3)) = F) by (apply (rel_filt _ _ _ _ Hrel)).
      destruct r as [[f0|]|].
      * change (if mga then check_mga f0
                else match check_ack_nak req f0 with IsAck | IsNak => true | IsOther => false end)
          with (accept mga req f0) in H.
        destruct (accept mga req f0) eqn:Hacc.
        -- inversion H; subst f0 w3; clear H.
           destruct (Hfr f eq_refl) as (Hok & pp0 & Hpp).
           exists ([Flush] ++ [Tx msg true] ++ evs), (rxb evs).
           split; [rewrite Htr, Ht2', <- !app_assoc; reflexivity|].
           split; [apply ralt_attempt, Hno|].
           split; [exact Hreg3|]. split; [exact Hok|]. split; [|exact Hacc].
           destruct Hrel as (_ & Hq & _). rewrite <- Hq, Hpp.
           apply in_or_app. left. apply in_or_app. right. left. reflexivity.
        -- destruct (IH _ _ _ HF3 Hreg3 H) as (tr & stream & Htr' & Hra & Hreg' & Hrest).
           exists (([Flush] ++ [Tx msg true] ++ evs) ++ tr), stream.
           split; [rewrite Htr', Htr, Ht2', <- !app_assoc; reflexivity|].
           split; [apply ralt_keep, Hra|]. split; [exact Hreg'|]. exact Hrest.
      * destruct (IH (do_recover B w3) _ _ HF3 Hreg3 H) as (tr & stream & Htr' & Hra & Hreg' & Hrest).
        exists (([Flush] ++ [Tx msg true] ++ evs ++ [Recover]) ++ tr), stream.
        split.
        { rewrite Htr'. cbn [do_recover log wtrace]. rewrite Htr, Ht2', <- !app_assoc. reflexivity. }
        split; [apply ralt_keep, Hra|]. split; [exact Hreg'|]. exact Hrest.
      * inversion H.
    + destruct (IH _ _ _ HF2 Hreg2 H) as (tr & stream & Htr' & Hra & Hreg' & Hrest).
      exists (([Flush] ++ [Tx msg false]) ++ tr), stream.
      split; [rewrite Htr', Ht2', <- !app_assoc; reflexivity|].
      split; [apply ralt_keep, Hra|]. split; [exact Hreg'|]. exact Hrest.
Qed.

(* ------------------------------------------------------------------ poll *)
(* after the response f, an ACK-ACK for the request was popped *)
Definition acked (reg : registry) (req : cid) (f : rframe) (popped : list pkt) : Prop :=
  exists q1 q2 fa,
    popped = q1 ++ [pkt_of f] ++ q2 ++ [pkt_of fa]
    /\ check_ack_nak req fa = IsAck /\ fr_ok reg fa.

Definition resp_ok (reg : registry) (req : cid) (resp : option rframe) (popped : list pkt) : Prop :=
  forall r, resp = Some r ->
    rf_cid r = req /\ fr_ok reg r /\ exists q1 q2, popped = q1 ++ [pkt_of r] ++ q2.

Lemma poll_phase_inv F reg req : forall fuel ackp resp deadline w res w' stream popped,
  poll_phase B sk fuel req ackp resp deadline w = (res, w') ->
  sreg (wsrv w) = reg ->
  rel popped (sparser (wsrv w)) (process (fresh F) stream) ->
  (ackp = true -> resp_ok reg req resp popped) ->
  exists evs pp,
    wtrace w' = wtrace w ++ evs
    /\ rx_after_last_tx evs = None
    /\ rel (popped ++ pp) (sparser (wsrv w')) (process (fresh F) (stream ++ rxb evs))
    /\ sreg (wsrv w') = reg
    /\ (forall f, res = AOk f ->
          rf_cid f = req /\ fr_ok reg f /\ In (pkt_of f) (popped ++ pp)
          /\ (is_cfg req = true -> acked reg req f (popped ++ pp))).
Proof.
  induction fuel as [|k IH]; intros ackp resp deadline w res w' stream popped H Hreg Hrel Hresp.
  - cbn [poll_phase] in H. inversion H; subst res w'; clear H.
    exists [], []. rewrite !app_nil_r.
    split; [reflexivity|]. split; [reflexivity|]. split; [exact Hrel|]. split; [exact Hreg|].
    intros f Hf; discriminate Hf.
  - cbn [poll_phase] in H.
    destruct (wait B sk (S k) deadline w) as [r w1] eqn:Hw.
    destruct (wait_inv F _ _ _ _ _ _ _ Hw Hrel) as (evs1 & pp1 & Htr1 & Hno1 & Hrel1 & Hreg1 & Hfr1).
    rewrite Hreg in Hreg1, Hfr1. clear Hw.
    (* the wait itself ends the phase without a frame *)
    assert (Hstop : forall e, (forall f, e <> AOk f) -> (e, w1) = (res, w') ->
      exists evs pp,
        wtrace w' = wtrace w ++ evs
        /\ rx_after_last_tx evs = None
        /\ rel (popped ++ pp) (sparser (wsrv w')) (process (fresh F) (stream ++ rxb evs))
        /\ sreg (wsrv w') = reg
        /\ (forall f, res = AOk f ->
              rf_cid f = req /\ fr_ok reg f /\ In (pkt_of f) (popped ++ pp)
              /\ (is_cfg req = true -> acked reg req f (popped ++ pp)))).
    { intros e He Heq. inversion Heq; subst res w'; clear Heq.
      exists evs1, pp1.
      split; [exact Htr1|]. split; [exact Hno1|]. split; [exact Hrel1|]. split; [exact Hreg1|].
      intros f Hf. exfalso. exact (He f Hf). }
    (* the phase goes on *)
    assert (Hrec : forall ackp' resp' deadline',
      poll_phase B sk k req ackp' resp' deadline' w1 = (res, w') ->
      (ackp' = true -> resp_ok reg req resp' (popped ++ pp1)) ->
      exists evs pp,
        wtrace w' = wtrace w ++ evs
        /\ rx_after_last_tx evs = None
        /\ rel (popped ++ pp) (sparser (wsrv w')) (process (fresh F) (stream ++ rxb evs))
        /\ sreg (wsrv w') = reg
        /\ (forall f, res = AOk f ->
              rf_cid f = req /\ fr_ok reg f /\ In (pkt_of f) (popped ++ pp)
              /\ (is_cfg req = true -> acked reg req f (popped ++ pp)))).
    { intros ackp' resp' deadline' Hp Hr'.
      destruct (IH _ _ _ _ _ _ _ _ Hp Hreg1 Hrel1 Hr')
        as (evs2 & pp2 & Htr2 & Hno2 & Hrel2 & Hreg2 & Hres2).
      exists (evs1 ++ evs2), (pp1 ++ pp2).
      split; [rewrite Htr2, Htr1, <- app_assoc; reflexivity|].
      split; [apply ralt_none_app; assumption|].
      split; [rewrite rxb_app, !app_assoc; exact Hrel2|].
      split; [exact Hreg2|].
      rewrite app_assoc. exact Hres2. }
    destruct r as [[f0|]|];
      [| apply (Hstop ATimeout); [intros f; discriminate | exact H]
       | apply (Hstop AFuel); [intros f; discriminate | exact H]].
    destruct (Hfr1 f0 eq_refl) as (Hok0 & pp0 & Hpp0).
    destruct ackp; cbn [negb] in H.
    + (* waiting for the ACK *)
      specialize (Hresp eq_refl).
      assert (Hresp' : true = true -> resp_ok reg req resp (popped ++ pp1)).
      { intros _ r0 Hr0. destruct (Hresp r0 Hr0) as (Hc & Hok & q1 & q2 & Hpop).
        split; [exact Hc|]. split; [exact Hok|].
        exists q1, (q2 ++ pp1). rewrite Hpop, <- !app_assoc. reflexivity. }
      destruct (check_ack_nak req f0) eqn:Hck;
        [| apply (Hrec true resp deadline H Hresp') | apply (Hrec true resp deadline H Hresp')].
      destruct resp as [r0|]; [| apply (Hstop ATimeout); [intros f; discriminate | exact H]].
      inversion H; subst res w'; clear H.
      destruct (Hresp r0 eq_refl) as (Hc & Hok & q1 & q2 & Hpop).
      exists evs1, pp1.
      split; [exact Htr1|]. split; [exact Hno1|]. split; [exact Hrel1|]. split; [exact Hreg1|].
      intros f Hf. inversion Hf; subst f; clear Hf.
      split; [exact Hc|]. split; [exact Hok|]. split.
      * rewrite Hpop. apply in_or_app. left. apply in_or_app. right. left. reflexivity.
      * intros _. exists q1, (q2 ++ pp0), f0.
        split; [rewrite Hpop, Hpp0, <- !app_assoc; reflexivity|].
        split; [exact Hck | exact Hok0].
    + (* waiting for the response *)
      destruct (cid_eqb (rf_cid f0) req) eqn:Hc;
        [| apply (Hrec false resp deadline H); intros Hd; discriminate Hd].
      apply cid_eqb_eq in Hc.
      destruct (fst req =? CLASS_CFG) eqn:Hcfg.
      * apply (Hrec true (Some f0) _ H). intros _ r0 Hr0. inversion Hr0; subst r0; clear Hr0.
        split; [exact Hc|]. split; [exact Hok0|].
        exists (popped ++ pp0), []. rewrite Hpp0, app_nil_r, <- app_assoc. reflexivity.
      * inversion H; subst res w'; clear H.
        exists evs1, pp1.
        split; [exact Htr1|]. split; [exact Hno1|]. split; [exact Hrel1|]. split; [exact Hreg1|].
        intros f Hf. inversion Hf; subst f; clear Hf.
        split; [exact Hc|]. split; [exact Hok0|]. split.
        -- rewrite Hpp0. apply in_or_app. right. apply in_or_app. right. left. reflexivity.
        -- unfold is_cfg. rewrite Hcfg. intros Hd; discriminate Hd.
Qed.

(* what a successful poll delivers *)
Definition poll_res (reg : registry) (F : option (list cid)) (req : cid) (f : rframe)
           (stream : bytes) : Prop :=
  rf_cid f = req /\ fr_ok reg f
  /\ exists popped rest,
       queue (process (fresh F) stream) = popped ++ rest
       /\ In (pkt_of f) popped
       /\ (is_cfg req = true -> acked reg req f popped).

Lemma poll_attempts_inv F reg fuel req payload : forall n w f w',
  filt (sparser (wsrv w)) = F -> sreg (wsrv w) = reg ->
  poll_attempts B sk fuel n req payload w = (Return (Some f), w') ->
  exists tr stream,
    wtrace w' = wtrace w ++ tr
    /\ rx_after_last_tx tr = Some stream
    /\ sreg (wsrv w') = reg
    /\ poll_res reg F req f stream.
Proof.
  induction n as [|n IH]; intros w f w' HF Hreg H.
  - cbn [poll_attempts] in H. inversion H.
  - cbn [poll_attempts] in H.
    destruct (send B (do_flush B w) req payload) as [ok w2] eqn:Hs.
    destruct (send_facts _ _ _ _ _ Hs) as (msg & Ht2 & Hsrv2).
    assert (Ht2' : wtrace w2 = wtrace w ++ [Flush] ++ [Tx msg ok]).
    { rewrite Ht2. cbn [do_flush log wtrace]. rewrite <- app_assoc. reflexivity. }
    assert (HF2 : filt (sparser (wsrv w2)) = F) by (rewrite Hsrv2; exact HF).
    assert (Hreg2 : sreg (wsrv w2) = reg) by (rewrite Hsrv2; exact Hreg).
    clear Hs Ht2 Hsrv2.
    destruct ok.
    + destruct (poll_phase B sk fuel req false None
                  (wnow (purge w2) + sdelay (wsrv (purge w2))) (purge w2)) as [res w3] eqn:Hp.
      assert (Hnoresp : false = true -> resp_ok reg req None []) by (intros Hd; discriminate Hd).
      destruct (poll_phase_inv F reg req _ _ _ _ _ _ _ [] [] Hp Hreg2 (rel_after_purge w2 F HF2) Hnoresp)
        as (evs & pp & Htr & Hno & Hrel & Hreg3 & Hres).
      cbn [app] in Hrel, Htr, Hres.
      change (wtrace (purge w2)) with (wtrace w2) in Htr.
      assert (HF3 : filt (sparser (wsrv w3)) = F) by (apply (rel_filt _ _ _ _ Hrel)).
      destruct res as [f0| |].
      * inversion H; subst f0 w3; clear H.
        destruct (Hres f eq_refl) as (Hc & Hok & Hin & Hack).
        exists ([Flush] ++ [Tx msg true] ++ evs), (rxb evs).
        split; [rewrite Htr, Ht2', <- !app_assoc; reflexivity|].
        split; [apply ralt_attempt, Hno|].
        split; [exact Hreg3|].
        split; [exact Hc|]. split; [exact Hok|].
        destruct Hrel as (_ & Hq & _).
        exists pp, (queue (sparser (wsrv w'))).
        split; [symmetry; exact Hq|]. split; [exact Hin | exact Hack].
      * destruct (IH (do_recover B w3) _ _ HF3 Hreg3 H) as (tr & stream & Htr' & Hra & Hreg' & Hrest).
        exists (([Flush] ++ [Tx msg true] ++ evs ++ [Recover]) ++ tr), stream.
        split.
        { rewrite Htr'. cbn [do_recover log wtrace]. rewrite Htr, Ht2', <- !app_assoc. reflexivity. }
        split; [apply ralt_keep, Hra|]. split; [exact Hreg'|]. exact Hrest.
      * inversion H.
    + destruct (IH _ _ _ HF2 Hreg2 H) as (tr & stream & Htr' & Hra & Hreg' & Hrest).
      exists (([Flush] ++ [Tx msg false]) ++ tr), stream.
      split; [rewrite Htr', Ht2', <- !app_assoc; reflexivity|].
      split; [apply ralt_keep, Hra|]. split; [exact Hreg'|]. exact Hrest.
Qed.

End Req.

(* ------------------------------------------------------------------ the four request kinds *)
Lemma pair_eta {A C} (x : A * C) a : fst x = a -> x = (a, snd x).
Proof. destruct x; cbn [fst snd]; intros ->; reflexivity. Qed.

Lemma new_events_eq {E} (w w' : world E) tr : wtrace w' = wtrace w ++ tr -> new_events w w' = tr.
Proof. intros H. unfold new_events. rewrite H. apply skipn_length_app. Qed.

Lemma poll_inv {E} (B : backend E) sk fuel rq w f w' :
  poll B sk fuel rq w = (Return (Some f), w') ->
  let reg := reg_register (sreg (wsrv w)) (rq_cid rq) (rq_resp rq) in
  exists tr stream,
    wtrace w' = wtrace w ++ tr
    /\ rx_after_last_tx tr = Some stream
    /\ sreg (wsrv w') = reg
    /\ poll_res sk reg (Some (poll_filter (rq_cid rq))) (rq_cid rq) f stream.
Proof.
  intros H reg. unfold poll in H. cbv zeta in H.
  destruct (pack_body (rq_body rq)) as [payload|e]; [|inversion H].
  apply (poll_attempts_inv B sk (Some (poll_filter (rq_cid rq))) reg) in H;
    [exact H | reflexivity | reflexivity].
Qed.

Lemma set_inv {E} (B : backend E) sk fuel rq w f w' :
  set B sk fuel rq w = (Return (Some f), w') ->
  exists tr stream,
    wtrace w' = wtrace w ++ tr
    /\ rx_after_last_tx tr = Some stream
    /\ sreg (wsrv w') = sreg (wsrv w)
    /\ fr_ok sk (sreg (wsrv w)) f
    /\ In (pkt_of f) (queue (process (fresh (Some [CID_ACK; CID_NAK])) stream))
    /\ accept false (rq_cid rq) f = true.
Proof.
  intros H. unfold set in H. cbv zeta in H.
  destruct (pack_body (rq_body rq)) as [payload|e]; [|inversion H].
  apply (set_attempts_inv B sk (Some [CID_ACK; CID_NAK]) (sreg (wsrv w))) in H;
    [exact H | reflexivity | reflexivity].
Qed.

Lemma set_mga_inv {E} (B : backend E) sk fuel rq w f w' :
  set_mga B sk fuel rq w = (Return (Some f), w') ->
  exists tr stream,
    wtrace w' = wtrace w ++ tr
    /\ rx_after_last_tx tr = Some stream
    /\ sreg (wsrv w') = sreg (wsrv w)
    /\ fr_ok sk (sreg (wsrv w)) f
    /\ In (pkt_of f) (queue (process (fresh (Some [CID_MGA_ACK])) stream))
    /\ accept true (rq_cid rq) f = true.
Proof.
  intros H. unfold set_mga in H. cbv zeta in H.
  destruct (pack_body (rq_body rq)) as [payload|e]; [|inversion H].
  apply (set_attempts_inv B sk (Some [CID_MGA_ACK]) (sreg (wsrv w))) in H;
    [exact H | reflexivity | reflexivity].
Qed.

Lemma fire_inv {E} (B : backend E) rq (w : world E) f : fst (fire_and_forget B rq w) <> Return (Some f).
Proof.
  unfold fire_and_forget.
  destruct (pack_body (rq_body rq)) as [payload|e]; [|intros H; inversion H].
  destruct (send B w (rq_cid rq) payload) as [ok w1]. intros H; inversion H.
Qed.

(* ------------------------------------------------------------------ C04: returned_is_fresh *)
Theorem returned_is_fresh : forall E (B : backend E) sk fuel o rq w f,
  fst (do_request B sk fuel o rq w) = Return (Some f) ->
  let w' := snd (do_request B sk fuel o rq w) in
  let filt := match o with RPoll => poll_filter (rq_cid rq) | RSet => [CID_ACK; CID_NAK]
                         | RSetMga => [CID_MGA_ACK] | RFire => [] end in
  exists stream name rk,
    rx_after_last_tx (new_events w w') = Some stream
    /\ In (Pkt (fst (rf_cid f)) (snd (rf_cid f)) (rf_payload f)) (queue (process (fresh (Some filt)) stream))
    /\ reg_lookup (sreg (wsrv w')) (rf_cid f) = Some (name, rk)
    /\ rf_name f = name /\ build_with_data sk rk (rf_payload f) = Ok (rf_dec f).
Proof.
  intros E B sk fuel o rq w f H w' fl.
  assert (H' : do_request B sk fuel o rq w = (Return (Some f), w')) by (apply pair_eta, H).
  clearbody w'. clear H.
  destruct o; cbn [do_request] in H'; subst fl.
  - destruct (poll_inv _ _ _ _ _ _ _ H')
      as (tr & stream & Htr & Hra & Hreg & Hc & (rk & Hlk & Hbd) & popped & rest & Hq & Hin & _).
    exists stream, (rf_name f), rk.
    split; [rewrite (new_events_eq _ _ _ Htr); exact Hra|].
    split; [rewrite Hq; apply in_or_app; left; exact Hin|].
    split; [rewrite Hreg; exact Hlk|]. split; [reflexivity | exact Hbd].
  - destruct (set_inv _ _ _ _ _ _ _ H')
      as (tr & stream & Htr & Hra & Hreg & (rk & Hlk & Hbd) & Hin & _).
    exists stream, (rf_name f), rk.
    split; [rewrite (new_events_eq _ _ _ Htr); exact Hra|].
    split; [exact Hin|].
    split; [rewrite Hreg; exact Hlk|]. split; [reflexivity | exact Hbd].
  - destruct (set_mga_inv _ _ _ _ _ _ _ H')
      as (tr & stream & Htr & Hra & Hreg & (rk & Hlk & Hbd) & Hin & _).
    exists stream, (rf_name f), rk.
    split; [rewrite (new_events_eq _ _ _ Htr); exact Hra|].
    split; [exact Hin|].
    split; [rewrite Hreg; exact Hlk|]. split; [reflexivity | exact Hbd].
  - exfalso. apply (fire_inv B rq w f). rewrite H'. reflexivity.
Qed.
Print Assumptions returned_is_fresh.

(* ------------------------------------------------------------------ C04: packet_is_occurrence *)
Lemma Dec_occ_in : forall s os, Dec s os -> forall o, In o os ->
  (exists s1 s2, s = s1 ++ render o ++ s2) /\ (List.length (opl o) <= 1000)%nat.
Proof.
  induction 1 as [|s os g HD IH|s os o' HD IH Hlen]; intros o Hin.
  - destruct Hin.
  - destruct (IH o Hin) as ((s1 & s2 & Hs) & Hl). split; [|exact Hl].
    exists s1, (s2 ++ g). rewrite Hs, <- !app_assoc. reflexivity.
  - apply in_app_or in Hin. destruct Hin as [Hin|[Heq|[]]].
    + destruct (IH o Hin) as ((s1 & s2 & Hs) & Hl). split; [|exact Hl].
      exists s1, (s2 ++ render o'). rewrite Hs, <- !app_assoc. reflexivity.
    + subst o'. split; [|exact Hlen]. exists s, []. rewrite app_nil_r. reflexivity.
Qed.

Lemma valid_render o : valid_b o = true -> render o = wire (oc o) (oi o) (opl o).
Proof.
  unfold valid_b, render, wire. cbv zeta. intros H.
  apply andb_true_iff in H. destruct H as [H1 H2].
  apply N.eqb_eq in H1. apply N.eqb_eq in H2. rewrite H1, H2. reflexivity.
Qed.

Lemma in_emit f o c i p : In (Pkt c i p) (emit f o) ->
  valid_b o = true /\ in_filter f (c, i) = true /\ c = oc o /\ i = oi o /\ p = opl o.
Proof.
  unfold emit. destruct (valid_b o).
  - destruct (in_filter f (oc o, oi o)) eqn:Hf.
    + intros [H|[]]. inversion H; subst c i p. auto.
    + intros [].
  - intros [H|[]]. discriminate H.
Qed.

Theorem packet_is_occurrence : forall filt s c i p,
  Forall (fun b => b < 256) s ->
  In (Pkt c i p) (queue (process (fresh (Some filt)) s)) ->
  (exists s1 s2, s = s1 ++ wire c i p ++ s2) /\ (List.length p <= 1000)%nat /\ In (c, i) filt.
Proof.
  intros fl s c i p Hb Hin.
  destruct (ParserUbxSound.sound_all_streams (Some fl) s Hb) as (os & HD & Hq & _).
  rewrite Hq in Hin. apply in_flat_map in Hin. destruct Hin as (o & Ho & Hin).
  apply in_emit in Hin. destruct Hin as (Hv & Hf & -> & -> & ->).
  destruct (Dec_occ_in s os HD o Ho) as (Hs & Hl).
  rewrite (valid_render o Hv) in Hs.
  split; [exact Hs|]. split; [exact Hl|]. apply in_filter_spec, Hf.
Qed.
Print Assumptions packet_is_occurrence.

(* ------------------------------------------------------------------ C04: set / set_mga / fire *)
Lemma check_ack_spec req f : check_ack_nak req f = IsAck ->
  rf_cid f = CID_ACK
  /\ dec_getf (rf_dec f) "clsId" = Some (VInt (Z.of_N (fst req)))
  /\ dec_getf (rf_dec f) "msgId" = Some (VInt (Z.of_N (snd req))).
Proof.
  unfold check_ack_nak.
  destruct (cid_eqb (rf_cid f) CID_ACK) eqn:Hc.
  - apply cid_eqb_eq in Hc.
    destruct (dec_getf (rf_dec f) "clsId") as [[c|sc]|]; try discriminate.
    destruct (dec_getf (rf_dec f) "msgId") as [[i|si]|]; try discriminate.
    destruct ((c =? Z.of_N (fst req)) && (i =? Z.of_N (snd req)))%Z eqn:Hb; try discriminate.
    apply andb_true_iff in Hb. destruct Hb as [H1 H2].
    apply Z.eqb_eq in H1. apply Z.eqb_eq in H2. subst c i. auto.
  - destruct (cid_eqb (rf_cid f) CID_NAK); discriminate.
Qed.

Lemma check_nak_spec req f : check_ack_nak req f = IsNak -> rf_cid f = CID_NAK.
Proof.
  unfold check_ack_nak.
  destruct (cid_eqb (rf_cid f) CID_ACK).
  - destruct (dec_getf (rf_dec f) "clsId") as [[c|sc]|]; try discriminate.
    destruct (dec_getf (rf_dec f) "msgId") as [[i|si]|]; try discriminate.
    destruct ((c =? Z.of_N (fst req)) && (i =? Z.of_N (snd req)))%Z; discriminate.
  - destruct (cid_eqb (rf_cid f) CID_NAK) eqn:Hc; [|discriminate].
    intros _. apply cid_eqb_eq, Hc.
Qed.

Theorem set_safe : forall E (B : backend E) sk fuel rq w f,
  fst (do_request B sk fuel RSet rq w) = Return (Some f) ->
  (rf_cid f = CID_ACK /\ dec_getf (rf_dec f) "clsId" = Some (VInt (Z.of_N (fst (rq_cid rq))))
                      /\ dec_getf (rf_dec f) "msgId" = Some (VInt (Z.of_N (snd (rq_cid rq)))))
  \/ rf_cid f = CID_NAK.
Proof.
  intros E B sk fuel rq w f H. apply pair_eta in H. cbn [do_request] in H.
  destruct (set_inv _ _ _ _ _ _ _ H) as (tr & stream & _ & _ & _ & _ & _ & Hacc).
  unfold accept in Hacc.
  destruct (check_ack_nak (rq_cid rq) f) eqn:Hck.
  - left. apply check_ack_spec, Hck.
  - right. apply (check_nak_spec _ _ Hck).
  - discriminate Hacc.
Qed.
Print Assumptions set_safe.

Theorem mga_safe : forall E (B : backend E) sk fuel rq w f,
  fst (do_request B sk fuel RSetMga rq w) = Return (Some f) ->
  rf_cid f = CID_MGA_ACK /\ dec_getf (rf_dec f) "type" = Some (VInt 1).
Proof.
  intros E B sk fuel rq w f H. apply pair_eta in H. cbn [do_request] in H.
  destruct (set_mga_inv _ _ _ _ _ _ _ H) as (tr & stream & _ & _ & _ & _ & _ & Hacc).
  unfold accept, check_mga in Hacc.
  apply andb_true_iff in Hacc. destruct Hacc as [Hc Ht].
  apply cid_eqb_eq in Hc. split; [exact Hc|].
  destruct (dec_getf (rf_dec f) "type") as [[t|st]|]; try discriminate Ht.
  apply Z.eqb_eq in Ht. subst t. reflexivity.
Qed.
Print Assumptions mga_safe.

Theorem fire_none : forall E (B : backend E) sk fuel rq w f,
  fst (do_request B sk fuel RFire rq w) <> Return (Some f).
Proof. intros E B sk fuel rq w f. cbn [do_request]. apply fire_inv. Qed.
Print Assumptions fire_none.

(* ------------------------------------------------------------------ C04: poll *)
Lemma ack_kind_names sk pa d c i :
  build_with_data sk ack_kind pa = Ok d ->
  dec_getf d "clsId" = Some (VInt (Z.of_N c)) ->
  dec_getf d "msgId" = Some (VInt (Z.of_N i)) ->
  exists rest, pa = c :: i :: rest.
Proof.
  intros Hb Hc Hi.
  destruct pa as [|a [|b rest]].
  - vm_compute in Hb. discriminate Hb.
  - vm_compute in Hb. discriminate Hb.
  - exists rest. cbv - [N.add N.mul Z.of_N] in Hb.
    inversion Hb; subst d; clear Hb.
    cbv - [N.add N.mul Z.of_N] in Hc, Hi.
    inversion Hc as [Hc']. inversion Hi as [Hi'].
    assert (a = c) by lia. assert (b = i) by lia. subst a b. reflexivity.
Qed.


(* the newest registration wins: a poll decodes its answer as the class it registered *)
Lemma reg_lookup_registered r c x : reg_lookup (reg_register r c x) c = Some x.
Proof.
  unfold reg_register. cbn [reg_lookup].
  replace (cid_eqb c c) with true by (symmetry; apply cid_eqb_eq; reflexivity). reflexivity.
Qed.

Lemma reg_lookup_other r c x c' : c' <> c -> reg_lookup (reg_register r c x) c' = reg_lookup r c'.
Proof.
  intros Hne. unfold reg_register. cbn [reg_lookup].
  destruct (cid_eqb c' c) eqn:Hc; [|reflexivity].
  apply cid_eqb_eq in Hc. contradiction.
Qed.

(* The part of poll_safe that holds for every registry. *)
Theorem poll_safe_basic : forall E (B : backend E) sk fuel rq w f,
  fst (do_request B sk fuel RPoll rq w) = Return (Some f) ->
  rf_cid f = rq_cid rq /\ rf_name f = fst (rq_resp rq)
  /\ build_with_data sk (snd (rq_resp rq)) (rf_payload f) = Ok (rf_dec f).
Proof.
  intros E B sk fuel rq w f H. apply pair_eta in H. cbn [do_request] in H.
  destruct (poll_inv _ _ _ _ _ _ _ H)
    as (tr & stream & _ & _ & _ & Hc & (rk & Hlk & Hbd) & _).
  rewrite Hc, reg_lookup_registered in Hlk.
  inversion Hlk as [Hr]. rewrite Hr. cbn [fst snd].
  split; [exact Hc|]. split; [reflexivity | exact Hbd].
Qed.
Print Assumptions poll_safe_basic.

(* poll_safe with the hypothesis that the server's registry decodes ACK-ACK as the library's
   own UbxAckAck class (true for new_srv and kept by every request that does not re-register
   (5,1)).  Without it the last conjunct is false: see poll_safe_counterexample below. *)
Theorem poll_safe_partial : forall E (B : backend E) sk fuel rq w f nm,
  reg_lookup (sreg (wsrv w)) CID_ACK = Some (nm, ack_kind) ->
  fst (do_request B sk fuel RPoll rq w) = Return (Some f) ->
  let w' := snd (do_request B sk fuel RPoll rq w) in
  rf_cid f = rq_cid rq /\ rf_name f = fst (rq_resp rq)
  /\ build_with_data sk (snd (rq_resp rq)) (rf_payload f) = Ok (rf_dec f)
  /\ (is_cfg (rq_cid rq) = true ->
      exists stream q1 q2 q3 pa,
        rx_after_last_tx (new_events w w') = Some stream
        /\ queue (process (fresh (Some (poll_filter (rq_cid rq)))) stream)
           = q1 ++ [Pkt (fst (rq_cid rq)) (snd (rq_cid rq)) (rf_payload f)] ++ q2 ++ [Pkt 5 1 pa] ++ q3
        /\ ack_names pa (rq_cid rq)).
Proof.
  intros E B sk fuel rq w f nm Hack H w'.
  destruct (poll_safe_basic E B sk fuel rq w f H) as (Hc & Hn & Hb).
  split; [exact Hc|]. split; [exact Hn|]. split; [exact Hb|].
  intros Hcfg.
  assert (H' : do_request B sk fuel RPoll rq w = (Return (Some f), w')) by (apply pair_eta, H).
  clearbody w'. clear H. cbn [do_request] in H'.
  destruct (poll_inv _ _ _ _ _ _ _ H')
    as (tr & stream & Htr & Hra & _ & _ & _ & popped & rest & Hq & _ & Hacked).
  destruct (Hacked Hcfg) as (q1 & q2 & fa & Hpop & Hck & (rk & Hlk & Hbd)).
  apply check_ack_spec in Hck. destruct Hck as (Hca & Hcls & Hmsg).
  assert (Hne : CID_ACK <> rq_cid rq).
  { intros Heq. unfold is_cfg in Hcfg. rewrite <- Heq in Hcfg. discriminate Hcfg. }
  rewrite Hca, (reg_lookup_other _ _ _ _ Hne), Hack in Hlk.
  inversion Hlk; subst rk; clear Hlk.
  exists stream, q1, q2, rest, (rf_payload fa).
  split; [rewrite (new_events_eq _ _ _ Htr); exact Hra|].
  split.
  - rewrite Hq, Hpop. unfold pkt_of. rewrite Hc, Hca. cbn [CID_ACK fst snd].
    rewrite <- !app_assoc. reflexivity.
  - apply (ack_kind_names sk _ _ _ _ Hbd Hcls Hmsg).
Qed.
Print Assumptions poll_safe_partial.

(* ------------------------------------------------------------------ poll_safe as stated is false *)
(* The statement of C04_poll_safe has no hypothesis on the registry.  A server whose registry
   decodes (5,1) with another class (here: one leading byte before clsId/msgId) accepts the
   payload [9; 6; 1] as the ACK-ACK of a (6,1) poll, and that payload does not start with 6, 1. *)
Module Counterexample.
Import ScriptBackend.

Definition odd_ack : rkind :=
  RK (KFixed [("reserved"%string, TU 1); ("clsId"%string, TU 1); ("msgId"%string, TU 1)]).
Definition rq0 : request := mkRequest (6, 1) (BFields []) ("Resp"%string, RK (KFixed [])).
Definition stream0 : bytes := wire 6 1 [] ++ wire 5 1 [9; 6; 1].
Definition env0 : script := mkScript [] [(true, [(Some stream0, 1)])] 1.
Definition w0 : world script :=
  mkWorld (mkSrv (fresh None) [(CID_ACK, ("OddAck"%string, odd_ack))] 0 10) env0 0 [] false.
Definition f0 : rframe := mkRFrame "Resp" (6, 1) [] (DFields []).

Theorem poll_safe_counterexample :
  ~ (forall E (B : backend E) sk fuel rq w f,
      fst (do_request B sk fuel RPoll rq w) = Return (Some f) ->
      let w' := snd (do_request B sk fuel RPoll rq w) in
      rf_cid f = rq_cid rq /\ rf_name f = fst (rq_resp rq)
      /\ build_with_data sk (snd (rq_resp rq)) (rf_payload f) = Ok (rf_dec f)
      /\ (is_cfg (rq_cid rq) = true ->
          exists stream q1 q2 q3 pa,
            rx_after_last_tx (new_events w w') = Some stream
            /\ queue (process (fresh (Some (poll_filter (rq_cid rq)))) stream)
               = q1 ++ [Pkt (fst (rq_cid rq)) (snd (rq_cid rq)) (rf_payload f)] ++ q2 ++ [Pkt 5 1 pa] ++ q3
            /\ ack_names pa (rq_cid rq))).
Proof.
  intros H.
  assert (Hret : fst (do_request script_backend [] 10 RPoll rq0 w0) = Return (Some f0))
    by (vm_compute; reflexivity).
  destruct (H script script_backend [] 10%nat rq0 w0 f0 Hret) as (_ & _ & _ & Hcfg).
  destruct (Hcfg eq_refl) as (stream & q1 & q2 & q3 & pa & Hra & Hq & (rest & Hpa)).
  assert (Hs : rx_after_last_tx (new_events w0 (snd (do_request script_backend [] 10 RPoll rq0 w0)))
               = Some stream0) by (vm_compute; reflexivity).
  rewrite Hs in Hra. inversion Hra; subst stream; clear Hra Hs.
  assert (Hqv : queue (process (fresh (Some (poll_filter (rq_cid rq0)))) stream0)
                = [Pkt 6 1 []; Pkt 5 1 [9; 6; 1]]) by (vm_compute; reflexivity).
  rewrite Hqv in Hq.
  assert (Hin : In (Pkt 5 1 pa) [Pkt 6 1 []; Pkt 5 1 [9; 6; 1]]).
  { rewrite Hq. apply in_or_app. right. apply in_or_app. right.
    apply in_or_app. right. left. reflexivity. }
  subst pa. cbn [rq_cid rq0 fst snd] in Hin.
  destruct Hin as [Hin|[Hin|[]]]; discriminate Hin.
Qed.
Print Assumptions poll_safe_counterexample.
End Counterexample.
