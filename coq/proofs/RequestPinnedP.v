(* Refutation of C05 for the PINNED inner loop of poll() (F3): _wait() armed a fresh deadline on
   every call, so a receiver that keeps sending complete ACK-ACK frames naming another request
   keeps the loop alive for ever.  The model runs out of fuel for EVERY fuel and virtual time
   grows by 1 ms per iteration. *)
From Coq Require Import Lia ZifyBool ZifyN ZifyNat.
From Ubx Require Import Fields Base Checksum Frame ParserUbx CfgKeys Request RequestPinned.
From Ubx Require Import RequestGood.
Open Scope N_scope.

Definition poll_filt : list cid := [(6, 1); CID_ACK; CID_NAK].

(* what every iteration of the pinned loop finds and leaves behind *)
Definition Inv (delay : N) (w : world unit) : Prop :=
  st (sparser (wsrv w)) = INIT /\ queue (sparser (wsrv w)) = [] /\
  filt (sparser (wsrv w)) = Some poll_filt /\ sreg (wsrv w) = base_registry /\
  sdelay (wsrv w) = delay /\ wenv w = tt.

(* the frame object _wait() builds from the foreign ACK-ACK *)
Definition foreign_frame : rframe :=
  mkRFrame "UbxAckAck" (5, 1) [6; 0]
           (DFields [("clsId"%string, TU 1, VInt 6); ("msgId"%string, TU 1, VInt 0)]).

(* ------------------------------------------------------------------ parser: one foreign ACK *)
(* From INIT the two sync bytes reset the registers, so their old contents do not matter. *)
Lemma process_foreign_st r n :
  st (process (mkParser INIT r [] n (Some poll_filt)) foreign_ack) = INIT.
Proof. vm_compute. reflexivity. Qed.

Lemma process_foreign_queue r n :
  queue (process (mkParser INIT r [] n (Some poll_filt)) foreign_ack) = [Pkt 5 1 [6; 0]].
Proof. vm_compute. reflexivity. Qed.

Lemma process_foreign_filt r n :
  filt (process (mkParser INIT r [] n (Some poll_filt)) foreign_ack) = Some poll_filt.
Proof. vm_compute. reflexivity. Qed.

(* ------------------------------------------------------------------ _wait(): one call *)
Lemma wait_nagger k delay (w : world unit) :
  2 <= delay -> Inv delay w ->
  exists w', wait nagger [] (S k) (wnow w + sdelay (wsrv w)) w = (Some (Some foreign_frame), w')
             /\ Inv delay w' /\ wnow w' = wnow w + 1.
Proof.
  intros Hd (Hst & Hq & Hf & Hreg & Hdel & Henv).
  destruct w as [[[s r q n f] reg ret dl] e now tr tie].
  cbn [wsrv sparser st queue filt sreg sdelay wenv wnow] in *.
  subst s q f reg dl e.
  eexists. split; [|split].
  - apply (wait_iter_some nagger [] k _ _ (Some foreign_ack) 1 tt 5 1 [6; 0]
             "UbxAckAck"%string ack_kind
             (DFields [("clsId"%string, TU 1, VInt 6); ("msgId"%string, TU 1, VInt 0)])).
    + cbn [wnow]. lia.
    + reflexivity.
    + cbn [wsrv sparser chunk]. apply process_foreign_queue.
    + discriminate.
    + reflexivity.
    + reflexivity.
  - unfold Inv, with_parser, iter_world.
    cbn [wsrv sparser st queue filt sreg sdelay wenv wnow chunk].
    rewrite process_foreign_st, process_foreign_filt.
    repeat split; reflexivity.
  - reflexivity.
Qed.

(* ------------------------------------------------------------------ the pinned loop *)
Lemma pinned_loop delay : 2 <= delay -> forall fuel (w : world unit), Inv delay w ->
  fst (poll_phase_pinned nagger [] fuel (6, 1) false None w) = AFuel
  /\ wnow (snd (poll_phase_pinned nagger [] fuel (6, 1) false None w)) = wnow w + N.of_nat fuel.
Proof.
  intros Hd. induction fuel as [|k IH]; intros w Hinv.
  - cbn [poll_phase_pinned fst snd]. split; [reflexivity|lia].
  - destruct (wait_nagger k delay w Hd Hinv) as (w' & Hw & Hinv' & Hnow).
    cbn [poll_phase_pinned]. rewrite Hw.
    change (negb false) with true. cbv iota.
    change (cid_eqb (rf_cid foreign_frame) (6, 1)) with false. cbv iota.
    destruct (IH w' Hinv') as [H1 H2].
    split; [exact H1|]. rewrite H2, Hnow. lia.
Qed.

Lemma pinned_start_inv delay : Inv delay (pinned_start delay).
Proof. unfold Inv. repeat split; reflexivity. Qed.

Theorem cfg_poll_rearm_refuted : forall delay fuel, 2 <= delay ->
  fst (poll_phase_pinned nagger [] fuel (6, 1) false None (pinned_start delay)) = AFuel
  /\ N.of_nat fuel <= wnow (snd (poll_phase_pinned nagger [] fuel (6, 1) false None (pinned_start delay))).
Proof.
  intros delay fuel Hd.
  destruct (pinned_loop delay Hd fuel (pinned_start delay) (pinned_start_inv delay)) as [H1 H2].
  split; [exact H1|]. rewrite H2. cbn [pinned_start wnow]. lia.
Qed.

Print Assumptions cfg_poll_rearm_refuted.
